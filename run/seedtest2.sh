#!/bin/bash
# usage: seedtest2.sh <worktree> <id> "<checks to run>" [demo dir in the repo, default .] [go test tags] [copy of /verif to run in]
# Like seedtest.sh, but never touches /repo: the checks run from a private copy of /verif against the
# scratch worktree (VERIF_REPO), so several seeded mutations can be tested at the same time.
WT=$1; ID=$2; CHECKS=$3; DD=${4:-.}; TAGS=${5:-}; VC=${6:-/tmp/vseed-$(basename $WT)}
export GOPROXY=off GOFLAGS=-mod=mod
if [ ! -d $VC ]; then rsync -a --exclude work --exclude replays /verif/ $VC/; else rsync -a --exclude work --exclude replays --exclude lean/.lake --exclude harness/bin --exclude extract/bin /verif/ $VC/; fi
cd $WT && git checkout -q -- . && git clean -fdq -e out
for d in internal/tests/pkg1 internal/tests/pkg2 internal/tests/pkg3/pkg3a internal/tests/pkg4; do cp -n /repo/$d/*_generated.go $WT/$d/ 2>/dev/null; done
cp out/demo${ID}_test.go $DD/demo_seed_test.go
PASS_CLEAN=$(go test -vet=off -count=1 -tags "$TAGS" -run . -timeout 300s ./$DD 2>&1 | tail -1 | cut -c1-60)
git apply out/mut${ID}.diff || { echo "seed $ID: diff does not apply"; exit 1; }
FAIL_MUT=$(go test -vet=off -count=1 -tags "$TAGS" -run . -timeout 300s ./$DD 2>&1 | tail -1 | cut -c1-60)
rm -f $DD/demo_seed_test.go
SUITE=$(go test -vet=off -count=1 $(go list -e ./... 2>/dev/null | grep -v /out$) 2>&1 | grep -c "^FAIL")
echo "seed $ID: clean=[$PASS_CLEAN] mutated=[$FAIL_MUT] suite_failures=$SUITE"
for c in $CHECKS; do
  R=$(cd $VC && VERIF_REPO=$WT timeout 1800 python3 run/check.py $c --tier quick 2>&1 | grep -E "^(VIOLATION|OK|KNOWN)" | head -2 | cut -c1-200 | tr '\n' ' ')
  echo "   $c -> $R"
  RP=$(echo "$R" | grep -o 'replay=[^ ]*' | head -1 | cut -d= -f2)
  if [ -n "$RP" ]; then python3 - "$RP" <<'PY'
import json,sys
d=json.load(open(sys.argv[1]))
print("      ", (d.get("kind") or ""), str(d.get("op",""))[:120], "=>", str(d.get("observed", d.get("broken","")))[:260])
PY
  fi
done
cd $WT && git checkout -q -- . && git clean -fdq -e out
