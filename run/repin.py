#!/usr/bin/env python3
"""Maintenance tool (never run by a check): copy the regenerated ev_* event sequences into
PinnedMpx.lean and rewrite TiesMpx.lean. Run by hand after reviewing a /repo change and updating the
models that mirror the changed functions."""
import os, re, sys
sys.path.insert(0, os.path.dirname(os.path.abspath(__file__)))
import lib
g = open(os.path.join(lib.LEAN, "SpecVerif/Generated/Facts.lean")).read()
defs = re.findall(r"def (ev_\w+) : List String :=\n  (\[.*?\])\n", g, flags=re.S)
head = '''/-
Pinned event sequences of the mpx functions the models mirror (atomic operations, conditions,
select cases, returns), frozen when the models were written against the repaired tree.
`TiesMpx.lean` proves that the sequences regenerated from /repo on every run are equal to these.
-/
namespace SpecVerif.PinnedMpx

'''
with open(os.path.join(lib.LEAN, "SpecVerif/PinnedMpx.lean"), "w") as f:
    f.write(head)
    for n, v in defs:
        f.write("def %s : List String :=\n  %s\n" % (n, v))
    f.write("\nend SpecVerif.PinnedMpx\n")
with open(os.path.join(lib.LEAN, "SpecVerif/TiesMpx.lean"), "w") as f:
    f.write("/-\nTies for the mpx event sequences (see PinnedMpx.lean).\n-/\nimport SpecVerif.PinnedMpx\nimport SpecVerif.Generated.Facts\nnamespace SpecVerif.TiesMpx\nset_option maxRecDepth 100000\n\n")
    for n, _ in defs:
        f.write("theorem %s_tie : Generated.%s = PinnedMpx.%s := by decide\n" % (n, n, n))
    f.write("\nend SpecVerif.TiesMpx\n")
print(len(defs), "sequences pinned")
