#!/usr/bin/env python3
"""Maintenance tool (never run by a check): copy the regenerated ev_* event sequences into
PinnedMpx.lean and rewrite TiesMpx.lean. Run by hand after reviewing a /repo change and updating the
models that mirror the changed functions."""
import os, re, sys
sys.path.insert(0, os.path.dirname(os.path.abspath(__file__)))
import lib
g = open(os.path.join(lib.LEAN, "SpecVerif/Generated/Facts.lean")).read()
defs = re.findall(r"def (ev_\w+) : List String :=\n  (\[.*?\])\n", g, flags=re.S)
head = '''/-
Pinned event sequences of the mpx functions the models mirror (atomic operations, conditions,
select cases, returns), frozen when the models were written against the repaired tree.
`TiesMpx.lean` proves that the sequences regenerated from /repo on every run are equal to these.
-/
namespace SpecVerif.PinnedMpx

'''
with open(os.path.join(lib.LEAN, "SpecVerif/PinnedMpx.lean"), "w") as f:
    f.write(head)
    for n, v in defs:
        f.write("def %s : List String :=\n  %s\n" % (n, v))
    f.write("\nend SpecVerif.PinnedMpx\n")
with open(os.path.join(lib.LEAN, "SpecVerif/TiesMpx.lean"), "w") as f:
    f.write("/-\nTies for the mpx event sequences (see PinnedMpx.lean).\n-/\nimport SpecVerif.PinnedMpx\nimport SpecVerif.Generated.Facts\nnamespace SpecVerif.TiesMpx\nset_option maxRecDepth 100000\n\n")
    for n, _ in defs:
        f.write("theorem %s_tie : Generated.%s = PinnedMpx.%s := by decide\n" % (n, n, n))
    f.write("\nend SpecVerif.TiesMpx\n")
# lang facts
lang = {}
for name in ["grammarRules", "lexKeywords"]:
    m = re.search(r"def %s : List String :=\n  (\[.*?\])\n" % name, g, flags=re.S)
    lang[name] = ("List String", m.group(1))
for name in ["grammarRegenerated", "grammarConflicts"]:
    m = re.search(r"def %s : String := (\".*?\")\n" % name, g)
    lang[name] = ("String", m.group(1))
with open(os.path.join(lib.LEAN, "SpecVerif/PinnedLang.lean"), "w") as f:
    f.write("/-\nPinned facts of the schema parser: the productions of grammar.y (actions removed, `!error` marks\nproductions whose action rejects the input), the keyword table, and the result of regenerating\ngrammar.go with goyacc. `TiesLang.lean` proves the facts regenerated from /repo on every run equal these.\n-/\nnamespace SpecVerif.PinnedLang\n\n")
    for n, (t, v) in lang.items():
        f.write("def %s : %s :=\n  %s\n" % (n, t, v))
    f.write("\nend SpecVerif.PinnedLang\n")
with open(os.path.join(lib.LEAN, "SpecVerif/TiesLang.lean"), "w") as f:
    f.write("/-\nTies for the schema parser facts (see PinnedLang.lean), and their links to the Lean model.\n-/\nimport SpecVerif.PinnedLang\nimport SpecVerif.Generated.Facts\nimport SpecVerif.Lang.Syntax\nnamespace SpecVerif.TiesLang\nset_option maxRecDepth 100000\n\n")
    for n in lang:
        f.write("theorem %s_tie : Generated.%s = PinnedLang.%s := by decide\n" % (n, n, n))
    f.write("""
/-- grammar.go in the repository is what goyacc generates from grammar.y, without conflicts: the
generated parser accepts exactly the language of the pinned productions -/
theorem parser_tables_current : PinnedLang.grammarRegenerated = "yes" ∧
    PinnedLang.grammarConflicts = "0 shift/reduce, 0 reduce/reduce conflicts reported" := by decide

open SpecVerif.Lang in
/-- the model's keyword table is keywords.go -/
theorem keywords_model : (∀ s ∈ PinnedLang.lexKeywords, s ∈ Kw.all.map Kw.entry) ∧
    PinnedLang.lexKeywords.length = Kw.all.length := by decide

open SpecVerif.Lang in
/-- the model's contextual keywords (`Kw.isName`) are the alternatives of the `keyword` nonterminal -/
theorem name_keywords_model : ∀ k ∈ Kw.all,
    k.isName = decide (k.nameRule ∈ PinnedLang.grammarRules) := by decide
""")
    f.write("\nend SpecVerif.TiesLang\n")
print(len(defs), "sequences pinned; lang facts pinned")
