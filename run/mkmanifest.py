#!/usr/bin/env python3
"""Regenerates MANIFEST.json from the registry (run/props.py) and the texts below."""
import json, os, sys
sys.path.insert(0, os.path.dirname(os.path.abspath(__file__)))
from props import PROPS

VERIF = os.path.dirname(os.path.dirname(os.path.abspath(__file__)))
ALL = ["C%02d" % i for i in range(1, 21)]

TEXT = {
 "C10": dict(
   text="Lean 4 theorems (SpecVerif/Props/C10.lean) over the whole domain of every scalar type and behind every prefix: all 9 signed and all 9 unsigned (stored width, read width) pairs return the value when representable and the overflow error otherwise; bool/byte/bin/bytes/string/float64 round trips are exact with reported size = appended size; float32 via IEEE parameters. The model is tied to the code by regenerated constants (Ties.lean) and by a differential run of every Encode*/Decode* pair against the compiled model (exhaustive for bool/byte/int16/uint16).",
   note="trusted: Lean kernel (+3 standard axioms), the hand-written decode/encode model (validated differentially, ~1M lines per quick run), IEEE conversion laws as explicit hypotheses (FloatLaws), extractor/harness/runner",
   technique="Lean 4 proof (induction-free case analysis + omega over unbounded Int/Nat) + regenerated facts + differential correspondence",
   design="§4/C10"),
}

def main():
    man = json.load(open(os.path.join(VERIF, "MANIFEST.json")))
    checks = []
    for pid in ALL:
        if pid not in PROPS or pid not in TEXT:
            continue
        t = TEXT[pid]
        checks.append({
            "property_id": pid,
            "quick_cmd": "python3 run/check.py %s --tier quick" % pid,
            "thorough_cmd": "python3 run/check.py %s --tier thorough" % pid,
            "evidence_file": "evidence/%s.json" % pid,
            "replay_cmd_template": "python3 run/check.py %s --replay {path}" % pid,
            "engine": "lean-proof+differential",
            "level_claimed": {"category": PROPS[pid]["level"], "text": t["text"], "design_ref": t["design"]},
            "level_note": t["note"],
            "technique": t["technique"],
        })
    man["checks"] = checks
    claimed = {c["property_id"] for c in checks}
    na = json.load(open(os.path.join(VERIF, "run", "not_applicable.json")))
    man["not_applicable"] = [{"property_id": p, "reason": na.get(p, "check not built yet (planned: DESIGN.md §9); no verdict is claimed for this property")} for p in ALL if p not in claimed]
    for e in man.get("engines", []):
        e["serves_properties"] = sorted(claimed)
    json.dump(man, open(os.path.join(VERIF, "MANIFEST.json"), "w"), indent=1)
    print("claimed:", sorted(claimed))

if __name__ == "__main__":
    main()
