#!/usr/bin/env python3
"""Regenerates MANIFEST.json from the registry (run/props.py) and the texts below."""
import json, os, sys
sys.path.insert(0, os.path.dirname(os.path.abspath(__file__)))
from props import PROPS

VERIF = os.path.dirname(os.path.dirname(os.path.abspath(__file__)))
ALL = ["C%02d" % i for i in range(1, 21)]

TEXT = {
 "C10": dict(
   text="Lean 4 theorems (SpecVerif/Props/C10.lean) over the whole domain of every scalar type and behind every prefix: all 9 signed and all 9 unsigned (stored width, read width) pairs return the value when representable and the overflow error otherwise; bool/byte/bin/bytes/string/float64 round trips are exact with reported size = appended size; float32 via IEEE parameters. The model is tied to the code by regenerated constants (Ties.lean) and by a differential run of every Encode*/Decode* pair against the compiled model (exhaustive for bool/byte/int16/uint16).",
   note="trusted: Lean kernel (+3 standard axioms), the hand-written decode/encode model (validated differentially, ~1M lines per quick run), IEEE conversion laws as explicit hypotheses (FloatLaws), extractor/harness/runner",
   technique="Lean 4 proof (induction-free case analysis + omega over unbounded Int/Nat) + regenerated facts + differential correspondence",
   design="§4/C10"),
 "C02": dict(
   text="Lean 4 theorems for EVERY byte string (no hypothesis on the input): each typed decoder, the table decoders, the type/size probe, OpenValue, the recursive ParseValue/ParseList/ParseMessage (by strong induction on fuel; termination included), the list accessors, the message accessors including the unsafe binary search (loop invariant 0<=left, right<n, fuel), and the generated struct-decoder pattern never panic and report 0<=n<=len also next to an error. Tie: exact differential of outcome class, size, value and views between every Go entry point (run under recover, input placed against guard pages on both sides) and the compiled model; exhaustive for inputs of <=2 bytes (quick) / <=3 bytes ending in a type code (thorough), structure-aware mutants.",
   note="trusted: Lean kernel, the hand-written decode/types model (validated on ~1.9M lines per quick run), mmap guard pages + SetPanicOnFault for out-of-slice reads, extractor/harness/runner; views are sub-lists by construction in the model, pointer containment is checked on the implementation",
   technique="Lean 4 proof (case analysis + omega, strong induction on fuel, loop invariant for the binary search) + differential correspondence with guard pages",
   design="§4/C02"),
 "C13": dict(
   text="Lean 4 theorems: every typed decoder and both table decoders are local (accepting q++s with size |s| implies accepting p++s with the same value and size for every p); the recursive parser is local at the drivers' fuel for every input and nesting; re-parsing the returned value gives the same size; the parser's answer is independent of fuel. The agreement clause parser=>probe/open is PARTIAL: checked by the differential stream and the Go-side composite oracle (c13 lines), not by a theorem. Tie: composite c13 op evaluated natively in Go and on the model (all inputs <=2 bytes, truncations and mutants of valid encodings, alphabet strings), each under 6 adversarial prefixes.",
   note="trusted: as C02; partial: probe/open agreement not yet a theorem",
   technique="Lean 4 proof (prefix-replacement lemmas per decoder, fuel monotonicity by induction) + differential correspondence + Go-only oracle",
   design="§4/C13"),
 "C01": dict(
   text="Lean 4 theorems for every value tree over the pinned layout (inductive predicate Valid: 15 scalar kinds, lists and messages of any count, size and nesting), behind every prefix: the recursive parser accepts with exactly the produced size (induction over Valid with fuel), probe and OpenValue delimit the value exactly, every list element is found at its index, every message field is found under its tag with exactly the written bytes for every write order (sorted-insert permutation lemma + proved-correct binary search), unwritten tags are absent and read as zero, the table enumerates exactly the written pairs; small and big table forms are case splits of the proofs (255/256, 65535/65536). PARTIAL: the writer state machine refining encList/encMsg is checked on every generated program, not proved. Tie: writer programs (bounded-exhaustive trees of <=3 nodes over a boundary alphabet, random trees, all permutations, count/offset/depth boundaries, Any/Copy/Merge) run on the real writer+reader and on the writer model + reference layout; Go-only oracle compares the read-back with the generated tree.",
   note="trusted: Lean kernel, hand-written wire and writer models (validated differentially), MsgWF side conditions (distinct tags < 2^16, sizes < 2^32), FloatLaws, extractor/harness/runner",
   technique="Lean 4 proof (induction over valid encodings, permutation + binary-search correctness) + reference-layout cross-check + differential correspondence + Go round-trip oracle",
   design="§4/C01"),
 "C08": dict(
   text="Lean 4 theorems pinning the layout the property names (type code of every encoder, big-endian fixed widths, NUL-terminated string layout, varint widths, big list form iff >255 elements or last offset >65535, big message form iff a tag >255 or an offset >65535, table strictly sorted by tag and a permutation of the written pairs, library reads every such encoding back) with the type codes and entry sizes tied to the source by regenerated facts (Ties.lean). Determinism/pool/buffer independence is decided by running every program five ways (fresh, reused after a failed program + Reset, stale buffer memory, pooled writer, non-empty buffer prefix) against the model: bytes must be identical to the reference layout. PARTIAL: prefix/pool independence is not a theorem.",
   note="trusted: as C01; the Lean layout functions are the independent reference implementation; found and repaired: EncodeString left the terminator uninitialised on reused buffers",
   technique="Lean 4 proof of layout facts + regenerated constants + five-way differential correspondence",
   design="§4/C08"),
 "C12": dict(
   text="Lean 4 theorems on the writer state machine for every state: every write/end on a failed writer returns the stored (first) error unchanged, fail keeps the first error, Free is safe in every state incl. after an error and twice, Reset yields the clean state, ended message handles report closed, End twice reports closed. PARTIAL: no-panic for all call sequences and 'successful root Build parses completely' are decided by the differential stream (all handle-consistent programs of length <=4 over a 29-call alphabet, <=5 on a reduced one in the thorough tier, random programs with 25% illegal calls) plus the Go-side oracle (panic / GARBAGE / STICKY).",
   note="trusted: Lean kernel, hand-written writer model validated per call token; repaired: Free after failure/twice, MessageWriter use after End, ListWriter.Len on nested lists",
   technique="Lean 4 proof (state-machine lemmas) + bounded-exhaustive and random differential correspondence + Go-only oracle",
   design="§4/C12"),
 "C16": dict(
   text="Lean 4 corollaries of C01's field theorems, which hold for arbitrary surrounding fields: a field common to two schema versions reads back as exactly the written value in both, whatever other fields were added, removed, renamed (same tag) or reordered; a field absent from the data reads as absent/zero. PARTIAL: Copy/Merge preserving unknown fields is checked by the differential stream (writer that overrides a random subset of tags, then merges) with the Go round-trip oracle; the generated-code leg is part of C05.",
   note="trusted: as C01",
   technique="Lean 4 proof (corollaries of the by-tag lookup theorems) + differential correspondence + Go round-trip oracle",
   design="§4/C16"),
}

def main():
    man = json.load(open(os.path.join(VERIF, "MANIFEST.json")))
    checks = []
    for pid in ALL:
        if pid not in PROPS or pid not in TEXT:
            continue
        t = TEXT[pid]
        checks.append({
            "property_id": pid,
            "quick_cmd": "python3 run/check.py %s --tier quick" % pid,
            "thorough_cmd": "python3 run/check.py %s --tier thorough" % pid,
            "evidence_file": "evidence/%s.json" % pid,
            "replay_cmd_template": "python3 run/check.py %s --replay {path}" % pid,
            "engine": "lean-proof+differential",
            "level_claimed": {"category": PROPS[pid]["level"], "text": t["text"], "design_ref": t["design"]},
            "level_note": t["note"],
            "technique": t["technique"],
        })
    man["checks"] = checks
    claimed = {c["property_id"] for c in checks}
    na = json.load(open(os.path.join(VERIF, "run", "not_applicable.json")))
    man["not_applicable"] = [{"property_id": p, "reason": na.get(p, "check not built yet (planned: DESIGN.md §9); no verdict is claimed for this property")} for p in ALL if p not in claimed]
    for e in man.get("engines", []):
        e["serves_properties"] = sorted(claimed)
    json.dump(man, open(os.path.join(VERIF, "MANIFEST.json"), "w"), indent=1)
    print("claimed:", sorted(claimed))

if __name__ == "__main__":
    main()
