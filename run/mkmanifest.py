#!/usr/bin/env python3
"""Regenerates MANIFEST.json from the registry (run/props.py) and the texts below."""
import json, os, sys
sys.path.insert(0, os.path.dirname(os.path.abspath(__file__)))
from props import PROPS

VERIF = os.path.dirname(os.path.dirname(os.path.abspath(__file__)))
ALL = ["C%02d" % i for i in range(1, 21)]

TEXT = {
 "C10": dict(
   text="Lean 4 theorems (SpecVerif/Props/C10.lean) over the whole domain of every scalar type and behind every prefix: all 9 signed and all 9 unsigned (stored width, read width) pairs return the value when representable and the overflow error otherwise; bool/byte/bin/bytes/string/float64 round trips are exact with reported size = appended size; float32 via IEEE parameters. The model is tied to the code by regenerated constants (Ties.lean) and by a differential run of every Encode*/Decode* pair against the compiled model (exhaustive for bool/byte/int16/uint16).",
   note="trusted: Lean kernel (+3 standard axioms), the hand-written decode/encode model (validated differentially, ~1M lines per quick run), IEEE conversion laws as explicit hypotheses (FloatLaws), extractor/harness/runner",
   technique="Lean 4 proof (induction-free case analysis + omega over unbounded Int/Nat) + regenerated facts + differential correspondence",
   design="§4/C10"),
 "C02": dict(
   text="Lean 4 theorems for EVERY byte string (no hypothesis on the input): each typed decoder, the table decoders, the type/size probe, OpenValue, the recursive ParseValue/ParseList/ParseMessage (by strong induction on fuel; termination included), the list accessors, the message accessors including the unsafe binary search (loop invariant 0<=left, right<n, fuel), and the generated struct-decoder pattern never panic and report 0<=n<=len also next to an error. Tie: exact differential of outcome class, size, value and views between every Go entry point (run under recover, input placed against guard pages on both sides) and the compiled model; exhaustive for inputs of <=2 bytes (quick) / <=3 bytes ending in a type code (thorough), structure-aware mutants.",
   note="trusted: Lean kernel, the hand-written decode/types model (validated on ~1.9M lines per quick run), mmap guard pages + SetPanicOnFault for out-of-slice reads, extractor/harness/runner; views are sub-lists by construction in the model, pointer containment is checked on the implementation",
   technique="Lean 4 proof (case analysis + omega, strong induction on fuel, loop invariant for the binary search) + differential correspondence with guard pages",
   design="§4/C02"),
 "C13": dict(
   text="Lean 4 theorems: every typed decoder and both table decoders are local (accepting q++s with size |s| implies accepting p++s with the same value and size for every p); the recursive parser is local at the drivers' fuel for every input and nesting; re-parsing the returned value gives the same size; the parser's answer is independent of fuel. The agreement clause parser=>probe/open is PARTIAL: checked by the differential stream and the Go-side composite oracle (c13 lines), not by a theorem. Tie: composite c13 op evaluated natively in Go and on the model (all inputs <=2 bytes, truncations and mutants of valid encodings, alphabet strings), each under 6 adversarial prefixes.",
   note="trusted: as C02; partial: probe/open agreement not yet a theorem",
   technique="Lean 4 proof (prefix-replacement lemmas per decoder, fuel monotonicity by induction) + differential correspondence + Go-only oracle",
   design="§4/C13"),
 "C01": dict(
   text="Lean 4 theorems for every value tree over the pinned layout (inductive predicate Valid: 15 scalar kinds, lists and messages of any count, size and nesting), behind every prefix: the recursive parser accepts with exactly the produced size (induction over Valid with fuel), probe and OpenValue delimit the value exactly, every list element is found at its index, every message field is found under its tag with exactly the written bytes for every write order (sorted-insert permutation lemma + proved-correct binary search), unwritten tags are absent and read as zero, the table enumerates exactly the written pairs; small and big table forms are case splits of the proofs (255/256, 65535/65536). PARTIAL: the writer state machine refining encList/encMsg is checked on every generated program, not proved. Tie: writer programs (bounded-exhaustive trees of <=3 nodes over a boundary alphabet, random trees, all permutations, count/offset/depth boundaries, Any/Copy/Merge) run on the real writer+reader and on the writer model + reference layout; Go-only oracle compares the read-back with the generated tree.",
   note="trusted: Lean kernel, hand-written wire and writer models (validated differentially), MsgWF side conditions (distinct tags < 2^16, sizes < 2^32), FloatLaws, extractor/harness/runner",
   technique="Lean 4 proof (induction over valid encodings, permutation + binary-search correctness) + reference-layout cross-check + differential correspondence + Go round-trip oracle",
   design="§4/C01"),
 "C08": dict(
   text="Lean 4 theorems pinning the layout the property names (type code of every encoder, big-endian fixed widths, NUL-terminated string layout, varint widths, big list form iff >255 elements or last offset >65535, big message form iff a tag >255 or an offset >65535, table strictly sorted by tag and a permutation of the written pairs, library reads every such encoding back) with the type codes and entry sizes tied to the source by regenerated facts (Ties.lean). Determinism/pool/buffer independence is decided by running every program five ways (fresh, reused after a failed program + Reset, stale buffer memory, pooled writer, non-empty buffer prefix) against the model: bytes must be identical to the reference layout. PARTIAL: prefix/pool independence is not a theorem.",
   note="trusted: as C01; the Lean layout functions are the independent reference implementation; found and repaired: EncodeString left the terminator uninitialised on reused buffers",
   technique="Lean 4 proof of layout facts + regenerated constants + five-way differential correspondence",
   design="§4/C08"),
 "C12": dict(
   text="Lean 4 theorems on the writer state machine for every state: every write/end on a failed writer returns the stored (first) error unchanged, fail keeps the first error, Free is safe in every state incl. after an error and twice, Reset yields the clean state, ended message handles report closed, End twice reports closed. PARTIAL: no-panic for all call sequences and 'successful root Build parses completely' are decided by the differential stream (all handle-consistent programs of length <=4 over a 29-call alphabet, <=5 on a reduced one in the thorough tier, random programs with 25% illegal calls) plus the Go-side oracle (panic / GARBAGE / STICKY).",
   note="trusted: Lean kernel, hand-written writer model validated per call token; repaired: Free after failure/twice, MessageWriter use after End, ListWriter.Len on nested lists",
   technique="Lean 4 proof (state-machine lemmas) + bounded-exhaustive and random differential correspondence + Go-only oracle",
   design="§4/C12"),
 "C16": dict(
   text="Lean 4 corollaries of C01's field theorems, which hold for arbitrary surrounding fields: a field common to two schema versions reads back as exactly the written value in both, whatever other fields were added, removed, renamed (same tag) or reordered; a field absent from the data reads as absent/zero. PARTIAL: Copy/Merge preserving unknown fields is checked by the differential stream (writer that overrides a random subset of tags, then merges) with the Go round-trip oracle; the generated-code leg is part of C05.",
   note="trusted: as C01",
   technique="Lean 4 proof (corollaries of the by-tag lookup theorems) + differential correspondence + Go round-trip oracle",
   design="§4/C16"),
 "C03": dict(
   text="Lean 4 theorems: (a) framing (Mpx/Frame): for every list of messages below 2^32 bytes the reader recovers exactly the list from the concatenated frames, and from ANY cut of the byte stream exactly a prefix of it (frames_roundtrip, frames_cut); (b) delivery LTS (Mpx/Delivery: per-channel sender, one shared FIFO write queue, receive loop dispatch by channel id, per-channel receive queues, open/close frames carrying payloads), for all schedules of any length and any number of channels: the inductive invariant 'received ++ queued ++ in-flight(ch) = sent(ch)' (inv_run, conservation) gives that what Receive returned is always a prefix of what was sent on that channel, no duplication or cross-channel leak (delivered_prefix), and is the whole sequence once the receiver has drained after the sender's close (complete_after_close); (c) no lost wake-up between the byte queues and their reader loops (WakeProps, for all interleavings of writes/close with the repaired loop order; the unrepaired order has a 5-step counterexample). Tie: 15 event-sequence obligations regenerated from mpx/*.go and rpc/*.go on every run + seeded concurrent scenarios against the real packages over loopback (window 1B..16MiB, write queue/buffers down to 16B, lz4 on/off, 1..N channels, both directions) whose oracle is the property itself (prefix / completeness / no cross-channel payload).",
   note="trusted: Lean kernel, the hand-written LTS (atomic steps = critical sections of the Go code, tied by event sequences, not by a translator), TCP as a reliable ordered byte stream, Go scheduler sampled by seeded yields; lz4 not modelled. Found and repaired: lost wake-up (F19). Known finding F19b (dependency) reported as KNOWN-FINDING.",
   technique="Lean 4 proof (inductive invariant over an LTS, induction over schedules) + regenerated event-sequence ties + seeded scenario runs against the implementation",
   design="§4/C03"),
 "C06": dict(
   text="Lean 4 theorems on the reference-counting LTS of one channel object (Mpx/Chan: user thread with API calls and one Free, any number of connection-side frees racing on the freec CAS, any number of receive-loop dispatches holding stale map pointers; steps = single atomic operations) for every interleaving of any length: the 9-clause invariant is inductive (inv_reachable), hence no path reaches a panic (no_panic: no 'acquire of freed channel', no double free, no nil state), the state object is present whenever a thread holds a reference (state_while_held), and a frame that arrives after the channel was freed is dropped (late_frame_dropped); the pre-repair protocol (plain Add instead of CAS) has a concrete reachable panic (unrepaired_counterexample). Tie: 12 event-sequence obligations + multi-channel scenarios with every ending mode on both sides under seeded yields at the refcount and map operations, and the deterministic replay of F11.",
   note="trusted: Lean kernel, the LTS (atomics linearizable), event-sequence ties; sibling-channel delivery is checked by the scenario oracle (C03's), not re-proved here. A handler that itself calls Free on the channel the library frees on return is API misuse (documented false alarm, §7).",
   technique="Lean 4 proof (inductive invariant, finite control x unbounded counters, induction over schedules) + regenerated event-sequence ties + seeded scenario runs",
   design="§4/C06"),
 "C07": dict(
   text="Lean 4 theorems on the flow-control LTS (Mpx/Flow: sender window, admission rule window>=min(size,W/2), receiver consumption and half-window acknowledgement, frames and window updates in flight) for EVERY window W>=1, every size sequence and every interleaving: conservation of window credit (conservation), outstanding unacknowledged payload <= max(W, W - W/2 + size) at every admission (admit_bound), only the sender debits and only data frames are debited (only_sender_debits, closing payload exempt), the receiver acknowledges after at most W/2 consumed bytes (ack_rule), and no reachable state is a deadlock: if the receiver has consumed everything delivered then a blocked Send is admissible or a window update is in flight (no_deadlock, quiescent_admits); plus the wake-up theorems (WakeProps) for the one-slot notification. Tie: event-sequence obligations for decrementSendWindow/receiveWindow/Send/ReceiveAsync/sendLoop + a differential stream: random and boundary flow scripts (W, sizes around W/2 and W, consumes, close) run against a real client/server pair and on the Lean model, comparing for every step admitted-immediately vs parked and the emitted window deltas.",
   note="trusted: Lean kernel, the LTS, event-sequence ties, timing-based classification of 'parked' in the harness (settle times), eventual delivery (C03). Found and repaired: lost wake-up (F19).",
   technique="Lean 4 proof (inductive invariant over all W and schedules, omega) + regenerated event-sequence ties + differential correspondence on flow scripts",
   design="§4/C07"),
 "C09": dict(
   text="Lean 4 theorems: no cut of the byte stream ever yields a partial frame as a message (no_partial_frame, from C03's framing theorems; chunked_read_short in C11); every blocking operation of the library (Send on window, Send on write queue, Receive, Conn.Channel) selects on an event that conn.close/closeChannels/channelState.close fires, and close fires all of them (close_wakes_every_waiter, a decidable statement over the regenerated event sequences, with parked_closed_wakes for the queue notification); the late-open protocol (a channel opened by a frame processed while closeChannels sweeps the map) is closed in every interleaving (lateInv_run, late_open_closed; the unrepaired order has a counterexample). Tie: 18 event-sequence obligations + fault injection against the real packages: a TCP proxy cuts recorded sessions at every byte offset (quick: every offset in one direction + strides; thorough: all offsets, three cut modes, 200 KiB lz4 and plain sessions, rpc unary/streaming, on-demand and auto-connect recovery) and checks bounded-time non-OK return of every blocked call, context cancellation, handler release, no panic, no partial payload.",
   note="partial: boundedness in time and client recovery are decided by the scenarios (sampled schedules), the theorems cover framing, the wake-up structure and the late-open race. trusted: OS reports the cut. Found and repaired: F16 (handler never released).",
   technique="Lean 4 proof (framing lemmas, decidable statements over regenerated event sequences, finite-state invariant) + exhaustive-offset fault injection against the implementation",
   design="§4/C09"),
 "C11": dict(
   text="Lean 4 theorems on the server handshake/dispatch model (Mpx/Handshake) for every protocol line, first frame and following frame sequence: handlers run iff the line is the pinned ProtocolLine and the first frame is a connect request listing version 1.0 (serve_iff, handlers_only_if_negotiated), a refused or unnegotiated connection never runs a handler and the refusal path returns an error (refused_never_served, unnegotiated_never_served, refusal_returns_error over the regenerated event sequence), frame dispatch is total and frames for unknown channels are dropped (dispatch_total, unknown_channel_dropped, hostile_frames_confined); the protocol line is decided after at most len(ProtocolLine) bytes (line_bounded, line_decided, line_accepts) and a frame body is read in chunks with the same result as one read while never holding more than one 1 MiB chunk beyond the bytes received (chunked_read_same, chunked_read_short, alloc_bounded). Tie: event-sequence + constant obligations, and a scripted raw-TCP peer against a real server with a healthy client on a second connection: every handshake variation, grammar-mutated frames, the C02 hostile corpus, oversized length prefixes (child process with heap accounting).",
   note="trusted: Lean kernel, the handshake/dispatch model, C02 for payload parsing; no handshake deadline exists (a silent peer keeps its own connection). Found and repaired: refusal served (F13), 4 GiB allocation from a 4-byte prefix (F24), unbounded protocol line (F25).",
   technique="Lean 4 proof (case analysis, induction over frame lists and chunk counts) + regenerated event-sequence/constant ties + scripted hostile-peer scenarios",
   design="§4/C11"),
 "C19": dict(
   text="Lean 4 theorems: back-off with Go's exact integer semantics (shift >= 64, uint16 wrap): for EVERY attempt >= 2 the wait lies in [25 ms, 1 s] and never decreases with the attempt number (backoff_bounds, backoff_monotone); bookkeeping LTS (Mpx/Client: critical sections under client.mu + dial results and callbacks) for both modes, every MaxConns and every schedule: exactly one of Connected/Disconnected, Connected implies a listed connection, connections + in-flight dial <= max(1,MaxConns) (inv_reachable, exactly_one_flag, conns_bounded), Close is terminal and idempotent, no connection is registered and no dial is started after Close (closed_terminal, close_idempotent, no_conn_after_close, no_dial_after_close), recovery (ondemand_redials, auto_rearms). Tie: 9 event-sequence obligations; differential stream reconnectTimeout(a) for 464 attempt numbers incl. 2^k boundaries; scenarios against a real server behind a counting TCP proxy (stop/start, refuse, reset, kill, concurrent Conn/Channel/Close).",
   note="trusted: Lean kernel, the LTS (mutex sections atomic), event-sequence ties, timer resolution. Found and repaired: redial for ever after Close (F20), cancelled instead of closed (F21), constructor data race (F22). Known finding F23 (no back-off when the server accepts TCP and drops before the handshake) is reported as KNOWN-FINDING.",
   technique="Lean 4 proof (modular arithmetic + finite case split for back-off; inductive invariant for the LTS) + regenerated event-sequence ties + differential back-off stream + scenario runs",
   design="§4/C19"),
 "C20": dict(
   text="Lean 4 theorems on the listener LTS (Mpx/Listeners: registration = flag check, insert, re-check with own Delete; notification = passes of Range + Delete-then-call until a pass takes nothing; unsubscribe; connection close) for every interleaving: the 18-clause invariant is inductive (inv_reachable) and gives: a listener is called at most once (at_most_once), never if its registration reported 'already closed' (failed_never_called), exactly once after close if registration succeeded and it was not unsubscribed (ok_called_once), never after a successful unsubscribe before close (unsub_never_called); the unrepaired protocol has a concrete double call (unrepaired_counterexample). Tie: event-sequence obligations for addClosed/notifyClosed/close/receiveOpen + scenarios under seeded yields: channel opens (single frames and open+close batches), handler exits, registration/unsubscription racing with shutdown from either side; oracle counts handler invocations per channel id, context cancellation and listener calls.",
   note="trusted: Lean kernel, the LTS (xsync.Map linearizable), event-sequence ties; 'handler invoked exactly once per opened channel' and context cancellation are decided by the scenario oracle plus C09's late-open theorem. Found and repaired: F12.",
   technique="Lean 4 proof (inductive invariant by full finite case split, induction over schedules) + regenerated event-sequence ties + seeded scenario runs",
   design="§4/C20"),
 "C15": dict(
   text="Lean 4 theorems for EVERY syntax tree (any number of imports/options/definitions of all five kinds, every type form, tags and enum numbers of any size, methods with every input/output/channel/oneway combination, contextual keywords as names): (a) token level: the reference parser (one function per production of the pinned grammar) applied to the canonical tokens of a well-formed tree returns exactly that tree (parse_print, by induction over the tree with fuel bounds derived from token counts), hence the tree is determined by the token sequence (parse_injective); (b) character level: for every sequence of lexemes and EVERY choice of separators between them (blanks, tabs, CR/LF, // comments and /* */ comments with arbitrary NUL-free ASCII content; empty wherever the next lexeme cannot continue the previous one) the lexer state machine returns exactly the tokens of the lexemes (lex_layout, by an invariant on the pending-lexeme state), comment content never leaks (lex_blank); (c) composed: every layout of the canonical tokens of a tree lexes and parses to that tree (parse_layout). Ties regenerated on every run: the production list of grammar.y (actions stripped, error productions marked), the keyword table, the lexer's event sequences, and grammar.go regenerated with a vendored goyacc (byte-identical, 0 conflicts: the generated parser accepts exactly the language of the pinned productions). Correspondence: every generated text (random trees x random layout and optional separators, token-level and character-level mutations incl. lexically hostile junk, truncations, the repository's .spec files) is lexed and parsed by the implementation and by the model; Go-side oracles straight from the property: no panic, lexical error => error, invalid integer literal => error, accepted tree = rendered tree, reprint fixed point, canonical tokens of the returned tree = source tokens up to optional separators.",
   note="trusted: Lean kernel, the hand-written lexer/parser model (validated on ~3k lines per quick run, 60k thorough, 0 disagreements), vendored goyacc, extractor/harness/runner. Found and repaired: lexical errors ignored (d43dfff), negative scanner tokens skipped (5f1329b).",
   technique="Lean 4 proof (structural induction over syntax trees; state-machine invariant for the lexer) + regenerated grammar/keyword/event facts + goyacc regeneration + differential correspondence + Go-side oracles",
   design="§4/C15"),
}

def main():
    man = json.load(open(os.path.join(VERIF, "MANIFEST.json")))
    checks = []
    for pid in ALL:
        if pid not in PROPS or pid not in TEXT:
            continue
        t = TEXT[pid]
        checks.append({
            "property_id": pid,
            "quick_cmd": "python3 run/check.py %s --tier quick" % pid,
            "thorough_cmd": "python3 run/check.py %s --tier thorough" % pid,
            "evidence_file": "evidence/%s.json" % pid,
            "replay_cmd_template": "python3 run/check.py %s --replay {path}" % pid,
            "engine": "lean-proof+differential",
            "level_claimed": {"category": PROPS[pid]["level"], "text": t["text"], "design_ref": t["design"]},
            "level_note": t["note"],
            "technique": t["technique"],
        })
    man["checks"] = checks
    import subprocess
    log = subprocess.run(["git", "-C", "/repo", "log", "--format=%h %s"], stdout=subprocess.PIPE).stdout.decode().split("\n")
    man["hooks"]["source_commits"] = [l.split(" ")[0] for l in log if l.split(" ", 1)[-1].startswith("verif hooks")][::-1]
    claimed = {c["property_id"] for c in checks}
    na = json.load(open(os.path.join(VERIF, "run", "not_applicable.json")))
    man["not_applicable"] = [{"property_id": p, "reason": na.get(p, "check not built yet (planned: DESIGN.md §9); no verdict is claimed for this property")} for p in ALL if p not in claimed]
    for e in man.get("engines", []):
        e["serves_properties"] = sorted(claimed)
    json.dump(man, open(os.path.join(VERIF, "MANIFEST.json"), "w"), indent=1)
    print("claimed:", sorted(claimed))

if __name__ == "__main__":
    main()
