"""Registry of the claimed properties: proof obligations and correspondence streams."""

WIRE_FLAG = r"^VIOL|panic|PANIC|OUTSIDE|SIZE-|PLACEMENT|MISMATCH"
TIES = ["SpecVerif.Ties.typeCodes_tie", "SpecVerif.Ties.listElemSmall_tie", "SpecVerif.Ties.listElemBig_tie",
        "SpecVerif.Ties.msgFieldSmall_tie", "SpecVerif.Ties.msgFieldBig_tie", "SpecVerif.Ties.maxSize_tie",
        "SpecVerif.Ties.pinned_codes_consistent"]

def wire_stream(suite):
    return {"name": suite, "gen": ["{bin}/wire", "gen", suite, "{seed}", "{tier}", "{stats}"],
            "go": ["{bin}/wire"], "lean": ["{lean}/wiredriver"]}

PROPS = {
    "C10": {
        "level": "proof",
        "audit_imports": ["SpecVerif.Props.C10", "SpecVerif.Ties"],
        "lean_targets": ["SpecVerif.Props.C10", "SpecVerif.Ties", "wiredriver"],
        "go_cmds": ["wire"],
        "theorems": ["SpecVerif.C10." + t for t in [
            "int_cross", "uint_cross", "int_roundtrip", "uint_roundtrip", "bool_roundtrip", "byte_roundtrip",
            "bin64_roundtrip", "bin128_roundtrip", "bin256_roundtrip", "bytes_roundtrip", "string_roundtrip",
            "float64_roundtrip", "float32_as_float64", "float32_roundtrip_partial", "float64_as_float32"]],
        "ties": TIES,
        "streams": [wire_stream("c10")],
        "flag": WIRE_FLAG,
        "trusted": ["IEEE widening/narrowing/comparison are parameters of the model (FloatOps/FloatLaws); the drivers' native float operations are compared with Go's on every run"],
        "assumptions": ["float32<->float64 conversions behave as IEEE 754 (FloatLaws)", "values are in the range of their Go type"],
    },
}
