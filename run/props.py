"""Registry of the claimed properties: proof obligations and correspondence streams."""

WIRE_FLAG = r"^VIOL|panic|PANIC|OUTSIDE|SIZE-|PLACEMENT|MISMATCH"
TIES = ["SpecVerif.Ties.typeCodes_tie", "SpecVerif.Ties.listElemSmall_tie", "SpecVerif.Ties.listElemBig_tie",
        "SpecVerif.Ties.msgFieldSmall_tie", "SpecVerif.Ties.msgFieldBig_tie", "SpecVerif.Ties.maxSize_tie",
        "SpecVerif.Ties.pinned_codes_consistent"]

def wire_stream(suite):
    return {"name": suite, "gen": ["{bin}/wire", "gen", suite, "{seed}", "{tier}", "{stats}"],
            "go": ["{bin}/wire"], "lean": ["{lean}/wiredriver"]}

def wire_prop(pid, theorems, suites, extra=None):
    d = {
        "level": "proof",
        "audit_imports": ["SpecVerif.Props.%s" % pid, "SpecVerif.Ties"],
        "lean_targets": ["SpecVerif.Props.%s" % pid, "SpecVerif.Ties", "wiredriver"],
        "go_cmds": ["wire"],
        "theorems": ["SpecVerif.%s.%s" % (pid, t) for t in theorems],
        "ties": TIES,
        "streams": [wire_stream(s) for s in suites],
        "flag": WIRE_FLAG,
    }
    d.update(extra or {})
    return d

WRITER_FLAG = r"(^| )p( |$)|PANIC|GARBAGE|STICKY|ROUNDTRIP|NONDET|GOLDEN"

def writer_stream(suite):
    return {"name": suite, "gen": ["{bin}/writer", "gen", suite, "{seed}", "{tier}", "{stats}"],
            "go": ["{bin}/writer"], "lean": ["{lean}/writerdriver"]}

def c08_bytes_differ(op, g, l):
    """C08: on a well-nested program (mode carries the expected walk) the bytes must equal the pinned
    reference layout computed by the Lean model; REF-MISMATCH means the model itself is inconsistent."""
    if ",x=" not in op.split(" ", 1)[0] or "REF-" in l:
        return False
    gp, lp = g.split(" | "), l.split(" | ")
    return len(gp) >= 2 and len(lp) >= 2 and gp[1] != lp[1]

def writer_prop(pid, theorems, suites, extra=None):
    d = {
        "level": "proof",
        "audit_imports": ["SpecVerif.Props.%s" % pid, "SpecVerif.Ties"],
        "lean_targets": ["SpecVerif.Props.%s" % pid, "SpecVerif.Ties", "writerdriver"],
        "go_cmds": ["writer"],
        "theorems": ["SpecVerif.%s.%s" % (pid, t) for t in theorems],
        "ties": TIES,
        "streams": [writer_stream(s) for s in suites],
        "flag": WRITER_FLAG,
        "rule": "one evaluation = one writer program run on the implementation and on the model (per-call outcome tokens, built bytes, parse result, walk); distinct non-trivial = distinct (first call, full answer) pairs",
    }
    d.update(extra or {})
    return d

PROPS = {
    "C10": {
        "level": "proof",
        "audit_imports": ["SpecVerif.Props.C10", "SpecVerif.Ties"],
        "lean_targets": ["SpecVerif.Props.C10", "SpecVerif.Ties", "wiredriver"],
        "go_cmds": ["wire"],
        "theorems": ["SpecVerif.C10." + t for t in [
            "int_cross", "uint_cross", "int_roundtrip", "uint_roundtrip", "bool_roundtrip", "byte_roundtrip",
            "bin64_roundtrip", "bin128_roundtrip", "bin256_roundtrip", "bytes_roundtrip", "string_roundtrip",
            "float64_roundtrip", "float32_as_float64", "float32_roundtrip_partial", "float64_as_float32"]],
        "ties": TIES,
        "streams": [wire_stream("c10")],
        "flag": WIRE_FLAG,
        "trusted": ["IEEE widening/narrowing/comparison are parameters of the model (FloatOps/FloatLaws); the drivers' native float operations are compared with Go's on every run"],
        "assumptions": ["float32<->float64 conversions behave as IEEE 754 (FloatLaws)", "values are in the range of their Go type"],
    },
    "C02": wire_prop("C02", ["decoders_safe", "openValue_safe", "parseValue_safe", "parseList_safe", "parseMessage_safe",
                             "list_accessors_safe", "message_accessors_safe", "genStructFields_safe", "genStructDecode_safe"],
                     ["c02"], {"assumptions": ["Go slices/ints as modelled (64-bit int, no overflow below 2^63)", "index out of range on List.Get(i) with i >= Len() is caller misuse, not hostile data"]}),
    "C13": wire_prop("C13", ["decoders_local", "parse_local", "parse_depends_only_on_value", "reparse", "fuel_irrelevant"],
                     ["c13"], {"assumptions": ["partial: the parser/probe/open agreement clause is checked differentially and by the Go-side oracle, not by a theorem"]}),
    "C01": writer_prop("C01", ["parse_exact", "probe_exact", "list_roundtrip", "msg_field_found", "msg_field_absent",
                                "msg_enumerates_written", "absent_reads_zero"], ["c01"],
                       {"assumptions": ["partial: writer_refines_layout (the writer state machine emits encList/encMsg of the children) is checked on every generated program by the drivers (REF-MISMATCH), not by a theorem",
                                        "message tags below 2^16 and total sizes below 2^32 (MsgWF); float32 laws (FloatLaws)"]}),
    "C08": writer_prop("C08", ["type_codes", "fixed_width_big_endian", "string_layout", "varint_widths", "list_big_iff",
                                "list_type_code", "msg_big_iff", "msg_table_sorted", "readable_by_library"], ["c08", "golden"],
                       {"diff_violation": c08_bytes_differ,
                        "assumptions": ["partial: independence from the initial buffer content is checked by the wp:/wd/wr/wpool streams, not by a theorem"]}),
    "C12": writer_prop("C12", ["sticky_write", "sticky_element", "sticky_field", "sticky_end", "sticky_fieldAny", "sticky_begin",
                                "sticky_queries", "fail_keeps_first", "fail_records", "free_safe", "after_free_sticky",
                                "reset_clean", "closed_handle", "double_end"], ["c12"],
                       {"assumptions": ["partial: no_panic for all call sequences and build_ok_parses are decided by the differential stream and the Go-side oracle, not by a theorem",
                                        "calls through a handle kind the Go type system rejects are outside the alphabet (bad-op)"]}),
    "C16": writer_prop("C16", ["common_field_unchanged", "absent_field_zero", "order_irrelevant"], ["c16"],
                       {"assumptions": ["partial: copy_preserves is checked by the merge-preserves-unknown stream and the Go round-trip oracle",
                                        "the generated-code leg (schemas A/A' through the compiler) belongs to C05's machinery"]}),
}
