"""Registry of the claimed properties: proof obligations and correspondence streams."""

WIRE_FLAG = r"^VIOL|panic|PANIC|OUTSIDE|SIZE-|PLACEMENT|MISMATCH|ACCESSOR-DIFFERS|!FIELDRAW|!TAGLOOKUP|!GHOST"
TIES = ["SpecVerif.Ties.typeCodes_tie", "SpecVerif.Ties.listElemSmall_tie", "SpecVerif.Ties.listElemBig_tie",
        "SpecVerif.Ties.msgFieldSmall_tie", "SpecVerif.Ties.msgFieldBig_tie", "SpecVerif.Ties.maxSize_tie",
        "SpecVerif.Ties.pinned_codes_consistent"]

def wire_stream(suite):
    return {"name": suite, "gen": ["{bin}/wire", "gen", suite, "{seed}", "{tier}", "{stats}"],
            "go": ["{bin}/wire"], "lean": ["{lean}/wiredriver"]}

def wire_prop(pid, theorems, suites, extra=None):
    d = {
        "level": "proof",
        "audit_imports": ["SpecVerif.Props.%s" % pid, "SpecVerif.Ties"],
        "lean_targets": ["SpecVerif.Props.%s" % pid, "SpecVerif.Ties", "wiredriver"],
        "go_cmds": ["wire"],
        "theorems": ["SpecVerif.%s.%s" % (pid, t) for t in theorems],
        "ties": TIES,
        "streams": [wire_stream(s) for s in suites],
        "flag": WIRE_FLAG,
    }
    d.update(extra or {})
    return d

WRITER_FLAG = r"(^| )p( |$)|PANIC|GARBAGE|STICKY|ROUNDTRIP|NONDET|GOLDEN"

def writer_stream(suite):
    return {"name": suite, "gen": ["{bin}/writer", "gen", suite, "{seed}", "{tier}", "{stats}"],
            "go": ["{bin}/writer"], "lean": ["{lean}/writerdriver"]}

def c08_bytes_differ(op, g, l):
    """C08: on a well-nested program (mode carries the expected walk) the bytes must equal the pinned
    reference layout computed by the Lean model; REF-MISMATCH means the model itself is inconsistent."""
    if ",x=" not in op.split(" ", 1)[0] or "REF-" in l:
        return False
    gp, lp = g.split(" | "), l.split(" | ")
    return len(gp) >= 2 and len(lp) >= 2 and gp[1] != lp[1]

def c12_outcomes_differ(op, g, l):
    """C12: the model is the specification of which calls are accepted and which are rejected with which
    (sticky) error. A program on which the implementation answers a call differently (first column:
    the per-call outcome tokens) is a concrete failing input."""
    return g.split(" | ", 1)[0] != l.split(" | ", 1)[0]

def writer_prop(pid, theorems, suites, extra=None):
    d = {
        "level": "proof",
        "audit_imports": ["SpecVerif.Props.%s" % pid, "SpecVerif.Ties"],
        "lean_targets": ["SpecVerif.Props.%s" % pid, "SpecVerif.Ties", "writerdriver"],
        "go_cmds": ["writer"],
        "theorems": ["SpecVerif.%s.%s" % (pid, t) for t in theorems],
        "ties": TIES,
        "streams": [writer_stream(s) for s in suites],
        "flag": WRITER_FLAG,
        "rule": "one evaluation = one writer program run on the implementation and on the model (per-call outcome tokens, built bytes, parse result, walk); distinct non-trivial = distinct (first call, full answer) pairs",
    }
    d.update(extra or {})
    return d

PROPS = {
    "C10": {
        "level": "proof",
        "audit_imports": ["SpecVerif.Props.C10", "SpecVerif.Ties"],
        "lean_targets": ["SpecVerif.Props.C10", "SpecVerif.Ties", "wiredriver"],
        "go_cmds": ["wire"],
        "theorems": ["SpecVerif.C10." + t for t in [
            "int_cross", "uint_cross", "int_roundtrip", "uint_roundtrip", "bool_roundtrip", "byte_roundtrip",
            "bin64_roundtrip", "bin128_roundtrip", "bin256_roundtrip", "bytes_roundtrip", "string_roundtrip",
            "float64_roundtrip", "float32_as_float64", "float32_decodes", "float32_roundtrip", "float32_snan_quieted",
            "float64_as_float32", "ieee_laws", "float32_roundtrip_ieee", "float32_widen_exact", "float64_as_float32_ieee"]],
        "ties": TIES,
        "streams": [wire_stream("c10")],
        "flag": WIRE_FLAG,
        "trusted": ["the bit-level IEEE 754 conversion model (Wire/IEEE.lean: widen, narrow with round-to-nearest-even, quieting of signalling NaNs, comparisons with MaxFloat32) is what the decoders of the model run with; its laws are proved (ieee_laws), its agreement with the platform's conversions is checked on every float decode of the streams"],
        "assumptions": ["a float32 signalling NaN reads back quieted through DecodeFloat32 (float32_snan_quieted): still a NaN; NaN payloads are compared as 'nan' by the streams", "values are in the range of their Go type"],
    },
    "C02": wire_prop("C02", ["decoders_safe", "openValue_safe", "parseValue_safe", "parseList_safe", "parseMessage_safe",
                             "list_accessors_safe", "message_accessors_safe", "genStructFields_safe", "genStructDecode_safe"],
                     ["c02"], {"assumptions": ["Go slices/ints as modelled (64-bit int, no overflow below 2^63)", "index out of range on List.Get(i) with i >= Len() is caller misuse, not hostile data"]}),
    "C13": wire_prop("C13", ["decoders_local", "parse_local", "parse_depends_only_on_value", "reparse", "fuel_irrelevant", "parse_probe_agree", "parse_open_agree", "parse_openMessage_agree", "parse_openList_agree"],
                     ["c13"], {"assumptions": ["the agreement theorems cover 'parser accepts => probe and open report the same size and bytes'; the probe accepting more than the recursive parser is by design"]}),
    "C01": writer_prop("C01", ["parse_exact", "probe_exact", "list_roundtrip", "msg_field_found", "msg_field_absent",
                                "msg_enumerates_written", "absent_reads_zero", "writer_refines_layout",
                                "written_tree_reads_back", "written_tree_reads_back_ieee"], ["c01", "c16"],
                       {"assumptions": ["writer_refines_layout covers the API programs of value trees (compRoot); Copy/Merge of a well-formed source is C16.copy_preserves, Any(raw bytes) enters as a leaf",
                                        "message tags below 2^16 and total sizes below 2^32 (MsgWF); the float laws are proved for the bit-level IEEE model (C10.ieee_laws)"]}),
    "C08": writer_prop("C08", ["type_codes", "fixed_width_big_endian", "string_layout", "varint_widths", "list_big_iff",
                                "list_type_code", "msg_big_iff", "msg_table_sorted", "readable_by_library", "bytes_depend_only_on_tree"], ["c08", "golden"],
                       {"diff_violation": c08_bytes_differ,
                        "assumptions": ["independence from the initial buffer content is a theorem (bytes_depend_only_on_tree); reuse after failure and pooling are compared by the wd/wr/wpool streams"]}),
    "C12": writer_prop("C12", ["sticky_write", "sticky_element", "sticky_field", "sticky_end", "sticky_fieldAny", "sticky_begin",
                                "sticky_queries", "fail_keeps_first", "fail_records", "write_func_error_sticky", "free_safe", "after_free_sticky",
                                "reset_clean", "closed_handle", "double_end", "no_panic", "no_panic_from", "err_persists", "sticky_program"], ["c12"],
                       {"diff_violation": c12_outcomes_differ,
                        "assumptions": ["partial: build_ok_parses is a theorem for the programs of value trees (C01.written_tree_reads_back) and Copy/Merge programs (C16.copy_preserves); for arbitrary misuse programs it is decided by the differential stream and the Go-side oracle; no_panic covers the whole alphabet incl. Copy/Merge from arbitrary bytes",
                                        "calls through a handle kind the Go type system rejects are outside the alphabet (bad-op)"]}),
    "C16": writer_prop("C16", ["common_field_unchanged", "absent_field_zero", "order_irrelevant", "copy_preserves", "copy_any_depth"], ["c16"],
                       {"assumptions": ["copy_preserves: source message well formed (distinct tags < 2^16, self-delimiting values), written fields with distinct tags, total size below 2^32",
                                        "the generated-code leg (schemas A/A' through the compiler) belongs to C05's machinery"]}),
}

# C01, continued: reading a written tree back to any depth (Props/C01Read.lean)
PROPS["C01"]["audit_imports"].append("SpecVerif.Props.C01Read")
PROPS["C01"]["lean_targets"].insert(1, "SpecVerif.Props.C01Read")
PROPS["C01"]["theorems"].append("SpecVerif.C01.read_path")

# ---------------------------------------------------------------- mpx properties

MPX_FLAG = r" VIOL"

def ev(*names):
    return ["SpecVerif.TiesMpx.ev_%s_tie" % n for n in names]

WAKE = ["SpecVerif.WakeProps." + t for t in ["inv_reachable", "parked_nonempty_wakes", "parked_closed_wakes",
        "reader_never_stuck", "unrepaired_lost_wakeup", "sendLoop_order", "channel_Receive_order",
        "rpc_client_Receive_order", "rpc_server_Receive_order"]]
WAKE_TIES = ev("conn_sendLoop", "channel_Receive", "channel_ReceiveWait", "rpc_client_Receive", "rpc_server_Receive")

def scen(name, *cmd, **kw):
    d = {"name": name, "scenario": list(cmd)}
    d.update(kw)
    return d

def mpx_prop(pid, theorems, ties, streams, go_cmds, extra=None, wake=False, drivers=()):
    d = {
        "level": "proof",
        "audit_imports": ["SpecVerif.Props.%s" % pid, "SpecVerif.TiesMpx"] + (["SpecVerif.Props.Wake"] if wake else []),
        "lean_targets": ["SpecVerif.Props.%s" % pid, "SpecVerif.TiesMpx"] + (["SpecVerif.Props.Wake"] if wake else []) + list(drivers),
        "go_cmds": go_cmds,
        "theorems": ["SpecVerif.%s.%s" % (pid, t) for t in theorems] + (WAKE if wake else []),
        "ties": ties + (WAKE_TIES if wake else []),
        "streams": streams,
        "flag": MPX_FLAG,
        "rule": "one evaluation = one scenario run against the real mpx/rpc packages over loopback TCP (or one script line run on the implementation and on the model); distinct non-trivial = distinct result lines ignoring run index and seed",
        "trusted": ["the Go runtime scheduler, net and time packages: schedules are sampled (seeded yields at the hook points), never enumerated, on the implementation side; the theorems quantify over all schedules of the MODEL only",
                    "event-sequence ties (TiesMpx): the extractor prints conditions, select cases, returns and marked calls of each mirrored function; statements it does not mark are not tied"],
    }
    d.update(extra or {})
    return d

def c07_script_differs(op, g, l):
    """C07: the model IS the window rule (the bound and the no-deadlock theorems are about it). A script on
    which the implementation admits or parks a Send differently from the model - and does so again when
    it is run alone with patient timing - is a concrete failing input, not only a broken correspondence."""
    return g.split(" VIOL ", 1)[0] != l

PROPS.update({
    "C03": mpx_prop("C03", ["frames_roundtrip", "frames_cut", "inv_run", "conservation", "delivered_prefix", "complete_after_close"],
                    ev("channel_Send", "channel_SendAndClose", "channel_ReceiveAsync", "conn_send", "conn_receiveMessage", "conn_receiveData",
                       "conn_receiveOpen", "conn_receiveClose", "reader_read", "state_close"),
                    [scen("c03", "{bin}/mpxscen", "c03", "{seed}", "{tier}"), scen("wake", "{bin}/mpxscen", "wake", "{seed}", "{tier}")],
                    ["mpxscen"], wake=True,
                    extra={"assumptions": ["the byte stream between the two connection loops is reliable and ordered (TCP)",
                                           "per-channel senders are serialised by the channel send mutex (tied: ev_channel_Send)",
                                           "compression is a lossless stream transform (lz4 library, exercised by the scenarios, not modelled)"]}),
    "C06": mpx_prop("C06", ["inv_reachable", "no_panic", "state_while_held", "late_frame_dropped", "unrepaired_counterexample"],
                    ev("channel_acquire", "channel_tryAcquire", "channel_release", "channel_free", "channel_Free", "channel_receive",
                       "conn_receiveClose", "conn_receiveData", "conn_receiveWindow", "conn_sendHandle", "conn_closeChannels", "conn_createChannel", "channel_closeUser"),
                    [scen("c06", "{bin}/mpxscen", "c06", "{seed}", "{tier}"), scen("stall", "{bin}/mpxscen", "stall", "{seed}", "{tier}"), scen("probe", "{bin}/mpxprobe")],
                    ["mpxscen", "mpxprobe"],
                    extra={"assumptions": ["one Free per channel object by its owner (the user on the client side, the handler runner on the server side); a second Free is API misuse and panics by design",
                                           "atomic operations of sync/atomic are linearizable"]}),
    "C07": mpx_prop("C07", ["inv_run", "conservation", "ack_rule", "admit_bound", "only_sender_debits", "no_deadlock", "quiescent_admits", "outstanding_bounded", "close_exempt", "blocked_send_admitted", "blocked_send_admitted_reachable", "send_completes"],
                    ev("state_decrementSendWindow", "state_receiveWindow", "channel_Send", "channel_SendAndClose", "channel_ReceiveAsync"),
                    [{"name": "flow", "gen": ["{bin}/mpxflow", "gen", "{seed}", "{tier}", "{stats}"], "go": ["{bin}/mpxflow"], "lean": ["{lean}/flowdriver"],
                      "confirm": {"MPXFLOW_SETTLE_MS": "300", "MPXFLOW_RESETTLE_MS": "4000"}}],
                    ["mpxflow"], wake=True, drivers=["flowdriver"],
                    extra={"diff_violation": c07_script_differs,
                           "rule": "one evaluation = one flow-control script (window W, sends of given sizes, consumes, close) run against a real client/server pair and on the Lean model; the answer lists for every step whether the Send was admitted immediately or parked and which window update the receiver emitted",
                           "assumptions": ["eventual delivery of frames between the two sides (C03) and of wake-ups (WakeProps)"]}),
    "C09": mpx_prop("C09", ["no_partial_frame", "close_wakes_every_waiter", "lateInv_run", "late_open_closed", "late_open_unrepaired"],
                    ev("conn_close", "conn_closeChannels", "channel_free", "state_close", "conn_run", "conn_send", "conn_Channel",
                       "state_decrementSendWindow", "conn_receiveOpen", "conn_createChannel", "reader_read", "channel_Receive", "channel_ReceiveWait"),
                    [scen("c09", "{bin}/mpxfault", "c09", "{seed}", "{tier}"), scen("late", "{bin}/mpxlate")],
                    ["mpxfault", "mpxlate"],
                    extra={"assumptions": ["partial: 'returns within bounded time' and client recovery after the fault are decided by the fault-injection scenarios (every cut offset of recorded sessions), not by a theorem",
                                           "the operating system reports a cut connection to Read/Write (or the peer's FIN/RST arrives)"]}),
    "C11": mpx_prop("C11", ["serve_iff", "handlers_only_if_negotiated", "refused_never_served", "unnegotiated_never_served", "refusal_returns_error",
                            "dispatch_total", "unknown_channel_dropped", "hostile_frames_confined", "unrepaired_refusal_served",
                            "line_bounded", "line_accepts", "line_decided", "chunked_read_same", "chunked_read_short", "alloc_bounded"],
                    ev("conn_handshakeAsServer", "conn_run", "conn_receiveMessage", "conn_receiveOpen", "conn_receiveClose", "conn_receiveData",
                       "conn_receiveWindow", "reader_read", "reader_readLine") + ["SpecVerif.Ties.protocolLine_tie", "SpecVerif.Ties.maxReadChunk_tie"],
                    [scen("c11", "{bin}/mpxfault", "c11", "{seed}", "{tier}")],
                    ["mpxfault"],
                    extra={"assumptions": ["message payload parsing is total and memory-safe (C02)",
                                           "memory held for a peer is bounded by the bytes it actually delivered plus one 1 MiB chunk (alloc_bounded); there is no handshake deadline: a peer that sends fewer than len(ProtocolLine) bytes and idles keeps its own connection open"],
                           "audit_imports": ["SpecVerif.Props.C11", "SpecVerif.TiesMpx", "SpecVerif.Ties"],
                           "lean_targets": ["SpecVerif.Props.C11", "SpecVerif.TiesMpx", "SpecVerif.Ties"]}),
    "C19": mpx_prop("C19", ["backoff_bounds", "backoff_monotone", "inv_reachable", "exactly_one_flag", "conns_bounded", "closed_terminal",
                            "close_idempotent", "no_conn_after_close", "no_dial_after_close", "ondemand_redials", "auto_rearms"],
                    ev("client_Close", "client_conn", "client_onConnClosed", "client_onConnChannelsReached", "client_connect", "client_connect1",
                       "client_connectRecover", "client_new", "reconnectTimeout"),
                    [{"name": "backoff", "gen": ["sh", "-c", "{bin}/mpxclient backoff | cut -d' ' -f1,2"],
                      "go": ["sh", "-c", "cat >/dev/null; {bin}/mpxclient backoff"], "lean": ["{lean}/flowdriver"]},
                     scen("client", "{bin}/mpxclient", "scen", "{seed}", "{tier}")],
                    ["mpxclient"], drivers=["flowdriver"],
                    extra={"assumptions": ["critical sections under client.mu are atomic steps of the model (tied: mu.Lock/Unlock events)",
                                           "real sleeps are only lower-bounded by the scenario check (timer resolution)"]}),
    "C20": mpx_prop("C20", ["inv_reachable", "at_most_once", "failed_never_called", "ok_called_once", "unsub_never_called", "unrepaired_counterexample"],
                    ev("conn_addClosed", "conn_notifyClosed", "conn_close", "conn_receiveOpen", "channel_closeUser", "channel_Free", "state_close"),
                    [scen("c20", "{bin}/mpxfault", "c20", "{seed}", "{tier}"), scen("stall", "{bin}/mpxscen", "stall", "{seed}", "{tier}")],
                    ["mpxfault", "mpxscen"],
                    extra={"assumptions": ["xsync.Map operations (Store, Delete, Range) are linearizable; Range visits every key present for the whole pass"]}),
})

# ---------------------------------------------------------------- schema language

LANG_TIES = ["SpecVerif.TiesLang." + t for t in ["grammarRules_tie", "lexKeywords_tie", "grammarRegenerated_tie", "grammarConflicts_tie",
             "parser_tables_current", "keywords_model", "name_keywords_model"]] + ev("lexer_Lex", "lexer_new", "lexer_Error", "lexer_scanError", "parser_parse")

def lang_unmodelled(op, g, l):
    return l == "unmodelled"

PROPS.update({
    "C15": {
        "level": "proof",
        "audit_imports": ["SpecVerif.Props.C15Lex", "SpecVerif.TiesLang", "SpecVerif.TiesMpx"],
        "lean_targets": ["SpecVerif.Props.C15Lex", "SpecVerif.TiesLang", "SpecVerif.TiesMpx", "langdriver"],
        "go_cmds": ["lang"],
        "theorems": ["SpecVerif.C15." + t for t in ["parse_print", "parse_injective", "lex_layout", "lex_blank", "parse_layout"]],
        "ties": LANG_TIES,
        "streams": [{"name": "c15", "gen": ["{bin}/lang", "gen", "c15", "{seed}", "{tier}", "{stats}"], "go": ["{bin}/lang"], "lean": ["{lean}/langdriver"]}],
        "flag": r" VIOL ",
        "diff_ignore": lang_unmodelled,
        "rule": "one evaluation = one source text lexed and parsed by the implementation (token stream through the verif hook, tree dump) and by the Lean lexer/parser; distinct non-trivial = distinct (text class, answer) pairs; texts outside the lexer model's domain (non-ASCII, escapes, ...) are judged by the Go-side oracles only and counted as outside_model_domain",
        "trusted": ["the Lean reference parser is hand-written against the pinned productions (one function per nonterminal); its agreement with the goyacc parser is validated on every run, incl. token- and character-level mutations",
                    "text/scanner is modelled for NUL-free ASCII without escapes; the vendored goyacc (x/tools v0.29.0) regenerates grammar.go"],
        "assumptions": ["well-formed tree = names are what the lexer can produce (identifiers are not keywords; field names are identifiers or contextual keywords); integers below 2^63",
                        "string escapes are not part of the language (not interpreted by the implementation): literals with a backslash are outside the model"],
    },
    "C14": {
        "level": "proof",
        "audit_imports": ["SpecVerif.Props.C14", "SpecVerif.Props.C15Lex", "SpecVerif.TiesLang", "SpecVerif.TiesMpx"],
        "lean_targets": ["SpecVerif.Props.C14", "SpecVerif.Props.C15Lex", "SpecVerif.TiesLang", "SpecVerif.TiesMpx", "langdriver"],
        "go_cmds": ["langc"],
        "theorems": ["SpecVerif.C14." + t for t in ["fieldsOK_iff", "enumOK_iff", "dup_tag_rejected", "dup_field_name_rejected", "zero_tag_rejected",
                     "tag_out_of_range_rejected", "unknown_type_rejected", "service_type_rejected", "enum_no_zero_rejected", "enum_dup_number_rejected",
                     "enum_dup_name_rejected", "enum_out_of_range_rejected", "struct_list_rejected", "struct_message_rejected", "struct_self_rejected",
                     "channel_non_message_rejected", "input_non_message_rejected", "dup_method_rejected", "dup_definition_rejected",
                     "circular_import_rejected", "missing_import_rejected", "bad_import_rejected"]] + ["SpecVerif.C15.parse_print"],
        "ties": LANG_TIES + ev("model_getPackage", "model_compileFiles", "model_parsePackage", "model_parseDefinitions", "model_file_resolve",
                               "model_parseImport", "model_newField", "model_newFields", "model_field_resolved", "model_parseEnum", "model_enum_parseValue",
                               "model_struct_validate", "model_structField_validate", "model_structField_contains", "model_structField_compile",
                               "model_method_compile", "model_method_compileInput", "model_method_compileOutput", "model_method_compileType",
                               "model_channel_compile", "model_type_resolve", "model_generateMessageDef", "model_service_parseMethod",
                               "gen_file", "gen_importPackage"),
        "streams": [{"name": "c14", "gen": ["{bin}/langc", "gen", "c14", "{seed}", "{tier}", "{stats}"], "go": ["{bin}/langc"], "lean": ["{lean}/langdriver"]}],
        "flag": r" VIOL ",
        "diff_ignore": lang_unmodelled,
        "rule": "one evaluation = one bundle of schema packages compiled by the implementation (compiler + generator, then `go build` of everything that was accepted) and judged by the Lean rule model; classes: valid (must be accepted and compile), mut:<rule> (one operator per rule of the language, must be rejected with an error naming the element), sem (random semantic edits: verdicts must agree), fuzz (token/character damage: no panic, no hang), probe (fixed cases)",
        "trusted": ["the Go toolchain decides 'the output compiles'; that clause is tested on every accepted schema, not proved",
                    "the rule model (Lang/Check.lean) is hand-written from internal/lang/model and compared with the compiler on every line"],
        "assumptions": ["partial: 'accepted schemas produce code the Go compiler accepts' and 'never panics or hangs' are decided by running the compiler and go build on the stream (about 600 bundles per quick run), not by a theorem",
                        "import ids are plain names (directory names) in the model"],
    },
    "C17": {
        "level": "other",
        "audit_imports": ["SpecVerif.Props.C17", "SpecVerif.TiesMpx"],
        "lean_targets": ["SpecVerif.Props.C17", "SpecVerif.TiesMpx"],
        "go_cmds": ["allocs"],
        "theorems": ["SpecVerif.C17." + t for t in ["after_mono", "after_covers", "steady_state_zero", "runAll_covers", "warmup_once", "second_pass_free"]],
        "ties": ev("pool_stack_reset", "pool_listStack_reset", "pool_messageStack_reset", "pool_writerState_reset", "pool_writerState_init"),
        "streams": [scen("allocs", "{bin}/allocs", "c17", "{seed}", "{tier}")],
        "flag": MPX_FLAG,
        "rule": "one evaluation = one message shape (directed shapes at and beyond every preallocated size: 47..5000 fields, tags to 65535, lists to 2000 elements, nesting depth to 200, payloads to 1 MiB; plus generator shapes, a third with structs) measured with the runtime allocation counter (MemStats.Mallocs delta, GC off, GOMAXPROCS 1, minimum of three): complete recursive read through both the generic and the typed accessors, steady-state write with a reused writer and with a pooled message writer after warm-up, and 12 (quick) hostile mutants per shape of which the accepted ones are read completely; distinct non-trivial = distinct result lines",
        "trusted": ["the allocation counts are facts about the Go compiler (escape analysis, inlining) and runtime on this toolchain: measured, not proved",
                    "the capacity model (Props/C17.lean: a region allocates only when the need exceeds its capacity and never shrinks) is tied to the stack reset functions (slices cut to length 0, capacity kept) by event sequences"],
        "assumptions": ["partial by nature: the theorems state the capacity logic (same shape again => no growth; one warm-up pass over any shapes => none of them grows again), the zero itself is the measurement"],
    },
    "C18": {
        "level": "proof",
        "audit_imports": ["SpecVerif.Props.C18", "SpecVerif.Props.C12", "SpecVerif.TiesMpx"],
        "lean_targets": ["SpecVerif.Props.C18", "SpecVerif.Props.C12", "SpecVerif.TiesMpx"],
        "go_cmds": ["poolscen", "poolscen.race", "mpxclient.race", "mpxscen.race", "mpxfault.race", "rpcscen.race"],
        "theorems": ["SpecVerif.C18." + t for t in ["inv_reachable", "acquired_is_clean", "never_shared", "unreset_fields_are_stateless", "unrepaired_shares_object"]] + ["SpecVerif.C12.reset_clean"],
        "ties": ev("pool_writerState_reset", "pool_writerState_init", "pool_releaseWriterState", "pool_writer_reset", "pool_stack_reset", "pool_listStack_reset",
                   "pool_messageStack_reset", "pool_mpx_channelState_reset", "pool_mpx_releaseChannelState2", "pool_mpx_releaseChannelHandler",
                   "pool_rpc_channelState_reset", "pool_rpc_releaseState", "pool_rpc_requestState_reset", "pool_rpc_releaseRequestState",
                   "pool_rpc_serverChannelState_reset", "pool_rpc_releaseServerState"),
        "streams": [scen("pool", "{bin}/poolscen", "c18", "{seed}", "{tier}"),
                    scen("pool-race", "{bin}/poolscen.race", "c18", "{seed}", "quick", tiers=["thorough"], timeout=1500),
                    # the scenario workloads of the mpx / rpc properties under the race detector: only the
                    # detector's verdict is judged (race_only)
                    scen("client-race", "{bin}/mpxclient.race", "scen", "{seed}", "quick", tiers=["thorough"], timeout=1500, race_only=True),
                    scen("c03-race", "{bin}/mpxscen.race", "c03", "{seed}", "quick", tiers=["thorough"], timeout=1500, race_only=True),
                    scen("c06-race", "{bin}/mpxscen.race", "c06", "{seed}", "quick", tiers=["thorough"], timeout=1500, race_only=True),
                    scen("c20-race", "{bin}/mpxfault.race", "c20", "{seed}", "quick", tiers=["thorough"], timeout=1500, race_only=True),
                    scen("c09-race", "{bin}/mpxfault.race", "c09", "{seed}", "quick", tiers=["thorough"], timeout=1500, race_only=True),
                    scen("c04-race", "{bin}/rpcscen.race", "c04", "{seed}", "quick", tiers=["thorough"], timeout=1500, race_only=True)],
        "flag": MPX_FLAG,
        "rule": "one evaluation = one run of 120..800 seeded write/read programs (valid, failing midway in three ways, truncated/abandoned; seven writer variants: owned, reused with Reset, pooled message/list/value writers, self-releasing) on 2..16 goroutines together with mpx echo and rpc echo traffic, every result compared with the same program run alone; a registry of writer objects in use catches an object handed out twice; thorough tier: the same under the race detector (a data race is a VIOL line and exit 66), and the scenario workloads of C03/C04/C06/C09/C19/C20 under the race detector (only the detector's verdict is judged there)",
        "trusted": ["the Go race detector for the race-freedom clause (no memory-model theorem); sync.Pool semantics as modelled (Pool/Model.lean)",
                    "the extractor computes, for every pooled type, the fields that neither reset() nor the pool's release function assigns"],
        "assumptions": ["an object is released only by its owner and not used afterwards (API contract; the library's own releases are tied by event sequences)"],
    },
    "C05": {
        "level": "proof",
        "audit_imports": ["SpecVerif.Props.C05", "SpecVerif.TiesLang", "SpecVerif.TiesMpx"],
        "lean_targets": ["SpecVerif.Props.C05", "SpecVerif.TiesLang", "SpecVerif.TiesMpx"],
        "go_cmds": ["langgen"],
        "theorems": ["SpecVerif.C05." + t for t in ["sval_roundtrip", "sval_delim", "generated_roundtrip", "generated_absent"]] +
                    ["SpecVerif.C01.msg_field_found", "SpecVerif.C01.list_roundtrip", "SpecVerif.C01.parse_exact"],
        "ties": ["SpecVerif.TiesLang.generator_scalar_tables"] + ev("gen_typeWriteFunc", "gen_typeDecodeFunc", "gen_typeName", "gen_message_field",
                   "gen_message_writer_field", "gen_struct_decode", "gen_struct_encode", "gen_enum_encode", "gen_enum_decode", "gen_file", "gen_importPackage"),
        "streams": [scen("c05", "{bin}/langgen", "c05", "{seed}", "{tier}", timeout=1500)],
        "flag": MPX_FLAG,
        "rule": "one evaluation = one bundle of 1-3 schema packages (semantic generator + a coverage block per package: every field kind and every list element kind, local/imported/self-referencing types with and without alias, keyword- and underscore-named fields, tags 1,127,128,255,256,65534,65535, nested structs, enums to MaxInt32, services with every method shape) compiled, generated and exercised by emitted Go tests: generated writer -> generated reader (also after Parse/OpenErr/Clone/Merge), generated writer -> dynamic reader by tag and wire type, dynamic writer -> generated reader with byte-identical output, struct encode/decode incl. prefixed input, enums, services over a loopback rpc server, three regenerations byte-compared; 30k-370k comparisons per bundle",
        "trusted": ["the Go toolchain compiles and runs the emitted tests; the harness' own resolved model of the schema (sabotage switches verify each oracle reports)",
                    "the generator's templates are tied by event sequences and the kind tables (generator_scalar_tables); the emitted Go text beyond those tables is exercised, not modelled"],
        "assumptions": ["names map to distinct Go identifiers (the property's precondition; see known finding F40 of C14)",
                        "floats are bit patterns read with the bit-level IEEE model; float32 signalling NaNs are excluded from sval_roundtrip (they come back quieted: C10.float32_snan_quieted)"],
    },
    "C04": mpx_prop("C04", ["no_foreign_data", "result_is_own", "ok_only_if_sent", "no_response_no_ok", "handler_once", "status_roundtrip"],
                    ev("rpc_client_Receive", "rpc_server_Receive", "conn_receiveOpen", "conn_receiveMessage", "conn_receiveData", "conn_receiveClose",
                       "channel_Send", "channel_SendAndClose", "channel_ReceiveAsync", "pool_rpc_channelState_reset", "pool_rpc_requestState_reset",
                       "pool_rpc_serverChannelState_reset"),
                    [scen("c04", "{bin}/rpcscen", "c04", "{seed}", "{tier}")],
                    ["rpcscen"],
                    extra={"audit_imports": ["SpecVerif.Props.C04", "SpecVerif.TiesMpx"],
                           "lean_targets": ["SpecVerif.Props.C04", "SpecVerif.TiesMpx"],
                           "rule": "one evaluation = one run: an rpc server whose handler takes its behaviour from the request payload (OK, application status incl. empty/unicode/400-character codes, panic, delays, streaming in three orderings, early end) and 1-4 rpc clients with MaxConns 1-4 issuing N concurrent calls of all kinds (unary, oneway, client-, server- and bidirectional streaming; callers that abandon, cancel or only take the response) from G goroutines, each with a unique call id; the history (what every caller observed, what every handler invocation did) is checked against the sequential specification keyed by call id; run modes: plain, seeded yields, client kill, proxy kill, proxy cut at a byte offset, server stop, client close, and a raw mpx server sending 16 reply variants (4 controls, 12 malformed)",
                           "assumptions": ["one channel per call and channel ids unique (128-bit random ids; duplicates are refused: handler_once)",
                                           "delivery per channel as proved in C03; the response encoding as proved in C01/C05",
                                           "callers do not free a call while another goroutine is blocked in its Receive (the scenario c04free, not registered, demonstrates what happens then: see DESIGN.md §7)"]}),
})
