#!/usr/bin/env python3
"""Maintenance tool: rewrite the table of DESIGN.md section 9 from seeded/*/meta.json."""
import glob, json, os, re
V = os.path.dirname(os.path.dirname(os.path.abspath(__file__)))
rows = []
for d in sorted(glob.glob(os.path.join(V, "seeded", "*", "meta.json"))):
    m = json.load(open(d))
    summ = (m.get("summary") or "").replace("\n", " ").replace("|", "/")
    summ = summ[:150] + ("…" if len(summ) > 150 else "")
    checks = "; ".join("%s: %s" % (k, v.replace("|", "/")) for k, v in (m.get("checks") or {}).items())
    rows.append("| %s | %s | %s |" % (m.get("id"), summ, checks))
p = os.path.join(V, "DESIGN.md")
s = open(p).read()
i = s.index("| id | change | result of the checks |")
j = s.index("\n\n", i)
s = s[:i] + "| id | change | result of the checks |\n|---|---|---|\n" + "\n".join(rows) + s[j:]
open(p, "w").write(s)
print(len(rows), "rows")
