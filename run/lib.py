"""Shared machinery of the /verif checks (python3 stdlib only).

Every check: regenerate facts from /repo, rebuild the Lean project (proof obligations + drivers),
audit axioms, rebuild the Go harness against /repo's working tree (build tag `verif`), run the
correspondence streams, decide, write evidence.
"""
import fcntl, hashlib, json, os, re, shutil, subprocess, sys, time

VERIF = os.path.dirname(os.path.dirname(os.path.abspath(__file__)))
REPO = os.environ.get("VERIF_REPO", "/repo")
LEAN = os.path.join(VERIF, "lean")
HARNESS = os.path.join(VERIF, "harness")
EXTRACT = os.path.join(VERIF, "extract")
WORK = os.path.join(VERIF, "work")
EVIDENCE = os.path.join(VERIF, "evidence")
REPLAYS = os.path.join(VERIF, "replays")
BIN = os.path.join(HARNESS, "bin")
ALLOWED_AXIOMS = {"propext", "Classical.choice", "Quot.sound"}
FORBIDDEN = re.compile(r"\b(sorry|admit|native_decide|bv_decide|implemented_by|unsafe)\b|^\s*axiom\s|maxHeartbeats\s+0")

def alt_modfile():
    """When the runner is pointed at another checkout (VERIF_REPO), the harness is built with a copy
    of its go.mod whose replace directive names that checkout."""
    d = os.path.join(WORK, "altmod")
    os.makedirs(d, exist_ok=True)
    mod = open(os.path.join(HARNESS, "go.mod")).read().replace("=> /repo", "=> " + REPO)
    with open(os.path.join(d, "go.mod"), "w") as f:
        f.write(mod)
    try:
        have = set(open(os.path.join(HARNESS, "go.sum")).read().split("\n"))
        want = set(open(os.path.join(REPO, "go.sum")).read().split("\n"))
        with open(os.path.join(d, "go.sum"), "w") as f:
            f.write("\n".join(sorted(x for x in (have | want) if x)) + "\n")
    except OSError:
        pass
    return os.path.join(d, "go.mod")

def goenv(harness=False):
    e = dict(os.environ)
    e["GOPROXY"] = "off"
    e["GOFLAGS"] = "-mod=mod -buildvcs=false"
    if REPO != "/repo":
        e["VERIF_REPO"] = REPO
        if harness:
            e["GOFLAGS"] += " -modfile=" + alt_modfile()
    e["GOTOOLCHAIN"] = "auto"
    e.pop("GOSUMDB", None)
    e.setdefault("HOME", "/root")
    return e

def run(cmd, cwd=None, env=None, timeout=None, stdin=None, stdout=None, check=False):
    p = subprocess.run(cmd, cwd=cwd, env=env, timeout=timeout, stdin=stdin,
                       stdout=stdout if stdout is not None else subprocess.PIPE,
                       stderr=subprocess.STDOUT if stdout is None else subprocess.PIPE, text=(stdout is None))
    if check and p.returncode != 0:
        raise RuntimeError("command failed: %s\n%s" % (cmd, p.stdout))
    return p

class Lock:
    def __init__(self, name="build"):
        os.makedirs(WORK, exist_ok=True)
        self.path = os.path.join(WORK, "." + name + ".lock")
    def __enter__(self):
        self.f = open(self.path, "w")
        fcntl.flock(self.f, fcntl.LOCK_EX)
        return self
    def __exit__(self, *a):
        fcntl.flock(self.f, fcntl.LOCK_UN)
        self.f.close()

def tree_hash(paths):
    h = hashlib.sha256()
    for root in paths:
        for d, dirs, files in os.walk(root):
            dirs[:] = sorted(x for x in dirs if x not in (".git", ".lake", "bin", "work"))
            for f in sorted(files):
                p = os.path.join(d, f)
                try:
                    st = os.stat(p)
                except OSError:
                    continue
                h.update(p.encode()); h.update(str(st.st_mtime_ns).encode()); h.update(str(st.st_size).encode())
    return h.hexdigest()

class BuildResult:
    def __init__(self):
        self.ok = True
        self.lean_ok = True
        self.lean_log = ""
        self.failed_modules = []
        self.go_ok = True
        self.go_log = ""
        self.extract_ok = True
        self.extract_log = ""

def build_extract():
    os.makedirs(os.path.join(EXTRACT, "bin"), exist_ok=True)
    p = run(["go", "build", "-o", "bin/extract", "."], cwd=EXTRACT, env=goenv())
    if p.returncode != 0:
        return False, p.stdout
    p = run(["go", "build", "-o", "../bin/goyacc", "."], cwd=os.path.join(EXTRACT, "goyacc"), env=goenv())
    if p.returncode != 0:
        return False, p.stdout
    gen = os.path.join(LEAN, "SpecVerif", "Generated")
    os.makedirs(gen, exist_ok=True)
    tmp = os.path.join(gen, "Facts.lean.new")
    p = run([os.path.join(EXTRACT, "bin", "extract"), REPO, tmp, os.path.join(WORK, "facts.json")])
    if p.returncode != 0:
        return False, p.stdout
    dst = os.path.join(gen, "Facts.lean")
    # keep mtime when unchanged so that lake does not rebuild
    if os.path.exists(dst) and open(dst).read() == open(tmp).read():
        os.remove(tmp)
    else:
        os.replace(tmp, dst)
    return True, ""

def build_lean(targets):
    p = run(["lake", "build"] + targets, cwd=LEAN, timeout=3000)
    log = p.stdout
    failed = re.findall(r"^- (\S+)$", log, flags=re.M)
    return p.returncode == 0, log, failed

def build_go(cmds):
    os.makedirs(BIN, exist_ok=True)
    # go.sum of the harness follows /repo's (union of the lines, so that new dependencies resolve offline)
    try:
        have = set(open(os.path.join(HARNESS, "go.sum")).read().split("\n"))
        want = set(open(os.path.join(REPO, "go.sum")).read().split("\n"))
        if not want <= have:
            with open(os.path.join(HARNESS, "go.sum"), "w") as f:
                f.write("\n".join(sorted(x for x in (have | want) if x)) + "\n")
    except OSError:
        pass
    logs = []
    ok = True
    for c in cmds:
        # build next to the target and move it into place only when it differs: a check that is running
        # the binary at this moment (another property's run) keeps its copy
        tmp = os.path.join(BIN, ".%s.%d.tmp" % (c, os.getpid()))
        if c.endswith(".race"):
            # race-detector build of the same command (thorough tier of C18)
            p = run(["go", "build", "-race", "-tags", "verif", "-o", tmp, "./cmd/" + c[:-5]], cwd=HARNESS, env=goenv(True), timeout=1800)
        else:
            p = run(["go", "build", "-tags", "verif", "-o", tmp, "./cmd/" + c], cwd=HARNESS, env=goenv(True), timeout=900)
        if p.returncode != 0:
            ok = False
            logs.append(p.stdout)
            try:
                os.remove(tmp)
            except OSError:
                pass
            continue
        dst = os.path.join(BIN, c)
        same = False
        try:
            same = os.path.getsize(dst) == os.path.getsize(tmp) and open(dst, "rb").read() == open(tmp, "rb").read()
        except OSError:
            pass
        if same:
            os.remove(tmp)
        else:
            os.replace(tmp, dst)
    return ok, "\n".join(logs)

def build_all(lean_targets, go_cmds):
    """Rebuild everything a check needs from /repo's current working tree."""
    br = BuildResult()
    with Lock():
        os.makedirs(WORK, exist_ok=True)
        br.extract_ok, br.extract_log = build_extract()
        br.lean_ok, br.lean_log, br.failed_modules = build_lean(lean_targets)
        br.go_ok, br.go_log = build_go(go_cmds)
    br.ok = br.extract_ok and br.lean_ok and br.go_ok
    return br

def strip_comments(src):
    src = re.sub(r"/-.*?-/", "", src, flags=re.S)
    src = re.sub(r"--.*", "", src)
    return src

def forbidden_tokens():
    hits = []
    for sub in ("SpecVerif", "Drivers"):
        for d, _, files in os.walk(os.path.join(LEAN, sub)):
            for f in files:
                if f.endswith(".lean"):
                    p = os.path.join(d, f)
                    for i, line in enumerate(strip_comments(open(p).read()).split("\n")):
                        if FORBIDDEN.search(line):
                            hits.append("%s: %s" % (os.path.relpath(p, LEAN), line.strip()))
    return hits

def audit_axioms(prop, module, theorems):
    """#print axioms for every property theorem; returns (ok_names, bad: {name: reason})."""
    os.makedirs(os.path.join(WORK, "audit"), exist_ok=True)
    path = os.path.join(WORK, "audit", "Audit_%s.lean" % prop)
    with open(path, "w") as f:
        f.write("import %s\n" % module)
        for t in theorems:
            f.write("#print axioms %s\n" % t)
    p = run(["lake", "env", "lean", path], cwd=LEAN, timeout=900)
    out = p.stdout
    ok, bad = [], {}
    # outputs: "'X' depends on axioms: [a, b]" or "'X' does not depend on any axioms"
    found = {}
    for m in re.finditer(r"'([^']+)' depends on axioms: \[([^\]]*)\]", out, flags=re.S):
        found[m.group(1)] = set(x.strip() for x in m.group(2).replace("\n", " ").split(",") if x.strip())
    for m in re.finditer(r"'([^']+)' does not depend on any axioms", out):
        found[m.group(1)] = set()
    for t in theorems:
        if t not in found:
            bad[t] = "not checked: " + out.strip()[:300]
        elif not found[t] <= ALLOWED_AXIOMS:
            bad[t] = "axioms: " + ", ".join(sorted(found[t] - ALLOWED_AXIOMS))
        else:
            ok.append(t)
    return ok, bad

def leanchecker(modules):
    p = run(["lake", "env", "leanchecker"] + modules, cwd=LEAN, timeout=3000)
    return p.returncode == 0, p.stdout[-2000:]

# ---------------------------------------------------------------- differential streams

def run_stream(name, gen_cmd, go_cmd, lean_cmd, workdir, timeout=3000, ops_lines=None, go_env=None):
    """gen_cmd writes ops to stdout; go_cmd / lean_cmd read ops on stdin. Returns dict with paths.
    With ops_lines the generator is skipped and exactly these lines are run (confirmation runs)."""
    os.makedirs(workdir, exist_ok=True)
    ops = os.path.join(workdir, name + ".ops")
    og = os.path.join(workdir, name + ".go.out")
    ol = os.path.join(workdir, name + ".lean.out")
    if ops_lines is not None:
        with open(ops, "w") as f:
            f.write("".join(l + "\n" for l in ops_lines))
    else:
        with open(ops, "wb") as f:
            p = subprocess.run(gen_cmd, stdout=f, stderr=subprocess.PIPE, timeout=timeout)
            if p.returncode != 0:
                raise RuntimeError("generator failed: %s" % p.stderr.decode()[-500:])
    t0 = time.time()
    env = None
    if go_env:
        env = dict(os.environ); env.update(go_env)
    with open(ops, "rb") as i, open(og, "wb") as o:
        pg = subprocess.Popen(go_cmd, stdin=i, stdout=o, stderr=subprocess.PIPE, env=env)
    with open(ops, "rb") as i, open(ol, "wb") as o:
        pl = subprocess.Popen(lean_cmd, stdin=i, stdout=o, stderr=subprocess.PIPE)
    eg = pg.communicate(timeout=timeout)[1]
    el = pl.communicate(timeout=timeout)[1]
    return {"ops": ops, "go": og, "lean": ol, "go_rc": pg.returncode, "lean_rc": pl.returncode,
            "go_err": eg.decode(errors="replace")[-500:], "lean_err": el.decode(errors="replace")[-500:],
            "secs": time.time() - t0}

def attribute_crash(st, go_cmd, workdir, name):
    """The Go side of a differential stream died (a fatal error of the process: stack overflow, out of
    memory, a crash outside any recover). Find the line that killed it: re-run the lines it had not
    answered yet with one write per answer (VERIF_FLUSH), the first unanswered line of that run is
    the candidate; it counts only if the process dies again when it is given that line alone.
    Returns {"op":…, "go":…} or None."""
    try:
        with open(st["go"], "rb") as f:
            answered = f.read().count(b"\n")
        with open(st["ops"], "r", errors="replace") as f:
            ops = [l.rstrip("\n") for l in f if l.strip()]
        rest = ops[answered:]
        env = dict(os.environ); env["VERIF_FLUSH"] = "1"
        crashlog = os.path.join(workdir, name + ".crashlog")
        env["VERIF_CRASHLOG"] = crashlog
        for _ in range(3):
            if not rest:
                return None
            if os.path.exists(crashlog):
                os.remove(crashlog)
            p = subprocess.run(go_cmd, input=("\n".join(rest) + "\n").encode(), stdout=subprocess.PIPE, stderr=subprocess.PIPE, env=env, timeout=3000)
            if p.returncode == 0:
                return None
            k = p.stdout.count(b"\n")
            # batch harnesses answer at the end: they log the index of the line they work on instead
            if os.path.exists(crashlog):
                idx = [int(x) for x in open(crashlog).read().split() if x.isdigit()]
                if idx:
                    k = idx[-1]
            if k >= len(rest):
                return None
            cand = rest[k]
            q = subprocess.run(go_cmd, input=(cand + "\n").encode(), stdout=subprocess.PIPE, stderr=subprocess.PIPE, env=env, timeout=600)
            if q.returncode != 0:
                err = q.stderr.decode(errors="replace")
                first = next((l for l in err.splitlines() if l.startswith(("fatal error", "panic:", "runtime:", "signal", "unexpected fault"))), err[:200])
                return {"op": cand[:4000], "go": "PROCESS-KILLED " + first[:300], "lean": ""}
            rest = rest[k + 1:]   # died there only in context: look further
    except Exception as e:  # the attribution is best effort; the crash itself is still reported
        return None
    return None

def compare_stream(st, flag_re, max_report=20, diff_violation=None, diff_ignore=None):
    """Walk the three files in lockstep. Returns (lines, flagged, diffs, samples, distinct)."""
    flagged, diffs, samples = [], [], []
    n = 0
    distinct = set()
    fr = re.compile(flag_re) if flag_re else None
    with open(st["ops"], "r", errors="replace") as fo, open(st["go"], "r", errors="replace") as fg, open(st["lean"], "r", errors="replace") as fl:
        for op in fo:
            op = op.rstrip("\n")
            if not op:
                continue
            g = fg.readline().rstrip("\n")
            l = fl.readline().rstrip("\n")
            n += 1
            if fr and fr.search(g):
                if len(flagged) < max_report:
                    flagged.append({"op": op[:4000], "go": g[:4000], "lean": l[:4000]})
                else:
                    flagged.append(None)
            # the Go-only oracle suffix is judged by the flag path above, the model never prints it
            if " VIOL " in g and g.split(" VIOL ", 1)[0] == l:
                l = g
            if g != l and diff_ignore and diff_ignore(op, g, l):
                # the model declares the input outside its domain: only the Go-side oracle applies
                st["ignored"] = st.get("ignored", 0) + 1
                l = g
            if g != l and diff_violation and diff_violation(op, g, l):
                # for this property a disagreement with the reference model is itself the violation
                if len(flagged) < max_report:
                    flagged.append({"op": op[:4000], "go": g[:4000], "lean": l[:4000]})
                else:
                    flagged.append(None)
            if g != l:
                if len(diffs) < max_report:
                    diffs.append({"line": n, "op": op[:4000], "go": g[:4000], "lean": l[:4000]})
                else:
                    diffs.append(None)
            if n % 9973 == 1 and len(samples) < 12:
                samples.append({"op": op[:160], "answer": g[:160]})
            # distinct non-trivial: distinct (op kind, answer class) pairs where the answer is not a plain type error
            if not g.startswith("err type") and g != "rejected":
                distinct.add(hash((op.split(" ", 1)[0], g)) & 0xffffffffffff)
    return n, flagged, diffs, samples, len(distinct)

# ---------------------------------------------------------------- findings, replays, evidence

def load_known():
    p = os.path.join(VERIF, "known_findings.json")
    if not os.path.exists(p):
        return []
    return json.load(open(p))

def known_match(prop, text):
    """Return the known (unrepaired) finding whose regex matches the violation text, if any."""
    for k in load_known():
        if k.get("property") == prop and k.get("status") == "known":
            if re.search(k["match"], text):
                return k
    return None

def write_replay(prop, payload):
    os.makedirs(REPLAYS, exist_ok=True)
    k = 0
    while True:
        path = os.path.join(REPLAYS, "%s-%d-%d-%d.json" % (prop, int(time.time()), os.getpid(), k))
        if not os.path.exists(path):
            break
        k += 1
    payload = dict(payload)
    payload["property"] = prop
    with open(path, "w") as f:
        json.dump(payload, f, indent=1)
    return path

def write_evidence(prop, tier, seed, level, coverage, assumptions, wall, violations):
    os.makedirs(EVIDENCE, exist_ok=True)
    ev = {"property_id": prop, "tier": tier, "seed": seed, "level": level, "coverage": coverage,
          "assumptions": assumptions, "wall_s": round(wall, 2), "violations": violations}
    tmp = os.path.join(EVIDENCE, prop + ".json.tmp")
    with open(tmp, "w") as f:
        json.dump(ev, f, indent=1)
    os.replace(tmp, os.path.join(EVIDENCE, prop + ".json"))

TRUSTED_BASE = [
    "Lean 4.33.0 kernel; axioms limited to propext, Classical.choice, Quot.sound (audited by #print axioms on every run)",
    "hand-written Lean models of the Go code, validated by differential correspondence, not verified",
    "the fact extractor (/verif/extract), the Go harness (/verif/harness), the Lean drivers and this runner",
    "64-bit platform; baselibrary (compactint, buffer, pools, bytequeue, asyncmap) as modelled",
]
