#!/usr/bin/env python3
"""MANIFEST.setup_cmd: build the framework from files on disk only (offline)."""
import os, sys
sys.path.insert(0, os.path.dirname(os.path.abspath(__file__)))
import lib

def main():
    os.makedirs(lib.WORK, exist_ok=True)
    ok, log = lib.build_extract()
    if not ok:
        print(log); return 1
    ok, log, failed = lib.build_lean([])
    print(log[-3000:])
    if not ok:
        return 1
    # only the commands the registered checks use (commands under construction are not built here)
    from props import PROPS
    cmds = sorted({c for cfg in PROPS.values() for c in cfg.get("go_cmds", [])})
    ok, log = lib.build_go(cmds)
    if not ok:
        print(log); return 1
    print("setup ok")
    return 0

if __name__ == "__main__":
    sys.exit(main())
