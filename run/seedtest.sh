#!/bin/bash
# usage: seedtest.sh <worktree> <prop> <n> "<checks to run>" [demo dir in the repo, default .] [go test tags]
# confirms a seeded mutation (demo passes clean, fails mutated, pinned suite passes mutated) and runs checks against it
WT=$1; P=$2; N=$3; CHECKS=$4; DD=${5:-.}; TAGS=${6:-}
export GOPROXY=off GOFLAGS=-mod=mod
cd $WT && git checkout -q -- . && git clean -fdq -e out
for d in internal/tests/pkg1 internal/tests/pkg2 internal/tests/pkg3/pkg3a internal/tests/pkg4; do cp -n /repo/$d/*_generated.go $WT/$d/ 2>/dev/null; done
cp out/demo${N}_test.go $DD/demo_seed_test.go
PASS_CLEAN=$(go test -vet=off -count=1 -tags "$TAGS" -run . -timeout 300s ./$DD 2>&1 | tail -1 | cut -c1-60)
git apply out/mut${N}.diff
FAIL_MUT=$(go test -vet=off -count=1 -tags "$TAGS" -run . -timeout 300s ./$DD 2>&1 | tail -1 | cut -c1-60)
rm -f $DD/demo_seed_test.go
SUITE=$(go test -vet=off -count=1 $(go list ./... | grep -v /out$) 2>&1 | grep -c "^FAIL")
git checkout -q -- .
echo "seed $P/$N: clean=[$PASS_CLEAN] mutated=[$FAIL_MUT] suite_failures=$SUITE"
git -C /repo apply $WT/out/mut${N}.diff || { echo "cannot apply to /repo"; exit 1; }
for c in $CHECKS; do
  R=$(cd /verif && timeout 1500 python3 run/check.py $c --tier quick 2>&1 | grep -E "^(VIOLATION|OK|KNOWN)" | head -2 | cut -c1-160 | tr '\n' ' ')
  echo "   $c -> $R"
done
git -C /repo checkout -- .
git -C /verif checkout -- evidence 2>/dev/null
