#!/bin/bash
# usage: seedtest.sh <worktree> <prop> <n> "<checks to run>"  -- confirms a seeded mutation and runs checks against it
WT=$1; P=$2; N=$3; CHECKS=$4
export GOPROXY=off GOFLAGS=-mod=mod
cd $WT && git checkout -q -- . && git clean -fdq -e out
cp out/demo${N}_test.go demo_seed_test.go
PASS_CLEAN=$(go test -vet=off -count=1 -run . -timeout 120s . 2>&1 | tail -1 | cut -c1-60)
git apply out/mut${N}.diff
FAIL_MUT=$(go test -vet=off -count=1 -run . -timeout 120s . 2>&1 | tail -1 | cut -c1-60)
SUITE=$(go test -vet=off -count=1 ./internal/decode/... ./internal/writer/... ./internal/lang/parser/... ./mpx/... ./rpc/... 2>&1 | grep -c "^ok")
rm -f demo_seed_test.go; git checkout -q -- .
echo "seed $P/$N: clean=[$PASS_CLEAN] mutated=[$FAIL_MUT] suite_ok_pkgs=$SUITE"
git -C /repo apply $WT/out/mut${N}.diff || { echo "cannot apply to /repo"; exit 1; }
for c in $CHECKS; do
  R=$(cd /verif && timeout 900 python3 run/check.py $c --tier quick 2>&1 | head -1 | cut -c1-140)
  echo "   $c -> $R"
done
git -C /repo checkout -- .
