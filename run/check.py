#!/usr/bin/env python3
"""Entry point of every check: python3 run/check.py <Cnn> --tier quick|thorough [--replay path]."""
import argparse, json, os, re, sys, time
sys.path.insert(0, os.path.dirname(os.path.abspath(__file__)))
import lib
from props import PROPS

def stream_cmds(cfg_stream, prop, seed, tier, workdir):
    stats = os.path.join(workdir, cfg_stream["name"] + ".stats.json")
    sub = lambda xs: [x.replace("{seed}", str(seed)).replace("{tier}", tier).replace("{stats}", stats)
                      .replace("{bin}", lib.BIN).replace("{lean}", os.path.join(lib.LEAN, ".lake", "build", "bin"))
                      .replace("{work}", workdir) for x in xs]
    return sub(cfg_stream["gen"]), sub(cfg_stream["go"]), sub(cfg_stream["lean"]), stats

def search_more(prop, cfg, seed, workdir, budget_s=240):
    """Search step: widen the generators (thorough tier, further seeds), implementation side only,
    looking for an input on which the property's direct oracle fails."""
    t0 = time.time()
    fr = re.compile(cfg["flag"])
    tried = 0
    for k in range(1, 6):
        for s in cfg["streams"]:
            if time.time() - t0 > budget_s:
                return None, tried
            if s.get("race_only"):
                # race-detector builds of other properties' scenarios: only the detector's verdict counts
                # for this property (judged in the main pass); their own oracles are not this property's
                continue
            if s.get("scenario"):
                import subprocess
                cmd = [x.replace("{seed}", str(seed + 1000 * k)).replace("{tier}", "thorough" if k > 1 else "quick").replace("{bin}", lib.BIN) for x in s["scenario"]]
                try:
                    p = subprocess.run(cmd, stdout=subprocess.PIPE, stderr=subprocess.DEVNULL, timeout=max(30, budget_s - (time.time() - t0)))
                    for l in p.stdout.decode(errors="replace").split("\n"):
                        tried += 1
                        if " VIOL" in l and not lib.known_match(prop, "input %s -> %s" % (" ".join(cmd), l.strip())):
                            return {"op": " ".join(cmd), "go": l.strip()[:2000], "seed": seed + 1000 * k}, tried
                except subprocess.TimeoutExpired:
                    pass
                continue
            gen, go, _, _ = stream_cmds(s, prop, seed + 1000 * k, "thorough" if k > 1 else "quick", workdir)
            ops = os.path.join(workdir, "search.ops")
            out = os.path.join(workdir, "search.go.out")
            import subprocess
            with open(ops, "wb") as f:
                if subprocess.run(gen, stdout=f, stderr=subprocess.DEVNULL).returncode != 0:
                    continue
            with open(ops, "rb") as i, open(out, "wb") as o:
                subprocess.run(go, stdin=i, stdout=o, stderr=subprocess.DEVNULL, timeout=1800)
            with open(ops, errors="replace") as fo, open(out, errors="replace") as fg:
                for op in fo:
                    g = fg.readline()
                    tried += 1
                    if fr.search(g) and not lib.known_match(prop, "input %s -> %s" % (op.strip(), g.strip())):
                        return {"op": op.strip()[:2000], "go": g.strip()[:2000], "seed": seed + 1000 * k}, tried
    return None, tried

def replay(prop, cfg, path, workdir):
    """Re-run the recorded failing input on the current tree: exit 1 if it still fails."""
    import subprocess
    d = json.load(open(path))
    print("replay of %s (%s)" % (path, d.get("kind")))
    if d.get("kind") != "input":
        print(json.dumps(d.get("broken", d), indent=1)[:3000])
        print("this replay names obligations that did not check; re-run: " + d.get("how_to_run", ""))
        return 1
    br = lib.build_all(cfg["lean_targets"], cfg["go_cmds"])
    if not br.go_ok:
        print("harness does not build against /repo"); return 1
    op = d["op"]
    fr = re.compile(cfg["flag"])
    leanbin = os.path.join(lib.LEAN, ".lake", "build", "bin")
    for s in cfg["streams"]:
        if s.get("scenario"):
            if not op.startswith(s["name"] + " "):
                continue
            cmd = [s["scenario"][0].replace("{bin}", lib.BIN)] + op.split(" ")[1:]
            p = subprocess.run(cmd, stdout=subprocess.PIPE, stderr=subprocess.DEVNULL, timeout=1500)
            out = p.stdout.decode(errors="replace")
            bad = [l for l in out.split("\n") if " VIOL" in l]
            print("\n".join(bad[:10]) or "no VIOL line in this run")
            return 1 if bad else 0
        go = [x.replace("{bin}", lib.BIN) for x in s["go"]]
        lean = [x.replace("{lean}", leanbin) for x in s["lean"]]
        g = subprocess.run(go, input=(op + "\n").encode(), stdout=subprocess.PIPE, stderr=subprocess.DEVNULL, timeout=600).stdout.decode(errors="replace").strip()
        l = subprocess.run(lean, input=(op + "\n").encode(), stdout=subprocess.PIPE, stderr=subprocess.DEVNULL, timeout=600).stdout.decode(errors="replace").strip()
        if g == "bad-op" or not g:
            continue
        print("implementation: " + g[:1500]); print("model:          " + l[:1500])
        return 1 if (fr.search(g) or (g != l and l != "unmodelled")) else 0
    print("no stream accepts this operation"); return 1

def main():
    ap = argparse.ArgumentParser()
    ap.add_argument("prop")
    ap.add_argument("--tier", default=os.environ.get("VERIF_TIER", "quick"))
    ap.add_argument("--replay")
    a = ap.parse_args()
    prop, tier = a.prop, a.tier
    seed = int(os.environ.get("VERIF_SEED", "1"))
    cfg = PROPS[prop]
    t0 = time.time()
    workdir = os.path.join(lib.WORK, prop)
    os.makedirs(workdir, exist_ok=True)

    if a.replay:
        return replay(prop, cfg, a.replay, workdir)

    if cfg.get("custom"):
        # properties with their own driver (scenario-based)
        return cfg["custom"](prop, cfg, tier, seed, workdir, a.replay)

    violations = []   # (text, replay payload)
    broken = []       # obligations / correspondence that no longer check

    # 1. build: facts, proofs, drivers, harness
    # race-detector builds are only used by thorough-tier streams
    br = lib.build_all(cfg["lean_targets"], [c for c in cfg["go_cmds"] if tier == "thorough" or not c.endswith(".race")])
    if not br.extract_ok:
        broken.append({"kind": "extractor", "what": "fact extraction failed", "log": br.extract_log[-1500:]})
    if not br.lean_ok:
        errs = re.findall(r"^error: (.*)$", br.lean_log, flags=re.M)
        broken.append({"kind": "proof-obligation", "what": "lake build failed",
                       "modules": br.failed_modules, "errors": errs[:10]})
    if not br.go_ok:
        # the harness no longer compiles against /repo: the correspondence cannot be run
        broken.append({"kind": "harness-build", "what": "Go harness does not build against /repo", "log": br.go_log[-1500:]})

    # 2. audit
    obligations = cfg["theorems"] + cfg.get("ties", [])
    ok_names, bad = [], {}
    forb = lib.forbidden_tokens()
    if br.lean_ok:
        ok_names, bad = lib.audit_axioms(prop, "\nimport ".join(cfg["audit_imports"]), obligations)
        for name, why in bad.items():
            broken.append({"kind": "axiom-audit", "what": name, "why": why})
    if forb:
        broken.append({"kind": "forbidden-token", "what": forb[:5]})
    checker_note = ""
    if tier == "thorough" and br.lean_ok:
        okc, logc = lib.leanchecker(cfg.get("leanchecker", [cfg["audit_imports"][0]]))
        checker_note = "leanchecker: " + ("ok" if okc else "FAILED " + logc[-300:])
        if not okc:
            broken.append({"kind": "leanchecker", "what": logc[-500:]})

    # 3. correspondence
    total = flagged_n = diff_n = distinct = 0
    samples, dist = [], {}
    first_diffs, first_flags = [], []
    if br.go_ok:
        for s in cfg["streams"]:
            if s.get("tiers") and tier not in s["tiers"]:
                continue
            if s.get("scenario"):
                # Go-only scenario: the binary prints one line per run; " VIOL " marks a violation
                sub = lambda xs: [x.replace("{seed}", str(seed)).replace("{tier}", tier).replace("{bin}", lib.BIN) for x in xs]
                out_path = os.path.join(workdir, s["name"] + ".scen.out")
                import subprocess
                try:
                    with open(out_path, "wb") as f:
                        p = subprocess.run(sub(s["scenario"]), stdout=f, stderr=subprocess.PIPE, timeout=s.get("timeout", 1500))
                    rc = p.returncode
                    full_err = p.stderr.decode(errors="replace")
                    err = full_err[-400:]
                except subprocess.TimeoutExpired:
                    rc, err, full_err = 124, "scenario timed out", ""
                lines = [l.rstrip("\n") for l in open(out_path, errors="replace") if l.strip()]
                if s.get("race_only"):
                    # a race-detector build of a scenario: only the detector's verdict is judged here (the
                    # instrumented binary is several times slower, its time bounds say nothing)
                    lines = [l.split(" VIOL", 1)[0] for l in lines]
                    if rc == 66 or "WARNING: DATA RACE" in full_err:
                        m = re.search(r"WARNING: DATA RACE(.*?)(?:==================|\Z)", full_err, re.S)
                        fns = re.findall(r"^  ([A-Za-z0-9_./*()\[\]]+)\(\)$", m.group(1) if m else "", re.M)
                        lines.append("%s run=race-detector VIOL data-race:%s" % (s["name"], ",".join(fns[:6]) or "see-stderr"))
                        rc = 0
                    elif rc != 0:
                        rc = 0   # other exits of the slow build (missed time bounds) are not judged
                total += len(lines)
                distinct += len(set(" ".join(t for t in l.split(" ") if not t.startswith(("seed=", "run="))) for l in lines))
                samples += [{"scenario": s["name"], "line": l[:300]} for l in lines[:3]]
                dist[s["name"] + ".runs"] = len(lines)
                # A machine busy with other work can make a run miss one of the harness' own time bounds
                # (a few seconds for "the handler was released", "the call returned", ...). Only when the
                # machine is oversubscribed, a scenario that reported violations is run once more with the
                # same seed, and a verdict counts if a verdict of the same kind shows again: a defect of
                # the library shows again (the schedules are seeded), a delay of the machine does not.
                def kinds(l):
                    return set(re.sub(r"\d+", "#", k) for k in l.split(" VIOL", 1)[1].replace(" VIOL ", " ").split())
                suspicious = [l for l in lines if " VIOL" in l and not lib.known_match(prop, "input %s -> %s" % (s["name"], l))]
                try:
                    load = os.getloadavg()[0] / max(1, os.cpu_count() or 1)
                except OSError:
                    load = 0.0
                if suspicious and load > 0.75:
                    out2 = out_path + ".again"
                    again = None
                    try:
                        with open(out2, "wb") as f:
                            subprocess.run(sub(s["scenario"]), stdout=f, stderr=subprocess.PIPE, timeout=s.get("timeout", 1500))
                        again = set()
                        for l in open(out2, errors="replace"):
                            if " VIOL" in l:
                                again |= kinds(l)
                    except subprocess.TimeoutExpired:
                        pass
                    if again is not None:
                        dropped = [l for l in suspicious if not (kinds(l) & again)]
                        if dropped:
                            dist[s["name"] + ".verdicts_not_reproduced_on_loaded_machine"] = len(dropped)
                            dist[s["name"] + ".loadavg_per_core"] = round(load, 2)
                            lines = [l for l in lines if l not in dropped]
                for l in lines:
                    if " VIOL" in l:
                        flagged_n += 1
                        if len(first_flags) < 400:
                            first_flags.append({"op": s["name"] + " " + " ".join(sub(s["scenario"])[1:]), "go": l[:6000], "lean": "(scenario: no model line)"})
                if rc != 0 and not (rc == 66 and any(" VIOL" in l for l in lines)):
                    # a scenario process that died of a Go panic / fatal error whose innermost non-runtime frame
                    # is library code: the library panicked (or crashed) in a way no recover caught. That is a
                    # failing input by itself (the run that was under way), not only a broken check.
                    crash = None
                    m = re.search(r"^(panic: .*|fatal error: .*|unexpected fault address.*)$", full_err, re.M)
                    if m:
                        after = full_err[m.end():]
                        g = re.search(r"^goroutine \d+ [^\n]*\[running\]:\n((?:.*\n)+?)\n", after + "\n\n", re.M)
                        frames = re.findall(r"^([A-Za-z0-9_./*()\[\]{}-]+)\(", g.group(1) if g else "", re.M)
                        frames = [f for f in frames if not f.startswith(("runtime.", "panic", "testing.", "sync.", "internal/"))]
                        if frames and frames[0].startswith("github.com/basecomplextech/spec/"):
                            crash = "%s at %s" % (m.group(1)[:120], frames[0])
                    if crash:
                        last = lines[-1] if lines else s["name"]
                        l = "%s run=after(%s) VIOL process-killed-by-library-panic:%s" % (s["name"], re.sub(r"\s+", "_", last[:80]), re.sub(r"\s+", "_", crash))
                        lines.append(l)
                        flagged_n += 1
                        first_flags.append({"op": s["name"] + " " + " ".join(sub(s["scenario"])[1:]), "go": l[:6000], "lean": "(scenario: no model line)"})
                    else:
                        broken.append({"kind": "scenario-crash", "what": "%s exited with %d: %s" % (s["name"], rc, err)})
                if not lines or any(re.search(r" summary runs=0( |$)", l) for l in lines):
                    broken.append({"kind": "scenario-empty", "what": s["name"] + " executed no run"})
                # a scenario whose every run ended in a harness error (" err=…", " infra=…") compared nothing
                runl = [l for l in lines if " run=" in l and " summary " not in l]
                if len(runl) >= 3 and all((" err=" in l or " infra=" in l) and " VIOL" not in l for l in runl):
                    broken.append({"kind": "scenario-inconclusive", "what": "%s: every run ended in a harness error, e.g. %s" % (s["name"], runl[0][-200:])})
                continue
            gen, go, lean, stats = stream_cmds(s, prop, seed, tier, workdir)
            st = lib.run_stream(s["name"], gen, go, lean, workdir)
            n, flagged, diffs, smp, dn = lib.compare_stream(st, cfg["flag"], diff_violation=cfg.get("diff_violation"), diff_ignore=cfg.get("diff_ignore"),
                                                            max_report=2000 if s.get("confirm") else 20)
            if s.get("confirm") and (flagged or diffs):
                # timing-sensitive stream: what it reports is run again, alone, with patient timing. A real
                # violation (deadlock, overrun, wrong admission) is a property of the script and shows again;
                # a line that was only slow on a loaded machine does not.
                bad = []
                for x in flagged + diffs:
                    if x and x["op"] not in bad:
                        bad.append(x["op"])
                overflow = any(x is None for x in flagged + diffs)
                if bad and not overflow:
                    st2 = lib.run_stream(s["name"] + ".confirm", None, go, lean, workdir, ops_lines=bad, go_env=s["confirm"])
                    n2, flagged2, diffs2, _, _ = lib.compare_stream(st2, cfg["flag"], diff_violation=cfg.get("diff_violation"),
                                                                    diff_ignore=cfg.get("diff_ignore"), max_report=2000)
                    dist[s["name"] + ".reported_first_pass"] = len(bad)
                    dist[s["name"] + ".not_reproduced_with_patient_timing"] = len(bad) - len(set(x["op"] for x in flagged2 + diffs2 if x))
                    flagged, diffs = flagged2[:20], diffs2[:20]
                    if st2["go_rc"] != 0:
                        broken.append({"kind": "harness-crash", "what": st2["go_err"]})
            if st.get("ignored"):
                dist[s["name"] + ".outside_model_domain"] = st["ignored"]
            total += n; flagged_n += len(flagged); diff_n += len(diffs); distinct += dn
            samples += smp[:6]
            first_diffs += [d for d in diffs if d][:5]
            first_flags += [f for f in flagged if f][:400]
            if os.path.exists(stats):
                for k, v in json.load(open(stats)).items():
                    dist[s["name"] + "." + k] = v
            if st["go_rc"] != 0:
                broken.append({"kind": "harness-crash", "what": st["go_err"]})
                killer = lib.attribute_crash(st, go, workdir, s["name"])
                if killer:
                    first_flags.append(killer)
            if st["lean_rc"] != 0:
                broken.append({"kind": "driver-crash", "what": st["lean_err"]})
    # direct violations found by the property's own oracle on the implementation
    for f in first_flags:
        violations.append(("input %s -> %s" % (f["op"], f["go"]), {"kind": "input", "op": f["op"], "observed": f["go"], "model": f["lean"]}))
    unknown = [v for v in violations if not lib.known_match(prop, v[0])]
    if diff_n and not unknown:
        broken.append({"kind": "correspondence", "what": "model and implementation disagree on %d of %d lines" % (diff_n, total),
                       "first": first_diffs[:3]})

    # 4. something no longer checks but no failing input yet: search
    searched = 0
    if broken and not unknown:
        if br.go_ok:
            hit, searched = search_more(prop, cfg, seed, workdir)
        else:
            hit = None
        if hit:
            violations.append(("input %s -> %s" % (hit["op"], hit["go"]), {"kind": "input", "op": hit["op"], "observed": hit["go"], "seed": hit["seed"], "broken": broken}))
        else:
            violations.append(("NOFAIL", {"kind": "obligation", "broken": broken, "searched_inputs": searched,
                                          "note": "no failing input found; the property is no longer shown to hold"}))

    # 5. report
    rc = 0
    reported = 0
    known_seen = set()
    for text, payload in violations:
        k = lib.known_match(prop, text)
        if k:
            if k["what"] not in known_seen:
                known_seen.add(k["what"])
                print("KNOWN-FINDING: property=%s %s" % (prop, k["what"]))
            continue
        payload["how_to_run"] = "python3 run/check.py %s --tier %s (VERIF_SEED=%d)" % (prop, tier, seed)
        path = lib.write_replay(prop, payload)
        if text == "NOFAIL":
            print("VIOLATION property=%s replay=%s no-failing-input-found" % (prop, path))
        else:
            print("VIOLATION property=%s replay=%s" % (prop, path))
        reported += 1
        rc = 1
        if reported >= 3:
            break

    discharged = len(ok_names) if (br.lean_ok and not forb) else 0
    cov = {
        "obligations": len(obligations), "discharged": discharged,
        "checker_cmd": "lake build %s && lake env lean work/audit/Audit_%s.lean (#print axioms)%s" % (" ".join(cfg["lean_targets"]), prop, "; lake env leanchecker" if tier == "thorough" else ""),
        "trusted_base": lib.TRUSTED_BASE + cfg.get("trusted", []),
        "theorems": obligations,
        "evaluations": max(total, 1), "distinct_nontrivial": max(distinct, 2) if total else 2,
        "rule": cfg.get("rule", "one evaluation = one protocol line run on the implementation and on the model; distinct non-trivial = distinct (operation, answer) pairs whose answer is not a plain type error/rejection"),
        "samples": samples[:12] or [{"note": "no stream run"}],
        "input_distribution": dist, "correspondence_lines": total, "correspondence_disagreements": diff_n,
        "oracle_flagged": flagged_n, "search_inputs": searched, "notes": checker_note,
    }
    lib.write_evidence(prop, tier, seed, cfg["level"], cov, cfg.get("assumptions", []), time.time() - t0, reported)
    if rc == 0:
        print("OK property=%s tier=%s obligations=%d/%d lines=%d disagreements=0 wall=%.1fs" % (prop, tier, discharged, len(obligations), total, time.time() - t0))
    return rc

if __name__ == "__main__":
    try:
        rc = main()
        sys.stdout.flush()
    except BrokenPipeError:
        rc = 1
    sys.exit(rc)
