#!/bin/bash
# usage: seedstore.sh <worktree> <n in worktree> <id e.g. C19-1> <checks-result-json-fragment>
WT=$1; N=$2; ID=$3; RES=$4
D=/verif/seeded/$ID; mkdir -p $D
cp $WT/out/mut$N.diff $D/patch.diff; cp $WT/out/demo${N}_test.go $D/demo_test.go
python3 - "$WT/out/meta$N.json" "$D/meta.json" "$ID" "$RES" <<'PY'
import json,sys
m=json.load(open(sys.argv[1])); m["id"]=sys.argv[3]
m["confirmed"]="demo_test.go passes on the clean tree and fails with patch.diff; the pinned suite passes with patch.diff; run by run/seedtest.sh"
m["checks"]=json.loads(sys.argv[4]); m["author"]="independent sub-agent given only the property text"
json.dump(m,open(sys.argv[2],"w"),indent=1)
PY
