// Command lang is the Go side of the schema-language correspondence (C15, parser level).
//
//	lang gen c15 <seed> <tier> <stats.json>   write operations to stdout
//	lang                                      read operations on stdin, print one answer line each
//
// Operations:
//
//	parse <hex text>                  answer: <tokens, tab separated> | ok <dump>   or   ... | err
//	parsev <hex text> <hex dump>      same; the text was rendered from a tree whose dump is given
//
// The token part is "lexerr" when the lexer reported an error. Go-only oracle suffixes, each a
// violation of the property by itself: " VIOL panic", " VIOL lexerr-accepted", " VIOL badint-accepted",
// " VIOL tree-differs" (parsev: the parser's tree is not the tree that was rendered),
// " VIOL reprint" (an accepted text whose tree, printed canonically, does not parse back to the same
// tree), " VIOL tokens-differ" (the tree's canonical tokens are not the source's tokens up to
// optional separators).
package main

import (
	"bufio"
	"encoding/json"
	"fmt"
	"os"
	"path/filepath"
	"strconv"
	"strings"
	"text/scanner"

	"github.com/basecomplextech/spec/verifhooks"
	"verif/harness/internal/hx"
	"verif/harness/internal/schema"
)

func main() {
	args := os.Args[1:]
	switch {
	case len(args) == 0:
		run()
	case len(args) == 5 && args[0] == "gen" && args[1] == "c15":
		seed, _ := strconv.ParseUint(args[2], 10, 64)
		genC15(seed, args[3], args[4])
	default:
		fmt.Fprintln(os.Stderr, "usage: lang | lang gen c15 <seed> <tier> <stats.json>")
		os.Exit(2)
	}
}

// ---------------------------------------------------------------- run

func hexOf(s string) string {
	if s == "" {
		return "-"
	}
	return hx.Hex([]byte(s))
}

func unhex(s string) (string, bool) {
	if s == "-" {
		return "", true
	}
	b, ok := hx.Unhex(s)
	return string(b), ok
}

type parsed struct {
	toks   []string
	errs   int
	dump   string
	err    error
	panics string
}

func parseText(text string) (p parsed) {
	defer func() {
		if e := recover(); e != nil {
			p.panics = fmt.Sprint(e)
		}
	}()
	// the scanner's default error handler writes to stderr when the lexer does not install one
	p.toks, p.errs = verifhooks.ScanTokens(text)
	p.dump, p.err = verifhooks.ParseDump(text)
	return p
}

// badInt reports an integer literal that does not denote its decimal value as an int64.
func badInt(text string) bool {
	var s scanner.Scanner
	s.Init(strings.NewReader(text))
	s.Error = func(*scanner.Scanner, string) {}
	for tok := s.Scan(); tok != scanner.EOF; tok = s.Scan() {
		if tok == scanner.Int {
			if _, err := strconv.ParseInt(s.TokenText(), 10, 64); err != nil {
				return true
			}
		}
	}
	return false
}

// normTokens drops the optional separators, and the empty import/options groups in front of the
// first definition, from a token list.
func normTokens(t []string) []string {
	var out []string
	depth := 0
	for i := 0; i < len(t); i++ {
		x := t[i]
		switch x {
		case "P:{":
			depth++
		case "P:}":
			depth--
		}
		if (x == "P:;" || x == "P:,") && i+1 < len(t) && (t[i+1] == "P:}" || t[i+1] == "P:)") {
			continue
		}
		if (x == "P:;" || x == "P:,") && len(out) > 0 && (out[len(out)-1] == "P:{" || out[len(out)-1] == "P:(") {
			continue
		}
		if depth == 0 && (x == "KW:import" || x == "KW:options") && i+2 < len(t) && t[i+1] == "P:(" && t[i+2] == "P:)" {
			i += 2
			continue
		}
		out = append(out, x)
	}
	return out
}

func answer(line string) string {
	f := strings.Split(line, " ")
	if len(f) < 2 || (f[0] != "parse" && f[0] != "parsev") {
		return "bad-op"
	}
	text, ok := unhex(f[1])
	if !ok {
		return "bad-op"
	}
	p := parseText(text)
	var viol []string
	tokPart := strings.NewReplacer("\n", "\\n", "\r", "\\r").Replace(strings.Join(p.toks, "\t"))
	if p.errs > 0 {
		tokPart = "lexerr"
	}
	res := "err"
	if p.panics != "" {
		viol = append(viol, "panic:"+strings.ReplaceAll(p.panics, " ", "_"))
	} else if p.err == nil {
		res = "ok " + p.dump
		if p.errs > 0 {
			viol = append(viol, "lexerr-accepted")
		}
		if badInt(text) {
			viol = append(viol, "badint-accepted")
		}
		// reprint fixed point and token fidelity
		if tree, err := schema.ReadDump(p.dump); err != nil {
			viol = append(viol, "dump-unreadable:"+strings.ReplaceAll(err.Error(), " ", "_"))
		} else if p.errs == 0 {
			canon := strings.Join(tree.Tokens(), " ")
			q := parseText(canon)
			if q.err != nil || q.dump != p.dump {
				viol = append(viol, "reprint")
			}
			a, b := normTokens(p.toks), normTokens(q.toks)
			if strings.Join(a, "\t") != strings.Join(b, "\t") {
				viol = append(viol, "tokens-differ")
			}
		}
	}
	if f[0] == "parsev" && len(f) == 3 {
		want, _ := unhex(f[2])
		if p.err != nil || p.dump != want {
			viol = append(viol, "tree-differs")
		}
	}
	out := tokPart + " | " + strings.NewReplacer("\n", "\\n", "\r", "\\r").Replace(res)
	for _, v := range viol {
		out += " VIOL " + v
	}
	return out
}

func run() {
	in := bufio.NewReaderSize(os.Stdin, 1<<20)
	out := bufio.NewWriterSize(os.Stdout, 1<<20)
	defer out.Flush()
	// keep the scanner's default error messages (pre-repair trees) out of the way
	devnull, _ := os.OpenFile(os.DevNull, os.O_WRONLY, 0)
	if devnull != nil {
		os.Stderr = devnull
	}
	for {
		line, err := in.ReadString('\n')
		line = strings.TrimRight(line, "\n")
		if line != "" {
			fmt.Fprintln(out, answer(line))
			out.Flush()
		}
		if err != nil {
			return
		}
	}
}

// ---------------------------------------------------------------- gen

func genC15(seed uint64, tier, statsPath string) {
	r := hx.NewRand(seed ^ 0xc15)
	out := bufio.NewWriterSize(os.Stdout, 1<<20)
	defer out.Flush()
	stats := map[string]int{}
	n := 3000
	if tier == "thorough" {
		n = 60000
	}
	emit := func(class, text string) {
		stats[class]++
		fmt.Fprintf(out, "parse %s\n", hexOf(text))
	}
	// 1. the repository's own schema files
	filepath.Walk(hx.RepoDir(), func(path string, info os.FileInfo, err error) error {
		if err == nil && !info.IsDir() && strings.HasSuffix(path, ".spec") {
			if b, err := os.ReadFile(path); err == nil {
				emit("corpus", string(b))
			}
		}
		return nil
	})
	// 2. fixed boundary texts
	for _, s := range []string{"", " ", "// only a comment", "/* c */", "import ()", "options ()", "import () options ()",
		"message A {}", "message A {;}", "message A {;;}", "message A { a int32 1 }", "message A { a int32 1; }", "message A { ; a int32 1 }",
		"service S { m(); }", "service S { m(,); }", "service S { m(,a int32 1); }", "service S { m() (); }", "service S { m() (,); }",
		"service S { m(a) (b); }", "service S { m(a) b; }", "service S { m(a) (<-b) ; }", "service S { m(a) (b->); }",
		"service S { m(a) (<-b, c->) d; }", "service S { m(a) (c->, <-b); }", "service S { m(a) (b<-); }", "service S { m(a) (->b); }",
		"service S { m(a) oneway; }", "service S { m(a) oneway b; }", "service S { oneway(a); }", "service S { enum(a); }",
		"service S { message(message) message; }", "service S { any(any) (<-any, any->) (any any 1); }",
		"enum E { any = 0; import = 1; }", "enum E { A = 1 }", "struct S { a int32; }", "struct S { a int32 }",
		"message A { a int32 0x10; }", "message A { a int32 99999999999999999999; }", "message A { a int32 1_0; }", "message A { a int32 010; }",
		"message A { a int32 08; }", "message A { a int32 1.5; }", "message A { a \"s\" 1; }", "message A { a int32 1; } /* open", "message A { a int32 1; } \"open",
		"message A { a []int32 1; b [][]int32 2; }", "message A { a pkg.T 1; b pkg.sub.T 2; }", "message A { a [] pkg . T 1 }",
		"message message {}", "message any {}", "message import {}", "enum enum {}", "import (a \"x\" \"y\" b \"z\")", "import (\"x\" a)",
		"options (a=\"1\" b=\"2\")", "options (a=1)", "options () import ()", "message A {} import ()", "subservice S { sub(x) pkg.Sub; }",
		"message A { a int32 1 b int32 2 }", "message A { a int32 1;; b int32 2 }", "service S { m(a int32 1,, b int32 2); }",
		"message A { a int32 -1; }", "message A { a int32 9223372036854775807; }", "message A { a int32 9223372036854775808; }"} {
		emit("boundary", s)
	}
	// 3. generated trees with random layout, and mutations of them
	for i := 0; i < n; i++ {
		tree := schema.GenSyntactic(r, 1+r.Intn(4))
		switch k := r.Intn(20); {
		case k < 10:
			text := schema.Layout(r, tree.TokensOpt(r), true)
			stats["valid"]++
			fmt.Fprintf(out, "parsev %s %s\n", hexOf(text), hexOf(tree.Dump()))
		case k < 12:
			text := schema.Layout(r, tree.TokensOpt(r), false) // comments may hold non-ASCII text
			stats["valid-any-comment"]++
			fmt.Fprintf(out, "parsev %s %s\n", hexOf(text), hexOf(tree.Dump()))
		case k < 13:
			// string literals with backslash sequences: recorded as written (no escapes in the language)
			schema.EscapeStrings(r, tree)
			text := schema.Layout(r, tree.TokensOpt(r), true)
			stats["valid-escaped-strings"]++
			fmt.Fprintf(out, "parsev %s %s\n", hexOf(text), hexOf(tree.Dump()))
		case k < 17:
			emit("token-mutated", schema.Layout(r, schema.MutateTokens(r, tree.TokensOpt(r)), true))
		default:
			emit("text-mutated", schema.MutateText(r, schema.Layout(r, tree.TokensOpt(r), true)))
		}
	}
	if b, err := json.Marshal(stats); err == nil {
		os.WriteFile(statsPath, b, 0o644)
	}
}
