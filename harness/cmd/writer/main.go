// Command writer runs writer programs (one per line: "<mode> <program>") against the real library
// and prints: tokens | built bytes | parse | walk [| FLAGS]. Same protocol as the Lean `writerdriver`.
//
// modes (comma separated): variant w | wp:<hex prefix> | wr (reused after an unrelated failed program
// and Reset) | wd (buffer with stale non-zero memory) | wpool (pooled writer, valid programs only);
// options x=<expected walk> (Go-only round-trip oracle), g (Any/Copy arguments are valid encodings:
// enables the Go-only garbage oracle).
package main

import (
	"bytes"
	"bufio"
	"fmt"
	"os"
	"strconv"
	"strings"

	"github.com/basecomplextech/baselibrary/buffer"
	"github.com/basecomplextech/spec"
	"verif/harness/internal/hx"
	"verif/harness/internal/rd"
	"verif/harness/internal/wprog"
)

func main() {
	if len(os.Args) > 1 && os.Args[1] == "gen" {
		genMain(os.Args[2:])
		return
	}
	in := bufio.NewReaderSize(os.Stdin, 1<<24)
	out := bufio.NewWriterSize(os.Stdout, 1<<20)
	defer out.Flush()
	// VERIF_FLUSH: one write per answer, so that after a fatal error of the process (stack overflow,
	// out of memory: not recoverable) the number of answers tells which line killed it
	flush := os.Getenv("VERIF_FLUSH") != ""
	for {
		line, err := in.ReadString('\n')
		line = strings.TrimRight(line, "\r\n ")
		if line != "" {
			out.WriteString(step(line))
			out.WriteByte('\n')
			if flush {
				out.Flush()
			}
		}
		if err != nil {
			return
		}
	}
}

// bytes produced by the first run of each program (any variant): the Go-only determinism oracle of
// C08 flags a later run of the same program that produces different bytes.
var firstBytes = map[string]string{}

const dirtyProgram = "msg;f@0 3 str 616263;fmsg@0 9;e@1 bool true;f@0 4 i32 5"

// earlierProgram is a valid program whose result must survive later uses of the same writer (wn)
const earlierProgram = "msg;f@0 1 str 6561726c696572;f@0 2 i64 123456789;flist@0 7;e@1 i32 1;e@1 i32 2;end@1;build@0"

func step(line string) string {
	sp := strings.IndexByte(line, ' ')
	if sp < 0 {
		return "bad-op"
	}
	mode, prog := line[:sp], line[sp+1:]
	var expect string
	haveExpect, validArgs := false, false
	// "x=<walk>" is always the last option and may contain commas
	if i := strings.Index(mode, ",x="); i >= 0 {
		expect, haveExpect = mode[i+3:], true
		mode = mode[:i]
	}
	variant := "w"
	golden, haveGolden := "", false
	for i, m := range strings.Split(mode, ",") {
		switch {
		case i == 0:
			variant = m
		case m == "g":
			validArgs = true
		case strings.HasPrefix(m, "y="):
			golden, haveGolden = m[2:], true
		}
	}
	buf := buffer.New()
	var it *wprog.Interp
	var earlier, earlierCopy []byte
	switch {
	case variant == "w":
		it = wprog.New(buf)
	case strings.HasPrefix(variant, "wp:"):
		p, _ := hx.Unhex(variant[3:])
		buf.Write(p)
		it = wprog.New(buf)
	case variant == "wd":
		p := buf.Grow(4096)
		for i := range p {
			p[i] = 0xAA
		}
		buf.Reset()
		it = wprog.New(buf)
	case variant == "wr":
		w := spec.NewWriterBuffer(buf)
		wprog.NewWith(buf, w).Run(dirtyProgram)
		buf.Reset()
		w.Reset(buf)
		it = wprog.NewWith(buf, w)
	case variant == "wn":
		// a writer with its own buffer that has already built a value; Reset(nil) must give it a new
		// buffer: the bytes returned by the earlier Build stay what they were
		w := spec.NewWriter()
		first := wprog.NewWith(buffer.New(), w).Run(earlierProgram)
		earlier = first.Raw
		earlierCopy = append([]byte(nil), first.Bytes...)
		w.Reset(nil)
		it = wprog.NewWith(buffer.New(), w)
	case variant == "wpool":
		// churn the pools with a failed and a successful use, then take a pooled writer
		for k := 0; k < 3; k++ {
			b2 := buffer.New()
			m := spec.NewMessageWriterBuffer(b2)
			m.Field(1).String("zzzzzzzz")
			if k%2 == 0 {
				m.Field(2).Message().Field(1).Int32(7)
				m.Unwrap().Free()
			} else {
				m.Build()
			}
		}
		w := spec.NewMessageWriterBuffer(buf).Unwrap()
		// the pooled constructor has already begun a root message; undo it through Reset
		w.Reset(buf)
		it = wprog.NewWith(buf, w)
	default:
		return "bad-op"
	}
	res := it.Run(prog)
	var flags []string
	if !bytes.Equal(earlier, earlierCopy) {
		flags = append(flags, "NONDET-EARLIER-RESULT-OVERWRITTEN")
	}
	for _, t := range res.Tokens {
		if t == "p" {
			flags = append(flags, "PANIC")
			break
		}
	}
	if s := stickyViolation(res.Tokens, strings.Split(prog, ";")); s != "" {
		flags = append(flags, "STICKY:"+s)
	}
	out := strings.Join(res.Tokens, " ")
	if !res.Built {
		out += " | - | - | -"
	} else {
		b := res.Bytes
		_, n, err := spec.ParseValue(b)
		var ps string
		if err != nil {
			ps = fmt.Sprintf("err %s %d", hx.ErrClass(err), n)
		} else {
			ps = "ok " + strconv.Itoa(n)
		}
		w := rd.Walk(b, b)
		out += " | " + hx.Hex(b) + " | " + ps + " | " + w
		if validArgs && (err != nil || n != len(b)) {
			flags = append(flags, "GARBAGE")
		}
		if prev, ok := firstBytes[prog]; ok {
			if prev != hx.Hex(b) {
				flags = append(flags, "NONDET")
			}
		} else if len(firstBytes) < 200000 {
			firstBytes[prog] = hx.Hex(b)
		}
		if haveGolden && hx.Hex(b) != golden {
			flags = append(flags, "GOLDEN")
		}
		if haveExpect && w != expect {
			flags = append(flags, "ROUNDTRIP")
		}
		if haveExpect && (err != nil || n != len(b)) {
			flags = append(flags, "ROUNDTRIP-PARSE")
		}
		if haveExpect {
			if bad := cloneCheck(b, w); bad != "" {
				flags = append(flags, "ROUNDTRIP-CLONE:"+bad)
			}
		}
	}
	if haveGolden && !res.Built {
		flags = append(flags, "GOLDEN-NOBUILD")
	}
	if haveExpect && !res.Built {
		flags = append(flags, "ROUNDTRIP-NOBUILD")
	}
	if len(flags) > 0 {
		out += " | " + strings.Join(flags, ",")
	}
	return out
}

// stickyViolation checks the property directly on the tokens: after the first error e<k> (until a
// reset), every later call that reports an error reports the same one (calls through an ended
// message handle report "closed").
func stickyViolation(toks []string, calls []string) string {
	first := ""
	for i, t := range toks {
		op := calls[i]
		if strings.HasPrefix(op, "reset") {
			first = ""
			continue
		}
		isErr := len(t) > 1 && t[0] == 'e' && t[1] >= '0' && t[1] <= '9'
		if first == "" {
			if isErr {
				first = t
			}
			continue
		}
		if isErr && t != first {
			return fmt.Sprintf("call %d reports %s after %s", i, t, first)
		}
		if strings.HasPrefix(t, "ok:") {
			return fmt.Sprintf("call %d built bytes after %s", i, first)
		}
		// a write call must not succeed after the first error
		if t == "ok" && (strings.HasPrefix(op, "f@") || strings.HasPrefix(op, "e@") || strings.HasPrefix(op, "v ") ||
			strings.HasPrefix(op, "fany") || strings.HasPrefix(op, "eany") || strings.HasPrefix(op, "vany") ||
			strings.HasPrefix(op, "copy") || strings.HasPrefix(op, "merge") || strings.HasPrefix(op, "end") ||
			op == "err") {
			return fmt.Sprintf("call %d (%s) succeeded after %s", i, op, first)
		}
	}
	return ""
}

// cloneCheck: every Clone variant of a built message / list is an independent copy that reads as
// the original does (C01: raw copies via Clone).
func cloneCheck(b []byte, want string) (bad string) {
	defer func() {
		if e := recover(); e != nil {
			bad = "panic"
		}
	}()
	orig := append([]byte(nil), b...)
	b = append([]byte(nil), b...) // the source the clones are taken from; scribbled over below
	var clones [][]byte
	var walks []func() string
	switch spec.Value(b).Type() {
	case spec.TypeMessage, spec.TypeBigMessage:
		m := spec.OpenMessage(b)
		pre := buffer.New()
		pre.Write([]byte{1, 2, 3})
		for _, c := range []spec.Message{m.Clone(), m.CloneTo(nil), m.CloneTo(make([]byte, 0, len(b)+17)),
			m.CloneTo(make([]byte, 3)), m.CloneToBuffer(buffer.New()), m.CloneToBuffer(pre)} {
			c := c
			clones = append(clones, c.Raw())
			walks = append(walks, func() string { return rd.WalkMessage(c.Raw(), c) })
		}
	case spec.TypeList, spec.TypeBigList:
		l := spec.OpenList(b)
		for _, c := range []spec.List{l.Clone(), l.CloneTo(nil), l.CloneTo(make([]byte, 0, len(b)+5)), l.CloneTo(make([]byte, 2))} {
			c := c
			clones = append(clones, c.Raw())
			walks = append(walks, func() string { return rd.WalkList(c.Raw(), c) })
		}
	default:
		return ""
	}
	for i, c := range clones {
		if !bytes.Equal(c, orig) {
			return "bytes-differ-" + strconv.Itoa(i)
		}
		if len(c) > 0 && len(b) > 0 && &c[0] == &b[0] {
			return "not-a-copy-" + strconv.Itoa(i)
		}
		if rd.Walk(c, c) != want {
			return "reads-differently-" + strconv.Itoa(i)
		}
	}
	// a clone is independent of its source: it reads the same through the clone object itself
	// after the source bytes have been reused for something else
	for i := range b {
		b[i] = 0xa5
	}
	for i, wf := range walks {
		if wf() != want {
			return "depends-on-its-source-" + strconv.Itoa(i)
		}
	}
	return ""
}
