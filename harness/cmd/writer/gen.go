package main

import (
	"bufio"
	"encoding/json"
	"fmt"
	"os"
	"strconv"
	"strings"

	"github.com/basecomplextech/baselibrary/buffer"
	"verif/harness/internal/hx"
	"verif/harness/internal/tree"
	"verif/harness/internal/wprog"
)

type genState struct {
	out   *bufio.Writer
	r     *hx.Rand
	stats map[string]int
	thor  bool
}

func (g *genState) emit(cat, mode, prog string) {
	g.out.WriteString(mode)
	g.out.WriteByte(' ')
	g.out.WriteString(prog)
	g.out.WriteByte('\n')
	g.stats[cat]++
	g.stats["_lines"]++
}

func genMain(args []string) {
	if len(args) != 4 {
		fmt.Fprintln(os.Stderr, "usage: writer gen <suite> <seed> <tier> <stats.json>")
		os.Exit(2)
	}
	seed, _ := strconv.ParseUint(args[1], 10, 64)
	g := &genState{out: bufio.NewWriterSize(os.Stdout, 1<<20), r: hx.NewRand(seed), stats: map[string]int{}, thor: args[2] == "thorough"}
	switch args[0] {
	case "c01":
		g.genC01()
	case "c08":
		g.genC08()
	case "c12":
		g.genC12()
	case "c16":
		g.genC16()
	case "golden":
		g.genGolden()
	default:
		fmt.Fprintln(os.Stderr, "unknown suite")
		os.Exit(2)
	}
	g.out.Flush()
	js, _ := json.Marshal(g.stats)
	os.WriteFile(args[3], js, 0o644)
}

func (g *genState) treeLine(cat, variant string, t *tree.Node) {
	g.stats["nodes"] += tree.Nodes(t)
	g.emit(cat, variant+",g,x="+tree.Canon(t), tree.Program(t))
}

// small boundary alphabet for the bounded-exhaustive part
func (g *genState) leaves() []*tree.Node {
	mk := func(k string, f func(n *tree.Node)) *tree.Node { n := &tree.Node{Kind: k}; f(n); return n }
	pay := func(n int) []byte { return g.r.Bytes(n) }
	return []*tree.Node{
		mk("bool", func(n *tree.Node) { n.Bool = true }),
		mk("byte", func(n *tree.Node) { n.U = 0xff }),
		mk("i16", func(n *tree.Node) { n.I = -32768 }),
		mk("i32", func(n *tree.Node) { n.I = 126 }),
		mk("i64", func(n *tree.Node) { n.I = -9223372036854775808 }),
		mk("u16", func(n *tree.Node) { n.U = 0xfd }),
		mk("u32", func(n *tree.Node) { n.U = 0x10000 }),
		mk("u64", func(n *tree.Node) { n.U = 0x100000000 }),
		mk("f32", func(n *tree.Node) { n.U = 0x7f800000 }),
		mk("f32", func(n *tree.Node) { n.U = 0x80000000 }), // -0: a value that compares equal to 0
		mk("f64", func(n *tree.Node) { n.U = 0x8000000000000000 }),
		mk("bin64", func(n *tree.Node) { n.Data = pay(8) }),
		mk("bin128", func(n *tree.Node) { n.Data = pay(16) }),
		mk("bin256", func(n *tree.Node) { n.Data = pay(32) }),
		mk("bin64", func(n *tree.Node) { n.Data = make([]byte, 8) }),
		mk("bin128", func(n *tree.Node) { n.Data = make([]byte, 16) }),
		mk("bin256", func(n *tree.Node) { n.Data = make([]byte, 32) }),
		mk("struct", func(n *tree.Node) { n.Data = pay(3) }),
		mk("struct", func(n *tree.Node) { n.Data = pay(253) }),
		mk("bytes", func(n *tree.Node) { n.Data = nil }),
		mk("bytes", func(n *tree.Node) { n.Data = pay(0xfd) }),
		mk("str", func(n *tree.Node) { n.Data = pay(0xfc) }),
		mk("str", func(n *tree.Node) { n.Data = []byte{0, 0xfd, 0} }),
	}
}

func (g *genState) genC01() {
	leaves := g.leaves()
	tags := []uint16{1, 255, 256, 65535}
	// bounded-exhaustive: all trees of <= 3 nodes over the boundary alphabet
	for _, a := range leaves {
		g.treeLine("exh-1", "w", a)
		g.treeLine("exh-2", "w", &tree.Node{Kind: "list", Elems: []*tree.Node{a}})
		for _, t := range tags {
			g.treeLine("exh-2", "w", &tree.Node{Kind: "msg", Tags: []uint16{t}, Fields: []*tree.Node{a}})
		}
	}
	g.treeLine("exh-1", "w", &tree.Node{Kind: "list"})
	g.treeLine("exh-1", "w", &tree.Node{Kind: "msg"})
	for _, a := range leaves {
		for _, b := range leaves {
			g.treeLine("exh-3", "w", &tree.Node{Kind: "list", Elems: []*tree.Node{a, b}})
			g.treeLine("exh-3", "w", &tree.Node{Kind: "list", Elems: []*tree.Node{{Kind: "list", Elems: []*tree.Node{a}}}})
			for i, t1 := range tags {
				for j, t2 := range tags {
					if i == j {
						continue
					}
					g.treeLine("exh-3", "w", &tree.Node{Kind: "msg", Tags: []uint16{t1, t2}, Fields: []*tree.Node{a, b}})
				}
			}
		}
		for _, t := range tags {
			g.treeLine("exh-3", "w", &tree.Node{Kind: "msg", Tags: []uint16{t}, Fields: []*tree.Node{{Kind: "msg", Tags: []uint16{t}, Fields: []*tree.Node{a}}}})
			g.treeLine("exh-3", "w", &tree.Node{Kind: "msg", Tags: []uint16{t}, Fields: []*tree.Node{{Kind: "list", Elems: []*tree.Node{a}}}})
			g.treeLine("exh-3", "w", &tree.Node{Kind: "list", Elems: []*tree.Node{{Kind: "msg", Tags: []uint16{t}, Fields: []*tree.Node{a}}}})
		}
	}
	// random trees, boundary counts/sizes, deep nesting, all permutations of small messages
	n := 1500
	if g.thor {
		n = 40000
	}
	tg := &tree.Gen{R: g.r, MaxDepth: 4, MaxElems: 5, BigProb: 0}
	for i := 0; i < n; i++ {
		tg.BigProb = 0
		if i%40 == 0 {
			tg.BigProb = 3
		}
		g.treeLine("random", "w", tg.Tree(1+g.r.Intn(4)))
	}
	for d := 1; d <= 22; d++ {
		g.treeLine("deep", "w", tg.Deep(d))
	}
	g.boundaryTrees(tg, "w")
	// every permutation of the write order of a 4-field message (5 fields in the thorough tier)
	k := 4
	if g.thor {
		k = 5
	}
	base := tg.Msg(1)
	for len(base.Tags) < k {
		base = tg.Msg(1)
	}
	base.Tags, base.Fields = base.Tags[:k], base.Fields[:k]
	permute(k, func(p []int) {
		m := &tree.Node{Kind: "msg"}
		for _, i := range p {
			m.Tags = append(m.Tags, base.Tags[i])
			m.Fields = append(m.Fields, base.Fields[i])
		}
		g.treeLine("permutation", "w", m)
	})
	// raw copies: Any / Copy / Merge of valid encodings
	for i := 0; i < n/10+20; i++ {
		src := tg.Msg(2)
		res := wprog.New(buffer.New()).Run(tree.Program(src))
		if !res.Built {
			continue
		}
		hexs := hx.Hex(res.Bytes)
		// a message holding the copy as a field, as an element, and merged into a message with other fields
		g.emit("raw-any", "w,g,x={5="+tree.Canon(src)+",}", "msg;fany@0 5 "+hexs+";build@0")
		g.emit("raw-any", "w,g,x=["+tree.Canon(src)+",]", "list;eany@0 "+hexs+";build@0")
		// several raw elements, a field-less message among them (an element like any other)
		g.emit("raw-any", "w,g,x=["+tree.Canon(src)+",{},"+tree.Canon(src)+",]", "list;eany@0 "+hexs+";eany@0 000050;eany@0 "+hexs+";build@0")
		g.emit("raw-any", "w,g,x=[{},"+tree.Canon(src)+",]", "list;eany@0 000050;eany@0 "+hexs+";build@0")
		g.emit("raw-copy", "w,g,x="+tree.Canon(src), "msg;copy@0 "+hexs+";build@0")
		// merge into a message that has written fields of its own (one or several, below and above the
		// source's tags): the written ones win, the others come from the source
		for _, own := range [][]uint16{{1}, {1, 2}, {3, 1, 400}, {2, 7, 9, 300, 5}} {
			dst := &tree.Node{Kind: "msg"}
			prog := "msg"
			for _, t := range own {
				dst.Tags = append(dst.Tags, t)
				dst.Fields = append(dst.Fields, &tree.Node{Kind: "i32", I: int64(t) + 9})
				prog += fmt.Sprintf(";f@0 %d i32 %d", t, int64(t)+9)
			}
			for j, t := range src.Tags {
				dup := false
				for _, o := range own {
					dup = dup || o == t
				}
				if !dup {
					dst.Tags = append(dst.Tags, t)
					dst.Fields = append(dst.Fields, src.Fields[j])
				}
			}
			g.emit("raw-copy", "w,g,x="+tree.Canon(dst), prog+";merge@0 "+hexs+";has@0 1;build@0")
		}
	}
}

func permute(n int, f func([]int)) {
	p := make([]int, n)
	for i := range p {
		p[i] = i
	}
	var rec func(k int)
	rec = func(k int) {
		if k == n {
			f(p)
			return
		}
		for i := k; i < n; i++ {
			p[k], p[i] = p[i], p[k]
			rec(k + 1)
			p[k], p[i] = p[i], p[k]
		}
	}
	rec(0)
}

// genC08: the same programs written four ways (fresh, reused after a failed program, stale buffer
// memory, pooled, non-empty buffer prefix): the bytes must not depend on the way.
func (g *genState) genC08() {
	n := 600
	if g.thor {
		n = 15000
	}
	tg := &tree.Gen{R: g.r, MaxDepth: 4, MaxElems: 5}
	for _, a := range g.leaves() {
		for _, v := range []string{"w", "wr", "wd", "wpool", "wn", "wp:aabbccfdfeff"} {
			g.treeLine("leaf-"+strings.SplitN(v, ":", 2)[0], v, a)
		}
	}
	g.boundaryTrees(tg, "w")
	g.boundaryTrees(tg, "wr")
	for i := 0; i < n; i++ {
		tg.BigProb = 0
		if i%50 == 0 {
			tg.BigProb = 3
		}
		t := tg.Tree(1 + g.r.Intn(4))
		for _, v := range []string{"w", "wr", "wd", "wpool", "wn", "wp:" + hx.Hex(g.r.Bytes(1+g.r.Intn(20)))} {
			g.treeLine("tree-"+strings.SplitN(v, ":", 2)[0], v, t)
		}
	}
}

// genC12: misuse. Programs over the full call alphabet, bounded-exhaustive for short ones.
func (g *genState) genC12() {
	valid := wprog.New(buffer.New()).Run("msg;f@0 1 i32 5;f@0 300 str 6162;build@0")
	vhex := hx.Hex(valid.Bytes)
	alphabet := []string{
		"msg", "list", "v i32 7", "v str 6162", "vany " + vhex, "vbuild",
		"f@0 1 bool true", "f@0 300 i64 -9", "fany@0 2 " + vhex, "fmsg@0 3", "flist@0 4", "has@0 1", "copy@0 " + vhex,
		"e@0 u16 300", "eany@0 " + vhex, "emsg@0", "elist@0", "len@0",
		"end@0", "build@0", "end@1", "build@1", "f@1 1 byte 7", "e@1 bool false", "len@1", "has@1 1",
		"fw@0 5 01 fail", "fw@0 6 01 ok", "ew@0 01 fail", "fw@1 5 01 fail", "ew@1 01 fail",
		"err", "reset", "free",
	}
	// all handle-consistent programs of length <= 4 (quick) / <= 5 on a reduced alphabet (thorough)
	needs := func(op string) (handle int, kind byte) {
		i := strings.IndexByte(op, '@')
		if i < 0 {
			return -1, 0
		}
		j := i + 1
		for j < len(op) && op[j] >= '0' && op[j] <= '9' {
			j++
		}
		h, _ := strconv.Atoi(op[i+1 : j])
		switch op[:i] {
		case "f", "fany", "fmsg", "flist", "has", "copy", "merge", "fw":
			return h, 'M'
		case "e", "eany", "emsg", "elist", "len", "ew":
			return h, 'L'
		}
		return h, '*'
	}
	creates := func(op string) byte {
		switch {
		case op == "msg", strings.HasPrefix(op, "fmsg"), strings.HasPrefix(op, "emsg"):
			return 'M'
		case op == "list", strings.HasPrefix(op, "flist"), strings.HasPrefix(op, "elist"):
			return 'L'
		}
		return 0
	}
	var rec func(prefix []string, kinds []byte, depth int, alpha []string)
	rec = func(prefix []string, kinds []byte, depth int, alpha []string) {
		if len(prefix) > 0 {
			g.emit(fmt.Sprintf("exh-%d", len(prefix)), "w,g", strings.Join(prefix, ";"))
		}
		if depth == 0 {
			return
		}
		for _, a := range alpha {
			h, k := needs(a)
			if h >= 0 && (h >= len(kinds) || (k != '*' && kinds[h] != k)) {
				// the same call on the other kind of handle, when the alphabet has one, is emitted instead
				continue
			}
			nk := kinds
			if c := creates(a); c != 0 {
				nk = append(append([]byte{}, kinds...), c)
			}
			rec(append(append([]string{}, prefix...), a), nk, depth-1, alpha)
		}
	}
	depth := 3
	reduced := []string{"msg", "list", "v i32 7", "f@0 1 bool true", "fmsg@0 3", "flist@0 4", "e@0 u16 300", "emsg@0", "elist@0",
		"end@0", "build@0", "end@1", "build@1", "f@1 1 byte 7", "e@1 bool false", "len@1", "reset", "free", "vbuild",
		"fw@0 5 01 fail", "ew@1 01 fail"}
	rec(nil, nil, depth, alphabet)
	rec(nil, nil, 4, reduced)
	if g.thor {
		rec(nil, nil, 4, alphabet)
		rec(nil, nil, 5, reduced)
	}
	// random long programs: mostly legal nesting with a share of illegal calls
	n := 6000
	if g.thor {
		n = 200000
	}
	for i := 0; i < n; i++ {
		g.emit("random", "w,g", g.randomProgram(vhex))
	}
}

// randomProgram tracks the open containers and emits mostly legal calls; about a quarter of the
// calls are deliberately illegal (wrong handle kind, stale handle, double end, write after end).
func (g *genState) randomProgram(vhex string) string {
	r := g.r
	var calls []string
	type h struct {
		kind byte
		open bool
	}
	var hs []h
	var stack []int
	scal := []string{"bool true", "byte 255", "i16 -300", "i32 70000", "i64 -5000000000", "u16 253", "u32 65536", "u64 4294967296",
		"f32 1065353216", "f64 4607182418800017408", "bin64 0102030405060708", "bytes " + hx.Hex(r.Bytes(r.Intn(6))), "str 616263"}
	n := 3 + r.Intn(38)
	for i := 0; i < n; i++ {
		illegal := r.Intn(4) == 0
		if len(hs) == 0 && !illegal {
			if r.Intn(2) == 0 {
				calls = append(calls, "msg")
				hs = append(hs, h{'M', true})
			} else {
				calls = append(calls, "list")
				hs = append(hs, h{'L', true})
			}
			stack = append(stack, len(hs)-1)
			continue
		}
		if illegal || len(stack) == 0 {
			k := 0
			if len(hs) > 0 {
				k = r.Intn(len(hs))
			}
			switch r.Intn(12) {
			case 0:
				calls = append(calls, fmt.Sprintf("end@%d", k))
			case 1:
				calls = append(calls, fmt.Sprintf("build@%d", k))
			case 2:
				calls = append(calls, "v "+scal[r.Intn(len(scal))])
			case 3:
				calls = append(calls, "vbuild")
			case 4:
				calls = append(calls, "free")
			case 5:
				calls = append(calls, "reset")
				stack = nil
			case 6:
				calls = append(calls, "err")
			case 7:
				if len(hs) > 0 && hs[k].kind == 'M' {
					calls = append(calls, fmt.Sprintf("fw@%d %d 0a0b %s", k, 1+r.Intn(300), []string{"ok", "fail"}[r.Intn(2)]))
				} else if len(hs) > 0 {
					calls = append(calls, fmt.Sprintf("ew@%d 0a0b %s", k, []string{"ok", "fail"}[r.Intn(2)]))
				} else {
					calls = append(calls, "msg")
					hs = append(hs, h{'M', true})
				}
			case 8:
				if len(hs) > 0 && hs[k].kind == 'L' {
					calls = append(calls, fmt.Sprintf("len@%d", k))
				} else if len(hs) > 0 {
					calls = append(calls, fmt.Sprintf("has@%d %d", k, 1+r.Intn(5)))
				} else {
					calls = append(calls, "list")
					hs = append(hs, h{'L', true})
				}
			case 9:
				if len(hs) > 0 && hs[k].kind == 'M' {
					calls = append(calls, fmt.Sprintf("fmsg@%d %d", k, 1+r.Intn(9)))
					hs = append(hs, h{'M', true})
				} else if len(hs) > 0 {
					calls = append(calls, fmt.Sprintf("elist@%d", k))
					hs = append(hs, h{'L', true})
				} else {
					calls = append(calls, "vany "+vhex)
				}
			case 10:
				calls = append(calls, "msg")
				hs = append(hs, h{'M', true})
			default:
				calls = append(calls, "list")
				hs = append(hs, h{'L', true})
			}
			continue
		}
		top := stack[len(stack)-1]
		if hs[top].kind == 'M' {
			switch r.Intn(10) {
			case 0:
				calls = append(calls, fmt.Sprintf("fmsg@%d %d", top, 1+r.Intn(400)))
				hs = append(hs, h{'M', true})
				stack = append(stack, len(hs)-1)
			case 1:
				calls = append(calls, fmt.Sprintf("flist@%d %d", top, 1+r.Intn(400)))
				hs = append(hs, h{'L', true})
				stack = append(stack, len(hs)-1)
			case 2:
				if len(stack) == 1 {
					calls = append(calls, fmt.Sprintf("build@%d", top))
				} else {
					calls = append(calls, fmt.Sprintf("end@%d", top))
				}
				stack = stack[:len(stack)-1]
			case 3:
				calls = append(calls, fmt.Sprintf("fany@%d %d %s", top, 1+r.Intn(400), vhex))
			case 4:
				calls = append(calls, fmt.Sprintf("copy@%d %s", top, vhex))
			case 5:
				calls = append(calls, fmt.Sprintf("has@%d %d", top, 1+r.Intn(5)))
			default:
				calls = append(calls, fmt.Sprintf("f@%d %d %s", top, 1+r.Intn(400), scal[r.Intn(len(scal))]))
			}
		} else {
			switch r.Intn(10) {
			case 0:
				calls = append(calls, fmt.Sprintf("emsg@%d", top))
				hs = append(hs, h{'M', true})
				stack = append(stack, len(hs)-1)
			case 1:
				calls = append(calls, fmt.Sprintf("elist@%d", top))
				hs = append(hs, h{'L', true})
				stack = append(stack, len(hs)-1)
			case 2:
				if len(stack) == 1 {
					calls = append(calls, fmt.Sprintf("build@%d", top))
				} else {
					calls = append(calls, fmt.Sprintf("end@%d", top))
				}
				stack = stack[:len(stack)-1]
			case 3:
				calls = append(calls, fmt.Sprintf("eany@%d %s", top, vhex))
			case 4:
				calls = append(calls, fmt.Sprintf("len@%d", top))
			default:
				calls = append(calls, fmt.Sprintf("e@%d %s", top, scal[r.Intn(len(scal))]))
			}
		}
	}
	return strings.Join(calls, ";")
}

// genC16: schema evolution through the dynamic API. A message is written with tag set A; readers
// with other tag sets are modelled by `has`/walk over the bytes; Copy/Merge through a writer that
// has written a subset of the fields must preserve the others.
func (g *genState) genC16() {
	n := 800
	if g.thor {
		n = 20000
	}
	tg := &tree.Gen{R: g.r, MaxDepth: 2, MaxElems: 6}
	for i := 0; i < n; i++ {
		src := tg.Msg(2)
		if i%4 == 0 {
			// the old data also holds a struct field the new schema does not know (sizes around the
			// varint widths of the struct's size field)
			sizes := []int{0, 1, 8, 252, 253, 254, 300, 1000}
			src.Tags = append(src.Tags, uint16(20000+g.r.Intn(1000)))
			src.Fields = append(src.Fields, &tree.Node{Kind: "struct", Data: g.r.Bytes(sizes[g.r.Intn(len(sizes))])})
		}
		res := wprog.New(buffer.New()).Run(tree.Program(src))
		if !res.Built {
			continue
		}
		hexs := hx.Hex(res.Bytes)
		// the "new schema" writer knows only a subset K of the tags and overrides them before merging
		dst := &tree.Node{Kind: "msg"}
		var pre []string
		for j, t := range src.Tags {
			if g.r.Intn(3) == 0 {
				v := tg.Scalar()
				dst.Tags = append(dst.Tags, t)
				dst.Fields = append(dst.Fields, v)
				pre = append(pre, fmt.Sprintf("f@0 %d %s %s", t, v.Kind, scalarArgOf(v)))
			} else {
				dst.Tags = append(dst.Tags, t)
				dst.Fields = append(dst.Fields, src.Fields[j])
			}
		}
		// plus a field the old data does not have
		if g.r.Intn(2) == 0 {
			v := tg.Scalar()
			dst.Tags = append(dst.Tags, 40000)
			dst.Fields = append(dst.Fields, v)
			pre = append(pre, fmt.Sprintf("f@0 40000 %s %s", v.Kind, scalarArgOf(v)))
		}
		prog := "msg"
		if len(pre) > 0 {
			prog += ";" + strings.Join(pre, ";")
		}
		prog += ";merge@0 " + hexs + ";build@0"
		g.emit("merge-preserves-unknown", "w,g,x="+tree.Canon(dst), prog)
		// the same merge into a nested message: under a parent that has already written fields of
		// its own (the parent's table entries precede the nested message's in the writer), and as an
		// element of a list
		pre1 := make([]string, len(pre))
		for j, c := range pre {
			pre1[j] = strings.Replace(c, "f@0 ", "f@1 ", 1)
		}
		outer := &tree.Node{Kind: "msg"}
		nested := "msg"
		for k, nk := 0, 1+g.r.Intn(3); k < nk; k++ {
			v := tg.Scalar()
			t := uint16(1 + k + g.r.Intn(2)*300)
			outer.Tags = append(outer.Tags, t)
			outer.Fields = append(outer.Fields, v)
			nested += fmt.Sprintf(";f@0 %d %s %s", t, v.Kind, scalarArgOf(v))
		}
		outer.Tags = append(outer.Tags, 7000)
		outer.Fields = append(outer.Fields, dst)
		nested += ";fmsg@0 7000"
		if len(pre1) > 0 {
			nested += ";" + strings.Join(pre1, ";")
		}
		nested += ";merge@1 " + hexs + ";end@1;build@0"
		g.emit("merge-nested-field", "w,g,x="+tree.Canon(outer), nested)
		inList := "list;e@0 i32 5;emsg@0"
		if len(pre1) > 0 {
			inList += ";" + strings.Join(pre1, ";")
		}
		inList += ";merge@1 " + hexs + ";end@1;build@0"
		g.emit("merge-nested-element", "w,g,x="+tree.Canon(&tree.Node{Kind: "list", Elems: []*tree.Node{{Kind: "i32", I: 5}, dst}}), inList)
		// reorder / remove: writing the surviving fields in another order gives the same reading
		perm := append([]uint16{}, src.Tags...)
		m2 := &tree.Node{Kind: "msg"}
		for len(perm) > 0 {
			k := g.r.Intn(len(perm))
			for j, t := range src.Tags {
				if t == perm[k] && g.r.Intn(5) != 0 {
					m2.Tags = append(m2.Tags, t)
					m2.Fields = append(m2.Fields, src.Fields[j])
				}
			}
			perm = append(perm[:k], perm[k+1:]...)
		}
		g.treeLine("reorder-remove", "w", m2)
	}
}

func scalarArgOf(n *tree.Node) string {
	switch n.Kind {
	case "bool":
		return fmt.Sprint(n.Bool)
	case "i16", "i32", "i64":
		return fmt.Sprint(n.I)
	case "byte", "u16", "u32", "u64", "f32", "f64":
		return fmt.Sprint(n.U)
	}
	return hx.Hex(n.Data)
}

// genGolden replays the frozen corpus captured at the pinned commit (/verif/golden/c08.txt:
// "<program>\t<hex>" per line): the bytes must be the same today.
func (g *genState) genGolden() {
	path := os.Getenv("VERIF_GOLDEN")
	if path == "" {
		path = "/verif/golden/c08.txt"
	}
	f, err := os.Open(path)
	if err != nil {
		fmt.Fprintln(os.Stderr, "golden corpus missing:", err)
		os.Exit(2)
	}
	defer f.Close()
	sc := bufio.NewScanner(f)
	sc.Buffer(make([]byte, 1<<20), 1<<24)
	for sc.Scan() {
		parts := strings.SplitN(sc.Text(), "\t", 2)
		if len(parts) != 2 {
			continue
		}
		g.emit("golden", "w,g,y="+parts[1], parts[0])
	}
}

// boundaryTrees emits the trees that sit on the size-class boundaries: offsets around 65535/65536
// (fields written in ascending and descending tag order), 14/15 levels, 48/49 and 255/256 entries.
func (g *genState) boundaryTrees(tg *tree.Gen, variant string) {
	// offsets straddling 65535/65536: two payloads around the boundary
	for _, s1 := range []int{65520, 65530, 65531, 65532, 65533, 65534, 65535, 65536, 65540} {
		a := &tree.Node{Kind: "bytes", Data: g.r.Bytes(s1)}
		b := &tree.Node{Kind: "byte", U: 7}
		g.treeLine("offset-boundary", variant, &tree.Node{Kind: "list", Elems: []*tree.Node{a, b}})
		g.treeLine("offset-boundary", variant, &tree.Node{Kind: "msg", Tags: []uint16{2, 1}, Fields: []*tree.Node{a, b}})
	}
	// total body size of exactly 65534/65535/65536/65537 bytes with one and with two entries (a bytes
	// value of L >= 253 bytes takes L+4): the table form depends on the entries' offsets only
	for _, s1 := range []int{65529, 65530, 65531, 65532, 65533} {
		a := &tree.Node{Kind: "bytes", Data: g.r.Bytes(s1)}
		g.treeLine("size-boundary", variant, &tree.Node{Kind: "list", Elems: []*tree.Node{a}})
		g.treeLine("size-boundary", variant, &tree.Node{Kind: "msg", Tags: []uint16{1}, Fields: []*tree.Node{a}})
		g.treeLine("size-boundary", variant, &tree.Node{Kind: "msg", Tags: []uint16{255}, Fields: []*tree.Node{a}})
		c := &tree.Node{Kind: "bytes", Data: g.r.Bytes(s1 - 2)}
		t := &tree.Node{Kind: "bool", Bool: true}
		g.treeLine("size-boundary", variant, &tree.Node{Kind: "list", Elems: []*tree.Node{t, c, t}})
		g.treeLine("size-boundary", variant, &tree.Node{Kind: "msg", Tags: []uint16{3, 1, 2}, Fields: []*tree.Node{t, c, t}})
	}
	for _, c := range []int{14, 15, 47, 48, 49, 50, 254, 255, 256, 257} {
		l := &tree.Node{Kind: "list"}
		m := &tree.Node{Kind: "msg"}
		for i := 0; i < c; i++ {
			l.Elems = append(l.Elems, tg.Scalar())
			m.Tags = append(m.Tags, uint16(c-i))
			m.Fields = append(m.Fields, tg.Scalar())
		}
		g.treeLine("count-boundary", variant, l)
		g.treeLine("count-boundary", variant, m)
	}
	// compact big-form cases (also part of the golden corpus): 256 one-byte elements, tag 256
	l := &tree.Node{Kind: "list"}
	for i := 0; i < 256; i++ {
		l.Elems = append(l.Elems, &tree.Node{Kind: "bool", Bool: i%3 == 0})
	}
	g.treeLine("compact-big", variant, l)
	g.treeLine("compact-big", variant, &tree.Node{Kind: "list", Elems: l.Elems[:255]})
	g.treeLine("compact-big", variant, &tree.Node{Kind: "msg", Tags: []uint16{256, 1}, Fields: []*tree.Node{{Kind: "byte", U: 9}, {Kind: "bool", Bool: true}}})
	g.treeLine("compact-big", variant, &tree.Node{Kind: "msg", Tags: []uint16{255, 1}, Fields: []*tree.Node{{Kind: "byte", U: 9}, {Kind: "bool", Bool: true}}})
	g.treeLine("compact-big", variant, &tree.Node{Kind: "msg", Tags: []uint16{65535, 300, 2}, Fields: []*tree.Node{{Kind: "i32", I: -7}, {Kind: "str", Data: []byte("big")}, {Kind: "u64", U: 1 << 40}}})
}
