package main

import (
	"fmt"
	"time"

	"github.com/basecomplextech/baselibrary/async"
	"github.com/basecomplextech/baselibrary/ref"
	"github.com/basecomplextech/baselibrary/status"
	"github.com/basecomplextech/spec/proto/prpc"
	"github.com/basecomplextech/spec/rpc"
	"verif/harness/internal/caplog"
)

func probeRequest(method string) prpc.Request {
	w := prpc.NewRequestWriter()
	calls := w.Calls()
	c := calls.Add()
	c.Method(method)
	in := c.Input()
	in.Field(1).Uint64(1)
	if in.End() != nil || c.End() != nil || calls.End() != nil {
		fail("probe request build")
	}
	r, err := w.Build()
	if err != nil {
		fail("probe request build: %v", err)
	}
	return r
}

// runStaleProbe shows, step by step, how the receive of a freed channel takes the wake-up of a
// live call. Receive (rpc and mpx) is the loop `wait := ReceiveWait(); poll ReceiveAsync; block on
// wait`, and it holds no reference while it blocks, so a concurrent Free returns the channel state
// to its pool; the Go channel that ReceiveWait handed out belongs to the pooled receive queue and
// becomes the wait channel of the next channel that takes the state from the pool. The probe
// performs the first two steps of the loop on channels A (public methods), frees them, opens
// channels B, and lets one goroutine do the third step (block on the wait channel of a freed A)
// before a live B blocks in the library's Receive. The handler of B sends one message and answers
// only after B's caller has replied to it: when the wake-up goes to the waiter of A, B's Receive
// sleeps although its message is pending, and the call never completes.
func runStaleProbe(s *scenario) (line string, viol []string, detail []string) {
	began := time.Now()
	handle := func(ctx rpc.Context, ch rpc.ServerChannel) (ref.R[[]byte], status.Status) {
		req, st := ch.Request(ctx)
		if !st.OK() {
			return nil, st
		}
		if req.Calls().Get(0).Method().Unwrap() == "a" {
			ch.Receive(ctx) // until the caller frees the channel
			return nil, status.OK
		}
		time.Sleep(300 * time.Millisecond)
		if st := ch.Send(ctx, []byte("hello")); !st.OK() {
			return nil, st
		}
		if _, st := ch.Receive(ctx); !st.OK() { // the caller's reply
			return nil, st
		}
		return nil, status.OK
	}
	slg, clg := caplog.New(), caplog.New()
	o := rpc.Default()
	o.ClientDialTimeout = 10 * time.Second
	srv := rpc.NewServer("127.0.0.1:0", rpc.HandleFunc(handle), slg, o)
	if st := srv.Start(); !st.OK() {
		fail("server start: %v", st)
	}
	select {
	case <-srv.Listening().Wait():
	case <-time.After(3 * time.Second):
		fail("server did not start listening")
	}
	cl := rpc.NewClient(srv.Address(), rpc.ClientMode_OnDemand, clg, o)
	ctx := async.NoContext()

	const n = 64
	stale := map[<-chan struct{}]bool{}
	var as, bs []rpc.Channel
	for i := 0; i < n; i++ {
		ch, st := cl.Channel(ctx, probeRequest("a"))
		if !st.OK() {
			fail("probe channel: %v", st)
		}
		as = append(as, ch)
	}
	for _, ch := range as {
		wait := ch.ReceiveWait()
		if _, ok, st := ch.ReceiveAsync(ctx); ok || !st.OK() {
			viol = append(viol, "probe-unexpected-message")
		}
		stale[wait] = true
		ch.Free()
	}
	time.Sleep(200 * time.Millisecond) // the close frames leave, the states return to the pool

	shared := 0
	var victim rpc.Channel
	var victimWait <-chan struct{}
	for i := 0; i < n; i++ {
		ch, st := cl.Channel(ctx, probeRequest("b"))
		if !st.OK() {
			fail("probe channel: %v", st)
		}
		bs = append(bs, ch)
		if wait := ch.ReceiveWait(); stale[wait] {
			shared++
			if victim == nil {
				victim, victimWait = ch, wait
			}
		}
	}

	live, waiter := "none", "none"
	if victim != nil {
		woke := make(chan struct{})
		go func() { <-victimWait; close(woke) }() // third step of the Receive of the freed channel
		time.Sleep(50 * time.Millisecond)

		got := make(chan string, 1)
		go func() {
			tctx := async.TimeoutContext(4 * time.Second)
			defer tctx.Free()
			b, st := victim.Receive(tctx)
			if !st.OK() {
				got <- "slept:" + stcode(st)
				return
			}
			victim.Send(tctx, []byte("reply"))
			_, st = victim.Response(tctx)
			got <- fmt.Sprintf("received-%s-response-%s", b, stcode(st))
		}()
		select {
		case live = <-got:
		case <-time.After(8 * time.Second):
			live = "hung"
		}
		select {
		case <-woke:
			waiter = "woken"
		default:
			waiter = "asleep"
		}
		if live != "received-hello-response-ok" {
			viol = append(viol, "live-call-slept-with-message-pending:wakeup-taken-by-receive-of-freed-channel:live="+live+"-waiter="+waiter)
		}
	}
	for _, ch := range bs {
		ch.Free()
	}
	cl.Close()
	select {
	case <-srv.Stop():
	case <-time.After(3 * time.Second):
	}
	viol = append(viol, panicsOf(slg, "server")...)
	viol = append(viol, panicsOf(clg, "client")...)
	line = fmt.Sprintf("mode=staleprobe channels=%d waitChannelsSharedWithFreed=%d live=%s waiterOfFreed=%s ms=%d",
		n, shared, live, waiter, time.Since(began).Milliseconds())
	return line, viol, nil
}
