package main

import (
	"net"
	"sync"
	"sync/atomic"
	"time"
)

// Kill modes of a proxied connection.
const (
	killClose = iota // close both sockets
	killRST          // reset both sockets
	killHalf         // shut down the write side towards one peer, the rest follows the peers
	numKillModes
)

// cutSpec plans a cut of an accepted connection after k bytes in one direction.
type cutSpec struct {
	on   bool
	dir  int
	k    int64
	mode int
}

// proxy is a small TCP proxy that can cut its connections.
type proxy struct {
	ln     net.Listener
	target string

	mu    sync.Mutex
	links []*plink
	cuts  []cutSpec // plans of the next accepted connections
	cutN  atomic.Int32
}

func newProxy(target string) (*proxy, error) {
	ln, err := net.Listen("tcp", "127.0.0.1:0")
	if err != nil {
		return nil, err
	}
	p := &proxy{ln: ln, target: target}
	go p.serve()
	return p, nil
}

func (p *proxy) addr() string { return p.ln.Addr().String() }

func (p *proxy) serve() {
	for {
		c, err := p.ln.Accept()
		if err != nil {
			return
		}
		s, err := net.DialTimeout("tcp", p.target, 2*time.Second)
		if err != nil {
			c.Close()
			continue
		}
		l := &plink{p: p, c: c.(*net.TCPConn), s: s.(*net.TCPConn)}
		p.mu.Lock()
		if len(p.cuts) > 0 {
			l.cut = p.cuts[0]
			p.cuts = p.cuts[1:]
		}
		p.links = append(p.links, l)
		p.mu.Unlock()
		go l.pump(dirC2S, l.c, l.s)
		go l.pump(dirS2C, l.s, l.c)
	}
}

func (p *proxy) live() []*plink {
	p.mu.Lock()
	defer p.mu.Unlock()
	var res []*plink
	for _, l := range p.links {
		if !l.dead.Load() {
			res = append(res, l)
		}
	}
	return res
}

func (p *proxy) accepted() int {
	p.mu.Lock()
	defer p.mu.Unlock()
	return len(p.links)
}

func (p *proxy) close() {
	p.ln.Close()
	p.mu.Lock()
	links := p.links
	p.mu.Unlock()
	for _, l := range links {
		l.kill(killClose, dirC2S)
	}
}

type plink struct {
	p    *proxy
	c, s *net.TCPConn
	cut  cutSpec
	n    [2]atomic.Int64
	once sync.Once
	dead atomic.Bool
}

func (l *plink) pump(dir int, src, dst *net.TCPConn) {
	buf := make([]byte, 16<<10)
	for {
		n, err := src.Read(buf)
		if n > 0 {
			chunk := buf[:n]
			cutNow := false
			if l.cut.on && l.cut.dir == dir {
				if rem := l.cut.k - l.n[dir].Load(); rem <= int64(n) {
					if rem < 0 {
						rem = 0
					}
					chunk, cutNow = chunk[:rem], true
				}
			}
			if len(chunk) > 0 {
				if _, werr := dst.Write(chunk); werr != nil {
					err = werr
				}
				l.n[dir].Add(int64(len(chunk)))
			}
			if cutNow {
				l.p.cutN.Add(1)
				l.kill(l.cut.mode, dir)
				if l.cut.mode == killHalf {
					// keep draining so that the sender is not blocked by the proxy
					for {
						if _, err := src.Read(buf); err != nil {
							break
						}
					}
					l.kill(killClose, dir)
				}
				return
			}
		}
		if err != nil {
			l.kill(killClose, dir)
			return
		}
	}
}

// kill cuts the link; dir selects the direction that is shut down in half mode.
func (l *plink) kill(mode, dir int) {
	if mode == killHalf {
		if dir == dirC2S {
			l.s.CloseWrite()
		} else {
			l.c.CloseWrite()
		}
		return
	}
	l.once.Do(func() {
		l.dead.Store(true)
		if mode == killRST {
			l.c.SetLinger(0)
			l.s.SetLinger(0)
		}
		l.c.Close()
		l.s.Close()
	})
}
