package main

import (
	"bytes"
	"fmt"
	"strings"
	"sync"
	"sync/atomic"
	"time"

	"github.com/basecomplextech/baselibrary/async"
	"github.com/basecomplextech/baselibrary/status"
	"github.com/basecomplextech/spec/mpx"
	"github.com/basecomplextech/spec/proto/prpc"
	"github.com/basecomplextech/spec/rpc"
	"verif/harness/internal/caplog"
	"verif/harness/internal/hx"
)

// Reply variants of the evil server. The first group are well-formed replies (controls), the rest
// are malformed: the caller must observe a non-OK status and no result.
const (
	evOK            = iota // well-formed OK response with a result
	evFail                 // well-formed response with an application status
	evOKAsData             // well-formed OK response sent as a data frame, then a plain close
	evMidGarbage           // stream: a garbage frame in the middle, then a well-formed OK response (either outcome)
	evFirstBad             // --- malformed from here on
	evGarbage       = iota - 1
	evTruncated     // prefix of a well-formed OK response
	evTrailing      // well-formed OK response followed by ff ff ff
	evTypeRequest   // the request message echoed back
	evTypeUnknown   // message of an unknown type that carries an OK response
	evTypeUndefined // message of type 0 that carries an OK response
	evNoResp        // type Response without the response field
	evNoStatus      // response with a result but without a status
	evRespIsString  // the response field holds a string instead of a message
	evCloseOnly     // close without any data
	evMessageLast   // a stream message as the last frame
	evEndLast       // an end message as the last frame
	numEvil
)

var evilNames = [...]string{"ok", "fail", "okdata", "midgarbage", "garbage", "truncated", "trailing", "typereq",
	"typeunknown", "typeundef", "noresp", "nostatus", "respstring", "closeonly", "msglast", "endlast"}

type evilPlan struct {
	id      uint64
	variant int
	stream  bool // the caller uses Channel/Receive/Response
	nMsgs   int  // well-formed stream messages before the last frame
	resLen  int
	code    string
	msg     string
	seed    uint64
	delayUs int
	p       plan // carrier of id/sizeSeed for streamMsg
}

func (e *evilPlan) encode() []byte {
	x := &enc{}
	x.u(e.id)
	x.i(e.variant)
	x.f(e.stream)
	x.i(e.nMsgs)
	x.i(e.resLen)
	x.s(e.code)
	x.s(e.msg)
	x.u(e.seed)
	x.i(e.delayUs)
	return x.b
}

func decodeEvil(b []byte) (*evilPlan, bool) {
	d := &dec{b: b}
	e := &evilPlan{}
	e.id = d.u()
	e.variant = d.i()
	e.stream = d.f()
	e.nMsgs = d.i()
	e.resLen = d.i()
	e.code = d.s()
	e.msg = d.s()
	e.seed = d.u()
	e.delayUs = d.i()
	if d.bad || len(d.b) != 0 || e.variant < 0 || e.variant >= numEvil {
		return nil, false
	}
	e.p = plan{id: e.id, sizeSeed: e.seed}
	return e, true
}

func rawMessage(build func(w prpc.MessageWriter) error) []byte {
	w := prpc.NewMessageWriter()
	if err := build(w); err != nil {
		fail("evil message: %v", err)
	}
	m, err := w.Build()
	if err != nil {
		fail("evil message: %v", err)
	}
	return append([]byte{}, m.Unwrap().Raw()...)
}

func rawResponse(typ prpc.MessageType, code, msg string, result []byte, withStatus bool) []byte {
	return rawMessage(func(w prpc.MessageWriter) error {
		w.Type(typ)
		w1 := w.Resp()
		if withStatus {
			w2 := w1.Status()
			w2.Code(code)
			w2.Message(msg)
			if err := w2.End(); err != nil {
				return err
			}
		}
		if result != nil {
			if err := w1.Result().Any(result); err != nil {
				return err
			}
		}
		return w1.End()
	})
}

func rawStreamMsg(data []byte) []byte {
	return rawMessage(func(w prpc.MessageWriter) error {
		w.Type(prpc.MessageType_Message)
		w.Msg(data)
		return nil
	})
}

type evilRec struct {
	mu       sync.Mutex
	inv      int
	sendErr  string
	finished bool

	respSet  bool
	code     string
	msg      string
	result   []byte
	recv     [][]byte
	recvSt   string
	hung     bool
	panicked string
	done     bool
}

type evilWorld struct {
	plans map[uint64]*evilPlan
	recs  map[uint64]*evilRec
	mu    sync.Mutex
	notes []string
}

func (w *evilWorld) note(s string) {
	w.mu.Lock()
	if len(w.notes) < 50 {
		w.notes = append(w.notes, s)
	}
	w.mu.Unlock()
}

func (w *evilWorld) handle(ctx mpx.Context, ch mpx.Channel) status.Status {
	b, st := ch.Receive(ctx)
	if !st.OK() {
		w.note("evil-handler-receive:" + stcode(st))
		return status.OK
	}
	reqBytes := append([]byte{}, b...)
	msg, _, err := prpc.ParseMessage(reqBytes)
	if err != nil || msg.Type() != prpc.MessageType_Request || msg.Req().Calls().Len() == 0 {
		w.note("evil-handler-bad-request")
		return status.OK
	}
	in := msg.Req().Calls().Get(0).Input()
	id := in.Uint64(1)
	e, ok := decodeEvil(in.Bytes(2))
	rec := w.recs[id]
	if !ok || rec == nil || !bytes.Equal(w.plans[id].encode(), in.Bytes(2)) {
		w.note("evil-handler-request-differs")
		return status.OK
	}
	rec.mu.Lock()
	rec.inv++
	rec.mu.Unlock()
	defer func() {
		rec.mu.Lock()
		rec.finished = true
		rec.mu.Unlock()
	}()
	fails := func(st status.Status) bool {
		if st.OK() {
			return false
		}
		rec.mu.Lock()
		rec.sendErr = stcode(st)
		rec.mu.Unlock()
		return true
	}

	r := hx.NewRand(e.seed)
	var buf []byte
	for i := 0; i < e.nMsgs; i++ {
		if e.variant == evMidGarbage && i == e.nMsgs/2 {
			if fails(ch.Send(ctx, r.Bytes(1+r.Intn(40)))) {
				return status.OK
			}
		}
		buf = streamMsg(buf, &e.p, dirS2C, i)
		if fails(ch.Send(ctx, rawStreamMsg(buf))) {
			return status.OK
		}
	}
	sleepUs(e.delayUs)

	okResp := rawResponse(prpc.MessageType_Response, "ok", "", resultValue(e.id, e.resLen), true)
	var last []byte
	switch e.variant {
	case evOK, evMidGarbage:
		last = okResp
	case evFail:
		last = rawResponse(prpc.MessageType_Response, e.code, e.msg, nil, true)
	case evOKAsData:
		if fails(ch.Send(ctx, okResp)) {
			return status.OK
		}
		return status.OK // the channel is closed without data when the handler returns
	case evGarbage:
		last = r.Bytes(1 + r.Intn(200))
	case evTruncated:
		last = okResp[:1+r.Intn(len(okResp)-1)]
	case evTrailing:
		last = append(append([]byte{}, okResp...), 0xff, 0xff, 0xff)
	case evTypeRequest:
		last = reqBytes
	case evTypeUnknown:
		last = rawResponse(prpc.MessageType(7+r.Intn(100)), "ok", "", resultValue(e.id, e.resLen), true)
	case evTypeUndefined:
		last = rawResponse(prpc.MessageType_Undefined, "ok", "", resultValue(e.id, e.resLen), true)
	case evNoResp:
		last = rawMessage(func(w prpc.MessageWriter) error { w.Type(prpc.MessageType_Response); return nil })
	case evNoStatus:
		last = rawResponse(prpc.MessageType_Response, "", "", resultValue(e.id, e.resLen), false)
	case evRespIsString:
		last = rawMessage(func(w prpc.MessageWriter) error {
			w.Type(prpc.MessageType_Response)
			return w.Unwrap().Field(3).String("ok")
		})
	case evCloseOnly:
		return status.OK
	case evMessageLast:
		last = rawStreamMsg(streamMsg(nil, &e.p, dirS2C, e.nMsgs))
	case evEndLast:
		last = rawMessage(func(w prpc.MessageWriter) error { w.Type(prpc.MessageType_End); return nil })
	}
	fails(ch.SendAndClose(ctx, last))
	return status.OK
}

func (w *evilWorld) call(cl rpc.Client, e *evilPlan, t timeouts) {
	rec := w.recs[e.id]
	defer func() {
		if x := recover(); x != nil {
			rec.mu.Lock()
			rec.panicked = fmt.Sprint(x)
			rec.mu.Unlock()
		}
		rec.mu.Lock()
		rec.done = true
		rec.mu.Unlock()
		tick()
	}()
	rw := prpc.NewRequestWriter()
	calls := rw.Calls()
	c := calls.Add()
	c.Method("evil")
	in := c.Input()
	in.Field(1).Uint64(e.id)
	in.Field(2).Bytes(e.encode())
	if in.End() != nil || c.End() != nil || calls.End() != nil {
		fail("evil request build")
	}
	req, err := rw.Build()
	if err != nil {
		fail("evil request build: %v", err)
	}

	ctx := async.NewContext()
	defer ctx.Free()
	stopWatch := watchCall(t, func() {
		rec.mu.Lock()
		hung := !rec.done
		rec.hung = rec.hung || hung
		rec.mu.Unlock()
		if hung {
			ctx.Cancel()
		}
	})
	defer stopWatch()

	set := func(v []byte, st status.Status) {
		rec.mu.Lock()
		rec.respSet, rec.code, rec.msg, rec.result = true, string(st.Code), st.Message, append([]byte{}, v...)
		rec.mu.Unlock()
	}
	if !e.stream {
		v, st := cl.Request(ctx, req)
		var b []byte
		if v != nil {
			b = v.Unwrap()
			defer v.Release()
		}
		set(b, st)
		return
	}
	ch, st := cl.Channel(ctx, req)
	if !st.OK() {
		set(nil, st)
		return
	}
	defer ch.Free()
	for i := 0; i < e.nMsgs+3; i++ {
		b, st := ch.Receive(ctx)
		if !st.OK() {
			rec.mu.Lock()
			rec.recvSt = stcode(st)
			rec.mu.Unlock()
			break
		}
		rec.mu.Lock()
		rec.recv = append(rec.recv, append([]byte{}, b...))
		rec.mu.Unlock()
		tick()
	}
	v, st := ch.Response(ctx)
	set(v, st)
}

func runEvil(s *scenario, r *hx.Rand, cfg runCfg, derived uint64) (line string, viol []string, detail []string) {
	began := time.Now()
	w := &evilWorld{plans: map[uint64]*evilPlan{}, recs: map[uint64]*evilRec{}}
	var order []*evilPlan
	var counts [numEvil]int
	for i := 0; i < cfg.n; i++ {
		e := &evilPlan{id: derived<<20 | uint64(i+1), seed: r.U64()}
		if r.Intn(3) == 0 {
			e.variant = r.Intn(evFirstBad) // control
		} else {
			e.variant = evFirstBad + r.Intn(numEvil-evFirstBad)
		}
		e.stream = r.Intn(2) == 0
		if e.variant == evMidGarbage {
			e.stream = true
		}
		if e.stream {
			e.nMsgs = r.Intn(6)
			if e.variant == evMidGarbage {
				e.nMsgs = 2 + r.Intn(5)
			}
		}
		e.resLen = 8 + r.Intn(200)
		e.code = genCode(r)
		e.msg = marker(e.id) + genText(r)
		e.delayUs = genDelay(r, cfg.gen.maxDelayUs)
		e.p = plan{id: e.id, sizeSeed: e.seed}
		w.plans[e.id] = e
		w.recs[e.id] = &evilRec{}
		order = append(order, e)
		counts[e.variant]++
	}

	slg, clg := caplog.New(), caplog.New()
	srv := mpx.NewServer("127.0.0.1:0", mpx.HandleFunc(w.handle), slg, cfg.options())
	if st := srv.Start(); !st.OK() {
		fail("evil server start: %v", st)
	}
	select {
	case <-srv.Listening().Wait():
	case <-time.After(3 * time.Second):
		fail("evil server did not start listening")
	}
	cl := rpc.NewClient(srv.Address(), rpc.ClientMode_OnDemand, clg, cfg.options())
	mpx.VerifSetYield(derived, cfg.yieldProb, cfg.yieldNs)

	var next atomic.Int32
	var wg sync.WaitGroup
	for gi := 0; gi < cfg.g; gi++ {
		wg.Add(1)
		go func() {
			defer wg.Done()
			for {
				i := int(next.Add(1)) - 1
				if i >= len(order) {
					return
				}
				w.call(cl, order[i], s.timeouts())
			}
		}()
	}
	done := make(chan struct{})
	go func() { wg.Wait(); close(done) }()
	select {
	case <-done:
	case <-time.After(s.timeouts().hard + 4*time.Second):
		viol = append(viol, "evil-traffic-hung")
	}
	mpx.VerifSetYield(0, 0, 0)
	cl.Close()
	select {
	case <-srv.Stop():
	case <-time.After(3 * time.Second):
		viol = append(viol, "evil-server-stop-hung")
	}

	// check
	nOK, nBad := 0, 0
	for _, e := range order {
		rec := w.recs[e.id]
		rec.mu.Lock()
		var v []string
		add := func(format string, a ...any) { v = append(v, fmt.Sprintf(format, a...)) }
		name := evilNames[e.variant]
		if rec.hung || !rec.done {
			add("evil-call-hung:%s", name)
		}
		if rec.panicked != "" {
			add("library-panic-in-client-call:evil-%s:%s", name, rec.panicked)
		}
		if rec.inv != 1 && !rec.hung {
			add("evil-handler-invoked-%d-times:%s", rec.inv, name)
		}
		var buf []byte
		for i, m := range rec.recv {
			buf = streamMsg(buf, &e.p, dirS2C, i)
			limit := e.nMsgs
			if e.variant == evMessageLast {
				limit++
			}
			if i >= limit || !bytes.Equal(buf, m) {
				add("evil-stream-mismatch:%s:i%d-got-%s", name, i, msgOwner(m))
				break
			}
		}
		wantResult := resultValue(e.id, e.resLen)
		malformed := e.variant >= evFirstBad || (sabotage == "evil" && e.variant == evOK)
		gotOK := rec.respSet && rec.code == "ok"
		switch {
		case !rec.respSet:
		case malformed:
			nBad++
			if gotOK {
				add("malformed-reply-observed-as-ok:%s", name)
			}
			if len(rec.result) != 0 {
				add("malformed-reply-yields-result:%s", name)
			}
			if id, ok := markerID(rec.msg); ok && id != e.id {
				add("status-of-another-call-observed:evil-%s", name)
			}
		case e.variant == evMidGarbage:
			if gotOK && !bytes.Equal(rec.result, wantResult) {
				add("result-mismatch:evil-%s", name)
			}
		case e.variant == evFail:
			nOK++
			if rec.code != e.code || rec.msg != e.msg {
				add("evil-control-status-mismatch:%s:got=%q/%q-want=%q", name, rec.code, short(rec.msg), e.code)
			}
		default:
			nOK++
			if !gotOK {
				add("evil-control-call-failed:%s:got=%q/%q", name, rec.code, short(rec.msg))
			} else if !bytes.Equal(rec.result, wantResult) {
				add("result-mismatch:evil-%s", name)
			}
			if e.stream && len(rec.recv) != e.nMsgs {
				add("evil-control-stream-received-%d-of-%d:%s", len(rec.recv), e.nMsgs, name)
			}
		}
		if len(v) > 0 && len(detail) < 20 {
			detail = append(detail, fmt.Sprintf("id=%d variant=%s stream=%v nmsgs=%d resp=%v code=%q msg=%q res=%d recv=%d recvSt=%s inv=%d sendErr=%s viol=%s",
				e.id, name, e.stream, e.nMsgs, rec.respSet, rec.code, short(rec.msg), len(rec.result), len(rec.recv), rec.recvSt, rec.inv, rec.sendErr, strings.Join(v, ",")))
		}
		viol = append(viol, v...)
		rec.mu.Unlock()
	}
	w.mu.Lock()
	viol = append(viol, w.notes...)
	w.mu.Unlock()
	viol = append(viol, panicsOf(slg, "server")...)
	viol = append(viol, panicsOf(clg, "client")...)

	var vs []string
	for i, n := range counts {
		if n > 0 {
			vs = append(vs, fmt.Sprintf("%s:%d", evilNames[i], n))
		}
	}
	line = fmt.Sprintf("mode=evil yield=%d/%dus mc=%d cch=%d comp=%v g=%d n=%d variants=%s controls=%d malformed=%d ms=%d",
		cfg.yieldProb, cfg.yieldNs/time.Microsecond, cfg.maxConns, cfg.connChans, cfg.compress, cfg.g, cfg.n,
		strings.Join(vs, ","), nOK, nBad, time.Since(began).Milliseconds())
	return line, viol, detail
}
