// Command rpcscen runs the rpc call-history scenario (property C04: every RPC call gets its own
// handler run, result and status) against the real rpc package.
//
//	rpcscen <c04|c04free> <seed> <quick|thorough> [only=<run>] [verbose]
//
// Every run starts an rpc server on 127.0.0.1:0 whose handler takes its behaviour from the request
// payload, and an rpc client with 1..4 connections; G goroutines issue N concurrent calls of mixed
// kinds (unary, oneway, client-streaming, server-streaming, bidirectional), each carrying a unique
// call id. Both sides record a history per call id, which is checked against the sequential
// specification of the call (see check.go). Run modes: plain, seeded yields inside mpx, connection
// kills (client side, through a TCP proxy, server stop, client close) and an "evil" mode in which a
// raw mpx server answers with malformed replies.
//
// Scenario c04free is c04 plus callers that free a channel while another goroutine of the caller
// is blocked in Receive on it (the rpc channel is reference counted for exactly that), preceded by
// a deterministic probe (run 0, see stale.go) of what that can do to OTHER calls: the channel that
// ReceiveWait hands out belongs to a pooled queue and is reused by the next channel, so a waiter of
// the freed channel takes the wake-up of a live call, which then sleeps with its message pending.
// Scenario c04 stays inside the interleavings the property quantifies over (no such callers).
//
// One line per run is printed to stdout: `c04 run=<i> seed=<derived> key=value ...`; a run that
// demonstrates a violation of the property on the library ends with ` VIOL <reason>` (repeated for
// several reasons). The last line is `c04 summary runs=<n> viol=<n>`. The exit code is 0 unless the
// program cannot start (2).
//
// only=<run> executes just the run with that index (same derived seed as in a full invocation);
// verbose adds `c04 detail ...` lines for the calls that caused violations.
//
// Tokens of a run line: mode (plain, yield, killcli, proxykill, proxycut, srvstop, cliclose, evil),
// yield=<permille>/<sleep>, mc/cch (ClientMaxConns/ClientConnChannels), comp, win (channel window,
// 0 = default), auto (auto-connect), cl (rpc clients sharing the server), g/n (goroutines/calls),
// kinds (u unary, o oneway, w oneway through Channel, c/s/b client/server/bidirectional stream),
// conns (connections the handler saw), inj (faults injected), inv (handler invocations), ok/app/
// transport/noresp (what the callers observed: OK, an application status, any other status, no
// response by design), srvFalseEnd (handlers whose Receive returned End although the caller never
// sent an end: the channel was freed or lost; informational), panicMsgLost, yields, ms.
//
// Environment: RPCSCEN_SABOTAGE=<what> falsifies the expectations inside the harness (self test
// of the oracle; the runs must then report violations): result, status, stream, count, oneway,
// evil, cross, dup. RPCSCEN_STRICT_END=1 turns the informational token srvFalseEnd into a
// violation.
package main

import (
	"fmt"
	"os"
	"sort"
	"strconv"
	"strings"
	"time"

	"verif/harness/internal/hx"
)

const masterSalt = 0xC04C04C04C04C04

type scenario struct {
	name     string
	thorough bool
	only     int
	verbose  bool
	start    time.Time
	budget   time.Duration
	runs     int
	viols    int
}

var (
	sabotage  = os.Getenv("RPCSCEN_SABOTAGE")
	strictEnd = os.Getenv("RPCSCEN_STRICT_END") == "1"

	// freeRace enables the callers that free their channel while a receive is blocked on it
	// (scenario c04free).
	freeRace = false
)

func fail(format string, a ...any) {
	fmt.Fprintf(os.Stderr, format+"\n", a...)
	os.Exit(2)
}

func usage() {
	fail("usage: rpcscen <c04|c04free> <seed> <quick|thorough> [only=<run>] [verbose]")
}

// emit prints one run line.
func (s *scenario) emit(line string, viol []string) {
	s.runs++
	if len(viol) > 0 {
		s.viols++
		for _, v := range dedup(viol) {
			line += " VIOL " + nospace(v)
		}
	}
	fmt.Println(s.name + " " + line)
}

// exhausted reports whether no further run may start: the budget leaves room for a run in which
// every bounded wait expires (call timeout, settling, shutdown).
func (s *scenario) exhausted() bool {
	return time.Since(s.start) > s.budget
}

// timeouts bounds one call: see watchCall.
func (s *scenario) timeouts() timeouts {
	if s.thorough {
		return timeouts{soft: 5 * time.Second, quiet: 2 * time.Second, hard: 30 * time.Second}
	}
	return timeouts{soft: 3 * time.Second, quiet: 1500 * time.Millisecond, hard: 12 * time.Second}
}

func dedup(in []string) []string {
	seen := map[string]int{}
	var res []string
	for _, v := range in {
		if _, ok := seen[v]; !ok {
			res = append(res, v)
		}
		seen[v]++
	}
	sort.Strings(res)
	if len(res) > 12 {
		res = append(res[:12], fmt.Sprintf("and-%d-more-kinds", len(res)-12))
	}
	for i, v := range res {
		if n := seen[v]; n > 1 {
			res[i] = fmt.Sprintf("%s(x%d)", v, n)
		}
	}
	return res
}

func nospace(s string) string {
	s = strings.Map(func(r rune) rune {
		switch {
		case r == ' ' || r == '\t' || r == '\n' || r == '\r':
			return '_'
		case r < 32 || r > 126:
			return '?'
		}
		return r
	}, s)
	if len(s) > 160 {
		s = s[:160]
	}
	return s
}

func main() {
	if len(os.Args) < 4 || (os.Args[1] != "c04" && os.Args[1] != "c04free") {
		usage()
	}
	freeRace = os.Args[1] == "c04free"
	seed, err := strconv.ParseUint(os.Args[2], 10, 64)
	if err != nil {
		usage()
	}
	s := &scenario{name: os.Args[1], only: -1, start: time.Now()}
	switch os.Args[3] {
	case "quick":
		s.budget = 18 * time.Second
	case "thorough":
		s.thorough = true
		s.budget = 250 * time.Second
	default:
		usage()
	}
	for _, a := range os.Args[4:] {
		switch {
		case strings.HasPrefix(a, "only="):
			n, err := strconv.Atoi(strings.TrimPrefix(a, "only="))
			if err != nil {
				usage()
			}
			s.only = n
		case a == "verbose":
			s.verbose = true
		default:
			usage()
		}
	}

	master := hx.NewRand(hx.NewRand(seed).U64() ^ masterSalt)
	maxRuns := 400
	if s.thorough {
		maxRuns = 4000
	}
	for i := 0; i < maxRuns; i++ {
		derived := master.U64()
		if s.only >= 0 && i != s.only {
			continue
		}
		if s.exhausted() {
			break
		}
		var line string
		var viol, detail []string
		if freeRace && i == 0 {
			line, viol, detail = runStaleProbe(s)
		} else {
			line, viol, detail = runOne(s, i, derived)
		}
		s.emit(fmt.Sprintf("run=%d seed=%d %s", i, derived, line), viol)
		if s.verbose {
			for _, d := range detail {
				fmt.Println(s.name + " detail run=" + strconv.Itoa(i) + " " + d)
			}
		}
	}
	fmt.Printf("%s summary runs=%d viol=%d\n", s.name, s.runs, s.viols)
	os.Exit(0)
}
