// Command rpcscen runs the rpc call-history scenario (property C04: every RPC call gets its own
// handler run, result and status) against the real rpc package.
//
//	rpcscen c04 <seed> <quick|thorough> [only=<run>] [verbose]
//
// Every run starts an rpc server on 127.0.0.1:0 whose handler takes its behaviour from the request
// payload, and an rpc client with 1..4 connections; G goroutines issue N concurrent calls of mixed
// kinds (unary, oneway, client-streaming, server-streaming, bidirectional), each carrying a unique
// call id. Both sides record a history per call id, which is checked against the sequential
// specification of the call (see check.go). Run modes: plain, seeded yields inside mpx, connection
// kills (client side, through a TCP proxy, server stop, client close) and an "evil" mode in which a
// raw mpx server answers with malformed replies.
//
// One line per run is printed to stdout: `c04 run=<i> seed=<derived> key=value ...`; a run that
// demonstrates a violation of the property on the library ends with ` VIOL <reason>` (repeated for
// several reasons). The last line is `c04 summary runs=<n> viol=<n>`. The exit code is 0 unless the
// program cannot start (2).
//
// only=<run> executes just the run with that index (same derived seed as in a full invocation);
// verbose adds `c04 detail ...` lines for the calls that caused violations.
//
// Environment: RPCSCEN_SABOTAGE=<what> falsifies the expectations inside the harness (self test
// of the oracle; the runs must then report violations): result, status, stream, count, oneway,
// evil. RPCSCEN_STRICT_END=1 turns the informational token srvFalseEnd (the server handler read an
// End status although the client never sent an end) into a violation.
package main

import (
	"fmt"
	"os"
	"sort"
	"strconv"
	"strings"
	"time"

	"verif/harness/internal/hx"
)

const masterSalt = 0xC04C04C04C04C04

type scenario struct {
	thorough bool
	only     int
	verbose  bool
	start    time.Time
	budget   time.Duration
	runs     int
	viols    int
}

var (
	sabotage  = os.Getenv("RPCSCEN_SABOTAGE")
	strictEnd = os.Getenv("RPCSCEN_STRICT_END") == "1"
)

func fail(format string, a ...any) {
	fmt.Fprintf(os.Stderr, format+"\n", a...)
	os.Exit(2)
}

func usage() {
	fail("usage: rpcscen c04 <seed> <quick|thorough> [only=<run>] [verbose]")
}

// emit prints one run line.
func (s *scenario) emit(line string, viol []string) {
	s.runs++
	if len(viol) > 0 {
		s.viols++
		for _, v := range dedup(viol) {
			line += " VIOL " + nospace(v)
		}
	}
	fmt.Println("c04 " + line)
}

// reserve is the time a run may need beyond the budget check (timeouts, shutdown).
const reserve = 12 * time.Second

func (s *scenario) exhausted() bool {
	return time.Since(s.start)+reserve > s.budget
}

func dedup(in []string) []string {
	seen := map[string]int{}
	var res []string
	for _, v := range in {
		if _, ok := seen[v]; !ok {
			res = append(res, v)
		}
		seen[v]++
	}
	sort.Strings(res)
	if len(res) > 12 {
		res = append(res[:12], fmt.Sprintf("and-%d-more-kinds", len(res)-12))
	}
	for i, v := range res {
		if n := seen[v]; n > 1 {
			res[i] = fmt.Sprintf("%s(x%d)", v, n)
		}
	}
	return res
}

func nospace(s string) string {
	s = strings.Map(func(r rune) rune {
		switch {
		case r == ' ' || r == '\t' || r == '\n' || r == '\r':
			return '_'
		case r < 32 || r > 126:
			return '?'
		}
		return r
	}, s)
	if len(s) > 160 {
		s = s[:160]
	}
	return s
}

func main() {
	if len(os.Args) < 4 || os.Args[1] != "c04" {
		usage()
	}
	seed, err := strconv.ParseUint(os.Args[2], 10, 64)
	if err != nil {
		usage()
	}
	s := &scenario{only: -1, start: time.Now()}
	switch os.Args[3] {
	case "quick":
		s.budget = 34 * time.Second
	case "thorough":
		s.thorough = true
		s.budget = 280 * time.Second
	default:
		usage()
	}
	for _, a := range os.Args[4:] {
		switch {
		case strings.HasPrefix(a, "only="):
			n, err := strconv.Atoi(strings.TrimPrefix(a, "only="))
			if err != nil {
				usage()
			}
			s.only = n
		case a == "verbose":
			s.verbose = true
		default:
			usage()
		}
	}

	master := hx.NewRand(hx.NewRand(seed).U64() ^ masterSalt)
	maxRuns := 60
	if s.thorough {
		maxRuns = 600
	}
	for i := 0; i < maxRuns; i++ {
		derived := master.U64()
		if s.only >= 0 && i != s.only {
			continue
		}
		if s.exhausted() {
			break
		}
		line, viol, detail := runOne(s, i, derived)
		s.emit(fmt.Sprintf("run=%d seed=%d %s", i, derived, line), viol)
		if s.verbose {
			for _, d := range detail {
				fmt.Println("c04 detail run=" + strconv.Itoa(i) + " " + d)
			}
		}
	}
	fmt.Printf("c04 summary runs=%d viol=%d\n", s.runs, s.viols)
	os.Exit(0)
}
