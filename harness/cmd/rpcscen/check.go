package main

import (
	"bytes"
	"fmt"
	"strings"
)

// The sequential specification of a call, keyed by the call id:
//
//  1. The handler runs at most once for the id, and exactly once when the request was sent and the
//     connection was not disturbed.
//  2. The request the handler sees is the one the caller built.
//  3. Streamed messages: what a side received is a prefix of what the other side sends for this id
//     (same bytes, same order, no gaps, no duplicates); it is the complete sequence when the
//     receiver read up to the end and nothing disturbed the call.
//  4. The response: an OK status is observed only if the handler of this id returned OK, and then
//     the result is the bytes that handler returned; an application status (its message carries
//     the call id) is observed only for this id and equals what the handler returned; a panic is
//     observed as a non-OK status. Without disturbance the observed status is exactly the
//     handler's.
//  5. A oneway call yields no response: the caller observes neither an OK status nor messages.
//  6. Any other (transport) status is acceptable only in a run with injected faults, for a
//     cancelled call, or where the handler legitimately finished before the caller's sends.
//  7. No call blocks for longer than the call timeout.

type checkCfg struct {
	fault bool // connections were killed in this run
}

type checkStats struct {
	ok, app, transport, noresp int
	falseEnd                   int // handler saw End although the client never sent one
	inv                        int
	panicMsgLost               int
}

func short(s string) string {
	if len(s) > 60 {
		s = s[:60] + ".."
	}
	return s
}

// checkCall returns the violations of one call and a detail line.
func (w *world) checkCall(p *plan, cfg checkCfg, stats *checkStats) (viol []string, detail string) {
	c := w.cli[p.id]
	s := w.srv[p.id]
	c.mu.Lock()
	defer c.mu.Unlock()
	s.mu.Lock()
	defer s.mu.Unlock()

	kind := kindNames[p.kind]
	add := func(format string, a ...any) {
		viol = append(viol, fmt.Sprintf(format, a...))
	}
	defer func() {
		if len(viol) > 0 {
			detail = fmt.Sprintf("id=%d kind=%s outcome=%d behav=%d modes=%d/%d msgs=c%d/s%d readN=%d ends=c%v/s%v"+
				" cli{req=%s resp=%v code=%q msg=%q res=%d recv=%d recvSt=%s sent=%d sendSt=%s endSt=%s hung=%v cancelled=%v lostWake=%d}"+
				" srv{lostWake=%d inv=%d recv=%d recvSt=%s sent=%d sendSt=%s ret=%v/%q done=%v} viol=%s",
				p.id, kind, p.outcome, p.cliBehav, p.cliMode, p.srvMode, p.cliMsgs, p.srvMsgs, p.srvReadN, p.cliSendEnd, p.srvSendEnd,
				stcode(c.reqSt), c.respSet, c.code, short(c.msg), len(c.result), len(c.recv), c.recvSt, c.sentOK, c.sendSt, c.endSt, c.hung, c.cancelled, c.lostWake,
				s.lostWake, s.inv, len(s.recv), s.recvSt, s.sent, s.sendSt, s.retSet, s.retCode, s.done, strings.Join(viol, ","))
		}
	}()

	if !c.issued {
		return
	}
	stats.inv += s.inv
	if c.panicked != "" {
		add("library-panic-in-client-call:%s:%s", kind, c.panicked)
	}
	if c.hung || !c.finished {
		add("call-hung:%s", kind)
	}
	if c.lostWake > 0 {
		add("client-message-pending-without-notification:%s", kind)
	}
	if s.lostWake > 0 {
		add("server-message-pending-without-notification:%s", kind)
	}

	// The call was not disturbed: the exact specification applies.
	exact := !cfg.fault && !c.hung && !c.cancelled && c.panicked == "" && p.cliBehav != bAbandon && p.cliBehav != bCancel && p.cliBehav != bFreeRace

	// 1. invocations
	if s.inv > 1 {
		add("handler-invoked-%d-times:%s", s.inv, kind)
	}
	if s.mismatch {
		add("request-differs-at-handler:%s", kind)
	}
	reqOK := c.reqDone && c.reqSt.OK()
	if !cfg.fault && !c.cancelled && !c.hung && c.reqDone && !reqOK {
		// Sending a request over an undisturbed connection must work.
		add("request-send-failed:%s:%s", kind, stcode(c.reqSt))
	}
	if !cfg.fault && reqOK && !c.cancelled && !c.hung {
		// (also for abandoned and freed calls: the request has been sent)
		switch {
		case s.inv == 0:
			add("handler-not-invoked:%s", kind)
		case !s.done:
			add("handler-stuck:%s", kind)
		}
	}

	// 3. streams
	var buf []byte
	for i, m := range c.recv {
		if p.cliBehav == bFreeRace {
			break // the contents were not looked at, see doCall
		}
		if i >= p.srvMsgs {
			add("client-received-surplus-message:%s:%s", kind, msgOwner(m))
			break
		}
		buf = streamMsg(buf, p, dirS2C, i)
		if sabotage == "stream" && i == 1 {
			buf = append(buf, 1)
		}
		if !bytes.Equal(buf, m) {
			add("client-stream-mismatch:%s:i%d-got-%s", kind, i, msgOwner(m))
			break
		}
	}
	if len(c.recv) > s.sent+1 {
		add("client-received-more-than-sent:%s:%d>%d", kind, len(c.recv), s.sent)
	}
	for i, m := range s.recv {
		if i >= p.cliMsgs {
			add("server-received-surplus-message:%s:%s", kind, msgOwner(m))
			break
		}
		buf = streamMsg(buf, p, dirC2S, i)
		if !bytes.Equal(buf, m) {
			add("server-stream-mismatch:%s:i%d-got-%s", kind, i, msgOwner(m))
			break
		}
	}
	if len(s.recv) > c.sentOK+1 {
		add("server-received-more-than-sent:%s:%d>%d", kind, len(s.recv), c.sentOK)
	}
	clientSentEnd := c.endSt == "ok"
	if s.recvEnd && !(p.cliSendEnd && c.endSt != "") {
		// The handler's Receive returned End although the client never called SendEnd (the
		// channel was closed or lost): informational unless RPCSCEN_STRICT_END=1.
		stats.falseEnd++
		if strictEnd {
			add("server-saw-end-without-client-end:%s", kind)
		}
	}
	if s.recvEnd && clientSentEnd && len(s.recv) < c.sentOK && !cfg.fault {
		add("server-saw-end-before-all-messages:%s:%d<%d", kind, len(s.recv), c.sentOK)
	}

	if exact && p.streaming() && s.inv == 1 {
		// The server side of the streams.
		if s.sendSt != "" {
			add("server-send-failed:%s:%s-after-%d", kind, s.sendSt, s.sent)
		}
		wantRecv := p.srvReadN
		if sabotage == "count" && p.cliMsgs > 1 {
			wantRecv++
		}
		if len(s.recv) != wantRecv {
			add("server-received-%d-of-%d:%s:recvSt=%s", len(s.recv), wantRecv, kind, s.recvSt)
		}
		if p.readsAll() && p.cliSendEnd && !s.recvEnd {
			add("server-did-not-see-end:%s:recvSt=%s", kind, s.recvSt)
		}
		if p.readsAll() {
			// The handler waits for the whole client stream, every send must succeed.
			if c.sendSt != "" {
				add("client-send-failed:%s:%s-after-%d", kind, c.sendSt, c.sentOK)
			}
			if p.cliSendEnd && c.endSt != "ok" && c.sendSt == "" {
				add("client-send-end-failed:%s:%s", kind, c.endSt)
			}
		}
		// The client side of the streams.
		if c.recvDone {
			if len(c.recv) != p.srvMsgs {
				add("client-received-%d-of-%d:%s:recvSt=%s", len(c.recv), p.srvMsgs, kind, c.recvSt)
			}
			if c.recvSt != "end" {
				add("client-stream-ended-with-%s:%s", c.recvSt, kind)
			}
		} else if p.cliBehav == bNormal {
			add("client-receive-loop-unfinished:%s", kind)
		}
	}

	// 4./5. the response
	if !c.respSet {
		stats.noresp++
		if p.kind == kOneway && exact && !reqOK {
			add("oneway-request-failed:%s", stcode(c.reqSt))
		}
		return
	}
	wantCode, wantMsg := "ok", ""
	switch p.outcome {
	case oFail:
		wantCode, wantMsg = p.code, p.msg
	case oPanic:
		wantCode, wantMsg = "error", p.msg
	}
	if sabotage == "status" && p.outcome == oFail {
		wantMsg += "!"
	}
	wantResult := resultValue(p.id, p.resLen)
	if sabotage == "result" && len(wantResult) > 3 {
		wantResult[len(wantResult)-1] ^= 1
	}

	mid, hasMarker := markerID(c.msg)
	switch {
	case c.code == "ok":
		stats.ok++
		if p.kind == kOnewayWatched {
			add("oneway-call-observed-ok-response")
			break
		}
		if s.inv == 0 || !s.retSet || s.retCode != "ok" {
			add("ok-observed-but-handler-did-not-return-ok:%s:inv=%d-ret=%q", kind, s.inv, s.retCode)
		}
		if !bytes.Equal(c.result, wantResult) {
			owner := ""
			if len(c.result) >= 12 {
				owner = fmt.Sprintf("-head=%x", c.result[:12])
			}
			add("result-mismatch:%s:len=%d-want=%d%s", kind, len(c.result), len(wantResult), owner)
		}
		if p.outcome != oOK {
			add("ok-observed-for-failing-handler:%s", kind)
		}
	case hasMarker:
		stats.app++
		if mid != p.id {
			add("status-of-another-call-observed:%s:cid=%d", kind, mid)
			break
		}
		if s.inv == 0 || !s.retSet {
			add("app-status-observed-but-handler-did-not-return:%s", kind)
		}
		if p.outcome == oPanic {
			if !strings.Contains(c.msg, p.msg) {
				add("panic-status-mismatch:%s:msg=%q", kind, short(c.msg))
			}
			break
		}
		if c.code != wantCode || c.msg != wantMsg {
			add("status-mismatch:%s:got=%q/%q-want=%q/%q", kind, c.code, short(c.msg), wantCode, short(wantMsg))
		}
		if len(c.result) != 0 {
			add("result-with-failing-status:%s", kind)
		}
	default:
		// A status that no handler of this run produced: the transport (or the library).
		stats.transport++
		if len(c.result) != 0 {
			add("result-with-failing-status:%s", kind)
		}
		if !exact {
			break
		}
		if p.kind == kOnewayWatched {
			break // no response: the channel just ends
		}
		if p.outcome == oPanic && c.code != "ok" {
			// Non-OK as required, but the panic text did not make it to the caller.
			stats.panicMsgLost++
			break
		}
		add("unexpected-status:%s:got=%q/%q-want=%q/%q", kind, c.code, short(c.msg), wantCode, short(wantMsg))
	}
	if p.kind == kOnewayWatched && len(c.recv) > 0 {
		add("oneway-call-observed-messages")
	}
	return
}
