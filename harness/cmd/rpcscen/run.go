package main

import (
	"fmt"
	"sort"
	"strings"
	"sync"
	"sync/atomic"
	"time"

	"github.com/basecomplextech/baselibrary/async"
	"github.com/basecomplextech/baselibrary/units"
	"github.com/basecomplextech/spec/mpx"
	"github.com/basecomplextech/spec/rpc"
	"verif/harness/internal/caplog"
	"verif/harness/internal/hx"
)

// Run modes.
const (
	modePlain     = "plain"
	modeYield     = "yield"
	modeKillCli   = "killcli"   // close client-side connections in mid-flight
	modeProxyKill = "proxykill" // kill proxied connections in mid-flight
	modeProxyCut  = "proxycut"  // cut proxied connections after k bytes
	modeSrvStop   = "srvstop"   // stop the server in mid-flight
	modeCliClose  = "cliclose"  // close the client in mid-flight
	modeEvil      = "evil"      // raw mpx server with malformed replies
)

func pickMode(r *hx.Rand) string {
	switch x := r.Intn(100); {
	case x < 22:
		return modePlain
	case x < 46:
		return modeYield
	case x < 56:
		return modeKillCli
	case x < 68:
		return modeProxyKill
	case x < 80:
		return modeProxyCut
	case x < 85:
		return modeSrvStop
	case x < 90:
		return modeCliClose
	default:
		return modeEvil
	}
}

type runCfg struct {
	mode      string
	fault     bool
	yieldProb uint32
	yieldNs   time.Duration
	maxConns  int
	connChans int
	compress  bool
	window    int
	auto      bool
	clients   int // rpc clients (each with its own connections) that share the server
	g, n      int
	gen       genCfg
}

func genRunCfg(r *hx.Rand, thorough bool) runCfg {
	c := runCfg{mode: pickMode(r)}
	switch c.mode {
	case modeKillCli, modeProxyKill, modeProxyCut, modeSrvStop, modeCliClose:
		c.fault = true
	}
	if c.mode == modeYield || (c.fault && r.Intn(2) == 0) || (c.mode == modeEvil && r.Intn(2) == 0) {
		c.yieldProb = uint32(20 + r.Intn(600))
		if r.Intn(3) == 0 {
			c.yieldNs = time.Duration(1+r.Intn(200)) * time.Microsecond
		}
	}
	c.maxConns = 1 + r.Intn(4)
	c.connChans = []int{1, 2, 3, 5, 8, 16, 128}[r.Intn(7)]
	c.compress = r.Intn(2) == 0
	c.auto = r.Intn(4) == 0
	c.clients = []int{1, 1, 2, 3, 4}[r.Intn(5)]
	if r.Intn(4) == 0 {
		c.window = []int{512, 2048, 8192, 65536}[r.Intn(4)]
		c.gen.smallWin = true
	}
	if thorough {
		c.n = 40 + r.Intn(360)
		c.g = 1 + r.Intn(24)
		c.gen.maxDelayUs = []int{500, 3000, 3000, 20000, 60000}[r.Intn(5)]
		c.gen.maxMsgs = []int{8, 20, 60}[r.Intn(3)]
	} else {
		c.n = 20 + r.Intn(140)
		c.g = 1 + r.Intn(12)
		c.gen.maxDelayUs = []int{300, 2000, 2000, 10000}[r.Intn(4)]
		c.gen.maxMsgs = []int{6, 12, 30}[r.Intn(3)]
	}
	if r.Intn(6) == 0 {
		c.g = c.n // every call in its own goroutine
	}
	// kind weights: sometimes a single kind dominates
	for k := range c.gen.kindW {
		c.gen.kindW[k] = 1 + r.Intn(10)
	}
	if r.Intn(4) == 0 {
		c.gen.kindW[r.Intn(numKinds)] = 60
	}
	c.gen.noMisbehav = r.Intn(3) == 0
	return c
}

func (c *runCfg) options() rpc.Options {
	o := rpc.Default()
	o.ClientMaxConns = c.maxConns
	o.ClientConnChannels = c.connChans
	o.Compression = c.compress
	if c.window > 0 {
		o.ChannelWindowSize = units.Bytes(c.window)
	}
	o.ClientDialTimeout = 10 * time.Second // a loaded machine must not look like a lost server
	return o
}

func panicsOf(lg *caplog.Logger, who string) []string {
	var res []string
	for _, p := range lg.Panics() {
		res = append(res, "library-panic:"+who+":"+p)
	}
	return res
}

// runOne executes one run and returns its line, violations and detail lines.
func runOne(s *scenario, idx int, derived uint64) (line string, viol []string, detail []string) {
	r := hx.NewRand(derived)
	cfg := genRunCfg(r, s.thorough)
	if cfg.mode == modeEvil {
		return runEvil(s, r, cfg, derived)
	}
	began := time.Now()

	// plans
	plans := make([]*plan, cfg.n)
	for i := range plans {
		plans[i] = genPlan(r, uint64(idx+1)<<32|uint64(i+1), &cfg.gen)
	}
	w := newWorld(plans)
	w.timeouts = s.timeouts()

	// server
	slg, clg := caplog.New(), caplog.New()
	srv := rpc.NewServer("127.0.0.1:0", rpc.HandleFunc(w.handle), slg, cfg.options())
	if st := srv.Start(); !st.OK() {
		fail("server start: %v", st)
	}
	select {
	case <-srv.Listening().Wait():
	case <-time.After(3 * time.Second):
		fail("server did not start listening")
	}
	addr := srv.Address()
	var px *proxy
	if cfg.mode == modeProxyKill || cfg.mode == modeProxyCut {
		var err error
		if px, err = newProxy(addr); err != nil {
			fail("proxy: %v", err)
		}
		addr = px.addr()
		if cfg.mode == modeProxyCut {
			for i, n := 0, 1+r.Intn(3); i < n; i++ {
				k := int64(r.Intn(4000))
				if r.Intn(3) == 0 {
					k = int64(r.Intn(200000))
				}
				px.mu.Lock()
				px.cuts = append(px.cuts, cutSpec{on: true, dir: r.Intn(2), k: k, mode: r.Intn(numKillModes)})
				px.mu.Unlock()
			}
		}
	}

	// client
	mode := rpc.ClientMode_OnDemand
	if cfg.auto {
		mode = rpc.ClientMode_AutoConnect
	}
	for i := 0; i < cfg.clients; i++ {
		w.cls = append(w.cls, rpc.NewClient(addr, mode, clg, cfg.options()))
	}

	mpx.VerifSetYield(derived, cfg.yieldProb, cfg.yieldNs)
	yields0 := mpx.VerifYieldCount()

	// fault injector
	var injWG sync.WaitGroup
	var stopIssuing atomic.Bool
	stopInj := make(chan struct{})
	injected := atomic.Int32{}
	srvStopped := false
	if cfg.fault && cfg.mode != modeProxyCut {
		times := 1 + r.Intn(3)
		if cfg.mode == modeSrvStop || cfg.mode == modeCliClose {
			times = 1
		}
		thresholds := make([]int, times)
		for i := range thresholds {
			thresholds[i] = r.Intn(cfg.n)
		}
		sort.Ints(thresholds)
		extraUs := r.Intn(3000)
		killMode := r.Intn(numKillModes)
		pick := r.U64()
		injWG.Add(1)
		go func() {
			defer injWG.Done()
			for _, th := range thresholds {
				for int(w.started.Load()) < th {
					select {
					case <-stopInj:
						return
					case <-time.After(200 * time.Microsecond):
					}
				}
				sleepUs(extraUs)
				switch cfg.mode {
				case modeKillCli:
					ctx := async.TimeoutContext(2 * time.Second)
					for i, cl := range w.cls {
						if pick&1 == 0 && i != int(pick>>1)%len(w.cls) {
							continue // only one of the clients
						}
						if conn, st := cl.Unwrap().Conn(ctx); st.OK() {
							conn.Close()
							injected.Add(1)
						}
					}
					pick = pick*6364136223846793005 + 1442695040888963407
				case modeProxyKill:
					live := px.live()
					if len(live) == 0 {
						continue
					}
					if pick&1 == 0 {
						live = live[int(pick>>1)%len(live):][:1]
					}
					pick = pick*6364136223846793005 + 1442695040888963407
					for _, l := range live {
						l.kill(killMode%2, dirC2S) // close or reset
						injected.Add(1)
					}
				case modeSrvStop:
					select {
					case <-srv.Stop():
					case <-time.After(5 * time.Second):
						w.note("server-stop-hung")
					}
					srvStopped = true
					injected.Add(1)
					// Calls to a stopped server only wait for refused dials (with the client's
					// back-off of up to a second each): no more calls are issued.
					stopIssuing.Store(true)
				case modeCliClose:
					w.cls[int(pick>>1)%len(w.cls)].Close()
					injected.Add(1)
				}
			}
		}()
	}

	// traffic
	var next atomic.Int32
	var wg sync.WaitGroup
	for gi := 0; gi < cfg.g; gi++ {
		wg.Add(1)
		go func() {
			defer wg.Done()
			for {
				i := int(next.Add(1)) - 1
				if i >= len(plans) || stopIssuing.Load() {
					return
				}
				w.doCall(plans[i])
			}
		}()
	}
	trafficDone := make(chan struct{})
	go func() { wg.Wait(); close(trafficDone) }()
	var hang []string
	select {
	case <-trafficDone:
	case <-time.After(w.timeouts.hard + 4*time.Second):
		hang = append(hang, "traffic-hung")
	}
	close(stopInj)
	injWG.Wait()

	// Let the handlers settle: every request that was sent runs its handler to the end.
	settled := func() bool {
		if w.active.Load() != 0 {
			return false
		}
		if cfg.fault {
			return true
		}
		for _, p := range plans {
			c, sr := w.cli[p.id], w.srv[p.id]
			c.mu.Lock()
			need := c.issued && c.reqDone && c.reqSt.OK() && !c.cancelled
			c.mu.Unlock()
			if !need {
				continue
			}
			sr.mu.Lock()
			done := sr.done
			sr.mu.Unlock()
			if !done {
				return false
			}
		}
		return true
	}
	if len(hang) == 0 {
		waitQuiet(2*time.Second, time.Second, 8*time.Second, settled)
		if cfg.fault {
			// requests may still be on their way
			time.Sleep(20 * time.Millisecond)
			waitQuiet(2*time.Second, time.Second, 8*time.Second, settled)
		}
	}

	// shutdown
	mpx.VerifSetYield(0, 0, 0)
	yields := mpx.VerifYieldCount() - yields0
	for _, cl := range w.cls {
		cl.Close()
	}
	if !srvStopped {
		select {
		case <-srv.Stop():
		case <-time.After(3 * time.Second):
			hang = append(hang, "server-stop-hung")
		}
	}
	cuts := 0
	if px != nil {
		cuts = int(px.cutN.Load())
		px.close()
	}

	// check
	stats := &checkStats{}
	ccfg := checkCfg{fault: cfg.fault}
	viol = append(viol, hang...)
	var kinds [numKinds]int
	for _, p := range plans {
		kinds[p.kind]++
		v, d := w.checkCall(p, ccfg, stats)
		viol = append(viol, v...)
		if d != "" && len(detail) < 20 {
			detail = append(detail, d)
		}
	}
	w.mu.Lock()
	viol = append(viol, w.notes...)
	w.mu.Unlock()
	viol = append(viol, panicsOf(slg, "server")...)
	viol = append(viol, panicsOf(clg, "client")...)
	if s.verbose && len(viol) > 0 {
		for _, rec := range slg.All() {
			detail = append(detail, "serverlog "+nospace(rec))
		}
		for _, rec := range clg.All() {
			detail = append(detail, "clientlog "+nospace(rec))
		}
	}

	nconns := 0
	w.conns.Range(func(_, _ any) bool { nconns++; return true })
	var ks []string
	for k, n := range kinds {
		ks = append(ks, fmt.Sprintf("%s:%d", kindShort[k], n))
	}
	line = fmt.Sprintf("mode=%s yield=%d/%dus mc=%d cch=%d comp=%v win=%d auto=%v cl=%d g=%d n=%d kinds=%s conns=%d inj=%d inv=%d ok=%d app=%d transport=%d noresp=%d srvFalseEnd=%d panicMsgLost=%d yields=%d ms=%d",
		cfg.mode, cfg.yieldProb, cfg.yieldNs/time.Microsecond, cfg.maxConns, cfg.connChans, cfg.compress, cfg.window, cfg.auto,
		cfg.clients, cfg.g, cfg.n, strings.Join(ks, ","), nconns, int(injected.Load())+cuts, stats.inv, stats.ok, stats.app, stats.transport,
		stats.noresp, stats.falseEnd, stats.panicMsgLost, yields, time.Since(began).Milliseconds())
	return line, viol, detail
}
