package main

import (
	"fmt"
	"strings"
	"sync"
	"sync/atomic"
	"time"

	"github.com/basecomplextech/baselibrary/async"
	"github.com/basecomplextech/baselibrary/ref"
	"github.com/basecomplextech/baselibrary/status"
	"github.com/basecomplextech/spec/proto/prpc"
	"github.com/basecomplextech/spec/rpc"
)

// srvRec is what the handler did for one call id.
type srvRec struct {
	mu       sync.Mutex
	inv      int  // handler invocations that carried this id
	started  bool // an invocation is being served
	mismatch bool // the payload or the method differs from what the client built

	recv    [][]byte // client messages in the order of arrival
	recvSt  string   // status that ended the receive loop ("" = the loop stopped on its own)
	recvEnd bool     // the receive loop saw status End
	sent    int      // messages sent successfully
	sendSt  string   // first failing send status
	sentEnd bool     // SendEnd succeeded

	lostWake int // a message was pending although the ReceiveWait channel was not notified

	retSet   bool // the handler reached its return (or panic)
	retCode  string
	retMsg   string
	retPanic bool
	done     bool // the handler function has left
}

// cliRec is what the caller observed for one call id.
type cliRec struct {
	mu      sync.Mutex
	issued  bool
	reqSt   status.Status // status of Request/RequestOneway/Channel
	reqDone bool

	respSet bool // Response (or Request) returned
	code    string
	msg     string
	result  []byte
	resNil  bool

	recv     [][]byte // streamed messages in order
	recvSt   string   // status that ended the receive loop
	recvDone bool
	sentOK   int
	sendSt   string
	endSt    string // status of SendEnd ("" = not called)

	lostWake  int  // a message was pending although the ReceiveWait channel was not notified
	hung      bool // the watchdog had to cancel the call
	cancelled bool // the planned cancel fired
	finished  bool
	panicked  string
}

type world struct {
	plans map[uint64]*plan
	order []*plan
	srv   map[uint64]*srvRec
	cli   map[uint64]*cliRec

	cls      []rpc.Client // calls are spread over the clients by call id
	timeouts timeouts

	active  atomic.Int32 // handlers running
	started atomic.Int32 // calls started by the client
	conns   sync.Map     // server-side connection contexts seen by the handler

	mu    sync.Mutex
	notes []string // anomalies that are not tied to a call id
}

func newWorld(plans []*plan) *world {
	w := &world{
		plans: map[uint64]*plan{},
		order: plans,
		srv:   map[uint64]*srvRec{},
		cli:   map[uint64]*cliRec{},
	}
	for _, p := range plans {
		w.plans[p.id] = p
		w.srv[p.id] = &srvRec{}
		w.cli[p.id] = &cliRec{}
	}
	return w
}

// activity counts the events of the process (messages sent and received, calls and handlers
// finished). A blocked call is told from a slow machine by it: a call is hung when it is still
// pending after the soft timeout while nothing at all has happened for the quiet period, or when
// it is pending after the hard timeout.
var activity atomic.Int64

func tick() { activity.Add(1) }

type timeouts struct {
	soft, quiet, hard time.Duration
}

// watchStep is the period of the watchdogs. All their limits are counted in observed steps, not in
// wall time: a process that was frozen (a loaded or paused machine) sees a single late tick, which
// must not look like a long quiet period.
const watchStep = 50 * time.Millisecond

func steps(d time.Duration) int { return int(d / watchStep) }

// watchCall starts the watchdog of one call; hung is called (once) when the call is considered
// hung. The returned function stops the watchdog.
func watchCall(t timeouts, hung func()) (stop func()) {
	done := make(chan struct{})
	go func() {
		last := activity.Load()
		age, idle := 0, 0
		tk := time.NewTicker(watchStep)
		defer tk.Stop()
		for {
			select {
			case <-done:
				return
			case <-tk.C:
				age++
				if v := activity.Load(); v != last {
					last, idle = v, 0
				} else {
					idle++
				}
				if age > steps(t.hard) || (age > steps(t.soft) && idle > steps(t.quiet)) {
					hung()
					return
				}
			}
		}
	}()
	return func() { close(done) }
}

// waitQuiet waits until cond holds; it gives up when at least min has passed and nothing has
// happened for the quiet period, or after max (all counted in steps of a millisecond).
func waitQuiet(min, quiet, max time.Duration, cond func() bool) bool {
	last := activity.Load()
	age, idle := 0, 0
	for {
		if cond() {
			return true
		}
		if v := activity.Load(); v != last {
			last, idle = v, 0
		} else {
			idle++
		}
		age++
		if age > int(max/time.Millisecond) || (age > int(min/time.Millisecond) && idle > int(quiet/time.Millisecond)) {
			return false
		}
		time.Sleep(time.Millisecond)
	}
}

func (w *world) note(s string) {
	w.mu.Lock()
	if len(w.notes) < 100 {
		w.notes = append(w.notes, s)
	}
	w.mu.Unlock()
}

func sleepUs(us int) {
	if us > 0 {
		time.Sleep(time.Duration(us) * time.Microsecond)
	}
}

func stcode(st status.Status) string {
	if st.Code == "" {
		return "none"
	}
	return string(st.Code)
}

func expectedMethod(p *plan) string {
	var sb strings.Builder
	for j := 0; j < p.nCalls-1; j++ {
		fmt.Fprintf(&sb, "sub%d/", j)
	}
	sb.WriteString(kindNames[p.kind])
	return sb.String()
}

// server side

func (w *world) handle(ctx rpc.Context, ch rpc.ServerChannel) (res ref.R[[]byte], st status.Status) {
	w.active.Add(1)
	defer w.active.Add(-1)

	req, st := ch.Request(ctx)
	if !st.OK() {
		w.note("handler-request-status:" + stcode(st))
		return nil, status.Errorf("harness: no request")
	}
	calls := req.Calls()
	n := calls.Len()
	if n == 0 {
		w.note("handler-request-without-calls")
		return nil, status.Errorf("harness: no calls")
	}
	var method strings.Builder
	for j := 0; j < n; j++ {
		if j > 0 {
			method.WriteByte('/')
		}
		method.WriteString(calls.Get(j).Method().Unwrap())
	}
	in := calls.Get(n - 1).Input()
	id := in.Uint64(1)
	pb := append([]byte(nil), in.Bytes(2)...)

	rec := w.srv[id]
	want := w.plans[id]
	if rec == nil {
		w.note(fmt.Sprintf("handler-got-unknown-call-id:%d", id))
		return nil, status.Errorf("harness: unknown id")
	}
	p, ok := decodePlan(pb)
	mismatch := !ok || string(pb) != string(want.enc) || method.String() != expectedMethod(want)
	if !ok {
		p = want
	}
	rec.mu.Lock()
	rec.inv++
	if sabotage == "dup" && id%7 == 0 {
		rec.inv++ // self test: pretend a second invocation
	}
	first := !rec.started
	rec.started = true
	rec.mismatch = rec.mismatch || mismatch
	rec.mu.Unlock()
	if !first {
		return nil, status.Errorf("harness: duplicate invocation")
	}
	w.conns.Store(ctx.Conn(), true)
	defer func() {
		rec.mu.Lock()
		rec.done = true
		rec.mu.Unlock()
		tick()
	}()
	tick()

	sleepUs(p.preDelayUs)
	if p.streaming() {
		w.handleStreams(ctx, ch, p, rec)
	}
	sleepUs(p.delayUs)

	ret := func(code, msg string, panics bool) {
		rec.mu.Lock()
		rec.retSet, rec.retCode, rec.retMsg, rec.retPanic = true, code, msg, panics
		rec.mu.Unlock()
	}
	result := func() ref.R[[]byte] {
		b := resultValue(p.id, p.resLen)
		if b == nil {
			return nil
		}
		// The buffer is wiped when the server releases it: a response built after the release
		// would carry the wiped bytes.
		return ref.NewFree(b, func() {
			for i := range b {
				b[i] = 0xEE
			}
		})
	}
	switch p.outcome {
	case oFail:
		ret(p.code, p.msg, false)
		st := status.Status{Code: status.Code(p.code), Message: p.msg}
		if sabotage == "cross" {
			st.Message = marker(p.id+1) + "x" // self test: the status of another call
		}
		if p.failRes {
			return result(), st
		}
		return nil, st
	case oPanic:
		ret("error", p.msg, true)
		panic(p.msg)
	}
	if sabotage == "oneway" && p.kind == kOnewayWatched {
		// self test: the handler answers a oneway call
		ret("ok", "", false)
		return result(), status.OK
	}
	if p.kind == kOneway || p.kind == kOnewayWatched {
		ret(string(rpc.CodeSkipResponse), "", false)
		return nil, rpc.SkipResponse
	}
	ret("ok", "", false)
	return result(), status.OK
}

func (w *world) handleStreams(ctx rpc.Context, ch rpc.ServerChannel, p *plan, rec *srvRec) {
	recv := func() {
		limit := p.srvReadN
		untilEnd := p.readsAll() && p.cliSendEnd
		if untilEnd {
			limit = p.cliMsgs + 2 // surplus messages are recorded and rejected by the check
		}
		for i := 0; i < limit; i++ {
			var b []byte
			var st status.Status
			if p.srvAsync {
				b, st = receivePolling(ctx, ch, func() {
					rec.mu.Lock()
					rec.lostWake++
					rec.mu.Unlock()
				})
			} else {
				b, st = ch.Receive(ctx)
			}
			if !st.OK() {
				rec.mu.Lock()
				rec.recvSt = stcode(st)
				rec.recvEnd = st.Code == status.CodeEnd
				rec.mu.Unlock()
				return
			}
			sleepUs(p.holdUs) // the message stays valid until the next Receive
			c := append([]byte{}, b...)
			rec.mu.Lock()
			rec.recv = append(rec.recv, c)
			rec.mu.Unlock()
			tick()
		}
	}
	send := func() {
		var buf []byte
		for i := 0; i < p.srvMsgs; i++ {
			buf = streamMsg(buf, p, dirS2C, i)
			if st := ch.Send(ctx, buf); !st.OK() {
				rec.mu.Lock()
				rec.sendSt = stcode(st)
				rec.mu.Unlock()
				return
			}
			rec.mu.Lock()
			rec.sent++
			rec.mu.Unlock()
			tick()
		}
		if p.srvSendEnd {
			st := ch.SendEnd(ctx)
			rec.mu.Lock()
			if st.OK() {
				rec.sentEnd = true
			} else if rec.sendSt == "" {
				rec.sendSt = "end:" + stcode(st)
			}
			rec.mu.Unlock()
		}
	}
	switch p.srvMode {
	case mSendFirst:
		send()
		recv()
	case mRecvFirst:
		recv()
		send()
	default:
		done := make(chan struct{})
		go func() {
			defer close(done)
			defer func() {
				if e := recover(); e != nil {
					w.note(fmt.Sprintf("library-panic-in-server-receive:%v", e))
				}
			}()
			recv()
		}()
		send()
		<-done
	}
}

// receiver is the receiving side of a client or server rpc channel.
type receiver interface {
	ReceiveAsync(ctx async.Context) ([]byte, bool, status.Status)
	ReceiveWait() <-chan struct{}
}

// probeInterval is how long receivePolling waits for a notification before it polls again.
const probeInterval = time.Second

// receivePolling is Receive built from the public polling methods in the documented order (take
// the ReceiveWait channel, poll with ReceiveAsync, then wait). When no notification comes for
// probeInterval it polls again: a message found then was pending without a notification (a blocked
// Receive would still sleep), which is reported through lost.
func receivePolling(ctx async.Context, ch receiver, lost func()) ([]byte, status.Status) {
	for {
		wait := ch.ReceiveWait()
		b, ok, st := ch.ReceiveAsync(ctx)
		if !st.OK() || ok {
			return b, st
		}
	waiting:
		for {
			t := time.NewTimer(probeInterval)
			select {
			case <-wait:
				t.Stop()
				break waiting
			case <-ctx.Wait():
				t.Stop()
				return nil, ctx.Status()
			case <-t.C:
				b, ok, st := ch.ReceiveAsync(ctx)
				if !st.OK() || ok {
					select {
					case <-wait: // notified in the meantime: no finding
					default:
						lost()
					}
					return b, st
				}
			}
		}
	}
}

// client side

func buildRequest(p *plan) (prpc.Request, error) {
	w := prpc.NewRequestWriter()
	calls := w.Calls()
	for j := 0; j < p.nCalls; j++ {
		// The writers are stack based: the method must be written before the input is opened.
		call := calls.Add()
		last := j == p.nCalls-1
		if last {
			call.Method(kindNames[p.kind])
		} else {
			call.Method(fmt.Sprintf("sub%d", j))
		}
		input := call.Input()
		if last {
			input.Field(1).Uint64(p.id)
			input.Field(2).Bytes(p.enc)
		} else {
			input.Field(1).Uint64(uint64(j))
		}
		if err := input.End(); err != nil {
			return prpc.Request{}, err
		}
		if err := call.End(); err != nil {
			return prpc.Request{}, err
		}
	}
	if err := calls.End(); err != nil {
		return prpc.Request{}, err
	}
	return w.Build()
}

// doCall runs one call and records what the caller observes.
func (w *world) doCall(p *plan) {
	rec := w.cli[p.id]
	cl := w.cls[int(p.id%uint64(len(w.cls)))]
	defer func() {
		if e := recover(); e != nil {
			rec.mu.Lock()
			rec.panicked = fmt.Sprint(e)
			rec.mu.Unlock()
		}
		rec.mu.Lock()
		rec.finished = true
		rec.mu.Unlock()
		tick()
	}()

	req, err := buildRequest(p)
	if err != nil {
		fail("request build: %v", err)
	}
	ctx := async.NewContext()
	defer ctx.Free()
	stopWatch := watchCall(w.timeouts, func() {
		rec.mu.Lock()
		hung := !rec.finished
		rec.hung = rec.hung || hung
		rec.mu.Unlock()
		if hung {
			ctx.Cancel()
		}
	})
	defer stopWatch()
	if p.cliBehav == bCancel {
		t := time.AfterFunc(time.Duration(p.cancelUs)*time.Microsecond, func() {
			rec.mu.Lock()
			fin := rec.finished
			rec.cancelled = rec.cancelled || !fin
			rec.mu.Unlock()
			if !fin {
				ctx.Cancel()
			}
		})
		defer t.Stop()
	}

	rec.mu.Lock()
	rec.issued = true
	rec.mu.Unlock()
	w.started.Add(1)

	setReq := func(st status.Status) {
		rec.mu.Lock()
		rec.reqSt, rec.reqDone = st, true
		rec.mu.Unlock()
	}
	setResp := func(v []byte, isNil bool, st status.Status) {
		rec.mu.Lock()
		rec.respSet, rec.code, rec.msg = true, string(st.Code), st.Message
		rec.result, rec.resNil = v, isNil
		rec.mu.Unlock()
	}

	switch p.kind {
	case kUnary:
		v, st := cl.Request(ctx, req)
		var b []byte
		isNil := true
		if v != nil {
			raw := v.Unwrap()
			isNil = raw == nil
			sleepUs(p.holdUs) // the result stays valid until it is released
			b = append([]byte{}, raw...)
			v.Release()
		}
		setResp(b, isNil, st)
		return
	case kOneway:
		st := cl.RequestOneway(ctx, req)
		setReq(st)
		return
	}

	ch, st := cl.Channel(ctx, req)
	setReq(st)
	if !st.OK() {
		return
	}
	defer ch.Free()

	send := func(limit int, end bool) {
		var buf []byte
		for i := 0; i < limit; i++ {
			buf = streamMsg(buf, p, dirC2S, i)
			if st := ch.Send(ctx, buf); !st.OK() {
				rec.mu.Lock()
				rec.sendSt = stcode(st)
				rec.mu.Unlock()
				return
			}
			rec.mu.Lock()
			rec.sentOK++
			rec.mu.Unlock()
			tick()
			sleepUs(p.cliDelayUs)
		}
		if end {
			st := ch.SendEnd(ctx)
			rec.mu.Lock()
			rec.endSt = stcode(st)
			rec.mu.Unlock()
		}
	}
	recv := func() {
		term := func(st status.Status) {
			rec.mu.Lock()
			rec.recvSt, rec.recvDone = stcode(st), true
			rec.mu.Unlock()
		}
		add := func(b []byte) bool {
			var c []byte
			if p.cliBehav != bFreeRace {
				sleepUs(p.holdUs) // the message stays valid until the next Receive
				c = append([]byte{}, b...)
			}
			// bFreeRace: the channel can be freed at any moment, which invalidates the message;
			// only the number of messages is recorded.
			rec.mu.Lock()
			rec.recv = append(rec.recv, c)
			n := len(rec.recv)
			rec.mu.Unlock()
			tick()
			return n <= p.srvMsgs+3
		}
		for {
			if !p.cliAsync {
				b, st := ch.Receive(ctx)
				if !st.OK() {
					term(st)
					return
				}
				if !add(b) {
					return
				}
				continue
			}
			b, st := receivePolling(ctx, ch, func() {
				rec.mu.Lock()
				rec.lostWake++
				rec.mu.Unlock()
			})
			if !st.OK() {
				term(st)
				return
			}
			if !add(b) {
				return
			}
		}
	}
	resp := func() {
		v, st := ch.Response(ctx)
		sleepUs(p.holdUs) // the result stays valid until the channel is freed
		setResp(append([]byte{}, v...), v == nil, st)
	}

	switch p.cliBehav {
	case bAbandon:
		send(p.abandonN, false)
		return
	case bRespOnly:
		send(p.cliMsgs, p.cliSendEnd)
		resp()
		return
	case bFreeRace:
		var wg sync.WaitGroup
		wg.Add(2)
		guard := func(f func()) {
			defer wg.Done()
			defer func() {
				if e := recover(); e != nil {
					rec.mu.Lock()
					rec.panicked = fmt.Sprint(e)
					rec.mu.Unlock()
				}
			}()
			f()
		}
		go guard(func() { send(p.cliMsgs, p.cliSendEnd) })
		go guard(recv)
		sleepUs(p.freeUs)
		ch.Free()
		wg.Wait()
		resp()
		return
	}
	switch p.cliMode {
	case mSendFirst:
		send(p.cliMsgs, p.cliSendEnd)
		recv()
	case mRecvFirst:
		recv()
		send(p.cliMsgs, p.cliSendEnd)
	default:
		done := make(chan struct{})
		go func() {
			defer close(done)
			defer func() {
				if e := recover(); e != nil {
					rec.mu.Lock()
					rec.panicked = fmt.Sprint(e)
					rec.mu.Unlock()
				}
			}()
			send(p.cliMsgs, p.cliSendEnd)
		}()
		recv()
		<-done
	}
	resp()
}
