package main

import (
	"encoding/binary"
	"fmt"
	"strings"

	"github.com/basecomplextech/spec"
	"verif/harness/internal/hx"
)

// Call kinds.
const (
	kUnary = iota
	kOneway
	kOnewayWatched // a oneway method called through Channel, so that the absence of a response is observable
	kCStream
	kSStream
	kBidi
	numKinds
)

var kindNames = [...]string{"unary", "oneway", "onewayw", "cstream", "sstream", "bidi"}
var kindShort = [...]string{"u", "o", "w", "c", "s", "b"}

// Handler outcomes.
const (
	oOK    = iota // return status.OK and the result (oneway kinds: rpc.SkipResponse)
	oFail         // return an application status
	oPanic        // panic with a message
)

// Stream modes of one side.
const (
	mConcurrent = iota // send and receive in two goroutines
	mSendFirst         // send everything, then receive
	mRecvFirst         // receive everything, then send
)

// Client behaviours.
const (
	bNormal   = iota
	bAbandon  // free the channel after the request and a few messages, never read the response
	bCancel   // cancel the call context after a delay
	bRespOnly // call Response without reading the streamed messages
	bFreeRace // free the channel while the send and receive loops are still running
)

// plan is the behaviour of one call; it travels to the handler inside the request payload.
type plan struct {
	id      uint64
	kind    int
	outcome int
	code    string // oFail: status code
	msg     string // oFail: status message, oPanic: panic text; both carry "cid=<id>;"
	resLen  int    // result payload length, -1: nil result
	failRes bool   // oFail: return a result next to the failing status (must be ignored)

	preDelayUs int // handler delay before it does anything
	delayUs    int // handler delay before it returns

	srvMsgs    int
	cliMsgs    int
	sizeSeed   uint64 // message sizes derive from it
	srvMode    int
	cliMode    int
	srvSendEnd bool // the handler calls SendEnd after its messages
	cliSendEnd bool // the client calls SendEnd after its messages
	srvReadN   int  // how many client messages the handler reads before it goes on (== cliMsgs: all)

	cliBehav   int
	cliAsync   bool // receive with ReceiveAsync/ReceiveWait
	srvAsync   bool // the handler receives with ReceiveAsync/ReceiveWait
	cliDelayUs int  // client delay between messages
	cancelUs   int  // bCancel: delay of the cancel
	abandonN   int  // bAbandon: messages sent before the free
	nCalls     int  // number of calls in the request (the last one carries the payload)
	holdUs     int  // both sides: delay between receiving a message/result and copying it
	freeUs     int  // bFreeRace: delay of the free

	enc []byte // encoded plan (request payload)
}

func (p *plan) streaming() bool { return p.kind >= kCStream }

// readsAll reports whether the handler consumes the complete client stream.
func (p *plan) readsAll() bool { return p.srvReadN >= p.cliMsgs }

// marker is the text every application-defined status message of the call carries.
func marker(id uint64) string { return fmt.Sprintf("cid=%d;", id) }

// markerID extracts the call id of an application-defined message.
func markerID(msg string) (uint64, bool) {
	i := strings.Index(msg, "cid=")
	if i < 0 {
		return 0, false
	}
	var id uint64
	n := 0
	for _, c := range msg[i+4:] {
		if c < '0' || c > '9' {
			break
		}
		id = id*10 + uint64(c-'0')
		n++
	}
	return id, n > 0
}

// encoding

type enc struct{ b []byte }

func (e *enc) u(v uint64) { e.b = binary.AppendUvarint(e.b, v) }
func (e *enc) i(v int)    { e.b = binary.AppendVarint(e.b, int64(v)) }
func (e *enc) s(v string) { e.u(uint64(len(v))); e.b = append(e.b, v...) }
func (e *enc) f(v bool) {
	if v {
		e.b = append(e.b, 1)
	} else {
		e.b = append(e.b, 0)
	}
}

type dec struct {
	b   []byte
	bad bool
}

func (d *dec) u() uint64 {
	v, n := binary.Uvarint(d.b)
	if n <= 0 {
		d.bad = true
		return 0
	}
	d.b = d.b[n:]
	return v
}

func (d *dec) i() int {
	v, n := binary.Varint(d.b)
	if n <= 0 {
		d.bad = true
		return 0
	}
	d.b = d.b[n:]
	return int(v)
}

func (d *dec) s() string {
	n := d.u()
	if d.bad || n > uint64(len(d.b)) {
		d.bad = true
		return ""
	}
	v := string(d.b[:n])
	d.b = d.b[n:]
	return v
}

func (d *dec) f() bool {
	if len(d.b) == 0 {
		d.bad = true
		return false
	}
	v := d.b[0]
	d.b = d.b[1:]
	return v == 1
}

func (p *plan) encode() []byte {
	e := &enc{}
	e.u(p.id)
	e.i(p.kind)
	e.i(p.outcome)
	e.s(p.code)
	e.s(p.msg)
	e.i(p.resLen)
	e.f(p.failRes)
	e.i(p.preDelayUs)
	e.i(p.delayUs)
	e.i(p.srvMsgs)
	e.i(p.cliMsgs)
	e.u(p.sizeSeed)
	e.i(p.srvMode)
	e.i(p.cliMode)
	e.f(p.srvSendEnd)
	e.f(p.cliSendEnd)
	e.i(p.srvReadN)
	e.i(p.cliBehav)
	e.f(p.cliAsync)
	e.i(p.cliDelayUs)
	e.i(p.cancelUs)
	e.i(p.abandonN)
	e.i(p.nCalls)
	e.i(p.holdUs)
	e.i(p.freeUs)
	e.f(p.srvAsync)
	return e.b
}

func decodePlan(b []byte) (*plan, bool) {
	d := &dec{b: b}
	p := &plan{}
	p.id = d.u()
	p.kind = d.i()
	p.outcome = d.i()
	p.code = d.s()
	p.msg = d.s()
	p.resLen = d.i()
	p.failRes = d.f()
	p.preDelayUs = d.i()
	p.delayUs = d.i()
	p.srvMsgs = d.i()
	p.cliMsgs = d.i()
	p.sizeSeed = d.u()
	p.srvMode = d.i()
	p.cliMode = d.i()
	p.srvSendEnd = d.f()
	p.cliSendEnd = d.f()
	p.srvReadN = d.i()
	p.cliBehav = d.i()
	p.cliAsync = d.f()
	p.cliDelayUs = d.i()
	p.cancelUs = d.i()
	p.abandonN = d.i()
	p.nCalls = d.i()
	p.holdUs = d.i()
	p.freeUs = d.i()
	p.srvAsync = d.f()
	if d.bad || len(d.b) != 0 || p.kind < 0 || p.kind >= numKinds {
		return nil, false
	}
	p.enc = append([]byte(nil), b...)
	return p, true
}

// deterministic data of a call

const (
	dirC2S = 0
	dirS2C = 1
)

// msgLen is the length of the i-th streamed message of a direction.
func msgLen(p *plan, dir, i int) int {
	r := hx.NewRand(p.sizeSeed ^ uint64(dir+1)<<56 ^ uint64(i)*0x9E3779B1)
	switch x := r.Intn(100); {
	case x < 3:
		return 0 // empty message
	case x < 75:
		return 13 + r.Intn(100)
	case x < 95:
		return 13 + r.Intn(3000)
	default:
		return 13 + r.Intn(70000)
	}
}

// streamMsg appends the i-th message of a direction to buf[:0]: call id, direction, index, fill.
func streamMsg(buf []byte, p *plan, dir, i int) []byte {
	n := msgLen(p, dir, i)
	buf = buf[:0]
	if n == 0 {
		return buf
	}
	buf = binary.BigEndian.AppendUint64(buf, p.id)
	buf = append(buf, byte(dir))
	buf = binary.BigEndian.AppendUint32(buf, uint32(i))
	r := hx.NewRand(p.id ^ uint64(dir)<<60 ^ uint64(i)<<32 ^ 0x5eed)
	for len(buf) < n {
		v := r.U64()
		for k := 0; k < 8 && len(buf) < n; k++ {
			buf = append(buf, byte(v>>(8*k)))
		}
	}
	return buf
}

// msgOwner describes whose message b is.
func msgOwner(b []byte) string {
	if len(b) < 13 {
		return fmt.Sprintf("len%d", len(b))
	}
	return fmt.Sprintf("cid%d-dir%d-i%d-len%d", binary.BigEndian.Uint64(b), b[8], binary.BigEndian.Uint32(b[9:]), len(b))
}

// resultPayload is the payload of the OK result of a call.
func resultPayload(id uint64, n int) []byte {
	if n < 0 {
		return nil
	}
	b := make([]byte, 0, n)
	if n >= 8 {
		b = binary.BigEndian.AppendUint64(b, id)
	}
	r := hx.NewRand(id ^ 0x7e5017)
	for len(b) < n {
		b = append(b, byte(r.U64()))
	}
	return b
}

// resultValue is the spec encoding of the result (a bytes value), nil for a nil result.
func resultValue(id uint64, n int) []byte {
	if n < 0 {
		return nil
	}
	w := spec.NewValueWriter()
	if err := w.Bytes(resultPayload(id, n)); err != nil {
		fail("result value: %v", err)
	}
	b, err := w.Build()
	if err != nil {
		fail("result value: %v", err)
	}
	return append([]byte(nil), b...)
}

// generation

var knownCodes = []string{
	"error", "external_error", "not_found", "forbidden", "unauthorized", "closed", "cancelled",
	"redirect", "timeout", "unavailable", "unsupported", "end", "wait", "parse_error",
	"checksum_error", "concurrency_error", "rollback", "rpc_error", "test",
}

func genCode(r *hx.Rand) string {
	switch x := r.Intn(100); {
	case x < 40:
		return knownCodes[r.Intn(len(knownCodes))]
	case x < 75:
		return fmt.Sprintf("app_%x", r.U64()&0xffffff)
	case x < 80:
		return "my.custom/code-" + fmt.Sprint(r.Intn(1000))
	case x < 85:
		return "код ошибки " + fmt.Sprint(r.Intn(1000)) // non-ASCII, spaces
	case x < 90:
		return strings.Repeat("long_code_", 10+r.Intn(40)) + fmt.Sprint(r.Intn(1000))
	case x < 93:
		return "" // status.CodeNone
	case x < 96:
		return "OK" // not the OK code
	default:
		return "ok " + fmt.Sprint(r.Intn(10))
	}
}

func genText(r *hx.Rand) string {
	switch x := r.Intn(100); {
	case x < 10:
		return ""
	case x < 70:
		return "failure " + hx.Hex(r.Bytes(1+r.Intn(12)))
	case x < 85:
		return "сбой \"quoted\"\n\tline2 " + hx.Hex(r.Bytes(4))
	default:
		return strings.Repeat("x", 200+r.Intn(3000)) + hx.Hex(r.Bytes(4))
	}
}

type genCfg struct {
	maxDelayUs int
	maxMsgs    int
	kindW      [numKinds]int
	smallWin   bool // small channel window: both sides of a stream must run concurrently
	noMisbehav bool // no abandon/cancel behaviours
}

func pickWeighted(r *hx.Rand, w []int) int {
	sum := 0
	for _, x := range w {
		sum += x
	}
	if sum == 0 {
		return 0
	}
	x := r.Intn(sum)
	for i, v := range w {
		if x < v {
			return i
		}
		x -= v
	}
	return 0
}

func genDelay(r *hx.Rand, max int) int {
	switch x := r.Intn(10); {
	case x < 5:
		return 0
	case x < 8:
		return r.Intn(max/10 + 1)
	default:
		return r.Intn(max + 1)
	}
}

func genPlan(r *hx.Rand, id uint64, cfg *genCfg) *plan {
	p := &plan{id: id, sizeSeed: r.U64()}
	p.kind = pickWeighted(r, cfg.kindW[:])
	p.nCalls = 1
	if r.Intn(5) == 0 {
		p.nCalls = 2 + r.Intn(2)
	}
	p.preDelayUs = genDelay(r, cfg.maxDelayUs/2)
	if r.Intn(3) == 0 {
		p.holdUs = 1 + r.Intn(300)
	}
	p.delayUs = genDelay(r, cfg.maxDelayUs)

	// outcome
	switch x := r.Intn(100); {
	case x < 55:
		p.outcome = oOK
	case x < 88:
		p.outcome = oFail
	default:
		p.outcome = oPanic
	}
	if p.kind == kOnewayWatched {
		p.outcome = oOK
	}
	switch p.outcome {
	case oOK:
		switch x := r.Intn(20); {
		case x == 0:
			p.resLen = -1
		case x == 1:
			p.resLen = 0
		case x < 16:
			p.resLen = 8 + r.Intn(64)
		case x < 19:
			p.resLen = 8 + r.Intn(5000)
		default:
			p.resLen = 8 + r.Intn(100000)
		}
	case oFail:
		p.code = genCode(r)
		p.msg = marker(id) + genText(r)
		p.failRes = r.Intn(4) == 0
		p.resLen = 8 + r.Intn(32)
	case oPanic:
		p.msg = "boom " + marker(id) + hx.Hex(r.Bytes(4))
	}

	if !p.streaming() {
		if p.kind == kUnary && !cfg.noMisbehav && r.Intn(25) == 0 {
			p.cliBehav = bCancel
			p.cancelUs = r.Intn(cfg.maxDelayUs + 1)
		}
		return p.finish()
	}

	// streams
	n := func() int {
		switch x := r.Intn(10); {
		case x < 2:
			return 0
		case x < 7:
			return 1 + r.Intn(5)
		default:
			return 1 + r.Intn(cfg.maxMsgs)
		}
	}
	switch p.kind {
	case kCStream:
		p.cliMsgs = n()
	case kSStream:
		p.srvMsgs = n()
	case kBidi:
		p.cliMsgs, p.srvMsgs = n(), n()
	}
	p.cliSendEnd = r.Intn(4) != 0
	p.srvSendEnd = r.Intn(3) == 0
	p.srvReadN = p.cliMsgs
	if p.cliMsgs > 0 && r.Intn(5) == 0 {
		p.srvReadN = r.Intn(p.cliMsgs) // the handler ends early
	}
	p.srvMode = r.Intn(3)
	p.cliMode = r.Intn(3)
	if cfg.smallWin {
		p.srvMode, p.cliMode = mConcurrent, mConcurrent
	}
	if p.cliMode == mRecvFirst {
		// The client sends only after it has seen the end of the server stream, which
		// then must be explicit and must not wait for the client.
		p.srvSendEnd = true
		if p.srvMode == mRecvFirst {
			p.srvMode = mSendFirst
		}
	}
	p.cliAsync = r.Intn(3) == 0
	p.srvAsync = r.Intn(3) == 0
	p.cliDelayUs = genDelay(r, cfg.maxDelayUs/8)
	if !cfg.noMisbehav {
		switch x := r.Intn(40); {
		case x < 2:
			p.cliBehav = bAbandon
			p.abandonN = r.Intn(p.cliMsgs + 1)
		case x < 4:
			p.cliBehav = bCancel
			p.cancelUs = r.Intn(cfg.maxDelayUs + 1)
		case x < 7:
			p.cliBehav = bRespOnly
			if p.cliMode == mRecvFirst {
				p.cliMode = mSendFirst
			}
		case x < 10:
			p.freeUs = r.Intn(cfg.maxDelayUs/2 + 1)
			if freeRace {
				p.cliBehav = bFreeRace
			}
		}
	}
	if cfg.smallWin {
		// With a small window a side that sends without reading blocks until the peer reads:
		// the caller must read while it sends, otherwise the call deadlocks by design.
		switch p.cliBehav {
		case bRespOnly:
			p.cliBehav = bNormal
		case bAbandon:
			p.abandonN = 0
		}
	}
	return p.finish()
}

func (p *plan) finish() *plan {
	p.enc = p.encode()
	return p
}
