package main

import (
	"encoding/binary"
	"fmt"
	"strings"
	"sync"
	"time"

	"github.com/basecomplextech/baselibrary/async"
	"github.com/basecomplextech/baselibrary/status"
	"github.com/basecomplextech/baselibrary/units"
	"github.com/basecomplextech/spec/mpx"
	"verif/harness/internal/caplog"
)

// runStream runs a line `stream <W> <size> <channels> <messages>`: every channel of one connection
// streams <messages> messages of <size> bytes through a window of W bytes to a handler that consumes
// everything as fast as it can. The senders run into the exhausted window all the time and depend on
// every window update to go on; as the receiver keeps consuming, every Send is admitted (C07, "a
// blocked Send is eventually admitted"), so the answer is the number of bytes the handlers counted -
// the same number the model delivers when its receiver consumes greedily.
func runStream(line string) string {
	f := strings.Split(line, " ")
	if len(f) != 5 {
		return "bad-op"
	}
	var v [4]int
	for i := range v {
		n, ok := parseNat(f[i+1])
		if !ok || n <= 0 {
			return "bad-op"
		}
		v[i] = n
	}
	w, size, channels, messages := v[0], v[1], v[2], v[3]
	// `mstream <W> <size> <senders> <messages>`: ONE channel with several concurrent senders (they
	// are serialised by the channel; every one of them must be admitted again after a window update)
	senders := 1
	if f[0] == "mstream" {
		senders, channels = channels, 1
	}
	perChannel := uint64(senders) * uint64(messages) * uint64(size)
	const sendTimeout = 20 * time.Second

	lg := caplog.New()
	handle := func(ctx mpx.Context, ch mpx.Channel) status.Status {
		total := uint64(0)
		for {
			msg, st := ch.Receive(ctx)
			if !st.OK() {
				return st
			}
			total += uint64(len(msg))
			if total >= perChannel {
				break
			}
		}
		reply := make([]byte, 8)
		binary.BigEndian.PutUint64(reply, total)
		return ch.SendAndClose(ctx, reply)
	}
	opts := mpx.Default()
	opts.ChannelWindowSize = units.Bytes(w)
	opts.Compression = false
	srv := mpx.NewServer("localhost:0", mpx.HandleFunc(handle), lg, opts)
	if st := srv.Start(); !st.OK() {
		return "ERROR server start: " + st.String()
	}
	defer func() {
		select {
		case <-srv.Stop():
		case <-time.After(2 * time.Second):
		}
	}()
	select {
	case <-srv.Listening().Wait():
	case <-time.After(3 * time.Second):
		return "ERROR server not listening"
	}
	cctx := async.TimeoutContext(3 * time.Second)
	defer cctx.Free()
	conn, st := mpx.Connect(cctx, srv.Address(), lg, opts)
	if !st.OK() {
		return "ERROR connect: " + st.String()
	}
	defer conn.Close()

	data := make([]byte, size)
	for i := range data {
		data[i] = 'd'
	}
	var wg sync.WaitGroup
	var mu sync.Mutex
	delivered := uint64(0)
	viol := ""
	fail := func(s string) {
		mu.Lock()
		if viol == "" {
			viol = s
		}
		mu.Unlock()
	}
	for c := 0; c < channels; c++ {
		wg.Add(1)
		go func(c int) {
			defer wg.Done()
			octx := async.TimeoutContext(5 * time.Second)
			ch, st := conn.Channel(octx)
			octx.Free()
			if !st.OK() {
				fail("open-channel-" + string(st.Code))
				return
			}
			defer ch.Free()
			var sw sync.WaitGroup
			for k := 0; k < senders; k++ {
				sw.Add(1)
				go func(k int) {
					defer sw.Done()
					for i := 0; i < messages; i++ {
						sctx := async.TimeoutContext(sendTimeout)
						st := ch.Send(sctx, data)
						sctx.Free()
						if !st.OK() {
							fail(fmt.Sprintf("send-%d-of-sender-%d-of-channel-%d-not-admitted-within-%ds-although-the-receiver-consumes-everything:%s",
								i, k, c, int(sendTimeout.Seconds()), st.Code))
							return
						}
					}
				}(k)
			}
			sw.Wait()
			rctx := async.TimeoutContext(sendTimeout)
			defer rctx.Free()
			reply, st := ch.Receive(rctx)
			if !st.OK() || len(reply) != 8 {
				fail("no-reply-from-the-receiver:" + string(st.Code))
				return
			}
			mu.Lock()
			delivered += binary.BigEndian.Uint64(reply)
			mu.Unlock()
		}(c)
	}
	wg.Wait()
	out := fmt.Sprintf("%s delivered=%d", line, delivered)
	if viol == "" && len(lg.Panics()) > 0 {
		viol = "library-panic"
	}
	if viol != "" {
		out += " VIOL " + viol
	}
	return out
}
