// Command mpxflow is the Go side of the flow-control correspondence (property C07).
//
//	mpxflow gen <seed> <tier> <stats.json>   write script lines to stdout, counts to the stats file
//	mpxflow                                  read script lines on stdin, print one answer line each
//	mpxflow selfcheck <seed> <tier>          gen + run in-process, report the direct oracle
//
// A script line is `<W> <op> ...` (see lean/Drivers/FlowDriver.lean); the answer line has the very
// same format as the one printed by the Lean driver, so that both outputs can be diffed.  The
// suffix ` VIOL <what>` is Go-only and is printed only when the model-free oracle fails.
package main

import (
	"bufio"
	"encoding/json"
	"fmt"
	"os"
	"strconv"
	"strings"
	"sync"
	"time"

	"verif/harness/internal/hx"
)

func main() {
	args := os.Args[1:]
	switch {
	case len(args) == 0:
		os.Exit(cmdRun())
	case args[0] == "gen" && len(args) == 4:
		os.Exit(cmdGen(args[1], args[2], args[3]))
	case args[0] == "selfcheck" && len(args) == 3:
		os.Exit(cmdSelfcheck(args[1], args[2]))
	default:
		fmt.Fprintln(os.Stderr, "usage: mpxflow | mpxflow gen <seed> <tier> <stats.json> | mpxflow selfcheck <seed> <tier>")
		os.Exit(2)
	}
}

// run mode

func envInt(name string, def int) int {
	if v, err := strconv.Atoi(os.Getenv(name)); err == nil && v > 0 {
		return v
	}
	return def
}

// runAll runs the scripts with a small worker pool and returns the answers in input order.
func runAll(lines []string, emit func(i int, answer string)) {
	par := envInt("MPXFLOW_PAR", 4)
	cfg := config{
		settle:   time.Duration(envInt("MPXFLOW_SETTLE_MS", 25)) * time.Millisecond,
		resettle: time.Duration(envInt("MPXFLOW_RESETTLE_MS", 1000)) * time.Millisecond,
		overall:  10 * time.Second,
		// MPXFLOW_PACE_US is a diagnostic knob, off by default: it pauses after every admitted
		// message so that the connection send loop is parked before the next frame is queued.
		pace: time.Duration(envInt("MPXFLOW_PACE_US", 0)) * time.Microsecond,
	}

	cfg.overall += 60*cfg.settle + 2*cfg.resettle

	answers := make([]string, len(lines))
	ready := make([]chan struct{}, len(lines))
	for i := range ready {
		ready[i] = make(chan struct{})
	}
	jobs := make(chan int)
	var wg sync.WaitGroup
	for w := 0; w < par; w++ {
		wg.Add(1)
		go func() {
			defer wg.Done()
			for i := range jobs {
				answers[i] = runScriptBounded(lines[i], cfg)
				close(ready[i])
			}
		}()
	}
	go func() {
		for i := range lines {
			jobs <- i
		}
		close(jobs)
	}()
	for i := range lines {
		<-ready[i]
		emit(i, answers[i])
	}
	wg.Wait()
}

func readLines() []string {
	var lines []string
	sc := bufio.NewScanner(os.Stdin)
	sc.Buffer(make([]byte, 1<<20), 1<<26)
	for sc.Scan() {
		line := strings.TrimRight(sc.Text(), " \t\r\n")
		if line == "" {
			// the Lean driver stops at the first empty line as well
			break
		}
		lines = append(lines, line)
	}
	return lines
}

func cmdRun() int {
	lines := readLines()
	out := bufio.NewWriter(os.Stdout)
	defer out.Flush()
	runAll(lines, func(_ int, a string) {
		fmt.Fprintln(out, a)
		out.Flush()
	})
	return 0
}

// gen mode

type stats struct {
	Seed       uint64 `json:"seed"`
	Tier       string `json:"tier"`
	Scripts    int    `json:"scripts"`
	Ops        int    `json:"ops"`
	Enumerated int    `json:"enumerated"`
	Random     int    `json:"random"`
	SendOps    int    `json:"send_ops"`
	ConsumeOps int    `json:"consume_ops"`
	CloseOps   int    `json:"close_ops"`
	Streams    int    `json:"streams"`
}

func cmdGen(seedS, tier, statsPath string) int {
	seed, err := strconv.ParseUint(seedS, 10, 64)
	if err != nil || (tier != "quick" && tier != "thorough") {
		fmt.Fprintln(os.Stderr, "gen: bad seed or tier (quick|thorough)")
		return 2
	}
	lines, st := generate(seed, tier)
	out := bufio.NewWriter(os.Stdout)
	for _, l := range lines {
		fmt.Fprintln(out, l)
	}
	out.Flush()
	b, _ := json.Marshal(st)
	if err := os.WriteFile(statsPath, append(b, '\n'), 0o644); err != nil {
		fmt.Fprintln(os.Stderr, "gen:", err)
		return 2
	}
	return 0
}

var genWindows = []int{1, 2, 3, 4, 5, 7, 8, 15, 16, 64, 1024, 65537}
var enumWindows = []int{1, 2, 3, 4, 5, 7, 8}

const maxSize = 200000

// sizesFor returns the interesting payload sizes around the window and its half.
func sizesFor(w int) []int {
	cand := []int{1, w/2 - 1, w / 2, w/2 + 1, w - 1, w, w + 1, 2 * w}
	var out []int
	seen := map[int]bool{}
	for _, c := range cand {
		if c <= 0 {
			continue
		}
		if c > maxSize {
			c = maxSize
		}
		if !seen[c] {
			seen[c] = true
			out = append(out, c)
		}
	}
	return out
}

func generate(seed uint64, tier string) ([]string, stats) {
	// hx.NewRand(seed+1) is hx.NewRand(seed) shifted by one draw, so reseed with an output
	r := hx.NewRand(hx.NewRand(seed).U64())
	st := stats{Seed: seed, Tier: tier}
	var lines []string

	nRandom := 120
	if tier == "thorough" {
		nRandom = 3000
		const capTotal = 6000
		quota := capTotal / len(enumWindows)
		extra := capTotal - quota*len(enumWindows)
		for wi, w := range enumWindows {
			q := quota
			if wi < extra {
				q++
			}
			for _, l := range enumerate(r, w, 5, q) {
				lines = append(lines, l)
				st.Enumerated++
			}
		}
	}
	for i := 0; i < nRandom; i++ {
		lines = append(lines, randomScript(r))
		st.Random++
	}

	// streams: a greedy receiver behind a small window (see stream.go)
	streams := []string{"stream 512 100 8 10000", "stream 1 1 4 2000", "stream 64 100 8 5000", "stream 7 3 16 3000"}
	if tier == "thorough" {
		streams = append(streams, "stream 512 100 8 30000", "stream 4096 1000 4 10000", "stream 2 5 8 5000", "stream 1024 100 16 10000")
		for i := 0; i < 8; i++ {
			streams = append(streams, fmt.Sprintf("stream %d %d %d %d", 1+r.Intn(2000), 1+r.Intn(300), 1+r.Intn(16), 2000+r.Intn(8000)))
		}
	}
	streams = append(streams, "mstream 512 100 2 6000", "mstream 64 100 3 3000", "mstream 1 1 2 2000")
	if tier == "thorough" {
		streams = append(streams, "mstream 4096 1000 4 5000", "mstream 7 3 3 5000", "mstream 512 100 8 5000")
	}
	st.Streams = len(streams)
	lines = append(lines, streams...)

	st.Scripts = len(lines)
	for _, l := range lines {
		if strings.HasPrefix(l, "stream ") || strings.HasPrefix(l, "mstream ") {
			continue
		}
		for _, op := range strings.Split(l, " ")[1:] {
			st.Ops++
			switch op[0] {
			case 's':
				st.SendOps++
			case 'c':
				st.ConsumeOps++
			case 'x':
				st.CloseOps++
			}
		}
	}
	return lines, st
}

// enumerate returns all sequences of 1..maxLen ops over {s<size>, c} for the window, or a seeded
// sample of `quota` distinct ones when there are more.
func enumerate(r *hx.Rand, w, maxLen, quota int) []string {
	alpha := []string{"c"}
	for _, s := range sizesFor(w) {
		alpha = append(alpha, "s"+strconv.Itoa(s))
	}
	a := len(alpha)
	counts := make([]int, maxLen+1) // counts[l] = a^l
	total := 0
	p := 1
	for l := 1; l <= maxLen; l++ {
		p *= a
		counts[l] = p
		total += p
	}
	decode := func(idx int) string {
		l := 1
		for idx >= counts[l] {
			idx -= counts[l]
			l++
		}
		ops := make([]string, l)
		for k := l - 1; k >= 0; k-- {
			ops[k] = alpha[idx%a]
			idx /= a
		}
		return strconv.Itoa(w) + " " + strings.Join(ops, " ")
	}
	var out []string
	if total <= quota {
		for i := 0; i < total; i++ {
			out = append(out, decode(i))
		}
		return out
	}
	seen := map[int]bool{}
	for len(out) < quota {
		i := r.Intn(total)
		if seen[i] {
			continue
		}
		seen[i] = true
		out = append(out, decode(i))
	}
	return out
}

func randomScript(r *hx.Rand) string {
	w := genWindows[r.Intn(len(genWindows))]
	sizes := sizesFor(w)
	n := 4 + r.Intn(11) // 4..14
	withClose := r.Intn(100) < 20
	sendPct := 40 + r.Intn(31) // 40..70 % sends
	ops := make([]string, 0, n)
	for i := 0; i < n; i++ {
		if withClose && i == n-1 {
			ops = append(ops, "x"+strconv.Itoa(sizes[r.Intn(len(sizes))]))
			break
		}
		if r.Intn(100) < sendPct {
			ops = append(ops, "s"+strconv.Itoa(sizes[r.Intn(len(sizes))]))
		} else {
			ops = append(ops, "c")
		}
	}
	return strconv.Itoa(w) + " " + strings.Join(ops, " ")
}

// selfcheck mode

func cmdSelfcheck(seedS, tier string) int {
	seed, err := strconv.ParseUint(seedS, 10, 64)
	if err != nil || (tier != "quick" && tier != "thorough") {
		fmt.Fprintln(os.Stderr, "selfcheck: bad seed or tier (quick|thorough)")
		return 2
	}
	lines, st := generate(seed, tier)
	viol, timeouts, pend := 0, 0, 0
	runAll(lines, func(i int, a string) {
		switch {
		case a == "TIMEOUT":
			timeouts++
			fmt.Printf("selfcheck TIMEOUT script=%q\n", lines[i])
		case strings.Contains(a, " VIOL "):
			viol++
			fmt.Printf("selfcheck VIOL script=%q answer=%q\n", lines[i], a)
		}
		if strings.Contains(a, ":p") {
			pend++
		}
	})
	fmt.Printf("selfcheck seed=%d tier=%s scripts=%d ops=%d scripts_with_blocked_send=%d viol=%d timeout=%d\n",
		seed, tier, st.Scripts, st.Ops, pend, viol, timeouts)
	if viol > 0 || timeouts > 0 {
		return 1
	}
	return 0
}
