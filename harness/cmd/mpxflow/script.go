package main

import (
	"os"
	"runtime"
	"strconv"
	"strings"
	"sync/atomic"
	"time"

	"github.com/basecomplextech/baselibrary/async"
	"github.com/basecomplextech/baselibrary/status"
	"github.com/basecomplextech/baselibrary/units"
	"github.com/basecomplextech/spec/mpx"
	"verif/harness/internal/caplog"
)

type config struct {
	settle   time.Duration // wait for a blocked Send to return before it is reported as pending
	resettle time.Duration // extra wait before a pending Send is reported as stuck
	overall  time.Duration // bound of one script
	pace     time.Duration // optional pause after every admitted message (0 = none), see runAll
}

// runScriptBounded runs one script, the whole answer is TIMEOUT when it takes too long.
func runScriptBounded(line string, cfg config) string {
	if strings.HasPrefix(line, "stream ") || strings.HasPrefix(line, "mstream ") {
		return runStream(line)
	}
	abort := make(chan struct{})
	res := make(chan string, 1)
	go func() { res <- runScript(line, cfg, abort) }()

	t := time.NewTimer(cfg.overall)
	defer t.Stop()
	select {
	case a := <-res:
		return a
	case <-t.C:
		if os.Getenv("MPXFLOW_DEBUG") != "" {
			buf := make([]byte, 1<<20)
			buf = buf[:runtime.Stack(buf, true)]
			os.Stderr.Write(buf)
		}
		close(abort) // the script goroutine cleans up by itself
		return "TIMEOUT"
	}
}

// deliverTimeout bounds the wait for a message whose Send has returned OK.
const deliverTimeout = time.Second

// consumeCmd asks the server handler to take exactly one message.
type consumeCmd struct {
	wait bool // a message is known to be on its way, wait for it
}

// script is the state shared by the runner and the server handler of one script.
type script struct {
	w       int
	consume chan consumeCmd
	result  chan int      // size of the consumed message, -1 = none
	done    chan struct{} // closed at the end of the script, releases the handler
	started atomic.Bool   // the handler is running
	exited  chan struct{}
	calls   atomic.Int32 // number of handler invocations (must be 1)
}

func (sc *script) handle(ctx mpx.Context, ch mpx.Channel) status.Status {
	if sc.calls.Add(1) != 1 {
		return status.OK
	}
	defer close(sc.exited)
	sc.started.Store(true)

	for {
		select {
		case <-sc.done:
			return status.OK
		case cmd := <-sc.consume:
			sc.result <- sc.takeOne(ch, cmd)
		}
	}
}

// takeOne consumes exactly one message, the channel context is not used on purpose: it is
// cancelled when the peer closes the channel, while queued messages can still be consumed.
func (sc *script) takeOne(ch mpx.Channel, cmd consumeCmd) int {
	if !cmd.wait {
		data, ok, st := ch.ReceiveAsync(async.NoContext())
		if !ok || !st.OK() {
			return -1
		}
		return len(data)
	}

	ctx := async.TimeoutContext(deliverTimeout)
	defer ctx.Free()
	data, st := ch.Receive(ctx)
	if !st.OK() {
		return -1
	}
	return len(data)
}

// pendingSend is a Send/SendAndClose running in its own goroutine.
type pendingSend struct {
	n       int
	isClose bool
	done    chan status.Status
}

type runner struct {
	cfg   config
	sc    *script
	w     int
	ch    mpx.Channel
	ctx   async.CancelContext
	abort <-chan struct{}

	pending *pendingSend
	opened  bool // an open frame has been sent
	closed  bool // SendAndClose has been called

	admitted      []int // payload sizes of the `s` ops which returned OK, in call order
	admittedBytes int64
	sentMsgs      int // messages put on the wire (admitted sends, close with a payload)
	consumedMsgs  int
	consumedBytes int64
	lost          bool // an admitted message has not been delivered, do not wait for it again

	viol []string
}

func (r *runner) violate(what string) {
	for _, v := range r.viol {
		if v == what {
			return
		}
	}
	r.viol = append(r.viol, what)
}

// complete records the result of a returned Send/SendAndClose.
func (r *runner) complete(p *pendingSend, st status.Status) {
	r.pending = nil
	if st.OK() && r.cfg.pace > 0 {
		time.Sleep(r.cfg.pace)
	}
	if p.isClose {
		if st.OK() {
			r.opened = true
			r.closed = true
			if p.n > 0 {
				r.sentMsgs++
			}
		}
		return
	}
	if st.OK() {
		r.opened = true
		r.admitted = append(r.admitted, p.n)
		r.admittedBytes += int64(p.n)
		r.sentMsgs++
	}
}

// await waits until the pending call returns, false when it is still blocked after d.
func (r *runner) await(d time.Duration) bool {
	p := r.pending
	if p == nil {
		return true
	}
	if d <= 0 {
		select {
		case st := <-p.done:
			r.complete(p, st)
			return true
		default:
			return false
		}
	}
	t := time.NewTimer(d)
	defer t.Stop()
	select {
	case st := <-p.done:
		r.complete(p, st)
		return true
	case <-t.C:
		return false
	case <-r.abort:
		return false
	}
}

// state returns the i/p letter; when a Send is blocked although everything admitted has been
// consumed it re-settles once and reports a lost wake-up.
func (r *runner) state() string {
	if r.pending == nil {
		return "i"
	}
	if !r.pending.isClose && !r.closed && r.consumedBytes == r.admittedBytes && r.consumedMsgs == r.sentMsgs {
		if r.await(r.cfg.resettle) {
			return "i"
		}
		r.violate("stuck")
	}
	return "p"
}

func (r *runner) start(n int, isClose bool) {
	p := &pendingSend{n: n, isClose: isClose, done: make(chan status.Status, 1)}
	data := make([]byte, n)
	for i := range data {
		data[i] = byte(i*131 + n)
	}
	r.pending = p
	ch, ctx := r.ch, r.ctx
	go func() {
		if isClose {
			p.done <- ch.SendAndClose(ctx, data)
		} else {
			p.done <- ch.Send(ctx, data)
		}
	}()
}

func (r *runner) opSend(op string, n int) string {
	if !r.await(0) {
		// ignored while a Send is blocked, nothing can change by itself after the last settle
		r.await(r.cfg.settle / 4)
		return op + ":" + r.state()
	}

	// Direct oracle (b): the window cannot have room for the message whatever window updates are
	// still in flight, sendWindow <= W - (admitted - consumed).
	mustBlock := false
	if r.opened && !r.closed {
		w, h, nn := int64(r.w), int64(r.w/2), int64(n)
		out := r.admittedBytes - r.consumedBytes
		mustBlock = out+nn > max(w, w-h+nn)+h
	}

	before := len(r.admitted)
	r.start(n, false)
	r.await(r.cfg.settle)
	if mustBlock && len(r.admitted) > before {
		r.violate("overrun")
	}
	return op + ":" + r.state()
}

func (r *runner) opClose(op string, n int) string {
	if !r.await(0) {
		r.await(r.cfg.settle / 4)
		return op + ":" + r.state()
	}
	r.start(n, true)
	r.await(2 * time.Second) // never waits for the window
	return op + ":" + r.state()
}

func (r *runner) opConsume() string {
	r.await(0)

	size := -1
	avail := r.sentMsgs - r.consumedMsgs
	if avail > 0 || r.sc.started.Load() {
		t := time.NewTimer(3 * time.Second)
		select {
		case r.sc.consume <- consumeCmd{wait: avail > 0 && !r.lost}:
			select {
			case size = <-r.sc.result:
			case <-t.C:
			case <-r.abort:
			}
		case <-t.C:
		case <-r.abort:
		}
		t.Stop()
	}
	if size < 0 && avail > 0 && !r.lost {
		// Direct oracle (c): the Send has returned OK, nothing else is going on, and the message
		// does not reach the receiver.
		r.lost = true
		r.violate("undelivered")
	}
	tok := "-"
	if size >= 0 {
		tok = strconv.Itoa(size)
		r.consumedMsgs++
		r.consumedBytes += int64(size)
	}

	// A window update may be on its way and wake the blocked sender.
	r.await(r.cfg.settle)
	return "c:" + r.state() + ":" + tok
}

func (r *runner) op(op string) string {
	switch {
	case strings.HasPrefix(op, "s"):
		n, ok := parseNat(op[1:])
		if !ok {
			return "bad-op"
		}
		return r.opSend(op, n)
	case op == "c":
		return r.opConsume()
	case strings.HasPrefix(op, "x"):
		n, ok := parseNat(op[1:])
		if !ok {
			return "bad-op"
		}
		return r.opClose(op, n)
	}
	return "bad-op"
}

func parseNat(s string) (int, bool) {
	if s == "" {
		return 0, false
	}
	for _, c := range s {
		if c < '0' || c > '9' {
			return 0, false
		}
	}
	n, err := strconv.Atoi(s)
	if err != nil || n > 1<<30 {
		return 0, false
	}
	return n, true
}

func runScript(line string, cfg config, abort <-chan struct{}) string {
	fields := strings.Split(line, " ")
	w, ok := parseNat(fields[0])
	if !ok {
		return "bad-op"
	}
	ops := fields[1:]
	if w <= 0 {
		return "ERROR window must be positive"
	}

	lg := caplog.New()
	sc := &script{
		w:       w,
		consume: make(chan consumeCmd),
		result:  make(chan int, 1),
		done:    make(chan struct{}),
		exited:  make(chan struct{}),
	}
	opts := mpx.Default()
	opts.ChannelWindowSize = units.Bytes(w)

	// Server. The window of a channel is the one its opener announces in the open frame; the server's
	// own setting must not matter for incoming channels, so it is made different from the client's in
	// three scripts of four.
	sopts := mpx.Default()
	switch len(line) % 4 {
	case 0:
		sopts.ChannelWindowSize = units.Bytes(w)
	case 1:
		sopts.ChannelWindowSize = units.Bytes(16*w + 7)
	case 2:
		sopts.ChannelWindowSize = units.Bytes(max(1, w/3))
	default:
		sopts.ChannelWindowSize = units.Bytes(1 << 24)
	}
	srv := mpx.NewServer("localhost:0", mpx.HandleFunc(sc.handle), lg, sopts)
	if st := srv.Start(); !st.OK() {
		return "ERROR server start: " + st.String()
	}
	defer func() {
		select {
		case <-srv.Stop():
		case <-time.After(2 * time.Second):
		}
	}()
	select {
	case <-srv.Listening().Wait():
	case <-time.After(3 * time.Second):
		return "ERROR server not listening"
	}

	// Client connection and channel
	ctx := async.NewContext()
	defer ctx.Free()
	cctx := async.TimeoutContext(3 * time.Second)
	defer cctx.Free()
	conn, st := mpx.Connect(cctx, srv.Address(), lg, opts)
	if !st.OK() {
		return "ERROR connect: " + st.String()
	}
	defer conn.Close()
	ch, st := conn.Channel(cctx)
	if !st.OK() {
		return "ERROR channel: " + st.String()
	}

	r := &runner{cfg: cfg, sc: sc, w: w, ch: ch, ctx: ctx, abort: abort}
	toks := make([]string, 0, len(ops)+1)
	aborted := false
	for _, op := range ops {
		select {
		case <-abort:
			aborted = true
		default:
		}
		if aborted {
			if os.Getenv("MPXFLOW_DEBUG") != "" {
				os.Stderr.WriteString("ABORTED " + line + " => " + strings.Join(toks, " ") + "\n")
			}
			break
		}
		toks = append(toks, r.op(op))
	}

	// Snapshot of the admitted payloads before anything is cancelled
	r.await(0)
	adm := make([]string, len(r.admitted))
	for i, n := range r.admitted {
		adm[i] = strconv.Itoa(n)
	}
	answer := strings.Join(toks, " ") + " adm=" + strings.Join(adm, ",")

	// Release the blocked sender and the handler, free the channel
	ctx.Cancel()
	released := true
	if p := r.pending; p != nil {
		select {
		case <-p.done:
		case <-time.After(2 * time.Second):
			released = false
			r.violate("send-not-released")
		}
	}
	if released {
		ch.Free()
	}
	close(sc.done)
	if sc.started.Load() {
		select {
		case <-sc.exited:
		case <-time.After(2 * time.Second):
		}
	}
	conn.Close()

	if sc.calls.Load() > 1 {
		r.violate("handler-called-twice")
	}
	if len(lg.Panics()) > 0 {
		r.violate("libpanic")
	}
	for _, v := range r.viol {
		answer += " VIOL " + v
	}
	return answer
}
