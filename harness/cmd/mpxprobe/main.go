// Command mpxprobe reproduces the "acquire of freed channel" race (F11): handlers that return
// while the peer is still sending on the channel.
package main

import (
	"fmt"
	"os"
	"time"

	"github.com/basecomplextech/baselibrary/async"
	"github.com/basecomplextech/baselibrary/status"
	"github.com/basecomplextech/spec/mpx"
	"verif/harness/internal/caplog"
)

func main() {
	lg := caplog.New()
	handler := mpx.HandleFunc(func(ctx mpx.Context, ch mpx.Channel) status.Status {
		_, st := ch.Receive(ctx)
		return st // return after the first message while the client keeps sending
	})
	srv := mpx.NewServer("localhost:0", handler, lg, mpx.Default())
	if st := srv.Start(); !st.OK() {
		fmt.Println("start:", st)
		os.Exit(2)
	}
	defer func() { <-srv.Stop() }()
	select {
	case <-srv.Listening().Wait():
	case <-time.After(3 * time.Second):
		fmt.Println("server did not start")
		os.Exit(2)
	}
	conn, st := mpx.Connect(async.NoContext(), srv.Address(), lg, mpx.Default())
	if !st.OK() {
		fmt.Println("connect:", st)
		os.Exit(2)
	}
	deadline := time.Now().Add(5 * time.Second)
	closed := false
	for i := 0; time.Now().Before(deadline) && !closed; i++ {
		ch, st := conn.Channel(async.NoContext())
		if !st.OK() {
			closed = true
			break
		}
		for k := 0; k < 50; k++ {
			if st := ch.Send(async.NoContext(), []byte("hello world")); !st.OK() {
				break
			}
		}
		ch.Free()
		if conn.Closed().IsSet() {
			closed = true
		}
	}
	first := ""
	if p := lg.Panics(); len(p) > 0 {
		first = p[0]
	}
	line := fmt.Sprintf("probe connection_closed=%v library_panics=%d first=%q", closed, len(lg.Panics()), first)
	if closed || len(lg.Panics()) > 0 {
		line += " VIOL channel-end-disturbed-connection"
	}
	fmt.Println(line)
}
