// Command langgen is the scenario binary of C05: generated Go code is a faithful translation of the
// schema.
//
//	langgen c05 <seed> <quick|thorough> [only=<run>] [keep] [iters=<n>] [sabotage=<what>]
//
// For every run (one schema bundle) it
//
//  1. generates a valid multi-package schema bundle (schema.GenCoverage: GenSemantic plus, in every
//     package, an enum, nested structs, a struct with bytes / string / any / message fields and a
//     message with a field and a list of every kind, keyword and underscore names, tags up to 65535),
//  2. runs the real compiler and Go generator (verifhooks.Generate) for every package of the bundle
//     into a scratch Go module (one bundle in five with the skip-rpc option),
//  3. writes next to the generated code, from the harness' own model of the schema (model.go, never
//     from the generated code), c05_support.go and c05_test.go: every message is built from random
//     values through the generated writer API (fields in random order, nested messages inline or
//     copied), read back through the generated reader API (also after Parse / Open / Clone / Merge),
//     read through the dynamic tag API (declared tag, declared wire type, no other tags), written
//     through the dynamic writer and read through the generated reader (and: same field order, same
//     bytes); every struct goes through generated encode / decode and a dynamic struct codec; every
//     enum through its codec, constants and names; every service is implemented from the model's
//     method signatures, served by the generated handler on a loopback rpc server and called
//     through the generated client (unary, oneway, channel and subservice methods),
//  4. runs `go test` once per batch of bundles (all packages of the batch linked into one test
//     binary, package c05all; a batch with a package that does not compile or a dying binary is run
//     again with one test binary per package, which isolates the failure),
//  5. generates every package a second and a third time into other directories and compares the
//     files byte by byte.
//
// Output: one line per run `c05 run=<i> seed=<derived> pkgs= messages= fields= structs= enums=
// services= files= rpc= checks=<comparisons executed> gen_ms=` with ` VIOL <kind>:<detail>` suffixes,
// then `c05 summary runs=<n> viol=<n> skipped_for_time=<n> elapsed_s=<n>`. Violation kinds:
// roundtrip-mismatch, dynamic-read-mismatch, dynamic-write-mismatch, struct-mismatch,
// regenerate-differs, test-does-not-compile (generated-code:... or harness-code:...), panic, hang.
// `rejected=` (the compiler refused the bundle), `unfinished=` (the time of the scenario ended while
// the Go toolchain was building) and `notes=` are not violations. Runs which do not fit into the
// time budget are not started (skipped_for_time).
//
// only=<run> executes one run (same derived seed); keep leaves the scratch directory in place and
// prints its path on stderr; C05_DEBUG=1 prints the output of go test; sabotage=<what> damages the
// harness' expectations (never the library) to demonstrate that the oracle reports: tag, field,
// value, wiretype, struct, rpc, regen, compile (run 1 of a batch does not compile).
package main

import (
	"bytes"
	"context"
	_ "embed"
	"fmt"
	"os"
	"os/exec"
	"path/filepath"
	"regexp"
	"sort"
	"strconv"
	"strings"
	"time"

	"github.com/basecomplextech/spec/verifhooks"
	"verif/harness/internal/hx"
	"verif/harness/internal/schema"
)

//go:embed c05rt/rt.go
var rtSource []byte

//go:embed c05rt/rpc.go
var rtRPCSource []byte

const module = "gen.test"

type run struct {
	idx      int
	seed     uint64
	dir      string // b<idx>
	bundle   *schema.Bundle
	model    *model
	rejected string
	// the tests did not complete for a reason which says nothing about the library (the time budget
	// of the scenario ended while the Go toolchain was still building)
	unfinished string
	skipRPC    bool
	notes      []string
	viol       []string
	stats      struct{ pkgs, messages, fields, structs, enums, services, files int }
	checks     int64
	genMs      int64
}

func (r *run) addViol(kind, detail string) {
	v := kind
	if detail != "" {
		v += ":" + nospace(detail)
	}
	for _, x := range r.viol {
		if x == v {
			return
		}
	}
	r.viol = append(r.viol, v)
}

func nospace(s string) string {
	s = strings.Join(strings.Fields(s), "_")
	if len(s) > 240 {
		s = s[:240]
	}
	return s
}

type config struct {
	seed     uint64
	thorough bool
	only     int
	keep     bool
	iters    int
	sabotage string
}

func usage() {
	fmt.Fprintln(os.Stderr, "usage: langgen c05 <seed> <quick|thorough> [only=<run>] [keep] [iters=<n>] [sabotage=tag|field|value|wiretype|struct|rpc|regen|compile]")
	os.Exit(2)
}

func main() {
	if len(os.Args) < 4 || os.Args[1] != "c05" {
		usage()
	}
	cfg := config{only: -1}
	var err error
	if cfg.seed, err = strconv.ParseUint(os.Args[2], 10, 64); err != nil {
		usage()
	}
	switch os.Args[3] {
	case "quick":
	case "thorough":
		cfg.thorough = true
	default:
		usage()
	}
	for _, a := range os.Args[4:] {
		switch {
		case a == "keep":
			cfg.keep = true
		case strings.HasPrefix(a, "only="):
			if cfg.only, err = strconv.Atoi(a[5:]); err != nil {
				usage()
			}
		case strings.HasPrefix(a, "iters="):
			if cfg.iters, err = strconv.Atoi(a[6:]); err != nil {
				usage()
			}
		case strings.HasPrefix(a, "sabotage="):
			cfg.sabotage = a[9:]
		default:
			usage()
		}
	}
	os.Exit(execute(cfg))
}

func execute(cfg config) int {
	start := time.Now()
	// budget: no batch starts after it; a running `go test` is killed at the hard limit
	nruns, batch, iters := 12, 6, 8
	budget, hard := 38*time.Second, 52*time.Second
	if cfg.thorough {
		nruns, batch, iters = 80, 16, 16
		budget, hard = 265*time.Second, 335*time.Second
	}
	if cfg.iters > 0 {
		iters = cfg.iters
	}
	work, err := os.MkdirTemp("", "langgen")
	if err != nil {
		fmt.Fprintln(os.Stderr, err)
		return 2
	}
	if cfg.keep {
		fmt.Fprintln(os.Stderr, "scratch directory:", work)
	} else {
		defer os.RemoveAll(work)
	}
	mod := filepath.Join(work, "mod")
	if err := setupModule(mod); err != nil {
		fmt.Fprintln(os.Stderr, err)
		return 2
	}

	master := hx.NewRand(hx.NewRand(cfg.seed).U64() ^ 0xc05c05)
	var runs []*run
	for i := 0; i < nruns; i++ {
		r := &run{idx: i, seed: master.U64(), dir: fmt.Sprintf("b%d", i)}
		if cfg.only >= 0 && cfg.only != i {
			continue
		}
		runs = append(runs, r)
	}

	total, viols, skipped, productive := 0, 0, 0, 0
	perRun := time.Duration(0) // measured wall time per run of the batches so far
	for len(runs) > 0 {
		left := budget - time.Since(start)
		n := batch
		if n > len(runs) {
			n = len(runs)
		}
		if total > 0 {
			// the machine may be slower than planned: shrink the batch to what fits, stop when
			// nothing fits (the summary reports the runs which were not executed)
			fit := int(left / (perRun + perRun/4))
			if fit < n {
				n = fit
			}
			if n <= 0 {
				skipped = len(runs)
				break
			}
		}
		cur := runs[:n]
		runs = runs[n:]
		t0 := time.Now()
		for _, r := range cur {
			prepare(cfg, work, mod, r, iters)
		}
		limit := hard - time.Since(start)
		if total == 0 && limit < 10*time.Minute {
			// the first batch always runs to its end, however slow the machine is: a check that
			// compared nothing proves nothing (and must not be mistaken for a failure either)
			limit = 10 * time.Minute
		}
		goTest(work, mod, cur, limit)
		perRun = (perRun*time.Duration(total) + time.Since(t0)) / time.Duration(total+len(cur))
		for _, r := range cur {
			total++
			line := fmt.Sprintf("c05 run=%d seed=%d pkgs=%d messages=%d fields=%d structs=%d enums=%d services=%d files=%d rpc=%v checks=%d gen_ms=%d",
				r.idx, r.seed, r.stats.pkgs, r.stats.messages, r.stats.fields, r.stats.structs, r.stats.enums, r.stats.services,
				r.stats.files, !r.skipRPC, r.checks, r.genMs)
			if r.rejected != "" {
				line += " rejected=" + nospace(r.rejected)
			}
			if r.unfinished != "" {
				line += " unfinished=" + nospace(r.unfinished)
			}
			if len(r.notes) > 0 {
				line += " notes=" + nospace(strings.Join(r.notes, ","))
			}
			if len(r.viol) > 0 {
				viols++
			}
			if r.checks > 0 {
				productive++
			}
			for _, v := range r.viol {
				line += " VIOL " + v
			}
			fmt.Println(line)
			if cfg.keep {
				// later batches must not compile earlier ones again
				os.Rename(filepath.Join(mod, r.dir), filepath.Join(work, "done_"+r.dir))
			} else {
				os.RemoveAll(filepath.Join(mod, r.dir))
			}
		}
	}
	fmt.Printf("c05 summary runs=%d viol=%d productive=%d skipped_for_time=%d elapsed_s=%d\n", total, viols, productive, skipped, int(time.Since(start).Seconds()))
	if total > 0 && productive*2 < total {
		// a run that compared nothing (schemas rejected by the harness, tests not started) must not
		// look like a pass: the runner treats a non-zero exit as a broken check
		fmt.Fprintln(os.Stderr, "c05: fewer than half of the runs executed any comparison")
		return 3
	}
	return 0
}

func setupModule(mod string) error {
	if err := os.MkdirAll(filepath.Join(mod, "c05rt"), 0o755); err != nil {
		return err
	}
	gomod := "module " + module + "\n\ngo 1.24.0\n\nrequire github.com/basecomplextech/spec v0.0.0\n\nreplace github.com/basecomplextech/spec => " + hx.RepoDir() + "\n"
	if err := os.WriteFile(filepath.Join(mod, "go.mod"), []byte(gomod), 0o644); err != nil {
		return err
	}
	if sum, err := os.ReadFile(hx.RepoDir() + "/go.sum"); err == nil {
		os.WriteFile(filepath.Join(mod, "go.sum"), sum, 0o644)
	}
	if err := os.WriteFile(filepath.Join(mod, "c05rt", "rpc.go"), rtRPCSource, 0o644); err != nil {
		return err
	}
	return os.WriteFile(filepath.Join(mod, "c05rt", "rt.go"), rtSource, 0o644)
}

func canonical(f *schema.File) string { return strings.Join(f.Tokens(), " ") }

// generate runs the compiler and generator with a guard against panics and hangs.
// hangAfter: a compiler / generator call that has not returned after this long is reported as a hang
// (an endless loop lasts forever; a busy machine does not)
const hangAfter = 120 * time.Second

func generate(src, dst string, imports []string, skipRPC bool) (err error, panicked string, hung bool) {
	type res struct {
		err error
		p   string
	}
	ch := make(chan res, 1)
	go func() {
		defer func() {
			if e := recover(); e != nil {
				ch <- res{nil, fmt.Sprint(e)}
			}
		}()
		ch <- res{verifhooks.Generate(src, dst, imports, skipRPC), ""}
	}()
	select {
	case r := <-ch:
		return r.err, r.p, false
	case <-time.After(hangAfter):
		return nil, "", true
	}
}

// prepare generates the schema, the code and the tests of one run.
func prepare(cfg config, work, mod string, r *run, iters int) {
	t0 := time.Now()
	defer func() { r.genMs = time.Since(t0).Milliseconds() }()
	rnd := hx.NewRand(r.seed)
	modpath := module + "/" + r.dir
	r.bundle = schema.GenCoverage(rnd, modpath)
	// one bundle in five is generated without the rpc code (option -skip-rpc of the compiler)
	r.skipRPC = rnd.Intn(5) == 0
	m, err := buildModel(r.bundle, modpath)
	if err != nil {
		// the harness generator produced something its own model cannot resolve: a harness bug
		r.addViol("test-does-not-compile", "harness-model:"+err.Error())
		return
	}
	if why := m.distinctGoNames(); why != "" {
		r.rejected = "names-not-distinct:" + why
		return
	}
	r.model = m
	r.stats.pkgs = len(m.Pkgs)
	for _, p := range m.Pkgs {
		r.stats.files += len(p.Src.Files)
		for _, d := range p.Defs {
			switch d.Kind {
			case "msg":
				r.stats.messages++
				r.stats.fields += len(d.Fields)
			case "struct":
				r.stats.structs++
			case "enum":
				r.stats.enums++
			case "service", "subservice":
				r.stats.services++
			}
		}
	}

	// sources
	src := filepath.Join(work, "src", r.dir)
	for _, p := range r.bundle.Packages {
		os.MkdirAll(filepath.Join(src, p.ID), 0o755)
		for _, f := range p.Files {
			os.WriteFile(filepath.Join(src, p.ID, f.Name+".spec"), []byte(canonical(f.File)), 0o644)
		}
	}
	if !cfg.keep {
		defer os.RemoveAll(src)
	}

	// compiler + generator, three times
	regen := filepath.Join(work, "regen", r.dir)
	defer os.RemoveAll(regen)
	defer os.RemoveAll(regen + "_2")
	for _, p := range m.Pkgs {
		for pass, dst := range []string{filepath.Join(mod, p.Dir), filepath.Join(regen, p.ID), filepath.Join(regen+"_2", p.ID)} {
			if pass == 2 {
				// the third run writes over files that already exist and are longer (output of an earlier,
				// larger version of the schema): the result must not depend on what was there
				prefillStale(filepath.Join(mod, p.Dir), dst)
			}
			err, panicked, hung := generate(filepath.Join(src, p.ID), dst, []string{src}, r.skipRPC)
			switch {
			case hung:
				r.addViol("hang", "generator:"+p.ID)
				return
			case panicked != "":
				r.addViol("panic", "generator:"+p.ID+":"+panicked)
				return
			case err != nil:
				if pass == 0 {
					r.rejected = p.ID + ":" + err.Error()
				} else {
					r.addViol("regenerate-differs", p.ID+":second-run-failed:"+err.Error())
				}
				os.RemoveAll(filepath.Join(mod, r.dir))
				return
			}
		}
		if cfg.sabotage == "regen" && p == m.Pkgs[0] {
			if es, _ := os.ReadDir(filepath.Join(regen, p.ID)); len(es) > 0 {
				f := filepath.Join(regen, p.ID, es[0].Name())
				b, _ := os.ReadFile(f)
				os.WriteFile(f, append(b, '\n'), 0o644)
			}
		}
		if diff := compareDirs(filepath.Join(mod, p.Dir), filepath.Join(regen, p.ID), p); diff != "" {
			r.addViol("regenerate-differs", p.ID+":"+diff)
		} else if diff := compareDirs(filepath.Join(mod, p.Dir), filepath.Join(regen+"_2", p.ID), p); diff != "" {
			r.addViol("regenerate-differs", p.ID+":third-run:"+diff)
		}
	}

	// tests
	sabotage(cfg.sabotage, m)
	for i, p := range m.Pkgs {
		support, test, err := emitPackage(p, r.dir+"/"+p.ID, r.seed^uint64(i+1)*0xabcdef, iters, !r.skipRPC)
		dir := filepath.Join(mod, p.Dir)
		if cfg.sabotage == "compile" && r.idx == 1 && i == 0 && support != nil {
			// a package of the batch which does not compile: the other runs must be unaffected
			support = append(support, []byte("\nvar _ = c05UndefinedSymbol\n")...)
		}
		if support != nil {
			os.WriteFile(filepath.Join(dir, "c05_support.go"), support, 0o644)
		}
		if test != nil {
			os.WriteFile(filepath.Join(dir, "c05_test.go"), test, 0o644)
		}
		if err != nil {
			r.addViol("test-does-not-compile", "harness-emitter:"+err.Error())
		}
	}
}

// prefillStale copies the generated files of `from` into `to` with a long stale tail appended.
func prefillStale(from, to string) {
	es, err := os.ReadDir(from)
	if err != nil {
		return
	}
	os.MkdirAll(to, 0o755)
	tail := []byte(strings.Repeat("// stale line of an earlier, larger version of this file\nvar _ = staleSymbolOfAnEarlierVersion\n", 400))
	for _, e := range es {
		if !strings.HasSuffix(e.Name(), "_generated.go") {
			continue
		}
		b, err := os.ReadFile(filepath.Join(from, e.Name()))
		if err != nil {
			continue
		}
		os.WriteFile(filepath.Join(to, e.Name()), append(b, tail...), 0o644)
	}
}

// compareDirs checks that both directories hold the same files with the same bytes, one
// <file>_generated.go per schema file.
func compareDirs(a, b string, p *pkg) string {
	list := func(dir string) (map[string][]byte, error) {
		out := map[string][]byte{}
		es, err := os.ReadDir(dir)
		if err != nil {
			return nil, err
		}
		for _, e := range es {
			if strings.HasPrefix(e.Name(), "c05_") {
				continue
			}
			data, err := os.ReadFile(filepath.Join(dir, e.Name()))
			if err != nil {
				return nil, err
			}
			out[e.Name()] = data
		}
		return out, nil
	}
	fa, err := list(a)
	if err != nil {
		return "cannot-read-first:" + err.Error()
	}
	fb, err := list(b)
	if err != nil {
		return "cannot-read-second:" + err.Error()
	}
	var names []string
	for n := range fa {
		names = append(names, n)
	}
	for n := range fb {
		if _, ok := fa[n]; !ok {
			names = append(names, n)
		}
	}
	sort.Strings(names)
	for _, n := range names {
		x, ok1 := fa[n]
		y, ok2 := fb[n]
		switch {
		case !ok1:
			return n + ":only-in-second"
		case !ok2:
			return n + ":only-in-first"
		case !bytes.Equal(x, y):
			return n + ":bytes-differ"
		}
	}
	for _, f := range p.Src.Files {
		if _, ok := fa[f.Name+"_generated.go"]; !ok {
			return f.Name + "_generated.go:missing"
		}
	}
	if len(fa) != len(p.Src.Files) {
		return fmt.Sprintf("file-count:got=%d,want=%d", len(fa), len(p.Src.Files))
	}
	return ""
}

// sabotage damages the model the tests are written from (the library is untouched); each variant
// must make the oracle report.
func sabotage(what string, m *model) {
	if what == "" || what == "regen" {
		return
	}
	if what == "rpc" {
		sabotageRPC = true
		return
	}
	root := m.Pkgs[0]
	for _, d := range root.Defs {
		if d.Kind == "msg" && strings.HasPrefix(d.Name, "CovM") {
			for i := range d.Fields {
				f := &d.Fields[i]
				switch what {
				case "tag":
					// the tests expect a neighbouring tag: dynamic read / write must disagree
					if f.T.K == "int32" && !f.T.List {
						f.Tag ^= 1
						if f.Tag == 0 {
							f.Tag = 2
						}
						return
					}
				case "field":
					// the tests expect another value from the generated accessor
					if f.T.K == "int64" && !f.T.List {
						f.Sab = true
						return
					}
				case "wiretype":
					// the tests expect another wire type for the same Go type
					if f.T.K == "bin64" && !f.T.List {
						wireType["bin64"] = "TypeInt64"
						return
					}
				}
			}
		}
		if what == "value" && d.Kind == "enum" && len(d.Vals) >= 2 {
			// the tests expect another number behind an enum constant
			d.Vals[1].Num++
			return
		}
		if what == "struct" && d.Kind == "struct" && len(d.Fields) >= 2 {
			// the dynamic struct codec uses another field order
			d.Fields[0], d.Fields[1] = d.Fields[1], d.Fields[0]
			return
		}
	}
}

var (
	buildErrRe = regexp.MustCompile(`^(?:\./)?(b\d+)/([^/:]+)/([^/:]+\.go):\d+(?::\d+)?: (.*)$`)
	failRe     = regexp.MustCompile(`^(?:---\s+)?FAIL:?\s+` + regexp.QuoteMeta(module) + `/(b\d+)/(\S+)`)
	panicRe    = regexp.MustCompile(`^(panic: |fatal error: )(.*)$`)
)

// goTest runs the tests of the batch and fills checks / violations of the runs. Phase 1 links all
// packages of the batch into one test binary (package c05all: one compile per package, one link);
// packages without a result after phase 1 (a package of the batch does not compile, or the binary
// died) are tested again in phase 2 with their own test binaries (`go test` per package), which
// isolates the failure.
func goTest(work, mod string, runs []*run, limit time.Duration) {
	start := time.Now()
	byDir := map[string]*run{}
	var active []*run
	for _, r := range runs {
		byDir[r.dir] = r
		if r.model != nil && r.rejected == "" {
			if _, err := os.Stat(filepath.Join(mod, r.dir)); err == nil {
				active = append(active, r)
			}
		}
	}
	if len(active) == 0 {
		return
	}
	out := filepath.Join(work, "out")
	os.RemoveAll(out)
	os.MkdirAll(out, 0o755)

	// a test binary gets at most testTimeout (it needs a few seconds); the whole command is killed
	// when the scenario's time is over
	const testTimeout = 90 * time.Second
	goTestCmd := func(limit time.Duration, patterns ...string) (string, bool) {
		if limit < 10*time.Second {
			limit = 10 * time.Second
		}
		ctx, cancel := context.WithTimeout(context.Background(), limit)
		defer cancel()
		args := append([]string{"test", "-vet=off", "-count=1", "-timeout", fmt.Sprintf("%ds", int(testTimeout.Seconds()))}, patterns...)
		cmd := exec.CommandContext(ctx, "go", args...)
		cmd.Dir = mod
		cmd.Env = append(os.Environ(), "GOFLAGS=-mod=mod", "GOPROXY=off", "C05_OUT="+out)
		cmd.WaitDelay = 3 * time.Second
		outb, _ := cmd.CombinedOutput()
		if os.Getenv("C05_DEBUG") != "" {
			fmt.Fprintln(os.Stderr, string(outb))
		}
		return string(outb), ctx.Err() != nil
	}
	hasResult := func(r *run, p *pkg) bool {
		data, err := os.ReadFile(filepath.Join(out, r.dir+"_"+p.ID+".res"))
		return err == nil && strings.Contains(string(data), "done\n")
	}

	// phase 1
	var rp []runnerPkg
	for _, r := range active {
		for _, p := range r.model.Pkgs {
			rp = append(rp, runnerPkg{Name: r.dir + "/" + p.ID, GoPath: p.GoPath})
		}
	}
	allDir := filepath.Join(mod, "c05all")
	os.MkdirAll(allDir, 0o755)
	os.WriteFile(filepath.Join(allDir, "all_test.go"), emitRunner("c05all", rp), 0o644)
	text1, killed1 := goTestCmd(limit, "./c05all/")
	os.RemoveAll(allDir)

	// phase 2
	var again []*run
	for _, r := range active {
		for _, p := range r.model.Pkgs {
			if !hasResult(r, p) {
				again = append(again, r)
				break
			}
		}
	}
	text, timedOut := "", false
	if len(again) > 0 && !killed1 {
		var patterns []string
		for _, r := range again {
			patterns = append(patterns, "./"+r.dir+"/...")
			for _, p := range r.model.Pkgs {
				os.Remove(filepath.Join(out, r.dir+"_"+p.ID+".res"))
			}
		}
		text, timedOut = goTestCmd(limit-time.Since(start), patterns...)
	}

	// compile errors and dead test processes (phase 2 output)
	lines := strings.Split(text, "\n")
	lastPanic := ""
	hasCompileViol := func(r *run) bool {
		for _, v := range r.viol {
			if strings.HasPrefix(v, "test-does-not-compile") {
				return true
			}
		}
		return false
	}
	for _, l := range lines {
		l = strings.TrimRight(l, "\r")
		if m := buildErrRe.FindStringSubmatch(strings.TrimSpace(l)); m != nil {
			if r := byDir[m[1]]; r != nil && !hasCompileViol(r) {
				who := "generated-code"
				if strings.HasPrefix(m[3], "c05_") {
					who = "harness-code"
				}
				r.addViol("test-does-not-compile", who+":"+m[2]+"/"+m[3]+":"+m[4])
			}
			continue
		}
		if m := panicRe.FindStringSubmatch(l); m != nil {
			lastPanic = m[2]
			continue
		}
		if m := failRe.FindStringSubmatch(l); m != nil {
			r := byDir[m[1]]
			if r == nil {
				continue
			}
			if strings.Contains(l, "[build failed]") || strings.Contains(l, "[setup failed]") {
				if !hasCompileViol(r) {
					r.addViol("test-does-not-compile", "unattributed:"+m[2])
				}
				continue
			}
			if strings.HasPrefix(l, "FAIL") && r.model != nil {
				// the test binary of this package died (the tests themselves never call t.Fail)
				id := m[2]
				for _, p := range r.model.Pkgs {
					if p.Dir == m[1]+"/"+m[2] {
						id = p.ID
					}
				}
				if _, err := os.Stat(filepath.Join(out, m[1]+"_"+id+".res")); err != nil {
					if strings.Contains(text, "test timed out") {
						r.addViol("hang", "test:"+m[2])
					} else {
						r.addViol("panic", "test-process-died:"+m[2]+":"+lastPanic)
					}
				}
			}
		}
	}

	// result files
	for _, r := range active {
		for _, p := range r.model.Pkgs {
			data, err := os.ReadFile(filepath.Join(out, r.dir+"_"+p.ID+".res"))
			if err != nil || !strings.Contains(string(data), "done\n") {
				switch {
				case len(r.viol) > 0:
				case strings.Contains(text1+text, "test timed out after"):
					r.addViol("hang", "test-binary-exceeded-"+testTimeout.String()+":"+p.ID)
				case timedOut || killed1:
					r.unfinished = "out-of-time-in-go-test"
				default:
					r.addViol("panic", "no-result:"+p.ID+":"+lastLines(text1, 2)+"|"+lastLines(text, 3))
				}
				continue
			}
			for _, l := range strings.Split(string(data), "\n") {
				f := strings.SplitN(l, " ", 3)
				switch {
				case len(f) == 2 && f[0] == "checks":
					n, _ := strconv.ParseInt(f[1], 10, 64)
					r.checks += n
				case len(f) == 3 && f[0] == "viol":
					r.addViol(f[1], p.ID+":"+f[2])
				case len(f) >= 2 && f[0] == "note":
					r.notes = append(r.notes, p.ID+":"+strings.Join(f[1:], "_"))
				}
			}
		}
	}
}

func lastLines(s string, n int) string {
	ls := strings.Split(strings.TrimSpace(s), "\n")
	if len(ls) > n {
		ls = ls[len(ls)-n:]
	}
	return strings.Join(ls, "|")
}
