package main

import (
	"fmt"
	"go/format"
	"strings"
)

// The emitter writes, for one schema package, two Go files from the harness model (never from the
// generated code):
//
//	c05_support.go   exported helpers per definition (other packages' helpers call them for
//	                 imported types): expected-value types, random values, writing through the
//	                 generated writer API and through the dynamic tag API, checking through the
//	                 generated reader API and through the dynamic tag API, a dynamic struct codec
//	c05_test.go      TestC05 which drives the helpers and writes the result file

type emitter struct {
	p  *pkg
	sb strings.Builder
}

func (e *emitter) f(format string, args ...any) {
	fmt.Fprintf(&e.sb, format, args...)
	e.sb.WriteByte('\n')
}

// ref is prefix+Name of a definition as seen from the current package.
func (e *emitter) ref(d *def, prefix string) string {
	if d.Pkg == e.p {
		return prefix + d.Name
	}
	return "p_" + d.Pkg.ID + "." + prefix + d.Name
}

var randMethod = map[string]string{"bool": "Bool", "byte": "Byte", "int16": "Int16", "int32": "Int32", "int64": "Int64",
	"uint16": "Uint16", "uint32": "Uint32", "uint64": "Uint64", "float32": "Float32", "float64": "Float64",
	"bin64": "Bin64", "bin128": "Bin128", "bin256": "Bin256", "string": "String", "bytes": "Bytes"}

var goBuiltin = map[string]string{"bool": "bool", "byte": "byte", "int16": "int16", "int32": "int32", "int64": "int64",
	"uint16": "uint16", "uint32": "uint32", "uint64": "uint64", "float32": "float32", "float64": "float64",
	"bin64": "bin.Bin64", "bin128": "bin.Bin128", "bin256": "bin.Bin256", "string": "string", "bytes": "[]byte"}

// wireType is the spec.Type constant of a kind with a fixed wire type.
var wireType = map[string]string{"byte": "TypeByte", "int16": "TypeInt16", "int32": "TypeInt32", "int64": "TypeInt64",
	"uint16": "TypeUint16", "uint32": "TypeUint32", "uint64": "TypeUint64", "float32": "TypeFloat32", "float64": "TypeFloat64",
	"bin64": "TypeBin64", "bin128": "TypeBin128", "bin256": "TypeBin256", "string": "TypeString", "bytes": "TypeBytes",
	"enum": "TypeInt32", "struct": "TypeStruct"}

// goType is the Go type of the expected value of an element.
func (e *emitter) goType(t typ) string {
	switch t.K {
	case "any":
		return "*rt.AnyV"
	case "anymsg":
		return "*rt.DynV"
	case "enum", "struct":
		return e.ref(t.D, "")
	case "msg":
		return "*" + e.ref(t.D, "C05V")
	}
	return goBuiltin[t.K]
}

// genExpr is an expression producing a random expected value of an element.
func (e *emitter) genExpr(t typ) string {
	switch t.K {
	case "any":
		return "rt.GenAny(r, 2)"
	case "anymsg":
		return "rt.GenDyn(r, 2)"
	case "enum", "struct":
		return e.ref(t.D, "C05Gen") + "(r)"
	case "msg":
		return e.ref(t.D, "C05Gen") + "(r, depth-1)"
	}
	return "r." + randMethod[t.K] + "()"
}

// cmp emits the comparison of a value `got` (already converted to the expected-side Go type, except
// for messages / any where it is the reader object) with `want`.
func (e *emitter) cmp(t typ, path, got, want string, dynamic bool) {
	switch t.K {
	case "bool":
		e.f("c.EqBool(%s, %s, %s)", path, got, want)
	case "byte", "uint16", "uint32", "uint64":
		e.f("c.EqU64(%s, uint64(%s), uint64(%s))", path, got, want)
	case "int16", "int32", "int64", "enum":
		e.f("c.EqI64(%s, int64(%s), int64(%s))", path, got, want)
	case "float32":
		e.f("c.EqF32(%s, %s, %s)", path, got, want)
	case "float64":
		e.f("c.EqF64(%s, %s, %s)", path, got, want)
	case "bin64":
		e.f("c.EqBin64(%s, %s, %s)", path, got, want)
	case "bin128":
		e.f("c.EqBin128(%s, %s, %s)", path, got, want)
	case "bin256":
		e.f("c.EqBin256(%s, %s, %s)", path, got, want)
	case "string":
		e.f("c.EqStr(%s, %s, %s)", path, got, want)
	case "bytes":
		e.f("c.EqBytes(%s, %s, %s)", path, got, want)
	case "struct":
		e.f("{ g := %s; c.EqStruct(%s, %s(g, %s), g, %s) }", got, path, e.ref(t.D, "C05Eq"), want, want)
	case "any":
		e.f("c.Any(%s, %s, %s)", path, got, want)
	case "anymsg":
		e.f("c.Dyn(%s, %s, %s)", path, got, want)
	case "msg":
		if dynamic {
			e.f("%s(c, %s, %s, %s)", e.ref(t.D, "C05DynCheck"), path, got, want)
		} else {
			e.f("%s(c, %s, %s, %s)", e.ref(t.D, "C05Check"), path, got, want)
		}
	}
}

// genGot converts what the generated reader returns for an element into the comparable form.
func genGot(t typ, x string) string {
	switch t.K {
	case "string", "bytes":
		return x + ".Unwrap()"
	}
	return x
}

// dynValue emits the checks of a dynamic spec.Value `val` (a field or a list element) against the
// expected value: the wire type, then the content decoded with the decoder of the declared type.
func (e *emitter) dynValue(t typ, path, val, want string) {
	switch t.K {
	case "bool":
		e.f("c.BoolType(%s, %s.Type(), %s)", path, val, want)
		e.cmp(t, path, val+".Bool()", want, true)
	case "any":
		e.cmp(t, path, val, want, true)
	case "anymsg":
		e.f("c.MsgType(%s, %s.Type())", path, val)
		e.cmp(t, path, val+".Message()", want, true)
	case "msg":
		e.f("c.MsgType(%s, %s.Type())", path, val)
		e.cmp(t, path, val+".Message()", want, true)
	case "struct":
		e.f("c.EqType(%s, %s.Type(), spec.TypeStruct)", path, val)
		e.f("{ g, n, err := %s(%s); c.NoErr(%s, err); c.EqInt(%s+\".size\", n, len(%s)); c.EqStruct(%s, %s(g, %s), g, %s) }",
			e.ref(t.D, "C05DynDec"), val, path, path, val, path, e.ref(t.D, "C05Eq"), want, want)
	case "enum":
		e.f("c.EqType(%s, %s.Type(), spec.TypeInt32)", path, val)
		e.cmp(t, path, val+".Int32()", want, true)
	case "string", "bytes":
		e.f("c.EqType(%s, %s.Type(), spec.%s)", path, val, wireType[t.K])
		e.cmp(t, path, val+"."+randMethod[t.K]+"().Unwrap()", want, true)
	default:
		e.f("c.EqType(%s, %s.Type(), spec.%s)", path, val, wireType[t.K])
		e.cmp(t, path, val+"."+randMethod[t.K]+"()", want, true)
	}
}

// numericKind: cheap elements whose lists may be long.
func numericKind(k string) bool {
	switch k {
	case "string", "bytes", "any", "anymsg", "struct", "msg":
		return false
	}
	return true
}

// ---------------------------------------------------------------- enum

func (e *emitter) enumSupport(d *def) {
	n := d.Name
	e.f("// enum %s", n)
	e.f("var C05Vals%s = []%s{", n, n)
	for _, v := range d.Vals {
		e.f("%s,", v.Go)
	}
	e.f("}")
	e.f("func C05Gen%s(r *rt.Rand) %s {", n, n)
	e.f("if r.Intn(4) == 0 { return %s(r.Int32()) }", n)
	e.f("return C05Vals%s[r.Intn(len(C05Vals%s))]", n, n)
	e.f("}")
	e.f("")
}

func (e *emitter) enumTest(d *def) {
	n := d.Name
	e.f("func c05Enum%s(c *rt.Ctx, r *rt.Rand, iters int) {", n)
	e.f("c.Mode = \"roundtrip-mismatch\"")
	for _, v := range d.Vals {
		e.f("c.EqI64(%q, int64(%s), %d)", n+"."+v.Name, v.Go, v.Num)
		e.f("c.EqStr(%q, %s.String(), %q)", n+"."+v.Name+".String", v.Go, strings.ToLower(v.Name))
	}
	e.f("for it := 0; it < iters; it++ {")
	e.f("p := fmt.Sprintf(\"%s#%%d\", it)", n)
	e.f("v := C05Gen%s(r)", n)
	e.f("if it < len(C05Vals%s) { v = C05Vals%s[it] }", n, n)
	e.f("c.Mode = \"roundtrip-mismatch\"")
	e.f("buf := buffer.New()")
	e.f("size, err := Encode%sTo(buf, v)", n)
	e.f("c.NoErr(p+\".encode\", err)")
	e.f("b := bytes.Clone(buf.Bytes())")
	e.f("c.EqInt(p+\".encode.size\", size, len(b))")
	e.f("got, size, err := Decode%s(b)", n)
	e.f("c.NoErr(p+\".decode\", err)")
	e.f("c.EqInt(p+\".decode.size\", size, len(b))")
	e.f("c.EqI64(p+\".decode\", int64(got), int64(v))")
	e.f("c.EqI64(p+\".open\", int64(Open%s(b)), int64(v))", n)
	e.f("c.Mode = \"dynamic-read-mismatch\"")
	e.f("x, size, err := spec.DecodeInt32(b)")
	e.f("c.NoErr(p+\".dyn\", err)")
	e.f("c.EqInt(p+\".dyn.size\", size, len(b))")
	e.f("c.EqI64(p+\".dyn\", int64(x), int64(v))")
	e.f("c.EqType(p, spec.Value(b).Type(), spec.TypeInt32)")
	e.f("c.Mode = \"dynamic-write-mismatch\"")
	e.f("buf2 := buffer.New()")
	e.f("_, err = spec.EncodeInt32(buf2, int32(v))")
	e.f("c.NoErr(p+\".dynenc\", err)")
	e.f("c.EqBytes(p+\".dynenc\", buf2.Bytes(), b)")
	e.f("got, _, err = Decode%s(buf2.Bytes())", n)
	e.f("c.NoErr(p+\".dynenc.decode\", err)")
	e.f("c.EqI64(p+\".dynenc.decode\", int64(got), int64(v))")
	e.f("}")
	e.f("}")
	e.f("")
}

// ---------------------------------------------------------------- struct

func (e *emitter) structSupport(d *def) {
	n := d.Name
	e.f("// struct %s", n)
	e.f("func C05Gen%s(r *rt.Rand) (v %s) {", n, n)
	for _, f := range d.Fields {
		switch f.T.K {
		case "any":
			e.f("v.%s = spec.Value(rt.GenAny(r, 2).Raw)", f.Go)
		case "anymsg":
			e.f("v.%s = spec.OpenMessage(rt.GenDyn(r, 2).Raw)", f.Go)
		default:
			e.f("v.%s = %s", f.Go, e.genExpr(f.T))
		}
	}
	e.f("return v")
	e.f("}")
	e.f("")
	e.f("func C05Eq%s(a, b %s) bool {", n, n)
	for _, f := range d.Fields {
		x, y := "a."+f.Go, "b."+f.Go
		switch f.T.K {
		case "float32":
			e.f("if !rt.SameF32(%s, %s) { return false }", x, y)
		case "float64":
			e.f("if !rt.SameF64(%s, %s) { return false }", x, y)
		case "struct":
			e.f("if !%s(%s, %s) { return false }", e.ref(f.T.D, "C05Eq"), x, y)
		case "bytes", "any":
			e.f("if !bytes.Equal(%s, %s) { return false }", x, y)
		case "anymsg":
			e.f("if !bytes.Equal(%s.Raw(), %s.Raw()) { return false }", x, y)
		default:
			e.f("if %s != %s { return false }", x, y)
		}
	}
	e.f("return true")
	e.f("}")
	e.f("")
	// dynamic encoder: the fields in declaration order, then the struct header
	e.f("func C05DynEnc%s(b buffer.Buffer, v %s) (int, error) {", n, n)
	e.f("var dataSize, n int")
	e.f("var err error")
	for _, f := range d.Fields {
		switch f.T.K {
		case "enum":
			e.f("n, err = spec.EncodeInt32(b, int32(v.%s))", f.Go)
		case "struct":
			e.f("n, err = %s(b, v.%s)", e.ref(f.T.D, "C05DynEnc"), f.Go)
		case "any":
			// a value of any type is stored as it is
			e.f("n, err = b.Write(v.%s)", f.Go)
		case "anymsg":
			e.f("n, err = b.Write(v.%s.Raw())", f.Go)
		default:
			e.f("n, err = spec.Encode%s(b, v.%s)", randMethod[f.T.K], f.Go)
		}
		e.f("if err != nil { return 0, err }")
		e.f("dataSize += n")
	}
	e.f("n, err = spec.EncodeStruct(b, dataSize)")
	e.f("if err != nil { return 0, err }")
	e.f("return dataSize + n, nil")
	e.f("}")
	e.f("")
	// dynamic decoder: the header, then the fields from the last to the first
	e.f("func C05DynDec%s(b []byte) (v %s, size int, err error) {", n, n)
	e.f("dataSize, size, err := spec.DecodeStruct(b)")
	e.f("if err != nil { return v, 0, err }")
	e.f("if size == 0 { return v, 0, nil }")
	e.f("b = b[len(b)-size:]")
	e.f("n := size - dataSize")
	e.f("off := len(b) - n")
	for i := len(d.Fields) - 1; i >= 0; i-- {
		f := d.Fields[i]
		switch f.T.K {
		case "enum":
			e.f("{ var x int32; x, n, err = spec.DecodeInt32(b[:off]); v.%s = %s(x) }", f.Go, e.ref(f.T.D, ""))
		case "struct":
			e.f("v.%s, n, err = %s(b[:off])", f.Go, e.ref(f.T.D, "C05DynDec"))
		case "string":
			e.f("{ var x spec.String; x, n, err = spec.DecodeString(b[:off]); v.%s = x.Clone() }", f.Go)
		case "bytes":
			e.f("{ var x spec.Bytes; x, n, err = spec.DecodeBytes(b[:off]); v.%s = x.Clone() }", f.Go)
		case "any":
			e.f("v.%s, n, err = spec.ParseValue(b[:off])", f.Go)
		case "anymsg":
			e.f("v.%s, n, err = spec.ParseMessage(b[:off])", f.Go)
		default:
			e.f("v.%s, n, err = spec.Decode%s(b[:off])", f.Go, randMethod[f.T.K])
		}
		e.f("if err != nil { return v, 0, err }")
		e.f("off -= n")
	}
	e.f("if off != 0 { return v, 0, fmt.Errorf(\"dynamic struct decode: %%d bytes of the data are not fields\", off) }")
	e.f("return v, size, nil")
	e.f("}")
	e.f("")
}

func (e *emitter) structTest(d *def) {
	n := d.Name
	e.f("func c05Struct%s(c *rt.Ctx, r *rt.Rand, iters int) {", n)
	// the Go struct has the declared fields in the declared order, tagged with the schema names
	e.f("c.Mode = \"struct-mismatch\"")
	e.f("{")
	e.f("t := reflect.TypeOf(%s{})", n)
	e.f("c.EqInt(%q, t.NumField(), %d)", n+".fields", len(d.Fields))
	e.f("if t.NumField() == %d {", len(d.Fields))
	for i, f := range d.Fields {
		e.f("c.EqStr(%q, t.Field(%d).Name, %q)", n+"."+f.Name+".goname", i, f.Go)
		e.f("c.EqStr(%q, t.Field(%d).Tag.Get(\"json\"), %q)", n+"."+f.Name+".json", i, f.Name)
	}
	e.f("}")
	e.f("}")
	e.f("for it := 0; it < iters; it++ {")
	e.f("p := fmt.Sprintf(\"%s#%%d\", it)", n)
	e.f("v := C05Gen%s(r)", n)
	e.f("if it == 0 { v = %s{}; p += \"(zero-value)\" }", n)
	e.f("c.Mode = \"struct-mismatch\"")
	e.f("buf := buffer.New()")
	e.f("if it%%2 == 1 { buf.Write(r.Bytes()) }") // the encoding is appended to what the buffer holds
	e.f("start := buf.Len()")
	e.f("size, err := Encode%sTo(buf, v)", n)
	e.f("c.NoErr(p+\".encode\", err)")
	e.f("b := bytes.Clone(buf.Bytes()[start:])")
	e.f("c.EqInt(p+\".encode.size\", size, len(b))")
	e.f("buf1 := buffer.New()")
	e.f("_, err = v.EncodeTo(buf1)")
	e.f("c.NoErr(p+\".encodeTo\", err)")
	e.f("c.EqBytes(p+\".encodeTo\", buf1.Bytes(), b)")
	e.f("got, size, err := Decode%s(b)", n)
	// (what was encoded cannot be decoded: the remaining comparisons of this value say nothing new)
	e.f("if !c.NoErr(p+\".decode\", err) { continue }")
	e.f("c.EqInt(p+\".decode.size\", size, len(b))")
	e.f("c.EqStruct(p+\".decode\", C05Eq%s(got, v), got, v)", n)
	e.f("got = Open%s(b)", n)
	e.f("c.EqStruct(p+\".open\", C05Eq%s(got, v), got, v)", n)
	e.f("var got1 %s", n)
	e.f("size, err = got1.Decode(b)")
	e.f("c.NoErr(p+\".Decode\", err)")
	e.f("c.EqInt(p+\".Decode.size\", size, len(b))")
	e.f("c.EqStruct(p+\".Decode\", C05Eq%s(got1, v), got1, v)", n)
	// values are decoded from the end of the input: leading bytes do not matter
	e.f("full := bytes.Clone(buf.Bytes())")
	e.f("got, size, err = Decode%s(full)", n)
	e.f("c.NoErr(p+\".decode.prefixed\", err)")
	e.f("c.EqInt(p+\".decode.prefixed.size\", size, len(b))")
	e.f("c.EqStruct(p+\".decode.prefixed\", C05Eq%s(got, v), got, v)", n)
	e.f("c.Mode = \"dynamic-read-mismatch\"")
	e.f("c.EqType(p, spec.Value(b).Type(), spec.TypeStruct)")
	e.f("got, size, err = C05DynDec%s(b)", n)
	e.f("c.NoErr(p+\".dyndec\", err)")
	e.f("c.EqInt(p+\".dyndec.size\", size, len(b))")
	e.f("c.EqStruct(p+\".dyndec\", C05Eq%s(got, v), got, v)", n)
	e.f("c.Mode = \"dynamic-write-mismatch\"")
	e.f("buf2 := buffer.New()")
	e.f("_, err = C05DynEnc%s(buf2, v)", n)
	e.f("c.NoErr(p+\".dynenc\", err)")
	e.f("c.EqBytes(p+\".dynenc\", buf2.Bytes(), b)")
	e.f("got, _, err = Decode%s(buf2.Bytes())", n)
	e.f("c.NoErr(p+\".dynenc.decode\", err)")
	e.f("c.EqStruct(p+\".dynenc.decode\", C05Eq%s(got, v), got, v)", n)
	e.f("}")
	e.f("}")
	e.f("")
}

// ---------------------------------------------------------------- message

func (e *emitter) messageSupport(d *def) {
	n := d.Name
	vt := "C05V" + n
	e.f("// message %s", n)
	e.f("type %s struct {", vt)
	for _, f := range d.Fields {
		gt := e.goType(f.T.elem())
		if f.T.List {
			gt = "[]" + gt
		}
		e.f("H%s bool", f.Go)
		e.f("F%s %s", f.Go, gt)
	}
	e.f("}")
	e.f("")

	// random value
	e.f("func C05Gen%s(r *rt.Rand, depth int) *%s {", n, vt)
	e.f("v := &%s{}", vt)
	e.f("_ = depth")
	for _, f := range d.Fields {
		el := f.T.elem()
		switch {
		case f.T.List:
			e.f("if r.Intn(4) != 0 {")
			e.f("v.H%s = true", f.Go)
			switch {
			case el.K == "msg":
				e.f("n := r.Intn(3)")
				e.f("if depth <= 0 { n = 0 }")
			case numericKind(el.K):
				e.f("n := r.ListLenSmall()")
			default:
				e.f("n := r.ListLen()")
			}
			e.f("v.F%s = make([]%s, 0, n)", f.Go, e.goType(el))
			e.f("for i := 0; i < n; i++ { v.F%s = append(v.F%s, %s) }", f.Go, f.Go, e.genExpr(el))
			e.f("}")
		case el.K == "msg":
			e.f("if depth > 0 && r.Intn(4) != 0 { v.H%s = true; v.F%s = %s }", f.Go, f.Go, e.genExpr(el))
		default:
			e.f("if r.Intn(4) != 0 { v.H%s = true; v.F%s = %s }", f.Go, f.Go, e.genExpr(el))
		}
	}
	e.f("return v")
	e.f("}")
	e.f("")

	e.messageWrite(d, false)
	e.messageWrite(d, true)
	e.messageCheck(d)
	e.messageDynCheck(d)
}

// messageWrite emits C05Write<M> (generated writer API) or C05DynWrite<M> (dynamic tag API). Both
// consume the order stream `o` identically, so the same stream yields the same field order.
func (e *emitter) messageWrite(d *def, dynamic bool) {
	n := d.Name
	if dynamic {
		e.f("func C05DynWrite%s(w spec.MessageWriter, v *C05V%s, o *rt.Rand) error {", n, n)
	} else {
		e.f("func C05Write%s(w %sWriter, v *C05V%s, o *rt.Rand) error {", n, n, n)
	}
	e.f("if v == nil { return nil }")
	e.f("for _, i := range o.Perm(%d) {", len(d.Fields))
	e.f("alt := o.Intn(2) == 1")
	e.f("_ = alt")
	e.f("switch i {")
	for i, f := range d.Fields {
		e.f("case %d: // %s", i, f.Name)
		e.f("if !v.H%s { break }", f.Go)
		if dynamic {
			e.dynWriteField(f)
		} else {
			e.genWriteField(f)
		}
	}
	e.f("}")
	e.f("}")
	e.f("return nil")
	e.f("}")
	e.f("")
}

const retErr = "if err != nil { return err }"

func (e *emitter) genWriteField(f field) {
	val := "v.F" + f.Go
	el := f.T.elem()
	if f.T.List {
		e.f("lw := w.%s()", f.Go)
		e.f("for _, x := range %s {", val)
		switch el.K {
		case "msg":
			e.f("if o.Intn(2) == 1 {")
			e.f("sw := %s()", e.ref(el.D, "New")+"Writer")
			e.f("if err := %s(sw, x, o); err != nil { return err }", e.ref(el.D, "C05Write"))
			e.f("sm, err := sw.Build()")
			e.f(retErr)
			e.f("if err := lw.Copy(sm); err != nil { return err }")
			e.f("} else {")
			e.f("ew := lw.Add()")
			e.f("if err := %s(ew, x, o); err != nil { return err }", e.ref(el.D, "C05Write"))
			e.f("if err := ew.End(); err != nil { return err }")
			e.f("}")
		case "any":
			e.f("if err := lw.Add(spec.Value(x.Raw)); err != nil { return err }")
		case "anymsg":
			e.f("if err := lw.Add(spec.OpenMessage(x.Raw)); err != nil { return err }")
		default:
			e.f("if err := lw.Add(x); err != nil { return err }")
		}
		e.f("}")
		e.f("if err := lw.End(); err != nil { return err }")
		return
	}
	switch el.K {
	case "msg":
		e.f("if alt {")
		e.f("sw := %s()", e.ref(el.D, "New")+"Writer")
		e.f("if err := %s(sw, %s, o); err != nil { return err }", e.ref(el.D, "C05Write"), val)
		e.f("sm, err := sw.Build()")
		e.f(retErr)
		e.f("if err := w.Copy%s(sm); err != nil { return err }", f.Go)
		e.f("} else {")
		e.f("sw := w.%s()", f.Go)
		e.f("if err := %s(sw, %s, o); err != nil { return err }", e.ref(el.D, "C05Write"), val)
		e.f("if err := sw.End(); err != nil { return err }")
		e.f("}")
	case "any":
		e.f("if alt {")
		e.f("if err := w.Copy%s(spec.Value(%s.Raw)); err != nil { return err }", f.Go, val)
		e.f("} else {")
		e.f("if err := %s.WriteField(w.%s()); err != nil { return err }", val, f.Go)
		e.f("}")
	case "anymsg":
		e.f("if alt {")
		e.f("if err := w.Copy%s(spec.OpenMessage(%s.Raw)); err != nil { return err }", f.Go, val)
		e.f("} else {")
		e.f("mw := w.%s()", f.Go)
		e.f("if err := %s.WriteTo(mw); err != nil { return err }", val)
		e.f("if err := mw.End(); err != nil { return err }")
		e.f("}")
	default:
		e.f("w.%s(%s)", f.Go, val)
	}
}

// dynWriteValue emits the statement writing one element through a dynamic writer `w` whose typed
// methods are those of spec.FieldWriter and spec.ListWriter (Bool .. String, Any, List, Message).
func (e *emitter) dynWriteValue(t typ, w, x string) {
	switch t.K {
	case "msg":
		e.f("{")
		e.f("mw := %s.Message()", w)
		e.f("if err := %s(mw, %s, o); err != nil { return err }", e.ref(t.D, "C05DynWrite"), x)
		e.f("if err := mw.End(); err != nil { return err }")
		e.f("}")
	case "any", "anymsg":
		e.f("if err := %s.Any(%s.Raw); err != nil { return err }", w, x)
	case "enum":
		e.f("if err := %s.Int32(int32(%s)); err != nil { return err }", w, x)
	case "struct":
		e.f("{")
		e.f("sb := buffer.New()")
		e.f("if _, err := %s(sb, %s); err != nil { return err }", e.ref(t.D, "C05DynEnc"), x)
		e.f("if err := %s.Any(sb.Bytes()); err != nil { return err }", w)
		e.f("}")
	default:
		e.f("if err := %s.%s(%s); err != nil { return err }", w, randMethod[t.K], x)
	}
}

func (e *emitter) dynWriteField(f field) {
	val := "v.F" + f.Go
	el := f.T.elem()
	if f.T.List {
		e.f("lw := w.Field(%d).List()", f.Tag)
		e.f("for _, x := range %s {", val)
		if el.K == "msg" {
			e.f("_ = o.Intn(2)") // mirrors the choice of the generated-API writer
		}
		e.dynWriteValue(el, "lw", "x")
		e.f("}")
		e.f("if err := lw.End(); err != nil { return err }")
		return
	}
	e.dynWriteValue(el, fmt.Sprintf("w.Field(%d)", f.Tag), val)
}

func (e *emitter) messageCheck(d *def) {
	n := d.Name
	e.f("func C05Check%s(c *rt.Ctx, p string, m %s, v *C05V%s) {", n, n, n)
	e.f("if v == nil { v = &C05V%s{} }", n)
	for _, f := range d.Fields {
		el := f.T.elem()
		fp := fmt.Sprintf("p+%q", "."+f.Name)
		e.f("c.EqBool(%s+\"?\", m.Has%s(), v.H%s)", fp, f.Go, f.Go)
		if f.T.List {
			e.f("{")
			e.f("l := m.%s()", f.Go)
			e.f("c.EqInt(%s+\".len\", l.Len(), len(v.F%s))", fp, f.Go)
			e.f("for i, x := range v.F%s {", f.Go)
			e.f("if i >= l.Len() { break }")
			e.f("ep := fmt.Sprintf(\"%%s.%s[%%d]\", p, i)", f.Name)
			e.cmp(el, "ep", genGot(el, "l.Get(i)"), "x", false)
			e.f("}")
			e.f("}")
			continue
		}
		switch el.K {
		case "msg":
			e.f("if v.H%s { %s(c, %s, m.%s(), v.F%s) } else { c.EqInt(%s+\".absent\", len(m.%s().Unwrap().Raw()), 0) }",
				f.Go, e.ref(el.D, "C05Check"), fp, f.Go, f.Go, fp, f.Go)
		case "any":
			e.f("if v.H%s { c.Any(%s, m.%s(), v.F%s) } else { c.EqInt(%s+\".absent\", len(m.%s()), 0) }",
				f.Go, fp, f.Go, f.Go, fp, f.Go)
		case "anymsg":
			e.f("if v.H%s { c.Dyn(%s, m.%s(), v.F%s) } else { c.EqInt(%s+\".absent\", len(m.%s().Raw()), 0) }",
				f.Go, fp, f.Go, f.Go, fp, f.Go)
		default:
			// an absent field reads as the zero value, which is what the expected value holds
			want := "v.F" + f.Go
			if f.Sab && el.K == "int64" {
				want = "(" + want + "+1)"
			}
			e.cmp(el, fp, genGot(el, "m."+f.Go+"()"), want, false)
		}
	}
	e.f("}")
	e.f("")
}

func (e *emitter) messageDynCheck(d *def) {
	n := d.Name
	e.f("func C05DynCheck%s(c *rt.Ctx, p string, m spec.Message, v *C05V%s) {", n, n)
	e.f("if v == nil { v = &C05V%s{} }", n)
	e.f("var tags []uint16")
	for _, f := range d.Fields {
		el := f.T.elem()
		fp := fmt.Sprintf("p+%q", fmt.Sprintf(".%s@%d", f.Name, f.Tag))
		e.f("c.EqBool(%s+\"?\", m.HasField(%d), v.H%s)", fp, f.Tag, f.Go)
		e.f("if v.H%s {", f.Go)
		e.f("tags = append(tags, %d)", f.Tag)
		if f.T.List {
			e.f("c.ListType(%s, m.Field(%d).Type())", fp, f.Tag)
			e.f("l := m.List(%d)", f.Tag)
			e.f("c.EqInt(%s+\".len\", l.Len(), len(v.F%s))", fp, f.Go)
			e.f("for i, x := range v.F%s {", f.Go)
			e.f("if i >= l.Len() { break }")
			e.f("ep := fmt.Sprintf(\"%%s.%s@%d[%%d]\", p, i)", f.Name, f.Tag)
			e.f("ev := l.Get(i)")
			e.f("c.EqBytes(ep+\".bytes\", l.GetBytes(i), ev)")
			e.dynValue(el, "ep", "ev", "x")
			e.f("}")
		} else {
			e.f("fv := m.Field(%d)", f.Tag)
			// FieldRaw is the message data up to the end of the field: the value is its suffix
			e.f("c.Check(len(fv) > 0 && bytes.HasSuffix(m.FieldRaw(%d), fv), %s+\".raw\", \"FieldRaw does not end with the field value\")", f.Tag, fp)
			e.dynValue(el, fp, "fv", "v.F"+f.Go)
			// the typed accessor of the message for the same tag
			switch el.K {
			case "msg", "anymsg":
				e.f("c.EqBytes(%s+\".Message\", m.Message(%d).Raw(), fv)", fp, f.Tag)
			case "any", "struct":
			case "enum":
				e.cmp(el, fp+"+\".Int32\"", fmt.Sprintf("m.Int32(%d)", f.Tag), "v.F"+f.Go, true)
			case "string", "bytes":
				e.cmp(el, fp+"+\".typed\"", fmt.Sprintf("m.%s(%d).Unwrap()", randMethod[el.K], f.Tag), "v.F"+f.Go, true)
			default:
				e.cmp(el, fp+"+\".typed\"", fmt.Sprintf("m.%s(%d)", randMethod[el.K], f.Tag), "v.F"+f.Go, true)
			}
		}
		e.f("} else {")
		e.f("c.EqInt(%s+\".absent\", len(m.Field(%d)), 0)", fp, f.Tag)
		e.f("}")
	}
	e.f("c.Tags(p, m, tags)")
	e.f("}")
	e.f("")
}

func (e *emitter) messageTest(d *def) {
	n := d.Name
	e.f("func c05Message%s(c *rt.Ctx, r *rt.Rand, iters int) {", n)
	e.f("for it := 0; it < iters; it++ {")
	e.f("p := fmt.Sprintf(\"%s#%%d\", it)", n)
	e.f("v := C05Gen%s(r, it%%3)", n)
	e.f("if it == 0 { v = &C05V%s{} }", n)
	e.f("order := r.U64()")
	// generated writer
	e.f("c.Mode = \"roundtrip-mismatch\"")
	e.f("w := New%sWriter()", n)
	e.f("if it%%4 == 3 { w = New%sWriterBuffer(buffer.New()) }", n)
	e.f("if err := C05Write%s(w, v, rt.NewRand(order)); !c.NoErr(p+\".write\", err) { continue }", n)
	e.f("m, err := w.Build()")
	e.f("if !c.NoErr(p+\".build\", err) { continue }")
	e.f("raw := bytes.Clone(m.Unwrap().Raw())")
	e.f("C05Check%s(c, p, m, v)", n)
	e.f("{")
	e.f("m1, size, err := Parse%s(raw)", n)
	e.f("c.NoErr(p+\".parse\", err)")
	e.f("c.EqInt(p+\".parse.size\", size, len(raw))")
	e.f("C05Check%s(c, p+\"/parse\", m1, v)", n)
	e.f("m2, err := Open%sErr(raw)", n)
	e.f("c.NoErr(p+\".openErr\", err)")
	e.f("C05Check%s(c, p+\"/open\", m2, v)", n)
	e.f("c.EqBytes(p+\".open.raw\", Open%s(raw).Unwrap().Raw(), raw)", n)
	e.f("c.EqBytes(p+\".new.raw\", New%s(spec.OpenMessage(raw)).Unwrap().Raw(), raw)", n)
	e.f("c.EqBool(p+\".isEmpty\", m.IsEmpty(), spec.OpenMessage(raw).Fields() == 0)")
	e.f("C05Check%s(c, p+\"/clone\", m.Clone(), v)", n)
	e.f("C05Check%s(c, p+\"/cloneToBuffer\", m.CloneToBuffer(buffer.New()), v)", n)
	// Merge copies the fields a writer does not have yet: into an empty writer, all of them
	e.f("w2 := New%sWriter()", n)
	e.f("c.NoErr(p+\".merge\", w2.Merge(m))")
	e.f("m4, err := w2.Build()")
	e.f("c.NoErr(p+\".merge.build\", err)")
	e.f("C05Check%s(c, p+\"/merge\", m4, v)", n)
	e.f("}")
	// dynamic reader on the same bytes
	e.f("c.Mode = \"dynamic-read-mismatch\"")
	e.f("{")
	e.f("dm, err := spec.OpenMessageErr(raw)")
	e.f("c.NoErr(p+\".dyn.open\", err)")
	e.f("C05DynCheck%s(c, p, dm, v)", n)
	e.f("}")
	// dynamic writer, generated reader
	e.f("c.Mode = \"dynamic-write-mismatch\"")
	e.f("{")
	e.f("dw := spec.NewMessageWriter()")
	e.f("if err := C05DynWrite%s(dw, v, rt.NewRand(order)); !c.NoErr(p+\".dynwrite\", err) { continue }", n)
	e.f("db, err := dw.Build()")
	e.f("if !c.NoErr(p+\".dynwrite.build\", err) { continue }")
	e.f("draw := bytes.Clone(db)")
	e.f("m3, size, err := Parse%s(draw)", n)
	e.f("c.NoErr(p+\".dynwrite.parse\", err)")
	e.f("c.EqInt(p+\".dynwrite.parse.size\", size, len(draw))")
	e.f("C05Check%s(c, p+\"/dynwrite\", m3, v)", n)
	// same field order, same values: the same bytes
	e.f("c.EqBytes(p+\".dynwrite.bytes\", draw, raw)")
	e.f("}")
	e.f("}")
	e.f("}")
	e.f("")
}

// ---------------------------------------------------------------- files

func (e *emitter) header() {
	e.f("// Code written by the verification harness (langgen, C05) from its own model of the schema.")
	e.f("")
	e.f("package %s", e.p.ID)
	e.f("")
	e.f("import (")
	e.f("\"bytes\"")
	e.f("\"fmt\"")
	e.f("\"reflect\"")
	e.f("")
	e.f("\"github.com/basecomplextech/baselibrary/bin\"")
	e.f("\"github.com/basecomplextech/baselibrary/buffer\"")
	e.f("\"github.com/basecomplextech/baselibrary/ref\"")
	e.f("\"github.com/basecomplextech/baselibrary/status\"")
	e.f("\"github.com/basecomplextech/spec/rpc\"")
	e.f("\"github.com/basecomplextech/spec\"")
	e.f("rt \"gen.test/c05rt\"")
	var ids []string
	for id := range e.p.deps {
		ids = append(ids, id)
	}
	sortStrings(ids)
	for _, id := range ids {
		e.f("p_%s %q", id, e.p.deps[id].GoPath)
	}
	e.f(")")
	e.f("")
	e.f("var (")
	e.f("_ = bytes.Equal")
	e.f("_ = fmt.Sprint")
	e.f("_ = reflect.TypeOf")
	e.f("_ bin.Bin64")
	e.f("_ buffer.Buffer")
	e.f("_ spec.Type")
	e.f("_ *rt.Rand")
	e.f("_ ref.Ref")
	e.f("_ status.Status")
	e.f("_ rpc.Client")
	e.f(")")
	e.f("")
}

func sortStrings(s []string) {
	for i := 1; i < len(s); i++ {
		for j := i; j > 0 && s[j] < s[j-1]; j-- {
			s[j], s[j-1] = s[j-1], s[j]
		}
	}
}

// emitPackage returns the support file and the test file of a package. name is "<bundle>/<pkg>".
// The support file holds everything including the exported entry point C05Run; the test file is a
// three-line TestC05 calling it, so that the package can be tested alone as well as from the batch
// runner (emitRunner), which links all packages of a batch into one test binary.
func emitPackage(p *pkg, name string, seed uint64, iters int, services bool) (support, test []byte, err error) {
	e := &emitter{p: p}
	e.header()
	for _, d := range p.Defs {
		switch d.Kind {
		case "enum":
			e.enumSupport(d)
			e.enumTest(d)
		case "struct":
			e.structSupport(d)
			e.structTest(d)
		case "msg":
			e.messageSupport(d)
			e.messageTest(d)
		case "service", "subservice":
			if services {
				e.serviceSupport(d)
			}
		}
	}
	e.f("// C05Run runs the checks of every definition of the package.")
	e.f("func C05Run(c *rt.Ctx) {")
	for i, d := range p.Defs {
		var fn string
		switch d.Kind {
		case "enum":
			fn = "c05Enum"
		case "struct":
			fn = "c05Struct"
		case "msg":
			fn = "c05Message"
		case "service":
			if !services {
				continue
			}
			e.f("c.Run(%q, func() { c05Service%s(c, rt.NewRand(%d), %d) })", d.Name, d.Name, seed+uint64(i)*0x9E3779B97F4A7C15, iters/4+1)
			continue
		default:
			continue
		}
		e.f("c.Run(%q, func() { %s%s(c, rt.NewRand(%d), %d) })", d.Name, fn, d.Name, seed+uint64(i)*0x9E3779B97F4A7C15, iters)
	}
	e.f("}")
	support, err = format.Source([]byte(e.sb.String()))
	if err != nil {
		return []byte(e.sb.String()), nil, fmt.Errorf("support file of %s: %w", name, err)
	}

	var t strings.Builder
	fmt.Fprintf(&t, "// Code written by the verification harness (langgen, C05).\n\npackage %s\n\n", p.ID)
	fmt.Fprintf(&t, "import (\n\t\"testing\"\n\n\trt \"gen.test/c05rt\"\n)\n\n")
	fmt.Fprintf(&t, "func TestC05(t *testing.T) {\n\tc := rt.NewCtx(%q)\n\tdefer c.Finish()\n\tC05Run(c)\n}\n", name)
	return support, []byte(t.String()), nil
}

// emitRunner returns the test file of the batch runner package: one parallel subtest per package.
func emitRunner(pkgname string, pkgs []runnerPkg) []byte {
	var t strings.Builder
	fmt.Fprintf(&t, "// Code written by the verification harness (langgen, C05).\n\npackage %s\n\n", pkgname)
	fmt.Fprintf(&t, "import (\n\t\"testing\"\n\n\trt \"gen.test/c05rt\"\n")
	for i, p := range pkgs {
		fmt.Fprintf(&t, "\tq%d %q\n", i, p.GoPath)
	}
	fmt.Fprintf(&t, ")\n\nfunc TestC05(t *testing.T) {\n")
	for i, p := range pkgs {
		fmt.Fprintf(&t, "\tt.Run(%q, func(t *testing.T) {\n\t\tt.Parallel()\n\t\tc := rt.NewCtx(%q)\n\t\tdefer c.Finish()\n\t\tq%d.C05Run(c)\n\t})\n",
			fmt.Sprintf("p%d", i), p.Name, i)
	}
	fmt.Fprintf(&t, "}\n")
	return []byte(t.String())
}

type runnerPkg struct{ Name, GoPath string }
