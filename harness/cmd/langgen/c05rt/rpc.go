package c05rt

import (
	"fmt"
	"strings"
	"sync"
	"time"

	"github.com/basecomplextech/baselibrary/async"
	"github.com/basecomplextech/baselibrary/logging"
	"github.com/basecomplextech/baselibrary/status"
	"github.com/basecomplextech/spec/rpc"
)

// Logger records what the library logs as errors (a panic inside a handler is reported that way).
type baseLogger = logging.Logger

type Logger struct {
	baseLogger
	mu   sync.Mutex
	recs []string
}

func NewLogger() *Logger { return &Logger{baseLogger: logging.Null} }

func (l *Logger) add(msg string, st status.Status) {
	l.mu.Lock()
	defer l.mu.Unlock()
	if len(l.recs) < 200 {
		l.recs = append(l.recs, fmt.Sprintf("%s: %v", msg, st))
	}
}

func (l *Logger) ErrorStatus(msg string, st status.Status, keyValues ...any) { l.add(msg, st) }
func (l *Logger) FatalStatus(msg string, st status.Status, keyValues ...any) { l.add(msg, st) }
func (l *Logger) Error(msg string, keyValues ...any)                         { l.add(msg, status.None) }
func (l *Logger) Logger(name string) logging.Logger                          { return l }
func (l *Logger) WithFields(keyValuePairs ...any) logging.Logger             { return l }

// Panics returns the records which report a panic.
func (l *Logger) Panics() []string {
	l.mu.Lock()
	defer l.mu.Unlock()
	var out []string
	for _, r := range l.recs {
		if strings.Contains(strings.ToLower(r), "panic") {
			out = append(out, r)
		}
	}
	return out
}

// RPC is a server with a generated handler and a client connected to it over the loopback interface.
type RPC struct {
	C      *Ctx
	Name   string
	Log    *Logger
	Server rpc.Server
	Client rpc.Client

	// SC collects the comparisons made by the handlers (on server goroutines), guarded by Mu; Stop
	// merges it into C.
	Mu sync.Mutex
	SC *Ctx
	// Done receives the name of a oneway method once its handler has run.
	Done chan string
}

// StartRPC prepares the environment of one service; Serve starts server and client.
func StartRPC(c *Ctx, name string) *RPC {
	return &RPC{C: c, Name: name, Log: NewLogger(), SC: NewCtx(c.Name), Done: make(chan string, 64)}
}

// Serve starts the server with the handler and creates the client; it returns false (and records a
// note, not a violation) if the server does not come up.
func (e *RPC) Serve(h rpc.Handler) bool {
	e.Server = rpc.NewServer("127.0.0.1:0", h, e.Log, rpc.Default())
	if st := e.Server.Start(); !st.OK() {
		e.C.Note("rpc:" + e.Name + ":server-start:" + st.String())
		return false
	}
	select {
	case <-e.Server.Listening().Wait():
	case <-time.After(20 * time.Second):
		e.C.Note("rpc:" + e.Name + ":server-not-listening")
		e.Server.Stop()
		return false
	}
	e.Client = rpc.NewClient(e.Server.Address(), rpc.ClientMode_OnDemand, e.Log, e.Server.Options())
	return true
}

// Ctx returns the context of one call: nothing waits longer than this (generous, the machine may be
// busy; the timeout of the test binary is the backstop).
func (e *RPC) Ctx() async.Context { return async.TimeoutContext(45 * time.Second) }

// WaitOneway waits until the handler of a oneway method has run.
func (e *RPC) WaitOneway(path, method string) {
	select {
	case got := <-e.Done:
		e.C.Check(got == method, path, "handler_of_%s_ran,want=%s", got, method)
	case <-time.After(45 * time.Second):
		e.C.Check(false, path, "the_handler_did_not_run_within_45s")
	}
}

// Stop closes client and server and merges the server-side results.
func (e *RPC) Stop() {
	if e.Client != nil {
		e.Client.Close()
	}
	if e.Server != nil {
		select {
		case <-e.Server.Stop():
		case <-time.After(30 * time.Second):
			e.C.FailKind("hang", "rpc:"+e.Name, "server_did_not_stop_within_30s")
		}
	}
	e.Mu.Lock()
	defer e.Mu.Unlock()
	e.C.Merge(e.SC)
	for _, p := range e.Log.Panics() {
		e.C.FailKind("panic", "rpc:"+e.Name, "%s", p)
	}
}
