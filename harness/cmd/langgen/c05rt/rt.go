// Package c05rt is the runtime of the tests which command langgen writes next to generated code: a
// seeded PRNG with value generators for every builtin kind, a model of dynamic values (`any` and
// `message` fields), and the check context which counts comparisons and records violations.
//
// The file is embedded into langgen and copied into the scratch module as package gen.test/c05rt.
package c05rt

import (
	"bytes"
	"fmt"
	"math"
	"os"
	"path/filepath"
	"runtime/debug"
	"sort"
	"strings"

	"github.com/basecomplextech/baselibrary/bin"
	"github.com/basecomplextech/baselibrary/buffer"
	"github.com/basecomplextech/spec"
)

// ---------------------------------------------------------------- PRNG

// Rand is splitmix64.
type Rand struct{ s uint64 }

func NewRand(seed uint64) *Rand {
	z := seed + 0x1234567
	z = (z ^ (z >> 33)) * 0xFF51AFD7ED558CCD
	z = (z ^ (z >> 33)) * 0xC4CEB9FE1A85EC53
	return &Rand{s: z ^ (z >> 33)}
}

func (r *Rand) U64() uint64 {
	r.s += 0x9E3779B97F4A7C15
	z := r.s
	z = (z ^ (z >> 30)) * 0xBF58476D1CE4E5B9
	z = (z ^ (z >> 27)) * 0x94D049BB133111EB
	return z ^ (z >> 31)
}

func (r *Rand) Intn(n int) int {
	if n <= 0 {
		return 0
	}
	return int(r.U64() % uint64(n))
}

// Perm returns a random permutation of 0..n-1.
func (r *Rand) Perm(n int) []int {
	p := make([]int, n)
	for i := range p {
		p[i] = i
	}
	for i := n - 1; i > 0; i-- {
		j := r.Intn(i + 1)
		p[i], p[j] = p[j], p[i]
	}
	return p
}

// bits returns a value of a random width: boundaries of the variable-length encodings matter.
func (r *Rand) bits() uint64 {
	switch r.Intn(8) {
	case 0:
		return 0
	case 1:
		return ^uint64(0)
	case 2:
		return uint64(1) << uint(r.Intn(64))
	case 3:
		return (uint64(1) << uint(r.Intn(64))) - 1
	}
	return r.U64() >> uint(r.Intn(64))
}

func (r *Rand) Bool() bool { return r.U64()&1 == 1 }
func (r *Rand) Byte() byte { return byte(r.bits()) }

func (r *Rand) Int16() int16 {
	switch r.Intn(6) {
	case 0:
		return math.MinInt16
	case 1:
		return math.MaxInt16
	}
	return int16(r.bits())
}

func (r *Rand) Int32() int32 {
	switch r.Intn(6) {
	case 0:
		return math.MinInt32
	case 1:
		return math.MaxInt32
	}
	return int32(r.bits())
}

func (r *Rand) Int64() int64 {
	switch r.Intn(6) {
	case 0:
		return math.MinInt64
	case 1:
		return math.MaxInt64
	case 2:
		return -int64(r.bits() >> 1)
	}
	return int64(r.bits())
}

func (r *Rand) Uint16() uint16 { return uint16(r.bits()) }
func (r *Rand) Uint32() uint32 { return uint32(r.bits()) }
func (r *Rand) Uint64() uint64 { return r.bits() }

func (r *Rand) Float32() float32 {
	switch r.Intn(10) {
	case 0:
		return 0
	case 1:
		return float32(math.Copysign(0, -1))
	case 2:
		return float32(math.Inf(1))
	case 3:
		return float32(math.Inf(-1))
	case 4:
		return float32(math.NaN())
	case 5:
		return math.MaxFloat32
	case 6:
		return math.SmallestNonzeroFloat32
	}
	f := math.Float32frombits(uint32(r.U64()))
	if f != f {
		return 1.5
	}
	return f
}

func (r *Rand) Float64() float64 {
	switch r.Intn(10) {
	case 0:
		return 0
	case 1:
		return math.Copysign(0, -1)
	case 2:
		return math.Inf(1)
	case 3:
		return math.Inf(-1)
	case 4:
		return math.NaN()
	case 5:
		return math.MaxFloat64
	case 6:
		return math.SmallestNonzeroFloat64
	}
	f := math.Float64frombits(r.U64())
	if f != f {
		return 2.5
	}
	return f
}

func (r *Rand) Bin64() (b bin.Bin64) {
	if r.Intn(6) == 0 {
		return b
	}
	for i := range b {
		b[i] = byte(r.U64())
	}
	return b
}

func (r *Rand) Bin128() bin.Bin128 { return bin.Bin128{r.Bin64(), r.Bin64()} }
func (r *Rand) Bin256() bin.Bin256 { return bin.Bin256{r.Bin64(), r.Bin64(), r.Bin64(), r.Bin64()} }

func (r *Rand) size() int {
	switch r.Intn(12) {
	case 0:
		return 0
	case 1:
		return 127 + r.Intn(3)
	case 2:
		return 255 + r.Intn(3)
	case 3:
		return 1000 + r.Intn(3000)
	case 4:
		return 16383 + r.Intn(3)
	}
	return 1 + r.Intn(24)
}

// Bytes returns random bytes, sometimes nil, sometimes long.
func (r *Rand) Bytes() []byte {
	n := r.size()
	if n == 0 && r.Bool() {
		return nil
	}
	b := make([]byte, n)
	for i := range b {
		b[i] = byte(r.U64())
	}
	return b
}

var alphabet = []rune("abcXYZ019 _-.,;{}\"'\\\n\täßж中\U0001F600")

// String returns a random valid UTF-8 string, sometimes with a NUL character inside.
func (r *Rand) String() string {
	n := r.size()
	var sb strings.Builder
	for sb.Len() < n {
		if r.Intn(40) == 0 {
			sb.WriteByte(0)
			continue
		}
		sb.WriteRune(alphabet[r.Intn(len(alphabet))])
	}
	return sb.String()
}

// ListLen returns the length of a random list (0 is frequent, a few are longer than 255 elements
// only for small elements, see ListLenSmall).
func (r *Rand) ListLen() int {
	switch r.Intn(6) {
	case 0:
		return 0
	case 1:
		return 1
	}
	return r.Intn(6)
}

// ListLenSmall is ListLen for cheap elements: occasionally more than 255 elements (big list table).
func (r *Rand) ListLenSmall() int {
	if r.Intn(25) == 0 {
		return 250 + r.Intn(60)
	}
	return r.ListLen()
}

// ---------------------------------------------------------------- dynamic values

// AnyV is the expected content of an `any` field or element: a value of one of a few shapes.
type AnyV struct {
	Kind int
	Bool bool
	I64  int64
	U64  uint64
	F64  float64
	S    string
	B    []byte
	Bin  bin.Bin128
	LI   []int64
	LS   []string
	M    *DynV
	Raw  []byte // the standalone encoding
}

const (
	AnyBool = iota
	AnyByte
	AnyInt32
	AnyInt64
	AnyUint64
	AnyFloat64
	AnyString
	AnyBytes
	AnyBin128
	AnyListInt64
	AnyListString
	AnyMessage
	anyKinds
)

// DynV is the expected content of a `message` field or element: a message without a schema.
type DynV struct {
	Fields []DynField
	Raw    []byte
}

type DynField struct {
	Tag uint16
	V   *AnyV
}

func must(err error) {
	if err != nil {
		panic(fmt.Sprintf("c05rt: building a dynamic value failed: %v", err))
	}
}

// GenAny returns a random dynamic value.
func GenAny(r *Rand, depth int) *AnyV {
	v := &AnyV{Kind: r.Intn(anyKinds)}
	if depth <= 0 && v.Kind == AnyMessage {
		v.Kind = AnyInt64
	}
	buf := buffer.New()
	var err error
	switch v.Kind {
	case AnyBool:
		v.Bool = r.Bool()
		_, err = spec.EncodeBool(buf, v.Bool)
	case AnyByte:
		v.U64 = uint64(r.Byte())
		_, err = spec.EncodeByte(buf, byte(v.U64))
	case AnyInt32:
		v.I64 = int64(r.Int32())
		_, err = spec.EncodeInt32(buf, int32(v.I64))
	case AnyInt64:
		v.I64 = r.Int64()
		_, err = spec.EncodeInt64(buf, v.I64)
	case AnyUint64:
		v.U64 = r.Uint64()
		_, err = spec.EncodeUint64(buf, v.U64)
	case AnyFloat64:
		v.F64 = r.Float64()
		_, err = spec.EncodeFloat64(buf, v.F64)
	case AnyString:
		v.S = r.String()
		_, err = spec.EncodeString(buf, v.S)
	case AnyBytes:
		v.B = r.Bytes()
		_, err = spec.EncodeBytes(buf, v.B)
	case AnyBin128:
		v.Bin = r.Bin128()
		_, err = spec.EncodeBin128(buf, v.Bin)
	case AnyListInt64:
		n := r.ListLen()
		w := spec.NewListWriter()
		for i := 0; i < n; i++ {
			x := r.Int64()
			v.LI = append(v.LI, x)
			must(w.Int64(x))
		}
		b, err := w.Build()
		must(err)
		v.Raw = bytes.Clone(b)
		return v
	case AnyListString:
		n := r.ListLen()
		w := spec.NewListWriter()
		for i := 0; i < n; i++ {
			x := r.String()
			v.LS = append(v.LS, x)
			must(w.String(x))
		}
		b, err := w.Build()
		must(err)
		v.Raw = bytes.Clone(b)
		return v
	case AnyMessage:
		v.M = GenDyn(r, depth-1)
		v.Raw = v.M.Raw
		return v
	}
	must(err)
	v.Raw = bytes.Clone(buf.Bytes())
	return v
}

// GenDyn returns a random schemaless message.
func GenDyn(r *Rand, depth int) *DynV {
	d := &DynV{}
	n := r.Intn(5)
	seen := map[uint16]bool{}
	for i := 0; i < n; i++ {
		var tag uint16
		switch r.Intn(4) {
		case 0:
			tag = uint16(r.U64())
		case 1:
			tag = 254 + uint16(r.Intn(4))
		default:
			tag = 1 + uint16(r.Intn(30))
		}
		if tag == 0 || seen[tag] {
			continue
		}
		seen[tag] = true
		d.Fields = append(d.Fields, DynField{Tag: tag, V: GenAny(r, depth)})
	}
	w := spec.NewMessageWriter()
	must(d.WriteTo(w))
	b, err := w.Build()
	must(err)
	d.Raw = bytes.Clone(b)
	return d
}

// WriteTo writes the fields into a message writer (which the caller ends).
func (d *DynV) WriteTo(w spec.MessageWriter) error {
	for _, f := range d.Fields {
		if err := f.V.WriteField(w.Field(f.Tag)); err != nil {
			return err
		}
	}
	return nil
}

// WriteField writes the value through the typed methods of a field writer.
func (v *AnyV) WriteField(f spec.FieldWriter) error {
	switch v.Kind {
	case AnyBool:
		return f.Bool(v.Bool)
	case AnyByte:
		return f.Byte(byte(v.U64))
	case AnyInt32:
		return f.Int32(int32(v.I64))
	case AnyInt64:
		return f.Int64(v.I64)
	case AnyUint64:
		return f.Uint64(v.U64)
	case AnyFloat64:
		return f.Float64(v.F64)
	case AnyString:
		return f.String(v.S)
	case AnyBytes:
		return f.Bytes(v.B)
	case AnyBin128:
		return f.Bin128(v.Bin)
	case AnyListInt64:
		l := f.List()
		for _, x := range v.LI {
			if err := l.Int64(x); err != nil {
				return err
			}
		}
		return l.End()
	case AnyListString:
		l := f.List()
		for _, x := range v.LS {
			if err := l.String(x); err != nil {
				return err
			}
		}
		return l.End()
	case AnyMessage:
		m := f.Message()
		if err := v.M.WriteTo(m); err != nil {
			return err
		}
		return m.End()
	}
	return fmt.Errorf("c05rt: unknown any kind %d", v.Kind)
}

// ---------------------------------------------------------------- check context

// Ctx counts comparisons and records violations; Mode is the violation kind of a failing comparison.
type Ctx struct {
	Name   string
	Mode   string
	Checks int64

	viols  []string
	counts map[string]int
	notes  []string
	done   bool
}

// Note records something which is neither a comparison nor a violation (a test that could not be
// set up); the harness prints notes on the run line.
func (c *Ctx) Note(s string) {
	if len(c.notes) < 8 {
		c.notes = append(c.notes, clean(s))
	}
}

// Merge adds the results of another context.
func (c *Ctx) Merge(o *Ctx) {
	c.Checks += o.Checks
	for k, n := range o.counts {
		c.counts[k] += n
	}
	for _, v := range o.viols {
		if len(c.viols) < 40 {
			c.viols = append(c.viols, v)
		}
	}
	c.notes = append(c.notes, o.notes...)
	o.Checks, o.counts, o.viols, o.notes = 0, map[string]int{}, nil, nil
}

// NewCtx returns the context of one package (name is "<bundle>/<package>").
func NewCtx(name string) *Ctx {
	return &Ctx{Name: name, Mode: "roundtrip-mismatch", counts: map[string]int{}}
}

func clean(s string) string {
	s = strings.Join(strings.Fields(s), "_")
	if len(s) > 300 {
		s = s[:300] + "..."
	}
	return s
}

// Fail records a violation of the current kind.
func (c *Ctx) Fail(path string, format string, args ...any) {
	c.FailKind(c.Mode, path, format, args...)
}

func (c *Ctx) FailKind(kind, path string, format string, args ...any) {
	c.counts[kind]++
	if c.counts[kind] <= 4 {
		c.viols = append(c.viols, kind+" "+clean(path+":"+fmt.Sprintf(format, args...)))
	}
}

// Check counts one comparison.
func (c *Ctx) Check(ok bool, path string, format string, args ...any) bool {
	c.Checks++
	if !ok {
		c.Fail(path, format, args...)
	}
	return ok
}

func (c *Ctx) NoErr(path string, err error) bool {
	return c.Check(err == nil, path, "error:%v", err)
}

func (c *Ctx) EqBool(path string, got, want bool) {
	c.Check(got == want, path, "got=%v,want=%v", got, want)
}

func (c *Ctx) EqInt(path string, got, want int) {
	c.Check(got == want, path, "got=%v,want=%v", got, want)
}

func (c *Ctx) EqI64(path string, got, want int64) {
	c.Check(got == want, path, "got=%v,want=%v", got, want)
}

func (c *Ctx) EqU64(path string, got, want uint64) {
	c.Check(got == want, path, "got=%v,want=%v", got, want)
}

// SameF32 compares bit patterns; any NaN equals any NaN.
func SameF32(a, b float32) bool {
	return math.Float32bits(a) == math.Float32bits(b) || (a != a && b != b)
}

func SameF64(a, b float64) bool {
	return math.Float64bits(a) == math.Float64bits(b) || (a != a && b != b)
}

// EqF32 compares bit patterns; any NaN equals any NaN.
func (c *Ctx) EqF32(path string, got, want float32) {
	c.Check(SameF32(got, want), path, "got=%v,want=%v", got, want)
}

func (c *Ctx) EqF64(path string, got, want float64) {
	c.Check(SameF64(got, want), path, "got=%v,want=%v", got, want)
}

func (c *Ctx) EqBin64(path string, got, want bin.Bin64) {
	c.Check(got == want, path, "got=%v,want=%v", got, want)
}

func (c *Ctx) EqBin128(path string, got, want bin.Bin128) {
	c.Check(got == want, path, "got=%v,want=%v", got, want)
}

func (c *Ctx) EqBin256(path string, got, want bin.Bin256) {
	c.Check(got == want, path, "got=%v,want=%v", got, want)
}

func short(b []byte) string {
	if len(b) > 24 {
		return fmt.Sprintf("%x...(%d)", b[:24], len(b))
	}
	return fmt.Sprintf("%x", b)
}

func (c *Ctx) EqStr(path string, got, want string) {
	c.Check(got == want, path, "got=%s,want=%s", short([]byte(got)), short([]byte(want)))
}

// EqBytes compares contents (nil equals empty).
func (c *Ctx) EqBytes(path string, got, want []byte) {
	c.Check(bytes.Equal(got, want), path, "got=%s,want=%s", short(got), short(want))
}

// EqStruct records the result of a struct comparison made by the caller.
func (c *Ctx) EqStruct(path string, equal bool, got, want any) {
	c.Check(equal, path, "got=%+v,want=%+v", got, want)
}

func (c *Ctx) EqType(path string, got, want spec.Type) {
	c.Check(got == want, path+".type", "got=%v,want=%v", got, want)
}

func (c *Ctx) BoolType(path string, got spec.Type, want bool) {
	t := spec.TypeFalse
	if want {
		t = spec.TypeTrue
	}
	c.EqType(path, got, t)
}

func (c *Ctx) MsgType(path string, got spec.Type) {
	c.Check(got == spec.TypeMessage || got == spec.TypeBigMessage, path+".type", "got=%v,want=message", got)
}

func (c *Ctx) ListType(path string, got spec.Type) {
	c.Check(got == spec.TypeList || got == spec.TypeBigList, path+".type", "got=%v,want=list", got)
}

// Tags checks that the message has exactly the expected tags.
func (c *Ctx) Tags(path string, m spec.Message, want []uint16) {
	sort.Slice(want, func(i, j int) bool { return want[i] < want[j] })
	var got []uint16
	for i := 0; i < m.Fields(); i++ {
		t, _ := m.TagAt(i)
		got = append(got, t)
	}
	c.Check(fmt.Sprint(got) == fmt.Sprint(want), path+".tags", "got=%v,want=%v", got, want)
}

// Any compares a value read from an `any` field with what was written.
func (c *Ctx) Any(path string, got spec.Value, want *AnyV) {
	c.Check(bytes.Equal(got, want.Raw), path+".raw", "got=%s,want=%s", short(got), short(want.Raw))
	t := got.Type()
	switch want.Kind {
	case AnyBool:
		c.BoolType(path, t, want.Bool)
		c.EqBool(path, got.Bool(), want.Bool)
	case AnyByte:
		c.EqType(path, t, spec.TypeByte)
		c.EqU64(path, uint64(got.Byte()), want.U64)
	case AnyInt32:
		c.EqType(path, t, spec.TypeInt32)
		c.EqI64(path, int64(got.Int32()), want.I64)
	case AnyInt64:
		c.EqType(path, t, spec.TypeInt64)
		c.EqI64(path, got.Int64(), want.I64)
	case AnyUint64:
		c.EqType(path, t, spec.TypeUint64)
		c.EqU64(path, got.Uint64(), want.U64)
	case AnyFloat64:
		c.EqType(path, t, spec.TypeFloat64)
		c.EqF64(path, got.Float64(), want.F64)
	case AnyString:
		c.EqType(path, t, spec.TypeString)
		c.EqStr(path, got.String().Unwrap(), want.S)
	case AnyBytes:
		c.EqType(path, t, spec.TypeBytes)
		c.EqBytes(path, got.Bytes().Unwrap(), want.B)
	case AnyBin128:
		c.EqType(path, t, spec.TypeBin128)
		c.EqBin128(path, got.Bin128(), want.Bin)
	case AnyListInt64:
		c.ListType(path, t)
		l := got.List()
		c.EqInt(path+".len", l.Len(), len(want.LI))
		for i := 0; i < len(want.LI) && i < l.Len(); i++ {
			c.EqI64(fmt.Sprintf("%s[%d]", path, i), l.Get(i).Int64(), want.LI[i])
		}
	case AnyListString:
		c.ListType(path, t)
		l := got.List()
		c.EqInt(path+".len", l.Len(), len(want.LS))
		for i := 0; i < len(want.LS) && i < l.Len(); i++ {
			c.EqStr(fmt.Sprintf("%s[%d]", path, i), l.Get(i).String().Unwrap(), want.LS[i])
		}
	case AnyMessage:
		c.MsgType(path, t)
		c.Dyn(path, got.Message(), want.M)
	}
}

// Dyn compares a message read from a `message` field with what was written.
func (c *Ctx) Dyn(path string, got spec.Message, want *DynV) {
	c.Check(bytes.Equal(got.Raw(), want.Raw), path+".raw", "got=%s,want=%s", short(got.Raw()), short(want.Raw))
	var tags []uint16
	for _, f := range want.Fields {
		tags = append(tags, f.Tag)
		c.Any(fmt.Sprintf("%s.%d", path, f.Tag), got.Field(f.Tag), f.V)
	}
	c.Tags(path, got, tags)
}

// Run executes one group of checks; a panic is recorded as a violation of kind panic.
func (c *Ctx) Run(name string, f func()) {
	defer func() {
		if e := recover(); e != nil {
			stack := string(debug.Stack())
			where := ""
			for _, l := range strings.Split(stack, "\n") {
				l = strings.TrimSpace(l)
				if strings.Contains(l, ".go:") && !strings.Contains(l, "runtime/") && !strings.Contains(l, "c05rt/rt.go") {
					where = l
					break
				}
			}
			c.FailKind("panic", name, "%v@%s", e, where)
		}
	}()
	f()
}

// Finish writes the result file $C05_OUT/<name with _ for />.res (or prints it when C05_OUT is unset).
func (c *Ctx) Finish() {
	if c.done {
		return
	}
	c.done = true
	var sb strings.Builder
	fmt.Fprintf(&sb, "checks %d\n", c.Checks)
	kinds := make([]string, 0, len(c.counts))
	for k := range c.counts {
		kinds = append(kinds, k)
	}
	sort.Strings(kinds)
	for _, k := range kinds {
		fmt.Fprintf(&sb, "count %s %d\n", k, c.counts[k])
	}
	for _, v := range c.viols {
		fmt.Fprintf(&sb, "viol %s\n", v)
	}
	for _, v := range c.notes {
		fmt.Fprintf(&sb, "note %s\n", v)
	}
	sb.WriteString("done\n")
	dir := os.Getenv("C05_OUT")
	if dir == "" {
		fmt.Print(sb.String())
		return
	}
	name := strings.ReplaceAll(c.Name, "/", "_") + ".res"
	if err := os.WriteFile(filepath.Join(dir, name), []byte(sb.String()), 0o644); err != nil {
		fmt.Println("c05rt: cannot write result:", err)
	}
}
