package main

import (
	"fmt"
	"sort"
	"strings"

	"verif/harness/internal/schema"
)

// The resolved model of a bundle: what the harness knows about the schema, independently of the
// compiler. The test code is written from this model only.

// typ is a resolved field type. K is a builtin name ("bool" .. "bin256", "string", "bytes"), "any",
// "anymsg", or "enum" / "struct" / "msg" with D set.
type typ struct {
	List bool
	K    string
	D    *def
}

func (t typ) elem() typ { return typ{K: t.K, D: t.D} }

type field struct {
	Name string // schema name
	Go   string // Go method / field name
	Tag  int64
	T    typ
	Sab  bool // sabotage=field: the generated-reader check expects value+1 (int64 fields)
}

type enumVal struct {
	Name string
	Go   string // constant name
	Num  int64
}

// method is a resolved service method. Req / Resp are the request / response messages (named or
// induced by inline fields), Sub the subservice a method returns, ChIn / ChOut the channel messages.
type method struct {
	Name   string
	Go     string
	Req    *def
	Resp   *def
	Sub    *def
	ChIn   *def
	ChOut  *def
	Oneway bool
}

func (m *method) channel() bool { return m.ChIn != nil || m.ChOut != nil }

type def struct {
	Pkg     *pkg
	Kind    string // enum | struct | msg | service | subservice
	Name    string
	File    string // schema file name (without extension) which declares or induces it
	Vals    []enumVal
	Fields  []field // message fields or struct fields (Tag unused)
	Syn     *schema.Def
	Methods []*method
	// message induced by a method (request / response)
	Induced bool
}

type pkg struct {
	ID     string // schema import id, also the Go package name
	GoPath string // Go import path: the go_package option
	Dir    string // directory of the Go package relative to the module root
	Defs   []*def
	byName map[string]*def
	Src    *schema.Package
	// Go import paths of the packages whose helpers the support code calls
	deps map[string]*pkg
}

type model struct {
	Pkgs []*pkg // bundle order (root first)
	byID map[string]*pkg
}

// upperCamel is the documented name mapping of the generator: split at '_', title-case the parts.
func upperCamel(s string) string {
	parts := strings.Split(s, "_")
	for i, p := range parts {
		p = strings.ToLower(p)
		if p != "" {
			p = strings.ToUpper(p[:1]) + p[1:]
		}
		parts[i] = p
	}
	out := strings.Join(parts, "")
	if strings.HasPrefix(s, "_") {
		out = "_" + out
	}
	if strings.HasSuffix(s, "_") {
		out += "_"
	}
	return out
}

var builtinKinds = map[string]bool{"bool": true, "byte": true, "int16": true, "int32": true, "int64": true,
	"uint16": true, "uint32": true, "uint64": true, "float32": true, "float64": true, "bin64": true, "bin128": true,
	"bin256": true, "bytes": true, "string": true}

func buildModel(b *schema.Bundle, module string) (*model, error) {
	m := &model{byID: map[string]*pkg{}}
	for _, sp := range b.Packages {
		p := &pkg{ID: sp.ID, GoPath: module + "/" + sp.ID, byName: map[string]*def{}, Src: sp, deps: map[string]*pkg{}}
		for _, f := range sp.Files {
			for _, o := range f.File.Options {
				if o.Name == "go_package" {
					p.GoPath = o.Value
				}
			}
		}
		root := module
		if i := strings.Index(root, "/"); i >= 0 {
			root = root[:i]
		}
		if !strings.HasPrefix(p.GoPath, module+"/") {
			return nil, fmt.Errorf("package %s: go_package %q is outside of %s", p.ID, p.GoPath, module)
		}
		p.Dir = strings.TrimPrefix(p.GoPath, root+"/")
		m.Pkgs = append(m.Pkgs, p)
		m.byID[p.ID] = p
	}
	// declare
	for _, p := range m.Pkgs {
		files := append([]*schema.NamedFile(nil), p.Src.Files...)
		sort.Slice(files, func(i, j int) bool { return files[i].Name < files[j].Name })
		for _, nf := range files {
			for i := range nf.File.Defs {
				sd := &nf.File.Defs[i]
				kind := sd.Kind
				if kind == "message" {
					kind = "msg"
				}
				d := &def{Pkg: p, Kind: kind, Name: sd.Name, File: nf.Name, Syn: sd}
				if p.byName[d.Name] != nil {
					return nil, fmt.Errorf("duplicate definition %s.%s", p.ID, d.Name)
				}
				p.byName[d.Name] = d
				p.Defs = append(p.Defs, d)
			}
		}
	}
	// resolve
	for _, p := range m.Pkgs {
		for _, nf := range p.Src.Files {
			aliases := map[string]*pkg{}
			for _, im := range nf.File.Imports {
				a := im.Alias
				if a == "" {
					a = im.ID
					if i := strings.LastIndex(a, "/"); i >= 0 {
						a = a[i+1:]
					}
				}
				dep := m.byID[im.ID]
				if dep == nil {
					return nil, fmt.Errorf("%s/%s: unknown import %q", p.ID, nf.Name, im.ID)
				}
				aliases[a] = dep
			}
			resolve := func(t schema.Ty) (typ, error) {
				out := typ{List: t.List}
				switch t.Base.Kind {
				case schema.BAny:
					out.K = "any"
				case schema.BAnyMessage:
					out.K = "anymsg"
				case schema.BName:
					switch {
					case builtinKinds[t.Base.Name]:
						out.K = t.Base.Name
					case t.Base.Name == "any":
						out.K = "any"
					case t.Base.Name == "message":
						out.K = "anymsg"
					default:
						d := p.byName[t.Base.Name]
						if d == nil {
							return out, fmt.Errorf("%s: unknown type %s", p.ID, t.Base.Name)
						}
						out.K, out.D = d.Kind, d
					}
				case schema.BRef:
					dep := aliases[t.Base.Import]
					if dep == nil {
						return out, fmt.Errorf("%s/%s: unknown import alias %s", p.ID, nf.Name, t.Base.Import)
					}
					d := dep.byName[t.Base.Name]
					if d == nil {
						return out, fmt.Errorf("%s: unknown type %s.%s", p.ID, t.Base.Import, t.Base.Name)
					}
					out.K, out.D = d.Kind, d
				}
				return out, nil
			}
			fields := func(fs []schema.Field) ([]field, error) {
				var out []field
				for _, f := range fs {
					t, err := resolve(f.Ty)
					if err != nil {
						return nil, err
					}
					out = append(out, field{Name: f.Name, Go: upperCamel(f.Name), Tag: f.Tag, T: t})
				}
				return out, nil
			}
			for i := range nf.File.Defs {
				sd := &nf.File.Defs[i]
				d := p.byName[sd.Name]
				var err error
				switch d.Kind {
				case "enum":
					for _, v := range sd.Values {
						d.Vals = append(d.Vals, enumVal{Name: v.Name, Go: d.Name + "_" + upperCamel(v.Name), Num: v.Value})
					}
				case "msg":
					d.Fields, err = fields(sd.Fields)
				case "struct":
					for _, f := range sd.SFields {
						t, e := resolve(f.Ty)
						if e != nil {
							return nil, e
						}
						d.Fields = append(d.Fields, field{Name: f.Name, Go: upperCamel(f.Name), T: t})
					}
				default:
					// methods with inline fields induce request / response messages
					for _, mt := range sd.Methods {
						rm := &method{Name: mt.Name, Go: upperCamel(mt.Name), Oneway: mt.Oneway}
						d.Methods = append(d.Methods, rm)
						named := func(b *schema.BaseT, what string) (*def, error) {
							t, e := resolve(schema.Ty{Base: *b})
							if e != nil {
								return nil, e
							}
							if t.D == nil {
								return nil, fmt.Errorf("%s.%s: %s is not a definition", d.Name, mt.Name, what)
							}
							return t.D, nil
						}
						if mt.InType != nil {
							if rm.Req, err = named(mt.InType, "input"); err != nil {
								return nil, err
							}
						}
						if mt.OutType != nil {
							od, e := named(mt.OutType, "output")
							if e != nil {
								return nil, e
							}
							if od.Kind == "msg" {
								rm.Resp = od
							} else {
								rm.Sub = od
							}
						}
						if mt.ChanIn != nil {
							if rm.ChIn, err = named(&mt.ChanIn.Base, "channel input"); err != nil {
								return nil, err
							}
						}
						if mt.ChanOut != nil {
							if rm.ChOut, err = named(&mt.ChanOut.Base, "channel output"); err != nil {
								return nil, err
							}
						}
						var induced *def
						induce := func(suffix string, fs []schema.Field) error {
							induced = nil
							if len(fs) == 0 {
								return nil
							}
							ff, e := fields(fs)
							if e != nil {
								return e
							}
							nd := &def{Pkg: p, Kind: "msg", Name: d.Name + upperCamel(mt.Name) + suffix, File: nf.Name,
								Fields: ff, Induced: true}
							if p.byName[nd.Name] != nil {
								return fmt.Errorf("%s: induced message %s collides", p.ID, nd.Name)
							}
							p.byName[nd.Name] = nd
							p.Defs = append(p.Defs, nd)
							induced = nd
							return nil
						}
						if mt.InType == nil {
							if err = induce("Request", mt.InFields); err != nil {
								return nil, err
							}
							rm.Req = induced
						}
						if mt.OutType == nil && mt.HasOutFields {
							if err = induce("Response", mt.OutFields); err != nil {
								return nil, err
							}
							rm.Resp = induced
						}
					}
				}
				if err != nil {
					return nil, err
				}
			}
		}
	}
	// package dependencies of the support code
	for _, p := range m.Pkgs {
		for _, d := range p.Defs {
			for _, mt := range d.Methods {
				for _, x := range []*def{mt.Req, mt.Resp, mt.Sub, mt.ChIn, mt.ChOut} {
					if x != nil && x.Pkg != p {
						p.deps[x.Pkg.ID] = x.Pkg
					}
				}
			}
			for _, f := range d.Fields {
				if f.T.D != nil && f.T.D.Pkg != p {
					p.deps[f.T.D.Pkg.ID] = f.T.D.Pkg
				}
			}
		}
	}
	return m, nil
}

// distinctGoNames reports a reason when two names of one scope map to the same Go identifier or a
// field collides with a method of the generated type (the property excludes such schemas).
func (m *model) distinctGoNames() string {
	reserved := map[string]bool{"Clone": true, "CloneToArena": true, "CloneToBuffer": true, "IsEmpty": true, "Unwrap": true,
		"Merge": true, "End": true, "Build": true}
	for _, p := range m.Pkgs {
		for _, d := range p.Defs {
			seen := map[string]bool{}
			for _, f := range d.Fields {
				names := []string{f.Go}
				if d.Kind == "msg" {
					names = append(names, "Has"+f.Go, "Copy"+f.Go)
					if reserved[f.Go] {
						return d.Name + "." + f.Name + " collides with a generated method"
					}
				} else if f.Go == "Decode" || f.Go == "EncodeTo" {
					return d.Name + "." + f.Name + " collides with a generated method"
				}
				for _, n := range names {
					if seen[n] {
						return d.Name + "." + f.Name + " maps to a used Go name " + n
					}
					seen[n] = true
				}
			}
			seen = map[string]bool{}
			for _, v := range d.Vals {
				if seen[v.Go] {
					return d.Name + "." + v.Name + " maps to a used Go name"
				}
				seen[v.Go] = true
			}
		}
	}
	return ""
}
