package main

import "fmt"

// Services: the harness implements every generated service interface from its own model of the
// method signatures (a mismatch does not compile), serves it through the generated handler on a
// loopback rpc server and calls every method through the generated client: the request the handler
// sees, the response / channel messages the client sees have to be the values which were written.

// sabotageRPC damages the expectations of the handlers (sabotage=rpc).
var sabotageRPC bool

func (e *emitter) valueType(d *def) string { return "*" + e.ref(d, "C05V") }

// retSt renders `return <status>` for a handler with or without a response.
func retSt(m *method, st string) string {
	if m.Resp != nil {
		return "return nil, " + st
	}
	return "return " + st
}

func (e *emitter) serviceSupport(d *def) {
	n := d.Name
	impl := "C05Impl" + n
	e.f("// %s %s", d.Kind, n)
	e.f("type %s struct {", impl)
	e.f("e *rt.RPC")
	e.f("order uint64")
	for _, m := range d.Methods {
		if m.Req != nil {
			e.f("req%s %s", m.Go, e.valueType(m.Req))
		}
		if m.Resp != nil {
			e.f("resp%s %s", m.Go, e.valueType(m.Resp))
		}
		if m.ChIn != nil {
			e.f("in%s []%s", m.Go, e.valueType(m.ChIn))
		}
		if m.ChOut != nil {
			e.f("out%s []%s", m.Go, e.valueType(m.ChOut))
		}
		if m.Sub != nil {
			e.f("sub%s *%s", m.Go, e.ref(m.Sub, "C05Impl"))
		}
	}
	e.f("}")
	e.f("")
	e.f("var _ %s = (*%s)(nil)", n, impl)
	e.f("")
	e.f("func NewC05Impl%s(e *rt.RPC, depth int) *%s {", n, impl)
	e.f("s := &%s{e: e}", impl)
	e.f("if depth > 0 {")
	for _, m := range d.Methods {
		if m.Sub != nil {
			e.f("s.sub%s = %s(e, depth-1)", m.Go, e.ref(m.Sub, "NewC05Impl"))
		}
	}
	e.f("}")
	e.f("return s")
	e.f("}")
	e.f("")
	for _, m := range d.Methods {
		e.serverMethod(d, m)
	}
	clientType := n + "Client"
	if d.Kind == "subservice" {
		clientType = n + "Call"
	}
	for _, m := range d.Methods {
		e.clientCall(d, m, clientType)
	}
	if d.Kind == "service" {
		e.f("func c05Service%s(c *rt.Ctx, r *rt.Rand, iters int) {", n)
		e.f("e := rt.StartRPC(c, %q)", n)
		e.f("impl := NewC05Impl%s(e, 2)", n)
		e.f("if !e.Serve(New%sHandler(impl)) { return }", n)
		e.f("defer e.Stop()")
		e.f("client := New%sClient(e.Client)", n)
		e.f("for it := 0; it < iters; it++ {")
		e.f("p := fmt.Sprintf(\"rpc:%s#%%d\", it)", n)
		e.f("_ = p")
		for _, m := range d.Methods {
			e.f("C05Call%s%s(c, r, e, impl, client, p, it)", n, m.Go)
		}
		e.f("}")
		e.f("}")
		e.f("")
	}
}

// buildMsg emits the construction of a generated message `name` of definition d from the expected
// value expression val; onErr is the statement executed on a write error `err`.
func (e *emitter) buildMsg(d *def, name, val, order, onErr string) {
	e.f("%sw := %s()", name, e.ref(d, "New")+"Writer")
	e.f("if err := %s(%sw, %s, rt.NewRand(%s)); err != nil { %s }", e.ref(d, "C05Write"), name, val, order, onErr)
	e.f("%s, err := %sw.Build()", name, name)
	e.f("if err != nil { %s }", onErr)
}

func (e *emitter) serverMethod(d *def, m *method) {
	n := d.Name
	ctxType := "rpc.Context"
	if m.Oneway {
		ctxType = "rpc.ConnContext"
	}
	args := "ctx " + ctxType
	switch {
	case m.channel():
		args += fmt.Sprintf(", ch %s%sChannel", n, m.Go)
	case m.Req != nil:
		args += ", req " + e.ref(m.Req, "")
	}
	if m.Sub != nil {
		args += fmt.Sprintf(", next rpc.NextHandler[%s]", e.ref(m.Sub, ""))
	}
	ret := "status.Status"
	if m.Resp != nil {
		ret = fmt.Sprintf("(ref.R[%s], status.Status)", e.ref(m.Resp, ""))
	}
	e.f("func (s *C05Impl%s) %s(%s) %s {", n, m.Go, args, ret)
	e.f("p := %q", "rpc:"+n+"."+m.Name+".server")
	e.f("_ = p")
	if m.Req != nil {
		if m.channel() {
			e.f("req, st := ch.Request()")
			e.f("if !st.OK() { %s }", retSt(m, "st"))
		}
		e.f("s.e.Mu.Lock()")
		e.f("s.e.SC.Mode = \"roundtrip-mismatch\"")
		want := "s.req" + m.Go
		if sabotageRPC {
			want = "nil" // sabotage=rpc: the handler expects an empty request
		}
		e.f("%s(s.e.SC, p+\".req\", req, %s)", e.ref(m.Req, "C05Check"), want)
		e.f("s.e.Mu.Unlock()")
	}
	if m.ChIn != nil {
		e.f("for i, x := range s.in%s {", m.Go)
		e.f("msg, st := ch.Receive(ctx)")
		e.f("if !st.OK() { %s }", retSt(m, "st"))
		e.f("s.e.Mu.Lock()")
		e.f("s.e.SC.Mode = \"roundtrip-mismatch\"")
		e.f("%s(s.e.SC, fmt.Sprintf(\"%%s.in[%%d]\", p, i), msg, x)", e.ref(m.ChIn, "C05Check"))
		e.f("s.e.Mu.Unlock()")
		e.f("}")
	}
	if m.ChOut != nil {
		e.f("for _, x := range s.out%s {", m.Go)
		e.buildMsg(m.ChOut, "msg", "x", "s.order", retSt(m, "rpc.WrapError(err)"))
		e.f("if st := ch.Send(ctx, msg); !st.OK() { %s }", retSt(m, "st"))
		e.f("}")
	}
	if m.Oneway {
		e.f("s.e.Done <- %q", m.Name)
	}
	switch {
	case m.Sub != nil:
		e.f("if s.sub%s == nil { return rpc.Error(\"c05: no subservice\") }", m.Go)
		e.f("return next.Handle(s.sub%s)", m.Go)
	case m.Resp != nil:
		e.buildMsg(m.Resp, "resp", "s.resp"+m.Go, "s.order", "return nil, rpc.WrapError(err)")
		e.f("return ref.NewNoop(resp), status.OK")
	default:
		e.f("return status.OK")
	}
	e.f("}")
	e.f("")
}

// clientCall emits C05Call<D><M>: one call of method m through the generated client.
func (e *emitter) clientCall(d *def, m *method, clientType string) {
	n := d.Name
	e.f("func C05Call%s%s(c *rt.Ctx, r *rt.Rand, e *rt.RPC, impl *C05Impl%s, client %s, p string, it int) {", n, m.Go, n, clientType)
	e.f("p += %q", "."+m.Name)
	e.f("c.Mode = \"roundtrip-mismatch\"")
	e.f("if impl == nil { return }")
	e.f("impl.order = r.U64()")
	if m.Sub != nil {
		// one call chain per method of the subservice. The client of a subservice is a single-use
		// call object (it is released by the call it makes), so below the first level only one chain
		// is run per invocation, chosen by the iteration number.
		sub := m.Sub
		emitted := false
		single := d.Kind == "subservice"
		if single && len(sub.Methods) > 0 {
			e.f("switch it %% %d {", len(sub.Methods))
		}
		for si, sm := range sub.Methods {
			// also methods that return a subservice themselves: the chain goes on (service ->
			// subservice -> subservice -> method) as deep as the implementations reach (depth 2)
			emitted = true
			if single {
				e.f("case %d:", si)
			}
			e.f("{")
			if m.Req != nil {
				e.f("impl.req%s = %s(r, it%%3)", m.Go, e.ref(m.Req, "C05Gen"))
				e.buildMsg(m.Req, "req", "impl.req"+m.Go, "impl.order", "c.NoErr(p+\".req.write\", err); return")
				e.f("call := client.%s(req)", m.Go)
			} else {
				e.f("call := client.%s()", m.Go)
			}
			e.f("%s%s(c, r, e, impl.sub%s, call, p, it)", e.ref(sub, "C05Call"), sm.Go, m.Go)
			e.f("impl.order = r.U64()")
			e.f("}")
		}
		if single && len(sub.Methods) > 0 {
			e.f("}")
		}
		if !emitted {
			e.f("_, _, _ = r, e, it")
		}
		e.f("}")
		e.f("")
		return
	}
	e.f("ctx := e.Ctx()")
	e.f("defer ctx.Free()")
	reqArg := ""
	if m.Req != nil {
		e.f("impl.req%s = %s(r, it%%3)", m.Go, e.ref(m.Req, "C05Gen"))
		e.buildMsg(m.Req, "req", "impl.req"+m.Go, "impl.order", "c.NoErr(p+\".req.write\", err); return")
		reqArg = ", req"
	}
	if m.Resp != nil {
		e.f("impl.resp%s = %s(r, it%%3)", m.Go, e.ref(m.Resp, "C05Gen"))
	}
	if m.ChIn != nil {
		e.f("impl.in%s = nil", m.Go)
		e.f("for i, k := 0, r.Intn(4); i < k; i++ { impl.in%s = append(impl.in%s, %s(r, 1)) }", m.Go, m.Go, e.ref(m.ChIn, "C05Gen"))
	}
	if m.ChOut != nil {
		e.f("impl.out%s = nil", m.Go)
		e.f("for i, k := 0, r.Intn(4); i < k; i++ { impl.out%s = append(impl.out%s, %s(r, 1)) }", m.Go, m.Go, e.ref(m.ChOut, "C05Gen"))
	}
	switch {
	case m.channel():
		e.f("ch, st := client.%s(ctx%s)", m.Go, reqArg)
		e.f("if !c.Check(st.OK(), p+\".open\", \"status=%%v\", st) { return }")
		e.f("defer ch.Free()")
		if m.ChIn != nil {
			e.f("for i, x := range impl.in%s {", m.Go)
			e.buildMsg(m.ChIn, "msg", "x", "impl.order", "c.NoErr(p+\".in.write\", err); return")
			e.f("st := ch.Send(ctx, msg)")
			e.f("if !c.Check(st.OK(), fmt.Sprintf(\"%%s.send[%%d]\", p, i), \"status=%%v\", st) { return }")
			e.f("}")
		}
		if m.ChOut != nil {
			e.f("for i, x := range impl.out%s {", m.Go)
			e.f("msg, st := ch.Receive(ctx)")
			e.f("if !c.Check(st.OK(), fmt.Sprintf(\"%%s.receive[%%d]\", p, i), \"status=%%v\", st) { return }")
			e.f("%s(c, fmt.Sprintf(\"%%s.out[%%d]\", p, i), msg, x)", e.ref(m.ChOut, "C05Check"))
			e.f("}")
		}
		if m.Resp != nil {
			e.f("resp, st := ch.Response(ctx)")
			e.f("if !c.Check(st.OK(), p+\".response\", \"status=%%v\", st) { return }")
			e.f("%s(c, p+\".resp\", resp, impl.resp%s)", e.ref(m.Resp, "C05Check"), m.Go)
		} else {
			e.f("st = ch.Response(ctx)")
			e.f("c.Check(st.OK(), p+\".response\", \"status=%%v\", st)")
		}
	case m.Oneway:
		e.f("st := client.%s(ctx%s)", m.Go, reqArg)
		e.f("if !c.Check(st.OK(), p+\".status\", \"status=%%v\", st) { return }")
		e.f("e.WaitOneway(p, %q)", m.Name)
	case m.Resp != nil:
		e.f("resp, st := client.%s(ctx%s)", m.Go, reqArg)
		e.f("if !c.Check(st.OK(), p+\".status\", \"status=%%v\", st) { return }")
		e.f("%s(c, p+\".resp\", resp.Unwrap(), impl.resp%s)", e.ref(m.Resp, "C05Check"), m.Go)
		e.f("resp.Release()")
	default:
		e.f("st := client.%s(ctx%s)", m.Go, reqArg)
		e.f("c.Check(st.OK(), p+\".status\", \"status=%%v\", st)")
	}
	e.f("_ = it")
	e.f("}")
	e.f("")
}
