package main

import (
	"bufio"
	"bytes"
	"encoding/binary"
	"errors"
	"fmt"
	"io"
	"net"
	"os"
	"os/exec"
	"runtime"
	"runtime/debug"
	"strconv"
	"strings"
	"sync"
	"sync/atomic"
	"syscall"
	"time"

	"github.com/basecomplextech/baselibrary/async"
	"github.com/basecomplextech/baselibrary/bin"
	"github.com/basecomplextech/baselibrary/status"
	"github.com/basecomplextech/spec/mpx"
	"github.com/basecomplextech/spec/proto/pmpx"
	"verif/harness/internal/caplog"
	"verif/harness/internal/hx"
)

// Scenario c11: the server serves only negotiated connections and survives hostile peers.

const childOversizeArg = "__oversize"

// c11Env is a real mpx server with a counting echo handler and a well-behaved client.
type c11Env struct {
	lg    *caplog.Logger
	srv   mpx.Server
	addr  string
	magic []byte // first bytes of every message of the well-behaved clients

	hostile       atomic.Int64 // handler invocations that do not belong to a well-behaved client
	hostileActive atomic.Int64

	healthy *healthyClient
}

func newC11Env(seed uint64) *c11Env {
	e := &c11Env{lg: caplog.New()}
	e.magic = hx.NewRand(seed ^ 0xC11).Bytes(8)
	e.srv = startServer(mpx.HandleFunc(e.handle), e.lg, mpx.Default())
	e.addr = e.srv.Address()
	return e
}

func (e *c11Env) handle(ctx mpx.Context, ch mpx.Channel) status.Status {
	b, st := ch.Receive(ctx)
	healthy := st.OK() && len(b) >= 8 && bytes.Equal(b[:8], e.magic)
	if !healthy {
		e.hostile.Add(1)
		e.hostileActive.Add(1)
		defer e.hostileActive.Add(-1)
	}
	for st.OK() {
		if st = ch.Send(ctx, b); !st.OK() {
			break
		}
		b, st = ch.Receive(ctx)
	}
	return status.OK
}

// healthyClient continuously does echo round trips on its own connection.
type healthyClient struct {
	e    *c11Env
	stop chan struct{}
	done chan struct{}

	ok    atomic.Int64
	fails atomic.Int64

	mu      sync.Mutex
	lastErr string
}

func (e *c11Env) healthyOpts() mpx.Options {
	o := mpx.Default()
	o.Compression = false
	return o
}

// roundTrip does one verified echo round trip.
func (e *c11Env) roundTrip(ch mpx.Channel, seq uint64, d time.Duration) string {
	ctx := async.TimeoutContext(d)
	defer ctx.Free()
	m := make([]byte, 8+8+16)
	copy(m, e.magic)
	binary.BigEndian.PutUint64(m[8:], seq)
	copy(m[16:], hx.NewRand(seq).Bytes(16))
	if st := ch.Send(ctx, m); !st.OK() {
		return "send-" + stcode(st)
	}
	b, st := ch.Receive(ctx)
	if !st.OK() {
		return "receive-" + stcode(st)
	}
	if !bytes.Equal(b, m) {
		return "wrong-echo"
	}
	return ""
}

func (e *c11Env) startHealthy() string {
	h := &healthyClient{e: e, stop: make(chan struct{}), done: make(chan struct{})}
	ctx := async.TimeoutContext(3 * time.Second)
	defer ctx.Free()
	conn, st := mpx.Connect(ctx, e.addr, caplog.New(), e.healthyOpts())
	if !st.OK() {
		return "connect-" + stcode(st)
	}
	ch, st := conn.Channel(ctx)
	if !st.OK() {
		conn.Free()
		return "channel-" + stcode(st)
	}
	if bad := e.roundTrip(ch, 0, 2*time.Second); bad != "" {
		ch.Free()
		conn.Free()
		return bad
	}
	e.healthy = h
	go func() {
		defer close(h.done)
		defer conn.Free()
		defer ch.Free()
		for seq := uint64(1); ; seq++ {
			select {
			case <-h.stop:
				return
			default:
			}
			if bad := e.roundTrip(ch, seq, time.Second); bad != "" {
				h.fails.Add(1)
				h.mu.Lock()
				h.lastErr = bad
				h.mu.Unlock()
				select {
				case <-h.stop:
					return
				case <-time.After(20 * time.Millisecond):
				}
				continue
			}
			h.ok.Add(1)
			time.Sleep(500 * time.Microsecond)
		}
	}()
	return ""
}

func (h *healthyClient) close() {
	close(h.stop)
	waitChan(h.done, 2*time.Second)
}

// check reports whether the well-behaved client has not failed since failsBefore and still
// completes round trips now.
func (h *healthyClient) check(failsBefore int64) (bool, string) {
	ok0 := h.ok.Load()
	advanced := waitUntil(time.Now().Add(2*time.Second), func() bool { return h.ok.Load() >= ok0+2 })
	if f := h.fails.Load(); f != failsBefore || !advanced {
		h.mu.Lock()
		defer h.mu.Unlock()
		return false, fmt.Sprintf("fails=%d-advanced=%v-last=%s", f-failsBefore, advanced, h.lastErr)
	}
	return true, ""
}

// fresh checks that the server accepts and serves a new well-behaved connection.
func (e *c11Env) fresh() string {
	ctx := async.TimeoutContext(3 * time.Second)
	defer ctx.Free()
	conn, st := mpx.Connect(ctx, e.addr, caplog.New(), e.healthyOpts())
	if !st.OK() {
		return "connect-" + stcode(st)
	}
	defer conn.Free()
	ch, st := conn.Channel(ctx)
	if !st.OK() {
		return "channel-" + stcode(st)
	}
	defer ch.Free()
	return e.roundTrip(ch, 77, 2*time.Second)
}

// raw peer

type rawPeer struct {
	c net.Conn
	r *bufio.Reader
}

func dialRaw(addr string) (*rawPeer, error) {
	c, err := net.DialTimeout("tcp", addr, 2*time.Second)
	if err != nil {
		return nil, err
	}
	return &rawPeer{c: c, r: bufio.NewReader(c)}, nil
}

func (p *rawPeer) close() { p.c.Close() }

func (p *rawPeer) write(b []byte) error {
	p.c.SetWriteDeadline(time.Now().Add(2 * time.Second))
	_, err := p.c.Write(b)
	return err
}

func frame(payload []byte) []byte {
	b := make([]byte, 4+len(payload))
	binary.BigEndian.PutUint32(b, uint32(len(payload)))
	copy(b[4:], payload)
	return b
}

func (p *rawPeer) writeFrame(payload []byte) error { return p.write(frame(payload)) }

func (p *rawPeer) readLine(d time.Duration) (string, error) {
	p.c.SetReadDeadline(time.Now().Add(d))
	return p.r.ReadString('\n')
}

func (p *rawPeer) readFrame(d time.Duration) ([]byte, error) {
	p.c.SetReadDeadline(time.Now().Add(d))
	var head [4]byte
	if _, err := io.ReadFull(p.r, head[:]); err != nil {
		return nil, err
	}
	n := binary.BigEndian.Uint32(head[:])
	if n > 1<<20 {
		return nil, fmt.Errorf("frame too large: %d", n)
	}
	b := make([]byte, n)
	if _, err := io.ReadFull(p.r, b); err != nil {
		return nil, err
	}
	return b, nil
}

// waitClosed reads until the server closes the connection; false when it is still open after d.
func (p *rawPeer) waitClosed(d time.Duration) bool {
	deadline := time.Now().Add(d)
	buf := make([]byte, 4096)
	for {
		p.c.SetReadDeadline(deadline)
		_, err := p.r.Read(buf)
		if err == nil {
			continue
		}
		var ne net.Error
		if errors.As(err, &ne) && ne.Timeout() {
			return false
		}
		return true // EOF, reset
	}
}

// message builders

func mustMsg(m pmpx.Message, err error) []byte {
	if err != nil {
		fail("build message: %v", err)
	}
	return append([]byte(nil), m.Unwrap().Raw()...)
}

func connectRequest(versions []pmpx.Version, comps []pmpx.ConnectCompression) []byte {
	return mustMsg(pmpx.BuildConnectRequest(pmpx.ConnectInput{Versions: versions, Compressions: comps}))
}

func channelOpen(id bin.Bin128, data []byte, window int32) []byte {
	return mustMsg(pmpx.BuildChannelOpen(pmpx.NewMessageWriter(), id, data, window))
}

func channelData(id bin.Bin128, data []byte) []byte {
	return mustMsg(pmpx.BuildChannelData(pmpx.NewMessageWriter(), id, data))
}

func channelClose(id bin.Bin128, data []byte) []byte {
	return mustMsg(pmpx.BuildChannelClose(pmpx.NewMessageWriter(), id, data))
}

func channelWindow(id bin.Bin128, delta int32) []byte {
	return mustMsg(pmpx.BuildChannelWindow(pmpx.NewMessageWriter(), id, delta))
}

// requestUnderCode is a message whose code is NOT connect_request but which carries a well-formed
// connect_request field with the supported version: what a frame is, is said by its code.
func requestUnderCode(code pmpx.Code) []byte {
	w := pmpx.NewMessageWriter()
	w.Code(code)
	w1 := w.ConnectRequest()
	w2 := w1.Versions()
	w2.Add(v10)
	if err := w2.End(); err != nil {
		fail("build: %v", err)
	}
	w3 := w1.Compression()
	if err := w3.End(); err != nil {
		fail("build: %v", err)
	}
	if err := w1.End(); err != nil {
		fail("build: %v", err)
	}
	return mustMsg(w.Build())
}

func unknownCode(code int) []byte {
	w := pmpx.NewMessageWriter()
	w.Code(pmpx.Code(code))
	return mustMsg(w.Build())
}

// batchOf builds a batch whose elements are the given (complete) messages.
func batchOf(msgs ...[]byte) []byte {
	w := pmpx.NewMessageWriter()
	w.Code(pmpx.Code_Batch)
	w1 := w.Batch()
	w2 := w1.List()
	for _, raw := range msgs {
		m, err := pmpx.OpenMessageErr(raw)
		if err != nil {
			fail("open message: %v", err)
		}
		if err := w2.Copy(m); err != nil {
			fail("batch copy: %v", err)
		}
	}
	if err := w2.End(); err != nil {
		fail("batch list end: %v", err)
	}
	if err := w1.End(); err != nil {
		fail("batch end: %v", err)
	}
	return mustMsg(w.Build())
}

func randID(r *hx.Rand) bin.Bin128 {
	var id bin.Bin128
	b := r.Bytes(16)
	copy(id[0][:], b[:8])
	copy(id[1][:], b[8:])
	return id
}

// handshake performs the client side of the handshake; it returns the parsed response.
type hsResult struct {
	line     string
	gotResp  bool
	ok       bool
	version  pmpx.Version
	comp     pmpx.ConnectCompression
	errorMsg string
}

func (p *rawPeer) handshake(versions []pmpx.Version, comps []pmpx.ConnectCompression) hsResult {
	var res hsResult
	if err := p.write([]byte(mpx.ProtocolLine)); err != nil {
		return res
	}
	if err := p.writeFrame(connectRequest(versions, comps)); err != nil {
		return res
	}
	return p.readHandshake()
}

func (p *rawPeer) readHandshake() hsResult {
	var res hsResult
	line, err := p.readLine(2 * time.Second)
	res.line = line
	if err != nil {
		return res
	}
	b, err := p.readFrame(2 * time.Second)
	if err != nil {
		return res
	}
	m, err := pmpx.OpenMessageErr(b)
	if err != nil || m.Code() != pmpx.Code_ConnectResponse {
		return res
	}
	r := m.ConnectResponse()
	res.gotResp = true
	res.ok = r.Ok()
	res.version = r.Version()
	res.comp = r.Compression()
	res.errorMsg = r.Error().Unwrap()
	return res
}

// scripts

type scriptResult struct {
	closed   string // true|false|na
	refusal  string // true|false|na
	extra    []string
	viol     []string
	expectH  int // expected handler invocations, -1 = any
	mustShut bool

	waitHandler bool // give a handler some time to start before counting
}

type c11Script struct {
	name string
	run  func(e *c11Env, r *hx.Rand) scriptResult
}

var v10 = pmpx.Version_Version10

func openAndClose(p *rawPeer, r *hx.Rand) {
	p.writeFrame(channelOpen(randID(r), []byte("hostile-open"), 1<<20))
}

// unnegotiated sends raw bytes instead of a valid handshake, then (ignoring whatever the server
// says) a connect request and a channel open; the server must close and never run a handler.
func unnegotiated(first []byte, followUp bool) func(e *c11Env, r *hx.Rand) scriptResult {
	return func(e *c11Env, r *hx.Rand) scriptResult {
		res := scriptResult{expectH: 0, mustShut: true, refusal: "na"}
		p, err := dialRaw(e.addr)
		if err != nil {
			res.viol = append(res.viol, "dial-failed")
			return res
		}
		defer p.close()
		p.write(first)
		if followUp {
			p.writeFrame(connectRequest([]pmpx.Version{v10}, nil))
			openAndClose(p, r)
		}
		res.closed = strconv.FormatBool(p.waitClosed(2 * time.Second))
		return res
	}
}

// noNewline sends bytes without a line terminator; if the server does not close within the limit,
// the terminator is sent to find out whether the server was just waiting for it.
func noNewline(first func(r *hx.Rand) []byte) func(e *c11Env, r *hx.Rand) scriptResult {
	return func(e *c11Env, r *hx.Rand) scriptResult {
		res := scriptResult{expectH: 0, mustShut: true, refusal: "na"}
		p, err := dialRaw(e.addr)
		if err != nil {
			res.viol = append(res.viol, "dial-failed")
			return res
		}
		defer p.close()
		p.write(first(r))
		closed := p.waitClosed(2 * time.Second)
		res.closed = strconv.FormatBool(closed)
		if !closed {
			p.write([]byte("\n"))
			p.writeFrame(connectRequest([]pmpx.Version{v10}, nil))
			openAndClose(p, r)
			res.extra = append(res.extra, fmt.Sprintf("closed_after_newline=%v", p.waitClosed(2*time.Second)))
		}
		return res
	}
}

// afterLine sends the correct protocol line and then a frame that is not a valid connect request.
func afterLine(payload func(r *hx.Rand) []byte) func(e *c11Env, r *hx.Rand) scriptResult {
	return func(e *c11Env, r *hx.Rand) scriptResult {
		res := scriptResult{expectH: 0, mustShut: true}
		p, err := dialRaw(e.addr)
		if err != nil {
			res.viol = append(res.viol, "dial-failed")
			return res
		}
		defer p.close()
		p.write([]byte(mpx.ProtocolLine))
		p.writeFrame(payload(r))
		hs := p.readHandshake()
		res.refusal = strconv.FormatBool(hs.gotResp && !hs.ok)
		if hs.gotResp && hs.ok {
			res.viol = append(res.viol, "accepted-invalid-connect-request")
		}
		// ignore the outcome and try to open a channel
		openAndClose(p, r)
		res.closed = strconv.FormatBool(p.waitClosed(2 * time.Second))
		return res
	}
}

// refusedVersions sends a request with versions the server does not support.
func refusedVersions(versions []pmpx.Version) func(e *c11Env, r *hx.Rand) scriptResult {
	return func(e *c11Env, r *hx.Rand) scriptResult {
		res := scriptResult{expectH: 0, mustShut: true}
		p, err := dialRaw(e.addr)
		if err != nil {
			res.viol = append(res.viol, "dial-failed")
			return res
		}
		defer p.close()
		hs := p.handshake(versions, nil)
		res.refusal = strconv.FormatBool(hs.gotResp && !hs.ok)
		if hs.gotResp && hs.ok {
			res.viol = append(res.viol, fmt.Sprintf("accepted-unsupported-versions-negotiated=%d", hs.version))
		}
		// ignore the refusal
		openAndClose(p, r)
		p.writeFrame(channelData(randID(r), []byte("x")))
		res.closed = strconv.FormatBool(p.waitClosed(2 * time.Second))
		return res
	}
}

// served is the positive control: a request with a supported version must be served.
func served(versions []pmpx.Version, comps []pmpx.ConnectCompression, wantComp pmpx.ConnectCompression) func(e *c11Env, r *hx.Rand) scriptResult {
	return func(e *c11Env, r *hx.Rand) scriptResult {
		res := scriptResult{expectH: 1, refusal: "false", closed: "na"}
		p, err := dialRaw(e.addr)
		if err != nil {
			res.viol = append(res.viol, "dial-failed")
			return res
		}
		defer p.close()
		hs := p.handshake(versions, comps)
		switch {
		case !hs.gotResp || !hs.ok:
			res.viol = append(res.viol, "negotiated-not-served:refused")
			res.expectH = 0
			return res
		case hs.version != v10:
			res.viol = append(res.viol, fmt.Sprintf("negotiated-version=%d", hs.version))
		case hs.comp != wantComp:
			res.viol = append(res.viol, fmt.Sprintf("negotiated-compression=%d-not-proposed", hs.comp))
		}
		id := randID(r)
		data := []byte("control-open")
		p.writeFrame(channelOpen(id, data, 1<<20))
		b, err := p.readFrame(2 * time.Second)
		if err != nil {
			res.viol = append(res.viol, "negotiated-not-served:no-echo")
			return res
		}
		m, err := pmpx.OpenMessageErr(b)
		if err != nil || m.Code() != pmpx.Code_ChannelData || !bytes.Equal(m.ChannelData().Data(), data) {
			res.viol = append(res.viol, "negotiated-not-served:wrong-echo")
		}
		return res
	}
}

// post runs a script after a valid handshake; the connection may or may not be closed by the
// server, the effect must be confined to it.
func post(expectH int, body func(p *rawPeer, r *hx.Rand, res *scriptResult)) func(e *c11Env, r *hx.Rand) scriptResult {
	return func(e *c11Env, r *hx.Rand) scriptResult {
		res := scriptResult{expectH: expectH, refusal: "false"}
		p, err := dialRaw(e.addr)
		if err != nil {
			res.viol = append(res.viol, "dial-failed")
			return res
		}
		defer p.close()
		hs := p.handshake([]pmpx.Version{v10}, nil)
		if !hs.gotResp || !hs.ok {
			res.viol = append(res.viol, "valid-handshake-refused")
			return res
		}
		body(p, r, &res)
		if res.closed == "" {
			res.closed = strconv.FormatBool(p.waitClosed(300 * time.Millisecond))
		}
		return res
	}
}

func rsize(v uint32) []byte {
	switch {
	case v < 0xfd:
		return []byte{byte(v)}
	case v <= 0xffff:
		return []byte{byte(v >> 8), byte(v), 0xfd}
	}
	return []byte{byte(v >> 24), byte(v >> 16), byte(v >> 8), byte(v), 0xfe}
}

// hostilePayload generates a structurally hostile frame payload.
func hostilePayload(r *hx.Rand) []byte {
	types := []byte{80, 81, 70, 71}
	sizes := []uint32{0, 1, 3, 6, 9, 0xfc, 0xfd, 0xffff, 0x10000, 0x7fffffff, 0xfffffffd, 0xffffffff}
	valid := func() []byte {
		id := randID(r)
		switch r.Intn(5) {
		case 0:
			return channelOpen(id, r.Bytes(r.Intn(20)), int32(r.U64()))
		case 1:
			return channelData(id, r.Bytes(r.Intn(20)))
		case 2:
			return channelClose(id, r.Bytes(r.Intn(20)))
		case 3:
			return channelWindow(id, int32(r.U64()))
		}
		return batchOf(channelOpen(id, r.Bytes(r.Intn(20)), 1024), channelData(id, r.Bytes(5)), channelClose(id, nil))
	}
	switch r.Intn(6) {
	case 0: // random body, plausible tail with small sizes
		b := r.Bytes(r.Intn(64))
		b = append(b, rsize(uint32(r.Intn(len(b)+2)))...)
		b = append(b, rsize(uint32(3*r.Intn(4)))...)
		return append(b, types[r.Intn(len(types))])
	case 1: // random body, huge sizes
		b := r.Bytes(r.Intn(64))
		b = append(b, rsize(sizes[r.Intn(len(sizes))])...)
		b = append(b, rsize(sizes[r.Intn(len(sizes))])...)
		return append(b, types[r.Intn(len(types))])
	case 2: // valid message with flipped bytes
		b := valid()
		for i := 0; i < 1+r.Intn(3); i++ {
			b[r.Intn(len(b))] ^= byte(1 << r.Intn(8))
		}
		return b
	case 3: // valid message with the front cut off
		b := valid()
		return b[1+r.Intn(len(b)-2):]
	case 4: // valid message whose tail claims other sizes
		b := valid()
		b = b[:len(b)-3]
		b = append(b, rsize(sizes[r.Intn(len(sizes))])...)
		b = append(b, rsize(sizes[r.Intn(len(sizes))])...)
		return append(b, types[r.Intn(len(types))])
	}
	// valid message with random bytes replaced by type codes and size markers
	b := valid()
	marks := []byte{80, 81, 70, 71, 0xfd, 0xfe, 0xff, 0}
	for i := 0; i < 1+r.Intn(4); i++ {
		b[r.Intn(len(b))] = marks[r.Intn(len(marks))]
	}
	return b
}

func c11Scripts(thorough bool) []c11Script {
	var s []c11Script
	add := func(name string, run func(e *c11Env, r *hx.Rand) scriptResult) {
		s = append(s, c11Script{name: name, run: run})
	}

	// Handshake scripts: no handler, closed by the server.
	add("line-specmpx2", unnegotiated([]byte("SpecMPX/2\n"), true))
	add("line-http", unnegotiated([]byte("HTTP/1.1\n"), true))
	add("line-http-get", unnegotiated([]byte("GET / HTTP/1.1\r\nHost: x\r\n\r\n"), true))
	add("line-empty", unnegotiated([]byte("\n"), true))
	add("line-lowercase", unnegotiated([]byte("specmpx/1\n"), true))
	add("line-crlf", unnegotiated([]byte("SpecMPX/1\r\n"), true))
	add("line-10k-no-newline", noNewline(func(r *hx.Rand) []byte { return bytes.Repeat([]byte("A"), 10<<10) }))
	add("open-frame-before-line", noNewline(func(r *hx.Rand) []byte {
		b := frame(channelOpen(randID(r), []byte("early-open"), 1<<20))
		return bytes.ReplaceAll(b, []byte("\n"), []byte("."))
	}))
	add("line-then-garbage-frame", afterLine(func(r *hx.Rand) []byte {
		b := r.Bytes(40)
		b[len(b)-1] = 0xff // not a message type
		return b
	}))
	add("line-then-empty-frame", afterLine(func(r *hx.Rand) []byte { return nil }))
	add("line-then-open-frame", afterLine(func(r *hx.Rand) []byte {
		return channelOpen(randID(r), []byte("early-open"), 1<<20)
	}))
	add("line-then-connect-response", afterLine(func(r *hx.Rand) []byte {
		return mustMsg(pmpx.BuildConnectResponse(v10, pmpx.ConnectCompression_None))
	}))
	add("line-then-unknown-code", afterLine(func(r *hx.Rand) []byte { return unknownCode(99) }))
	add("line-then-request-under-code-99", afterLine(func(r *hx.Rand) []byte { return requestUnderCode(99) }))
	add("line-then-request-under-code-open", afterLine(func(r *hx.Rand) []byte { return requestUnderCode(pmpx.Code_ChannelOpen) }))
	add("line-then-request-under-code-response", afterLine(func(r *hx.Rand) []byte { return requestUnderCode(pmpx.Code_ConnectResponse) }))
	add("line-then-request-under-code-0", afterLine(func(r *hx.Rand) []byte { return requestUnderCode(0) }))
	add("versions-none", refusedVersions(nil))
	add("versions-0", refusedVersions([]pmpx.Version{0}))
	add("versions-11", refusedVersions([]pmpx.Version{11}))
	add("versions-11-12-0", refusedVersions([]pmpx.Version{11, 12, 0}))
	add("close-mid-line", func(e *c11Env, r *hx.Rand) scriptResult {
		res := scriptResult{expectH: 0, closed: "na", refusal: "na"}
		p, err := dialRaw(e.addr)
		if err != nil {
			res.viol = append(res.viol, "dial-failed")
			return res
		}
		p.write([]byte("SpecM"))
		p.close()
		return res
	})
	add("close-mid-request", func(e *c11Env, r *hx.Rand) scriptResult {
		res := scriptResult{expectH: 0, closed: "na", refusal: "na"}
		p, err := dialRaw(e.addr)
		if err != nil {
			res.viol = append(res.viol, "dial-failed")
			return res
		}
		req := frame(connectRequest([]pmpx.Version{v10}, nil))
		p.write([]byte(mpx.ProtocolLine))
		p.write(req[:len(req)/2])
		p.close()
		return res
	})

	// Positive controls: a mutually supported version is served.
	add("control-versions-10", served([]pmpx.Version{v10}, nil, pmpx.ConnectCompression_None))
	add("control-versions-10-10", served([]pmpx.Version{v10, v10}, nil, pmpx.ConnectCompression_None))
	add("control-versions-11-10", served([]pmpx.Version{11, v10}, nil, pmpx.ConnectCompression_None))
	// An unknown compression value next to a supported version: the server may only answer with a
	// compression it knows and the peer proposed, i.e. none.
	add("control-unknown-compression-7", served([]pmpx.Version{v10}, []pmpx.ConnectCompression{7}, pmpx.ConnectCompression_None))

	// Post-handshake scripts: the effect is confined to the hostile connection.
	add("post-frame-len-0", post(0, func(p *rawPeer, r *hx.Rand, res *scriptResult) {
		p.write([]byte{0, 0, 0, 0})
	}))
	add("post-garbage-frames", post(-1, func(p *rawPeer, r *hx.Rand, res *scriptResult) {
		for i := 0; i < 20; i++ {
			if p.writeFrame(r.Bytes(1+r.Intn(200))) != nil {
				break
			}
		}
	}))
	add("post-unknown-code", post(0, func(p *rawPeer, r *hx.Rand, res *scriptResult) {
		p.writeFrame(unknownCode(99))
	}))
	add("post-no-code", post(0, func(p *rawPeer, r *hx.Rand, res *scriptResult) {
		p.writeFrame(mustMsg(pmpx.NewMessageWriter().Build()))
	}))
	add("post-connect-request-again", post(0, func(p *rawPeer, r *hx.Rand, res *scriptResult) {
		p.writeFrame(connectRequest([]pmpx.Version{v10}, nil))
	}))
	add("post-batch-in-batch", post(0, func(p *rawPeer, r *hx.Rand, res *scriptResult) {
		id := randID(r)
		inner := batchOf(channelOpen(id, []byte("nested"), 1<<20))
		p.writeFrame(batchOf(inner))
	}))
	add("post-duplicate-open", post(1, func(p *rawPeer, r *hx.Rand, res *scriptResult) {
		id := randID(r)
		p.writeFrame(channelOpen(id, []byte("first"), 1<<20))
		p.writeFrame(channelOpen(id, []byte("second"), 1<<20))
	}))
	add("post-duplicate-open-in-batch", post(1, func(p *rawPeer, r *hx.Rand, res *scriptResult) {
		id := randID(r)
		p.writeFrame(batchOf(channelOpen(id, []byte("first"), 1<<20), channelOpen(id, []byte("second"), 1<<20)))
	}))
	add("post-unknown-channel-ids", post(1, func(p *rawPeer, r *hx.Rand, res *scriptResult) {
		for i := 0; i < 5; i++ {
			p.writeFrame(channelData(randID(r), []byte("data-for-nobody")))
			p.writeFrame(channelWindow(randID(r), 1<<20))
			p.writeFrame(channelClose(randID(r), []byte("close-for-nobody")))
		}
		// the connection must still be usable
		id := randID(r)
		data := []byte("after-unknown")
		p.writeFrame(channelOpen(id, data, 1<<20))
		b, err := p.readFrame(2 * time.Second)
		if err != nil {
			res.extra = append(res.extra, "usable_after=false")
			return
		}
		m, err := pmpx.OpenMessageErr(b)
		res.extra = append(res.extra, fmt.Sprintf("usable_after=%v",
			err == nil && m.Code() == pmpx.Code_ChannelData && bytes.Equal(m.ChannelData().Data(), data)))
	}))
	add("post-open-then-disconnect", post(-1, func(p *rawPeer, r *hx.Rand, res *scriptResult) {
		p.writeFrame(channelOpen(randID(r), []byte("bye"), 1<<20))
		p.close()
		res.closed = "na"
		res.waitHandler = true
	}))
	add("post-truncated-frame-then-disconnect", post(0, func(p *rawPeer, r *hx.Rand, res *scriptResult) {
		b := frame(channelOpen(randID(r), bytes.Repeat([]byte("t"), 100), 1<<20))
		p.write(b[:len(b)-37])
		p.close()
		res.closed = "na"
	}))
	add("post-window-overflow", post(1, func(p *rawPeer, r *hx.Rand, res *scriptResult) {
		id := randID(r)
		p.writeFrame(channelOpen(id, []byte("w"), -5))
		for i := 0; i < 4; i++ {
			p.writeFrame(channelWindow(id, 0x7fffffff))
			p.writeFrame(channelWindow(id, -0x80000000))
		}
	}))
	n := 50
	if thorough {
		n = 2000
	}
	for i := 0; i < n; i++ {
		add(fmt.Sprintf("post-hostile-%03d", i), post(-1, func(p *rawPeer, r *hx.Rand, res *scriptResult) {
			payload := hostilePayload(r)
			p.writeFrame(payload)
			// something valid afterwards, in case the payload was swallowed
			p.writeFrame(channelData(randID(r), []byte("x")))
			if len(payload) <= 96 {
				res.extra = append(res.extra, "payload="+hx.Hex(payload))
			} else {
				res.extra = append(res.extra, fmt.Sprintf("payload_len=%d", len(payload)))
			}
		}))
	}
	return s
}

func heapMB() int64 {
	var m runtime.MemStats
	runtime.ReadMemStats(&m)
	return int64(m.HeapAlloc >> 20)
}

func runC11(a args, o *out) {
	thorough := a.tier == "thorough"
	bud := newBudget(a.tier, 33*time.Second, 330*time.Second)
	e := newC11Env(a.seed)
	defer stopServer(e.srv)
	if bad := e.startHealthy(); bad != "" {
		fail("healthy client: %s", bad)
	}
	defer e.healthy.close()

	scripts := c11Scripts(thorough)
	idx := 0
	skipped := 0
	for _, sc := range scripts {
		i := idx
		idx++
		if a.only >= 0 && i != a.only {
			continue
		}
		if bud.exhausted() {
			skipped++
			continue
		}
		r := hx.NewRand(a.seed ^ uint64(i+1)*0x9E3779B97F4A7C15)
		derived := r.U64()

		h0 := e.hostile.Load()
		f0 := e.healthy.fails.Load()
		p0 := len(e.lg.Panics())
		heap0 := heapMB()

		res := sc.run(e, r)
		viol := res.viol

		// handlers counted and released; a handler of the last frames may start a moment after
		// the script has ended
		if res.expectH > 0 || res.waitHandler {
			want := int64(max(res.expectH, 1))
			waitUntil(time.Now().Add(500*time.Millisecond), func() bool { return e.hostile.Load()-h0 >= want })
		}
		time.Sleep(20 * time.Millisecond)
		released := waitUntil(time.Now().Add(2*time.Second), func() bool { return e.hostileActive.Load() == 0 })
		handlers := e.hostile.Load() - h0
		heap1 := heapMB()

		healthy, why := e.healthy.check(f0)
		if !healthy {
			viol = append(viol, "healthy-client-disturbed:"+why)
		}
		alive := e.fresh()
		if alive != "" {
			viol = append(viol, "server-not-serving-new-connections:"+alive)
		}
		for _, p := range newPanics(e.lg, p0) {
			viol = append(viol, "library-panic:"+p)
		}
		if res.expectH == 0 && handlers > 0 {
			if res.mustShut {
				viol = append(viol, fmt.Sprintf("handler-on-unnegotiated-n=%d", handlers))
			} else {
				viol = append(viol, fmt.Sprintf("handler-on-invalid-input-n=%d", handlers))
			}
		}
		if res.expectH > 0 && handlers != int64(res.expectH) {
			viol = append(viol, fmt.Sprintf("handler-invocations=%d-expected=%d", handlers, res.expectH))
		}
		if res.mustShut && res.closed == "false" {
			if contains(res.extra, "closed_after_newline=true") {
				viol = append(viol, "not-closed:server-waits-for-a-line-terminator-without-bound")
			} else {
				viol = append(viol, "not-closed")
			}
		}
		if !released {
			viol = append(viol, fmt.Sprintf("handler-not-released-n=%d", e.hostileActive.Load()))
		}
		if d := heap1 - heap0; d > 1024 {
			viol = append(viol, fmt.Sprintf("heap-growth-mb=%d", d))
		}
		closed, refusal := res.closed, res.refusal
		if closed == "" {
			closed = "na"
		}
		if refusal == "" {
			refusal = "na"
		}
		line := fmt.Sprintf("run=%d seed=%d script=%s handlers=%d closed=%s healthy=%v refusal=%s heap_mb=%d alive=%v",
			i, derived, sc.name, handlers, closed, healthy, refusal, max(heap1-heap0, 0), alive == "")
		if len(res.extra) > 0 {
			line += " " + strings.Join(res.extra, " ")
		}
		o.run(line, viol)
	}

	// Oversized frames: run in a child process, so that a fatal out-of-memory error of the
	// runtime is observed instead of killing the scenario.
	for _, v := range []struct {
		name  string
		size  uint32
		phase string
	}{
		{"post-oversize-ffffffff", 0xffffffff, "post"},
		{"post-oversize-7fffffff", 0x7fffffff, "post"},
		{"pre-oversize-ffffffff", 0xffffffff, "pre"},
	} {
		i := idx
		idx++
		if a.only >= 0 && i != a.only {
			continue
		}
		if bud.exhausted() {
			skipped++
			continue
		}
		f0 := e.healthy.fails.Load()
		line, viol := runOversizeChild(v.size, v.phase)
		healthy, why := e.healthy.check(f0)
		if !healthy {
			viol = append(viol, "healthy-client-disturbed:"+why)
		}
		o.run(fmt.Sprintf("run=%d seed=%d script=%s %s healthy=%v refusal=false", i, a.seed, v.name, line, healthy), viol)
	}
	if skipped > 0 {
		o.note(fmt.Sprintf("note=budget-exhausted skipped=%d", skipped))
	}
}

// oversized frames

func runOversizeChild(size uint32, phase string) (string, []string) {
	exe, err := os.Executable()
	if err != nil {
		return "child=unavailable", nil
	}
	cmd := exec.Command(exe, childOversizeArg, fmt.Sprintf("%x", size), phase)
	var outb bytes.Buffer
	cmd.Stdout = &outb
	cmd.Stderr = io.Discard
	if err := cmd.Start(); err != nil {
		return "child=unavailable", nil
	}
	done := make(chan error, 1)
	go func() { done <- cmd.Wait() }()
	var werr error
	select {
	case werr = <-done:
	case <-time.After(15 * time.Second):
		cmd.Process.Kill()
		<-done
		return "child=timeout", []string{"timeout-oversize-child"}
	}
	line := strings.TrimSpace(outb.String())
	if werr != nil || !strings.Contains(line, "heap_mb=") {
		// The server process died (for example the runtime's fatal "out of memory").
		return "child=died " + nospace(line), []string{"oversized-frame-allocation:server-process-died"}
	}
	var viol []string
	for _, t := range strings.Fields(line) {
		k, v, _ := strings.Cut(t, "=")
		switch k {
		case "heap_mb":
			if n, _ := strconv.Atoi(v); n > 1024 {
				viol = append(viol, fmt.Sprintf("oversized-frame-allocation:heap-grew-%dMiB-for-a-4-byte-length-prefix", n))
			}
		case "alive":
			if v != "true" {
				viol = append(viol, "server-not-serving-new-connections")
			}
		case "panics":
			if v != "0" {
				viol = append(viol, "library-panic")
			}
		case "handlers":
			if v != "0" {
				viol = append(viol, "handler-on-invalid-input")
			}
		}
	}
	return line, viol
}

// childOversize is the body of the child process: a server, a peer that announces a huge frame and
// sends nothing else, and the heap of the process measured before and during.
func childOversize(argv []string) {
	if len(argv) != 2 {
		os.Exit(2)
	}
	size64, err := strconv.ParseUint(argv[0], 16, 32)
	if err != nil {
		os.Exit(2)
	}
	phase := argv[1]

	// Protection: a soft limit for the collector and a hard limit of the address space.
	debug.SetMemoryLimit(2 << 30)
	lim := syscall.Rlimit{Cur: 24 << 30, Max: 24 << 30}
	syscall.Setrlimit(syscall.RLIMIT_AS, &lim)

	e := newC11Env(1)
	var m0 runtime.MemStats
	runtime.GC()
	runtime.ReadMemStats(&m0)
	rss0 := rssMB()

	p, err := dialRaw(e.addr)
	if err != nil {
		fmt.Println("dial-failed")
		os.Exit(0)
	}
	if phase == "post" {
		hs := p.handshake([]pmpx.Version{v10}, nil)
		if !hs.ok {
			fmt.Println("handshake-failed")
			os.Exit(0)
		}
	} else {
		p.write([]byte(mpx.ProtocolLine))
	}
	var head [4]byte
	binary.BigEndian.PutUint32(head[:], uint32(size64))
	p.write(head[:])

	// Watch the heap for up to 3 seconds.
	var maxHeap, maxSys uint64
	deadline := time.Now().Add(3 * time.Second)
	for time.Now().Before(deadline) {
		var m runtime.MemStats
		runtime.ReadMemStats(&m)
		if m.HeapAlloc > m0.HeapAlloc && m.HeapAlloc-m0.HeapAlloc > maxHeap {
			maxHeap = m.HeapAlloc - m0.HeapAlloc
		}
		if m.HeapSys > m0.HeapSys && m.HeapSys-m0.HeapSys > maxSys {
			maxSys = m.HeapSys - m0.HeapSys
		}
		if maxHeap > 1<<30 && time.Until(deadline) > 300*time.Millisecond {
			deadline = time.Now().Add(300 * time.Millisecond)
		}
		time.Sleep(20 * time.Millisecond)
	}
	rss1 := rssMB()
	closed := p.waitClosed(50 * time.Millisecond)
	alive := e.fresh()
	p.close()
	fmt.Printf("handlers=%d closed=%v heap_mb=%d heapsys_mb=%d rss_mb=%d alive=%v panics=%d\n",
		e.hostile.Load(), closed, maxHeap>>20, maxSys>>20, max(rss1-rss0, 0), alive == "", len(e.lg.Panics()))
	os.Exit(0)
}

func rssMB() int64 {
	b, err := os.ReadFile("/proc/self/statm")
	if err != nil {
		return 0
	}
	f := strings.Fields(string(b))
	if len(f) < 2 {
		return 0
	}
	pages, _ := strconv.ParseInt(f[1], 10, 64)
	return pages * int64(os.Getpagesize()) >> 20
}
