package main

import (
	"net"
	"io"
	"bytes"
	"encoding/binary"
	"fmt"
	"os"
	"sort"
	"strings"
	"sync"
	"sync/atomic"
	"time"

	"github.com/basecomplextech/baselibrary/async"
	"github.com/basecomplextech/baselibrary/status"
	"github.com/basecomplextech/spec/mpx"
	"github.com/basecomplextech/spec/proto/pmpx"
	"verif/harness/internal/caplog"
	"verif/harness/internal/hx"
)

// Scenario c09: transport failures terminate cleanly and are never reported as success.

const (
	kindEcho   = 'E' // handler echoes verified messages
	kindWindow = 'W' // handler never reads: the client sender blocks on the flow-control window
	kindRecv   = 'R' // handler never sends: the client blocks in Receive

	c09Window = 64 // channel window size of the sessions

	opLimit = 2 * time.Second // a blocked operation must return within this time after the cut

	stallLimit = 1500 * time.Millisecond // no byte moves for this long: the session is stalled
)

// sessCfg describes the workload of a session kind; it is the same for every run of the kind, so
// that the number of bytes on the wire is (nearly) constant.
type sessCfg struct {
	name string
	lz4  bool
	lens []int // fill length of every echo message
}

func (c *sessCfg) opts() mpx.Options {
	o := mpx.Default()
	o.Compression = c.lz4
	o.ChannelWindowSize = c09Window
	o.ClientMaxConns = 1
	return o
}

// handshakeSizes returns the number of handshake bytes client->server and server->client.
func (c *sessCfg) handshakeSizes() (int64, int64) {
	req, err := pmpx.NewConnectInput().WithCompression(c.lz4).Build()
	if err != nil {
		fail("build connect request: %v", err)
	}
	comp := pmpx.ConnectCompression_None
	if c.lz4 {
		comp = pmpx.ConnectCompression_Lz4
	}
	resp, err := pmpx.BuildConnectResponse(pmpx.Version_Version10, comp)
	if err != nil {
		fail("build connect response: %v", err)
	}
	line := int64(len(mpx.ProtocolLine))
	return line + 4 + int64(len(req.Unwrap().Raw())), line + 4 + int64(len(resp.Unwrap().Raw()))
}

// messages

func helloMsg(kind byte, tag uint64) []byte {
	b := make([]byte, 9)
	b[0] = kind
	binary.BigEndian.PutUint64(b[1:], tag)
	return b
}

// echoMsg builds message seq of the session tag: seq(4) + length(4) + PRNG fill.
func echoMsg(tag uint64, seq uint32, n int) []byte {
	b := make([]byte, 8+n)
	binary.BigEndian.PutUint32(b, seq)
	binary.BigEndian.PutUint32(b[4:], uint32(n))
	r := hx.NewRand(tag ^ (uint64(seq)+1)*0xD6E8FEB86659FD93)
	fill := b[8:]
	for i := 0; i+8 <= len(fill); i += 8 {
		binary.LittleEndian.PutUint64(fill[i:], r.U64())
	}
	if rem := len(fill) % 8; rem != 0 {
		v := r.U64()
		for i := len(fill) - rem; i < len(fill); i++ {
			fill[i] = byte(v)
			v >>= 8
		}
	}
	return b
}

// checkEchoMsg verifies that b is exactly one complete message of the session.
func checkEchoMsg(tag uint64, b []byte) string {
	if len(b) < 8 {
		return fmt.Sprintf("short-message-len=%d", len(b))
	}
	seq := binary.BigEndian.Uint32(b)
	n := int(binary.BigEndian.Uint32(b[4:]))
	if len(b) != 8+n {
		return fmt.Sprintf("length-mismatch-seq=%d-declared=%d-got=%d", seq, n, len(b)-8)
	}
	if n > 1<<22 {
		return fmt.Sprintf("absurd-length-seq=%d-len=%d", seq, n)
	}
	if !bytes.Equal(b, echoMsg(tag, seq, n)) {
		return fmt.Sprintf("fill-mismatch-seq=%d-len=%d", seq, n)
	}
	return ""
}

// server side bookkeeping

type sess struct {
	tag uint64

	mu      sync.Mutex
	hrecs   []*hrec
	abandon chan struct{} // closed when the run has been evaluated, releases waiting handlers
	partial string        // first incomplete or foreign message seen by a handler
}

func newSess(tag uint64) *sess {
	return &sess{tag: tag, abandon: make(chan struct{})}
}

type hrec struct {
	kind    atomic.Int32
	stale   atomic.Bool // belongs to another session
	waiting atomic.Bool // the handler's work is over, it waits for its context
	ctxDone atomic.Bool
	exited  chan struct{}
}

func (s *sess) enter() *hrec {
	r := &hrec{exited: make(chan struct{})}
	s.mu.Lock()
	s.hrecs = append(s.hrecs, r)
	s.mu.Unlock()
	return r
}

func (s *sess) setPartial(what string) {
	s.mu.Lock()
	if s.partial == "" {
		s.partial = what
	}
	s.mu.Unlock()
}

func (s *sess) handlers() []*hrec {
	s.mu.Lock()
	defer s.mu.Unlock()
	return append([]*hrec(nil), s.hrecs...)
}

// waitCancel waits for the channel context of a handler whose work is over.
func (r *hrec) waitCancel(ctx mpx.Context, s *sess) {
	r.waiting.Store(true)
	t := time.NewTimer(20 * time.Second)
	defer t.Stop()
	select {
	case <-ctx.Wait():
		r.ctxDone.Store(true)
	case <-s.abandon:
	case <-t.C:
	}
}

// c09Worker owns a server, a proxy in front of it, and runs sessions one at a time.
type c09Worker struct {
	id  int
	lg  *caplog.Logger
	srv mpx.Server
	px  *proxy
	cur atomic.Pointer[sess]

	rpc *rpcSide // optional rpc server + proxy
}

func newC09Worker(id int, withRPC bool) *c09Worker {
	w := &c09Worker{id: id, lg: caplog.New()}
	w.srv = startServer(mpx.HandleFunc(w.handle), w.lg, mpx.Default())
	px, err := newProxy(w.srv.Address())
	if err != nil {
		fail("proxy: %v", err)
	}
	w.px = px
	if withRPC {
		w.rpc = newRPCSide()
	}
	return w
}

func (w *c09Worker) close() {
	w.px.close()
	stopServer(w.srv)
	if w.rpc != nil {
		w.rpc.close()
	}
}

func (w *c09Worker) handle(ctx mpx.Context, ch mpx.Channel) status.Status {
	s := w.cur.Load()
	if s == nil {
		return status.OK
	}
	r := s.enter()
	defer close(r.exited)

	b, st := ch.Receive(ctx)
	if !st.OK() {
		r.waitCancel(ctx, s)
		return status.OK
	}
	if len(b) != 9 {
		s.setPartial(fmt.Sprintf("server-hello-len=%d", len(b)))
		r.waitCancel(ctx, s)
		return status.OK
	}
	kind := b[0]
	tag := binary.BigEndian.Uint64(b[1:])
	r.kind.Store(int32(kind))
	if tag != s.tag {
		// A late handler of an earlier session of this worker, not part of this run.
		r.stale.Store(true)
	}

	switch kind {
	case kindEcho:
		for {
			b, st := ch.Receive(ctx)
			if !st.OK() {
				break
			}
			if bad := checkEchoMsg(tag, b); bad != "" {
				s.setPartial("server-" + bad)
				break
			}
			if st := ch.Send(ctx, b); !st.OK() {
				break
			}
		}
	case kindWindow, kindRecv:
		// never read, never send
	default:
		s.setPartial(fmt.Sprintf("server-hello-kind=%d", kind))
	}
	r.waitCancel(ctx, s)
	return status.OK
}

// client side operations

type op struct {
	name  string
	phase atomic.Pointer[string]
	done  chan struct{}

	// set before done is closed
	st     status.Status
	at     time.Time
	note   string
	panic_ string
	n      int // progress counter (round trips, sends)
}

func (o *op) setPhase(p string) { o.phase.Store(&p) }

func (o *op) getPhase() string {
	if p := o.phase.Load(); p != nil {
		return *p
	}
	return "start"
}

func (o *op) finished() bool {
	select {
	case <-o.done:
		return true
	default:
		return false
	}
}

func startOp(name string, fn func(o *op) status.Status) *op {
	o := &op{name: name, done: make(chan struct{})}
	go func() {
		defer close(o.done)
		defer func() {
			if e := recover(); e != nil {
				o.panic_ = fmt.Sprint(e)
				o.at = time.Now()
			}
		}()
		st := fn(o)
		o.st = st
		o.at = time.Now()
	}()
	return o
}

// sessResult is the outcome of one session.
type sessResult struct {
	viol    []string
	tokens  []string
	stalled bool // the session stalled before the cut was reached

	b      [2]int64 // bytes forwarded per direction
	stream [2][]byte
}

func (r *sessResult) violf(format string, a ...any) {
	r.viol = append(r.viol, fmt.Sprintf(format, a...))
}

func (r *sessResult) tok(format string, a ...any) {
	r.tokens = append(r.tokens, fmt.Sprintf(format, a...))
}

// runSession runs the workload of cfg through the proxy with the given cut plan and checks the
// scenario property.
func (w *c09Worker) runSession(cfg *sessCfg, tag uint64, plan cutPlan) *sessResult {
	res := &sessResult{}
	s := newSess(tag)
	w.cur.Store(s)
	defer close(s.abandon)

	srvPanics := len(w.lg.Panics())
	clg := caplog.New()
	h1, h2 := cfg.handshakeSizes()
	hsCut := (plan.dir == dirC2S && plan.k < h1) || (plan.dir == dirS2C && plan.k < h2)

	w.px.setPlan(plan)
	ctx := async.NewContext() // cancelled only to release operations that are reported as stuck
	defer ctx.Free()

	conn, st := mpx.Connect(ctx, w.px.addr(), clg, cfg.opts())
	if !st.OK() {
		// The proxy always accepts, a dial failure is a problem of the environment.
		res.tok("connect=%s", stcode(st))
		res.tok("skipped=true")
		return res
	}
	defer conn.Free()
	ln := w.px.nextLink(3 * time.Second)
	if ln == nil {
		res.tok("skipped=nolink")
		return res
	}

	// (4)+(3) a goroutine calling conn.Channel while the handshake runs, then blocked in Receive
	chanOp := &op{name: "channel", done: make(chan struct{})}
	recvOp := startOp("receive", func(o *op) status.Status {
		o.setPhase("channel")
		ch, st := conn.Channel(ctx)
		chanOp.st, chanOp.at = st, time.Now()
		close(chanOp.done)
		if !st.OK() {
			return st
		}
		defer ch.Free()
		o.setPhase("send-hello")
		if st := ch.Send(ctx, helloMsg(kindRecv, tag)); !st.OK() {
			return st
		}
		o.setPhase("receive")
		b, st := ch.Receive(ctx)
		if st.OK() {
			o.note = fmt.Sprintf("received-%d-bytes-nobody-sent", len(b))
		}
		return st
	})

	// (2) a sender blocked on the flow-control window
	winOp := startOp("window-send", func(o *op) status.Status {
		o.setPhase("channel")
		ch, st := conn.Channel(ctx)
		if !st.OK() {
			return st
		}
		defer ch.Free()
		o.setPhase("send-hello")
		if st := ch.Send(ctx, helloMsg(kindWindow, tag)); !st.OK() {
			return st
		}
		o.setPhase("send")
		fill := bytes.Repeat([]byte{0x77}, 40)
		for i := 0; i < 50; i++ {
			if i == 1 {
				o.setPhase("send-blocked")
			}
			if st := ch.Send(ctx, fill); !st.OK() {
				return st
			}
			o.n++
		}
		return status.OK
	})

	// (1) numbered echo round trips
	echoOp := startOp("echo", func(o *op) status.Status {
		o.setPhase("channel")
		ch, st := conn.Channel(ctx)
		if !st.OK() {
			return st
		}
		defer ch.Free()
		o.setPhase("send-hello")
		if st := ch.Send(ctx, helloMsg(kindEcho, tag)); !st.OK() {
			return st
		}
		for i, n := range cfg.lens {
			m := echoMsg(tag, uint32(i), n)
			o.setPhase("send")
			if st := ch.Send(ctx, m); !st.OK() {
				return st
			}
			o.setPhase("receive")
			b, st := ch.Receive(ctx)
			if !st.OK() {
				return st
			}
			if !bytes.Equal(b, m) {
				bad := checkEchoMsg(tag, b)
				if bad == "" {
					bad = fmt.Sprintf("wrong-message-expected-seq=%d-got-seq=%d", i, binary.BigEndian.Uint32(b))
				}
				o.note = "client-" + bad
				return status.OK
			}
			o.n++
		}
		o.setPhase("done")
		return status.OK
	})
	ops := []*op{chanOp, recvOp, winOp, echoOp}

	// Wait for the cut, or for the end of the echo workload. A session in which no byte moves in
	// either direction for stallLimit, although the workload is not finished and the cut has not
	// fired, is stalled: an operation hangs without any transport failure.
	sessLimit := 10 * time.Second
	tStart := time.Now()
	var tRef time.Time
	cutFired := false
	{
		tick := time.NewTicker(20 * time.Millisecond)
		lastBytes, lastMove := int64(-1), time.Now()
	wait:
		for {
			select {
			case <-ln.cutCh:
				cutFired = true
				tRef = ln.cutTime()
				break wait
			case <-echoOp.done:
				break wait
			case <-tick.C:
				now := time.Now()
				if n := ln.bytes(dirC2S) + ln.bytes(dirS2C); n != lastBytes {
					lastBytes, lastMove = n, now
				}
				if now.Sub(lastMove) > stallLimit {
					res.stalled = true
					res.violf("timeout-session-stalled-before-cut-echo-%s", echoOp.getPhase())
					break wait
				}
				if now.Sub(tStart) > sessLimit {
					res.violf("timeout-session-echo-%s", echoOp.getPhase())
					break wait
				}
			}
		}
		tick.Stop()
	}
	if !cutFired {
		// The workload is over (or stuck) and the cut has not fired: let the other operations reach
		// their blocking calls, then close the connection from the client side.
		waitUntil(time.Now().Add(500*time.Millisecond), func() bool {
			return (recvOp.getPhase() == "receive" || recvOp.finished()) &&
				(winOp.getPhase() == "send-blocked" || winOp.finished())
		})
		time.Sleep(2 * time.Millisecond)
		select {
		case <-ln.cutCh:
			cutFired = true
			tRef = ln.cutTime()
		default:
			tRef = time.Now()
			conn.Close()
		}
	}

	// Every operation returns within the limit.
	deadline := tRef.Add(opLimit)
	var maxLat time.Duration
	stuck := false
	for _, o := range ops {
		if !waitChan(o.done, time.Until(deadline)) && !o.finished() {
			res.violf("blocked-%s-in-%s", o.name, o.getPhase())
			stuck = true
			continue
		}
		if lat := o.at.Sub(tRef); lat > maxLat {
			maxLat = lat
		}
	}
	if stuck {
		ctx.Cancel()
		conn.Close()
		for _, o := range ops {
			waitChan(o.done, time.Second)
		}
	}

	// No operation reports success for something that did not complete.
	for _, o := range ops {
		if !o.finished() {
			continue
		}
		if o.panic_ != "" {
			res.violf("library-panic-in-%s:%s", o.name, o.panic_)
		}
	}
	if echoOp.finished() && echoOp.note != "" {
		res.violf("partial-frame:%s", echoOp.note)
	}
	if recvOp.finished() && recvOp.panic_ == "" {
		if recvOp.note != "" {
			res.violf("partial-frame:%s", recvOp.note)
		} else if recvOp.st.OK() {
			res.violf("blocked-receive-returned-ok")
		}
	}
	if winOp.finished() && winOp.panic_ == "" && winOp.st.OK() {
		res.violf("window-send-never-blocked-sends=%d", winOp.n)
	}
	if hsCut && chanOp.finished() && chanOp.st.OK() {
		res.violf("channel-ok-after-handshake-cut")
	}
	if cutFired && echoOp.finished() && echoOp.panic_ == "" && echoOp.note == "" &&
		echoOp.st.OK() && echoOp.n != len(cfg.lens) {
		res.violf("echo-ok-incomplete-n=%d", echoOp.n)
	}

	// The client connection is closed.
	closedOK := waitChan(conn.Closed().Wait(), time.Until(deadline))
	if !closedOK {
		res.violf("conn-not-closed")
		conn.Close()
	} else {
		time.Sleep(time.Millisecond)
		ctx2 := async.TimeoutContext(time.Second)
		ch, st := conn.Channel(ctx2)
		if st.OK() {
			// closeChannels runs right after the closed flag is set, allow it some time
			ch.Free()
			time.Sleep(50 * time.Millisecond)
			ch, st = conn.Channel(ctx2)
			if st.OK() {
				ch.Free()
				res.violf("channel-ok-on-closed-conn")
			}
		}
		ctx2.Free()
	}

	// The proxied connection is completely gone.
	if !waitChan(ln.done, time.Until(deadline)+500*time.Millisecond) {
		// Only possible when a peer keeps its socket open after the cut.
		res.violf("socket-not-closed-by-peers")
		ln.kill()
		waitChan(ln.done, time.Second)
	}

	// Server handlers are released and their contexts are cancelled.
	nh, nstale := 0, 0
	settle := func() []*hrec {
		var hs []*hrec
		for i := 0; i < 3; i++ {
			hs = s.handlers()
			for _, r := range hs {
				waitChan(r.exited, time.Until(deadline))
			}
			time.Sleep(300 * time.Microsecond)
			if len(s.handlers()) == len(hs) {
				break
			}
		}
		return hs
	}
	for _, r := range settle() {
		if r.stale.Load() {
			nstale++
			continue
		}
		nh++
		select {
		case <-r.exited:
			if !r.ctxDone.Load() {
				res.violf("ctx-not-cancelled-kind=%c", rune(r.kind.Load()))
			}
		default:
			if r.waiting.Load() {
				res.violf("ctx-not-cancelled-kind=%c", rune(r.kind.Load()))
			} else {
				res.violf("handler-stuck-kind=%c", rune(r.kind.Load()))
			}
		}
	}
	if hsCut && nh > 0 {
		res.violf("handler-ran-after-handshake-cut-n=%d", nh)
	}
	s.mu.Lock()
	partial := s.partial
	s.mu.Unlock()
	if partial != "" {
		res.violf("partial-frame:%s", partial)
	}

	// Nothing panicked.
	for _, p := range newPanics(w.lg, srvPanics) {
		res.violf("library-panic:server:%s", p)
	}
	for _, p := range clg.Panics() {
		res.violf("library-panic:client:%s", p)
	}

	res.b = [2]int64{ln.bytes(dirC2S), ln.bytes(dirS2C)}
	if plan.trace {
		res.stream = [2][]byte{ln.traced(dirC2S), ln.traced(dirS2C)}
	}
	res.tok("cut=%v", cutFired)
	res.tok("hs=%v", hsCut)
	res.tok("echo=%d/%d", echoOp.n, len(cfg.lens))
	res.tok("st=%s", opSummary(ops))
	res.tok("handlers=%d", nh)
	if nstale > 0 {
		res.tok("stale=%d", nstale)
	}
	res.tok("fwd=%d/%d", res.b[0], res.b[1])
	res.tok("lat_ms=%d", maxLat.Milliseconds())
	res.tok("dur_ms=%d", time.Since(tStart).Milliseconds())
	return res
}

func opSummary(ops []*op) string {
	var parts []string
	for _, o := range ops {
		c := "stuck"
		if o.finished() {
			c = stcode(o.st)
			if o.panic_ != "" {
				c = "panic"
			}
		}
		parts = append(parts, c)
	}
	return strings.Join(parts, "/")
}

// recovery checks

const (
	recNone     = 0
	recOnDemand = 1
	recAuto     = 2
)

// echoOnce does one verified echo round trip on a fresh channel of the client.
func echoOnce(cl mpx.Client, tag uint64, d time.Duration) string {
	ctx := async.TimeoutContext(d)
	defer ctx.Free()
	ch, st := cl.Channel(ctx)
	if !st.OK() {
		return "channel-" + stcode(st)
	}
	defer ch.Free()
	if st := ch.Send(ctx, helloMsg(kindEcho, tag)); !st.OK() {
		return "send-" + stcode(st)
	}
	m := echoMsg(tag, 0, 24)
	if st := ch.Send(ctx, m); !st.OK() {
		return "send-" + stcode(st)
	}
	b, st := ch.Receive(ctx)
	if !st.OK() {
		return "receive-" + stcode(st)
	}
	if !bytes.Equal(b, m) {
		return "wrong-message"
	}
	return ""
}

// recoveryVanished: the peer is not there at all when the on-demand client makes its first call (the
// dial is refused), then it is reachable: the call during the outage fails with a non-OK status, the
// next call succeeds.
func (w *c09Worker) recoveryVanished(cfg *sessCfg, tag uint64) (tok string, viol []string) {
	l, err := net.Listen("tcp", "127.0.0.1:0")
	if err != nil {
		return "vanished-skipped-listen", nil
	}
	addr := l.Addr().String()
	l.Close()
	clg := caplog.New()
	cl := mpx.NewClient(addr, mpx.ClientMode_OnDemand, clg, cfg.opts())
	defer cl.Close()
	if bad := echoOnce(cl, tag, 2*time.Second); bad == "" {
		viol = append(viol, "ok-while-peer-unreachable")
	}
	// the peer appears: a forwarder to the real server on the very address the client knows
	l2, err := net.Listen("tcp", addr)
	if err != nil {
		return "vanished-skipped-rebind", viol
	}
	defer l2.Close()
	go func() {
		for {
			c, err := l2.Accept()
			if err != nil {
				return
			}
			go func() {
				defer c.Close()
				up, err := net.Dial("tcp", w.srv.Address())
				if err != nil {
					return
				}
				defer up.Close()
				go io.Copy(up, c)
				io.Copy(c, up)
			}()
		}
	}()
	t0 := time.Now()
	bad := ""
	for i := 0; i < 3; i++ {
		// (three calls: "succeeds again on its next call", with room for one call that was already
		// under way when the peer appeared)
		if bad = echoOnce(cl, tag, 3*time.Second); bad == "" {
			break
		}
	}
	if bad != "" {
		viol = append(viol, "no-recovery-ondemand-after-unreachable:"+bad)
	}
	for _, p := range clg.Panics() {
		viol = append(viol, "library-panic:client:"+p)
	}
	return fmt.Sprintf("vanished-%dms", time.Since(t0).Milliseconds()), viol
}

// recovery runs a client through the proxy, lets the planned cut hit its connection, and checks
// that the client works again afterwards.
func (w *c09Worker) recovery(kind int, cfg *sessCfg, tag uint64, plan cutPlan) (tok string, viol []string) {
	s := newSess(tag)
	w.cur.Store(s)
	defer close(s.abandon)

	clg := caplog.New()
	mode := mpx.ClientMode_OnDemand
	name := "ondemand"
	if kind == recAuto {
		mode = mpx.ClientMode_AutoConnect
		name = "auto"
	}
	// A dedicated proxy: an auto-connect client dials once more after Close (its close listener
	// reconnects without checking the closed flag), which must not disturb the next session.
	px, err := newProxy(w.srv.Address())
	if err != nil {
		return name + "-skipped-proxy", nil
	}
	defer px.close()
	px.setPlan(plan)
	cl := mpx.NewClient(px.addr(), mode, clg, cfg.opts())
	defer cl.Close()

	// First connection: traffic until the cut.
	ctx := async.TimeoutContext(5 * time.Second)
	defer ctx.Free()
	conn0, st := cl.Conn(ctx)
	if !st.OK() {
		return name + "-skipped-conn-" + stcode(st), nil
	}
	ln := px.nextLink(3 * time.Second)
	if ln == nil {
		return name + "-skipped-nolink", nil
	}
	func() {
		ch, st := conn0.Channel(ctx)
		if !st.OK() {
			return
		}
		defer ch.Free()
		if st := ch.Send(ctx, helloMsg(kindEcho, tag)); !st.OK() {
			return
		}
		for i, n := range cfg.lens {
			m := echoMsg(tag, uint32(i), n)
			if st := ch.Send(ctx, m); !st.OK() {
				return
			}
			b, st := ch.Receive(ctx)
			if !st.OK() {
				return
			}
			if !bytes.Equal(b, m) {
				viol = append(viol, "partial-frame:recovery-client")
				return
			}
		}
	}()
	forced := false
	if !ln.isCut() {
		forced = true
		ln.kill()
	}
	if !waitChan(conn0.Closed().Wait(), opLimit) {
		viol = append(viol, "conn-not-closed-"+name)
		return name + "-fail", viol
	}

	t0 := time.Now()
	switch kind {
	case recOnDemand:
		// The next call must succeed.
		if bad := echoOnce(cl, tag, 3*time.Second); bad != "" {
			viol = append(viol, "no-recovery-ondemand:"+bad)
		}
	case recAuto:
		// The client must reconnect by itself: a new connection arrives at the proxy and the
		// connected flag is set, without any call.
		l2 := px.nextLink(3 * time.Second)
		switch {
		case l2 == nil:
			viol = append(viol, "no-recovery-auto:no-new-connection")
		case !waitChan(cl.Connected().Wait(), 3*time.Second-time.Since(t0)):
			viol = append(viol, "no-recovery-auto:connected-flag-not-set")
		default:
			if bad := echoOnce(cl, tag, 3*time.Second); bad != "" {
				viol = append(viol, "no-recovery-auto:"+bad)
			}
		}
	}
	for _, p := range clg.Panics() {
		viol = append(viol, "library-panic:client:"+p)
	}
	tok = fmt.Sprintf("%s-%dms", name, time.Since(t0).Milliseconds())
	if forced {
		tok += "-forcedcut"
	}
	if kind == recAuto {
		// Observation only: does the closed client dial again?
		px.drain()
		cl.Close()
		if px.nextLink(30*time.Millisecond) != nil {
			tok += "-dialafterclose"
		}
	}
	if len(viol) > 0 {
		tok = name + "-fail"
	}
	return tok, viol
}

// jobs

type c09Job struct {
	idx  int
	cfg  *sessCfg
	plan cutPlan
	tag  uint64
	rec  int
	rpc  bool
}

func runC09(a args, o *out) {
	thorough := a.tier == "thorough"
	bud := newBudget(a.tier, 33*time.Second, 330*time.Second)
	rnd := hx.NewRand(a.seed)

	// Workloads
	small := &sessCfg{name: "small"}
	for i := 0; i < 6; i++ {
		small.lens = append(small.lens, 2+rnd.Intn(31)) // 10..40 byte messages
	}
	big := &sessCfg{name: "big-lz4", lz4: true}
	for i := 0; i < 6; i++ {
		n := 2 + rnd.Intn(31)
		if i == 3 {
			n = 200<<10 - 8
		}
		big.lens = append(big.lens, n)
	}

	bigPlain := &sessCfg{name: "big-plain", lens: big.lens}

	if a.only < 0 {
		rounds := 12
		if thorough {
			rounds = 100
		}
		c09RaceOpen(o, rounds)
		c09Vanished(o)
		c09Oneway(o)
	}

	nworkers := 4
	if thorough {
		nworkers = 8
	}
	workers := make([]*c09Worker, nworkers)
	for i := range workers {
		workers[i] = newC09Worker(i, true)
	}
	defer func() {
		for _, w := range workers {
			w.close()
		}
	}()

	// Dry runs: measure the bytes of the session in both directions and the frame boundaries.
	type dry struct {
		b      [2]int64
		bounds [2][]int64
	}
	dryRun := func(cfg *sessCfg) (d dry, ok bool) {
		for i := 0; i < 2; i++ {
			tag := rnd.U64()
			res := workers[0].runSession(cfg, tag, cutPlan{dir: dirNone, trace: true})
			ok = len(res.viol) == 0 && !contains(res.tokens, "skipped")
			o.run(fmt.Sprintf("run=dry%d sess=%s seed=%d dir=none k=-1 mode=none %s",
				i, cfg.name, tag, strings.Join(res.tokens, " ")), res.viol)
			if !ok {
				return d, false
			}
			h1, h2 := cfg.handshakeSizes()
			for dir := 0; dir < 2; dir++ {
				d.b[dir] = max(d.b[dir], res.b[dir])
				var bs []int64
				if cfg.lz4 {
					bs = lz4BlockBoundaries(res.stream[dir], int([2]int64{h1, h2}[dir]))
				} else {
					bs = mpxFrameBoundaries(res.stream[dir], len(mpx.ProtocolLine))
				}
				if i == 0 {
					d.bounds[dir] = bs
				}
			}
		}
		return d, true
	}

	var jobs []c09Job
	// addJob plans a run; mode < 0 chooses the cut mode from the derived seed.
	addJob := func(cfg *sessCfg, dir int, k int64, mode int) {
		idx := len(jobs)
		jr := hx.NewRand(a.seed ^ uint64(idx+1)*0x9E3779B97F4A7C15)
		j := c09Job{idx: idx, cfg: cfg, tag: jr.U64()}
		m := modeClose
		switch jr.Intn(4) {
		case 2:
			m = modeRST
		case 3:
			m = modeHalf
		}
		if mode >= 0 {
			m = mode
		}
		j.plan = cutPlan{dir: dir, k: k, mode: m, corrupt: os.Getenv("MPXFAULT_SELFTEST") == "corrupt"}
		if jr.Intn(10) == 0 {
			j.rec = recOnDemand + jr.Intn(2)
		}
		j.rpc = jr.Intn(8) == 0
		jobs = append(jobs, j)
	}
	// addBig plans the cuts of a session with the 200 KiB message: every stride bytes, and every
	// offset within 8 bytes of a frame (or lz4 block) boundary.
	addBig := func(cfg *sessCfg, stride int64, boundaries bool) {
		d, ok := dryRun(cfg)
		if !ok {
			o.note("note=dry-run-failed sess=" + cfg.name)
			return
		}
		o.note(fmt.Sprintf("note=dry sess=%s b_c2s=%d b_s2c=%d boundaries_c2s=%d boundaries_s2c=%d",
			cfg.name, d.b[0], d.b[1], len(d.bounds[0]), len(d.bounds[1])))
		for dir := 0; dir < 2; dir++ {
			ks := map[int64]bool{}
			for k := int64(a.seed) % stride; k <= d.b[dir]; k += stride {
				ks[k] = true
			}
			if boundaries {
				for _, b := range d.bounds[dir] {
					for dd := int64(-8); dd <= 8; dd++ {
						if k := b + dd; k >= 0 && k <= d.b[dir] {
							ks[k] = true
						}
					}
				}
			}
			sorted := make([]int64, 0, len(ks))
			for k := range ks {
				sorted = append(sorted, k)
			}
			sort.Slice(sorted, func(i, j int) bool { return sorted[i] < sorted[j] })
			for _, k := range sorted {
				addJob(cfg, dir, k, -1)
			}
		}
	}

	dSmall, ok := dryRun(small)
	if !ok {
		o.note("note=dry-run-failed sess=small")
		return
	}
	o.note(fmt.Sprintf("note=dry sess=small b_c2s=%d b_s2c=%d boundaries_c2s=%d boundaries_s2c=%d",
		dSmall.b[0], dSmall.b[1], len(dSmall.bounds[0]), len(dSmall.bounds[1])))
	if thorough {
		// every offset, both directions, every cut mode
		for dir := 0; dir < 2; dir++ {
			for k := int64(0); k <= dSmall.b[dir]; k++ {
				for mode := modeClose; mode <= modeHalf; mode++ {
					addJob(small, dir, k, mode)
				}
			}
		}
		addBig(big, 97, true)
		addBig(bigPlain, 97, true)
	} else {
		// Quick: every offset of one direction (chosen by the seed), a stride over the other
		// direction, and a coarse stride over the session with the big message.
		dir := int(a.seed % 2)
		for k := int64(0); k <= dSmall.b[dir]; k++ {
			addJob(small, dir, k, -1)
		}
		other := 1 - dir
		stride := (dSmall.b[other] + 300) / 300
		for k := int64(a.seed) % stride; k <= dSmall.b[other]; k += stride {
			addJob(small, other, k, -1)
		}
		addBig(big, 2039, false)
	}

	// Execute the jobs on the workers, print the results in job order.
	results := make([]*string, len(jobs))
	viols := make([][]string, len(jobs))
	var rmu sync.Mutex
	next := 0
	flush := func() {
		for next < len(jobs) && results[next] != nil {
			if *results[next] != "" {
				o.run(*results[next], viols[next])
			}
			next++
		}
	}
	jobc := make(chan c09Job)
	var wg sync.WaitGroup
	var skipped atomic.Int64
	for _, w := range workers {
		wg.Add(1)
		go func(w *c09Worker) {
			defer wg.Done()
			for j := range jobc {
				line, viol := "", []string(nil)
				if bud.exhausted() {
					skipped.Add(1)
				} else {
					line, viol = w.runJob(j)
				}
				rmu.Lock()
				results[j.idx], viols[j.idx] = &line, viol
				flush()
				rmu.Unlock()
			}
		}(w)
	}
	for _, j := range jobs {
		if a.only >= 0 && j.idx != a.only {
			empty := ""
			rmu.Lock()
			results[j.idx] = &empty
			flush()
			rmu.Unlock()
			continue
		}
		jobc <- j
	}
	close(jobc)
	wg.Wait()
	if n := skipped.Load(); n > 0 {
		o.note(fmt.Sprintf("note=budget-exhausted skipped=%d", n))
	}
}

func contains(tokens []string, prefix string) bool {
	for _, t := range tokens {
		if strings.HasPrefix(t, prefix) {
			return true
		}
	}
	return false
}

func (w *c09Worker) runJob(j c09Job) (string, []string) {
	// A session that stalls before the cut is reached cannot test the cut: the stall is reported
	// and the session is repeated.
	var res *sessResult
	var viol []string
	stalls := 0
	for attempt := 0; attempt < 3; attempt++ {
		res = w.runSession(j.cfg, j.tag+uint64(attempt), j.plan)
		viol = append(viol, res.viol...)
		if !res.stalled {
			break
		}
		stalls++
	}
	tokens := res.tokens
	if stalls > 0 {
		tokens = append(tokens, fmt.Sprintf("stalls=%d", stalls))
	}
	if j.rec != recNone {
		tok, v := w.recovery(j.rec, j.cfg, j.tag^0x5555, j.plan)
		tokens = append(tokens, "rec="+tok)
		viol = append(viol, v...)
		if j.rec == recOnDemand {
			tok, v := w.recoveryVanished(j.cfg, j.tag^0x7777)
			tokens = append(tokens, "rec2="+tok)
			viol = append(viol, v...)
		}
	}
	if j.rpc && w.rpc != nil {
		tok, v := w.rpc.run(j.tag^0xAAAA, j.plan)
		tokens = append(tokens, "rpc="+tok)
		viol = append(viol, v...)
	}
	line := fmt.Sprintf("run=%d sess=%s seed=%d dir=%s k=%d mode=%s %s",
		j.idx, j.cfg.name, j.tag, dirName(j.plan.dir), j.plan.k, modeName(j.plan.mode),
		strings.Join(tokens, " "))
	return line, viol
}
