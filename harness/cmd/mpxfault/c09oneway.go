package main

import (
	"errors"
	"fmt"
	"net"
	"sync/atomic"
	"time"

	"github.com/basecomplextech/baselibrary/async"
	"github.com/basecomplextech/baselibrary/status"
	"github.com/basecomplextech/spec/mpx"
	"verif/harness/internal/caplog"
)

// onewayConn is a transport that fails in one direction only: writes (or reads) return an error on
// demand while the other direction keeps working (blocking reads stay blocked). A dead NIC queue, a
// full disk behind a tunnel or a firewall that drops one direction look like this to the process.
type onewayConn struct {
	net.Conn
	failWrites atomic.Bool
}

func (c *onewayConn) Write(b []byte) (int, error) {
	if c.failWrites.Load() {
		return 0, errors.New("write: broken pipe (injected, outgoing direction only)")
	}
	return c.Conn.Write(b)
}

// c09Oneway: the outgoing direction of a client connection fails while the incoming one stays
// silent and open. The connection must close and everything blocked on it must return a non-OK
// status within bounded time: a blocked Receive, the channel context, the run loop itself.
func c09Oneway(o *out) {
	lg := caplog.New()
	opts := mpx.Default()
	srv := mpx.NewServer("127.0.0.1:0", mpx.HandleFunc(func(ctx mpx.Context, ch mpx.Channel) status.Status {
		for {
			if _, st := ch.Receive(ctx); !st.OK() {
				return st
			}
		}
	}), lg, opts)
	if st := srv.Start(); !st.OK() {
		o.note("note=oneway-server-start-failed")
		return
	}
	defer func() {
		select {
		case <-srv.Stop():
		case <-time.After(2 * time.Second):
		}
	}()
	select {
	case <-srv.Listening().Wait():
	case <-time.After(3 * time.Second):
		o.note("note=oneway-server-not-listening")
		return
	}
	nc, err := net.Dial("tcp", srv.Address())
	if err != nil {
		o.note("note=oneway-dial-failed")
		return
	}
	defer nc.Close()
	fc := &onewayConn{Conn: nc}
	conn, runDone := mpx.VerifConnOver(fc, true, lg, opts)

	var viol []string
	ctx := async.TimeoutContext(5 * time.Second)
	defer ctx.Free()
	ch, st := conn.Channel(ctx)
	if !st.OK() {
		o.run("run=oneway setup=channel-"+stcode(st), nil)
		return
	}
	defer ch.Free()
	if st := ch.Send(ctx, []byte("hello")); !st.OK() {
		o.run("run=oneway setup=send-"+stcode(st), nil)
		return
	}
	time.Sleep(50 * time.Millisecond)

	fc.failWrites.Store(true)
	sendSt := ch.Send(ctx, []byte("world")) // queued; the flush fails
	received := make(chan status.Status, 1)
	go func() {
		_, st := ch.Receive(async.NoContext())
		received <- st
	}()
	const bound = 5 * time.Second
	t0 := time.Now()
	tok := fmt.Sprintf("send=%s", stcode(sendSt))
	select {
	case <-conn.Closed().Wait():
		tok += fmt.Sprintf(" closed=%dms", time.Since(t0).Milliseconds())
	case <-time.After(bound):
		tok += " closed=never"
		viol = append(viol, "connection-not-closed-5s-after-its-outgoing-direction-failed")
	}
	select {
	case st := <-received:
		tok += " receive=" + stcode(st)
		if st.OK() {
			viol = append(viol, "blocked-receive-returned-ok-after-the-failure")
		}
	case <-time.After(bound):
		tok += " receive=blocked"
		viol = append(viol, "receive-still-blocked-after-the-outgoing-direction-failed")
	}
	select {
	case <-ch.Context().Wait():
		tok += " chctx=cancelled"
	case <-time.After(bound):
		tok += " chctx=live"
		viol = append(viol, "channel-context-not-cancelled-after-the-failure")
	}
	select {
	case st := <-runDone:
		tok += " run=" + stcode(st)
	case <-time.After(bound):
		tok += " run=hangs"
		viol = append(viol, "connection-run-loop-hangs-after-the-outgoing-direction-failed")
	}
	for _, p := range lg.Panics() {
		viol = append(viol, "library-panic:"+nospace(p))
	}
	o.run("run=oneway "+tok, viol)
}
