package main

import (
	"fmt"
	"net"
	"sync"
	"sync/atomic"
	"time"

	"github.com/basecomplextech/baselibrary/bin"
	"github.com/basecomplextech/baselibrary/status"
	"github.com/basecomplextech/spec/mpx"
	"github.com/basecomplextech/spec/proto/pmpx"
	"verif/harness/internal/caplog"
	"verif/harness/internal/hx"
)

// c20Burst: raw peers which negotiate, open k channels (the first message travels in the open frame),
// half-close their socket and leave. Every open frame reaches the server before the end of the
// stream, so every one of these channels must be handed to the handler exactly once, however fast the
// peer is gone.
func c20Burst(idx int, seed uint64) c20Result {
	r := hx.NewRand(seed)
	peers := 2 + r.Intn(5)
	k := 3 + r.Intn(30)
	lg := caplog.New()
	var mu sync.Mutex
	seen := map[string]int{}
	var unknown atomic.Int32
	handler := func(ctx mpx.Context, ch mpx.Channel) status.Status {
		b, st := ch.Receive(ctx)
		if !st.OK() || len(b) == 0 {
			unknown.Add(1)
			return status.OK
		}
		mu.Lock()
		seen[string(b)]++
		mu.Unlock()
		return status.OK
	}
	srv := startServer(mpx.HandleFunc(handler), lg, mpx.Default())
	defer stopServer(srv)

	var viol []string
	var vmu sync.Mutex
	add := func(format string, a ...any) {
		vmu.Lock()
		viol = append(viol, fmt.Sprintf(format, a...))
		vmu.Unlock()
	}
	var ids []bin.Bin128
	var wg sync.WaitGroup
	for p := 0; p < peers; p++ {
		var mine []bin.Bin128
		for i := 0; i < k; i++ {
			mine = append(mine, randID(r))
		}
		ids = append(ids, mine...)
		batch := r.Intn(2) == 0
		wg.Add(1)
		go func() {
			defer wg.Done()
			rp, err := dialRaw(srv.Address())
			if err != nil {
				add("infra-dial")
				return
			}
			defer rp.close()
			hs := rp.handshake([]pmpx.Version{v10}, nil)
			if !hs.gotResp || !hs.ok {
				add("valid-handshake-refused")
				return
			}
			if batch {
				var msgs [][]byte
				for _, id := range mine {
					msgs = append(msgs, channelOpen(id, []byte(id.String()), 1<<20))
				}
				rp.writeFrame(batchOf(msgs...))
			} else {
				for _, id := range mine {
					rp.writeFrame(channelOpen(id, []byte(id.String()), 1<<20))
				}
			}
			if tc, ok := rp.c.(*net.TCPConn); ok {
				tc.CloseWrite()
			}
			// the server reads everything, sees the end of the stream and closes
			rp.waitClosed(5 * time.Second)
		}()
	}
	wg.Wait()
	total := len(ids)
	waitUntil(time.Now().Add(5*time.Second), func() bool {
		mu.Lock()
		defer mu.Unlock()
		return len(seen) == total
	})
	mu.Lock()
	missing, twice := 0, 0
	for _, id := range ids {
		switch n := seen[id.String()]; {
		case n == 0:
			missing++
		case n > 1:
			twice++
		}
	}
	mu.Unlock()
	if missing > 0 {
		add("handler-missing-after-graceful-disconnect=%d-of-%d", missing, total)
	}
	if twice > 0 {
		add("handler-twice-after-graceful-disconnect=%d", twice)
	}
	if n := unknown.Load(); n > 0 {
		add("handler-without-first-message-n=%d", n)
	}
	for _, p := range lg.Panics() {
		add("library-panic:server:%s", p)
	}
	return c20Result{tokens: fmt.Sprintf("run=burst%d seed=%d peers=%d opens_per_peer=%d handled=%d/%d", idx, seed, peers, k, total-missing, total), viol: viol}
}
