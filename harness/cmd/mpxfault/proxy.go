package main

import (
	"encoding/binary"
	"net"
	"sync"
	"sync/atomic"
	"time"
)

// Directions of a proxied connection.
const (
	dirNone = -1
	dirC2S  = 0 // client -> server
	dirS2C  = 1 // server -> client
)

func dirName(d int) string {
	switch d {
	case dirC2S:
		return "c2s"
	case dirS2C:
		return "s2c"
	}
	return "none"
}

// Cut modes.
const (
	modeClose = 0 // close both sockets
	modeRST   = 1 // SetLinger(0) on both sockets, then close: the peers see a reset
	modeHalf  = 2 // shutdown(write) towards the receiver of the cut direction, rest follows the peers
)

func modeName(m int) string {
	switch m {
	case modeRST:
		return "rst"
	case modeHalf:
		return "half"
	}
	return "close"
}

// cutPlan describes the fault injected into the next accepted connection: the connection is cut
// right after exactly k bytes have been forwarded in direction dir (k=0: before any byte).
type cutPlan struct {
	dir   int
	k     int64
	mode  int
	trace bool // record the forwarded bytes (dry runs)

	// corrupt flips a bit of byte k instead of cutting (self test of the checks, enabled with the
	// environment variable MPXFAULT_SELFTEST=corrupt): the scenario must then report violations.
	corrupt bool
}

var noCut = cutPlan{dir: dirNone}

// proxy is a fault-injecting TCP proxy.
type proxy struct {
	ln     net.Listener
	target string

	mu    sync.Mutex
	plan  cutPlan
	links chan *link // accepted links, consumed by the scenario
	all   []*link
}

func newProxy(target string) (*proxy, error) {
	ln, err := net.Listen("tcp", "127.0.0.1:0")
	if err != nil {
		return nil, err
	}
	p := &proxy{ln: ln, target: target, plan: noCut, links: make(chan *link, 64)}
	go p.serve()
	return p, nil
}

func (p *proxy) addr() string { return p.ln.Addr().String() }

// setPlan sets the plan of the next accepted connection; later connections are not cut.
func (p *proxy) setPlan(plan cutPlan) {
	p.mu.Lock()
	p.plan = plan
	p.mu.Unlock()
	p.drain()
}

// drain drops the links that nobody has consumed.
func (p *proxy) drain() {
	for {
		select {
		case <-p.links:
		default:
			return
		}
	}
}

// nextLink returns the next accepted link.
func (p *proxy) nextLink(d time.Duration) *link {
	if d <= 0 {
		select {
		case l := <-p.links:
			return l
		default:
			return nil
		}
	}
	t := time.NewTimer(d)
	defer t.Stop()
	select {
	case l := <-p.links:
		return l
	case <-t.C:
		return nil
	}
}

func (p *proxy) close() {
	p.ln.Close()
	p.mu.Lock()
	all := p.all
	p.all = nil
	p.mu.Unlock()
	for _, l := range all {
		l.kill()
	}
}

// killAll cuts every live link.
func (p *proxy) killAll() {
	p.mu.Lock()
	all := append([]*link(nil), p.all...)
	p.mu.Unlock()
	for _, l := range all {
		l.kill()
	}
}

func (p *proxy) serve() {
	for {
		c, err := p.ln.Accept()
		if err != nil {
			return
		}
		p.mu.Lock()
		plan := p.plan
		p.plan = noCut
		p.mu.Unlock()

		go p.handle(c, plan)
	}
}

func (p *proxy) handle(c net.Conn, plan cutPlan) {
	s, err := net.DialTimeout("tcp", p.target, 2*time.Second)
	if err != nil {
		c.Close()
		return
	}
	l := &link{c: c.(*net.TCPConn), s: s.(*net.TCPConn), plan: plan,
		cutCh: make(chan struct{}), done: make(chan struct{})}

	p.mu.Lock()
	// forget finished links
	live := p.all[:0]
	for _, x := range p.all {
		select {
		case <-x.done:
		default:
			live = append(live, x)
		}
	}
	p.all = append(live, l)
	p.mu.Unlock()

	select {
	case p.links <- l:
	default:
	}
	l.run()
}

// link is one proxied connection.
type link struct {
	c, s *net.TCPConn
	plan cutPlan

	n [2]atomic.Int64 // bytes forwarded per direction

	cutOnce sync.Once
	cutCh   chan struct{} // closed when the planned cut (or a kill) has been executed
	cutAt   atomic.Int64  // unix nanos of the cut
	planned atomic.Bool   // the cut was the planned one

	done chan struct{} // closed when both pumps have finished

	tmu   sync.Mutex
	trace [2][]byte
}

func (l *link) run() {
	defer close(l.done)
	cutDir := dirNone
	if l.plan.dir != dirNone && l.plan.k <= 0 && !l.plan.corrupt {
		l.cut(true)
		if l.plan.mode != modeHalf {
			return
		}
		// half cut before the first byte: nothing is forwarded in the cut direction, the other
		// direction keeps flowing until the peers react
		cutDir = l.plan.dir
	}
	var wg sync.WaitGroup
	wg.Add(2)
	go func() {
		defer wg.Done()
		if cutDir == dirC2S {
			l.discard(l.c)
			return
		}
		l.pump(dirC2S, l.c, l.s)
	}()
	go func() {
		defer wg.Done()
		if cutDir == dirS2C {
			l.discard(l.s)
			return
		}
		l.pump(dirS2C, l.s, l.c)
	}()
	wg.Wait()
	l.c.Close()
	l.s.Close()
}

func (l *link) pump(dir int, src, dst *net.TCPConn) {
	buf := make([]byte, 32<<10)
	for {
		n, err := src.Read(buf)
		if n > 0 {
			chunk := buf[:n]
			cutAfter := false
			if l.plan.dir == dir && l.plan.corrupt {
				if i := l.plan.k - l.n[dir].Load(); i >= 0 && i < int64(n) {
					chunk[i] ^= 0x40
				}
			} else if l.plan.dir == dir {
				rem := l.plan.k - l.n[dir].Load()
				if rem <= int64(n) {
					chunk = chunk[:rem]
					cutAfter = true
				}
			}
			if len(chunk) > 0 {
				if l.plan.trace {
					l.tmu.Lock()
					l.trace[dir] = append(l.trace[dir], chunk...)
					l.tmu.Unlock()
				}
				if _, werr := dst.Write(chunk); werr != nil {
					err = werr
				} else {
					l.n[dir].Add(int64(len(chunk)))
				}
			}
			if cutAfter {
				l.cut(true)
				if l.plan.mode == modeHalf {
					// keep draining the source so that the sender is not blocked, forward nothing
					l.discard(src)
				}
				return
			}
		}
		if err != nil {
			// One side is gone: the other side follows.
			l.c.Close()
			l.s.Close()
			return
		}
	}
}

func (l *link) discard(src *net.TCPConn) {
	buf := make([]byte, 4096)
	for {
		if _, err := src.Read(buf); err != nil {
			return
		}
	}
}

func (l *link) isCut() bool {
	select {
	case <-l.cutCh:
		return true
	default:
		return false
	}
}

// cut executes the cut according to the plan mode.
func (l *link) cut(planned bool) {
	l.cutOnce.Do(func() {
		l.cutAt.Store(time.Now().UnixNano())
		l.planned.Store(planned)
		mode := l.plan.mode
		if !planned {
			mode = modeClose
		}
		switch mode {
		case modeRST:
			l.c.SetLinger(0)
			l.s.SetLinger(0)
			l.c.Close()
			l.s.Close()
		case modeHalf:
			// The receiver of the cut direction sees an orderly end of stream in the middle of
			// the data, the opposite direction keeps flowing until the peers react.
			if l.plan.dir == dirC2S {
				l.s.CloseWrite()
			} else {
				l.c.CloseWrite()
			}
		default:
			l.c.Close()
			l.s.Close()
		}
		close(l.cutCh)
	})
}

// kill cuts the link now (unplanned).
func (l *link) kill() {
	l.cut(false)
	l.c.Close()
	l.s.Close()
}

func (l *link) cutTime() time.Time { return time.Unix(0, l.cutAt.Load()) }

func (l *link) bytes(dir int) int64 { return l.n[dir].Load() }

func (l *link) traced(dir int) []byte {
	l.tmu.Lock()
	defer l.tmu.Unlock()
	return append([]byte(nil), l.trace[dir]...)
}

// stream analysis (dry runs)

// mpxFrameBoundaries returns the offsets at which length-prefixed frames end in an uncompressed
// stream that starts with a handshake of hs bytes (protocol line + first frame).
func mpxFrameBoundaries(stream []byte, lineLen int) []int64 {
	var res []int64
	off := lineLen
	if off > len(stream) {
		return nil
	}
	res = append(res, int64(off))
	for off+4 <= len(stream) {
		n := int(binary.BigEndian.Uint32(stream[off:]))
		off += 4 + n
		if off > len(stream) {
			break
		}
		res = append(res, int64(off))
	}
	return res
}

// lz4BlockBoundaries returns the offsets of the lz4 frame header end and of every block end in a
// stream whose first hs bytes are the uncompressed handshake.
func lz4BlockBoundaries(stream []byte, hs int) []int64 {
	var res []int64
	off := hs
	res = append(res, int64(off))
	for off+7 <= len(stream) {
		// frame header: magic(4) FLG BD [content size 8] [dict id 4] HC
		if binary.LittleEndian.Uint32(stream[off:]) != 0x184D2204 {
			return res
		}
		flg := stream[off+4]
		blockChecksum := flg&0x10 != 0
		hdr := 4 + 2 + 1
		if flg&0x08 != 0 {
			hdr += 8
		}
		if flg&0x01 != 0 {
			hdr += 4
		}
		off += hdr
		if off > len(stream) {
			return res
		}
		res = append(res, int64(off))
		// blocks
		for off+4 <= len(stream) {
			sz := binary.LittleEndian.Uint32(stream[off:])
			off += 4
			if sz == 0 { // end mark
				if flg&0x04 != 0 {
					off += 4
				}
				if off <= len(stream) {
					res = append(res, int64(off))
				}
				break
			}
			off += int(sz & 0x7fffffff)
			if blockChecksum {
				off += 4
			}
			if off > len(stream) {
				return res
			}
			res = append(res, int64(off))
		}
	}
	return res
}
