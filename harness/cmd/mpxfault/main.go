// Command mpxfault runs the transport-fault scenarios against the mpx (and rpc) packages.
//
//	mpxfault <scenario> <seed> <tier> [run=<i>]
//
// Scenarios: c09 (transport failures terminate cleanly), c11 (server serves only negotiated
// connections and survives hostile peers), c20 (handlers and close listeners fire exactly once).
// One line per run is printed to stdout: the scenario name followed by key=value tokens; a run that
// demonstrates a violation ends with " VIOL <reasons>". The last line is
// "<scenario> summary runs=<n> viol=<n>". The exit code is 0 unless the program cannot start (2).
//
// The optional fourth argument run=<i> executes only the run with that index (after the same dry
// runs), so that a reported line can be re-run on its own.
//
// Environment: MPXFAULT_SELFTEST=corrupt makes the c09 proxy flip a bit of byte k instead of cutting
// (the scenario must then report violations: a self test of its checks); MPXFAULT_DEBUG=1 adds the
// individual listener registrations to the c20 lines.
package main

import (
	"fmt"
	"os"
	"strconv"
	"strings"
	"sync"
	"time"

	"github.com/basecomplextech/baselibrary/status"
	"github.com/basecomplextech/spec/mpx"
	"verif/harness/internal/caplog"
)

// out prints the result lines and counts runs and violations.
type out struct {
	scenario string
	mu       sync.Mutex
	runs     int
	viols    int
}

func newOut(scenario string) *out { return &out{scenario: scenario} }

// run prints one run line; viol holds the violation reasons (none for a clean run).
func (o *out) run(tokens string, viol []string) {
	o.mu.Lock()
	defer o.mu.Unlock()
	o.runs++
	line := o.scenario + " " + tokens
	if len(viol) > 0 {
		o.viols++
		line += " VIOL " + nospace(strings.Join(dedup(viol), ","))
	}
	fmt.Println(line)
}

// note prints a line that is not a run.
func (o *out) note(tokens string) {
	o.mu.Lock()
	defer o.mu.Unlock()
	fmt.Println(o.scenario + " " + tokens)
}

func (o *out) summary() {
	o.mu.Lock()
	defer o.mu.Unlock()
	fmt.Printf("%s summary runs=%d viol=%d\n", o.scenario, o.runs, o.viols)
}

func dedup(in []string) []string {
	seen := map[string]bool{}
	var res []string
	for _, s := range in {
		if !seen[s] {
			seen[s] = true
			res = append(res, s)
		}
	}
	return res
}

func nospace(s string) string {
	s = strings.Map(func(r rune) rune {
		switch {
		case r == ' ' || r == '\t' || r == '\n' || r == '\r':
			return '_'
		case r < 32 || r > 126:
			return '?'
		}
		return r
	}, s)
	if len(s) > 300 {
		s = s[:300]
	}
	return s
}

// budget limits the wall time of a scenario.
type budget struct {
	deadline time.Time
}

func newBudget(tier string, quick, thorough time.Duration) *budget {
	d := quick
	if tier == "thorough" {
		d = thorough
	}
	return &budget{deadline: time.Now().Add(d)}
}

func (b *budget) exhausted() bool { return time.Now().After(b.deadline) }

// args

type args struct {
	scenario string
	seed     uint64
	tier     string
	only     int // run index to execute, -1 = all
}

func fail(format string, a ...any) {
	fmt.Fprintf(os.Stderr, format+"\n", a...)
	os.Exit(2)
}

func main() {
	if len(os.Args) >= 2 && os.Args[1] == childOversizeArg {
		childOversize(os.Args[2:])
		return
	}
	if len(os.Args) < 4 || len(os.Args) > 5 {
		fail("usage: mpxfault <c09|c11|c20> <seed> <quick|thorough> [run=<i>]")
	}
	a := args{scenario: os.Args[1], tier: os.Args[3], only: -1}
	seed, err := strconv.ParseUint(os.Args[2], 10, 64)
	if err != nil {
		fail("invalid seed %q", os.Args[2])
	}
	a.seed = seed
	if a.tier != "quick" && a.tier != "thorough" {
		fail("invalid tier %q", a.tier)
	}
	if len(os.Args) == 5 {
		v, ok := strings.CutPrefix(os.Args[4], "run=")
		n, err := strconv.Atoi(v)
		if !ok || err != nil {
			fail("invalid argument %q", os.Args[4])
		}
		a.only = n
	}

	o := newOut(a.scenario)
	switch a.scenario {
	case "c09":
		runC09(a, o)
	case "c11":
		runC11(a, o)
	case "c20":
		runC20(a, o)
	default:
		fail("unknown scenario %q", a.scenario)
	}
	o.summary()
	os.Exit(0)
}

// shared helpers

// startServer starts an mpx server on a free local port, or exits with code 2.
func startServer(h mpx.Handler, lg *caplog.Logger, opts mpx.Options) mpx.Server {
	srv := mpx.NewServer("127.0.0.1:0", h, lg, opts)
	if st := srv.Start(); !st.OK() {
		fail("server start: %v", st)
	}
	select {
	case <-srv.Listening().Wait():
	case <-time.After(3 * time.Second):
		fail("server did not start listening")
	}
	return srv
}

func stopServer(srv mpx.Server) bool {
	select {
	case <-srv.Stop():
		return true
	case <-time.After(3 * time.Second):
		return false
	}
}

// waitUntil polls cond until it holds or the deadline passes.
func waitUntil(deadline time.Time, cond func() bool) bool {
	for i := 0; ; i++ {
		if cond() {
			return true
		}
		if time.Now().After(deadline) {
			return false
		}
		switch {
		case i < 20:
			time.Sleep(50 * time.Microsecond)
		case i < 100:
			time.Sleep(200 * time.Microsecond)
		default:
			time.Sleep(time.Millisecond)
		}
	}
}

// waitChan waits for a channel with a timeout.
func waitChan(c <-chan struct{}, d time.Duration) bool {
	if d <= 0 {
		select {
		case <-c:
			return true
		default:
			return false
		}
	}
	t := time.NewTimer(d)
	defer t.Stop()
	select {
	case <-c:
		return true
	case <-t.C:
		return false
	}
}

func newPanics(lg *caplog.Logger, before int) []string {
	p := lg.Panics()
	if len(p) <= before {
		return nil
	}
	return p[before:]
}

func stcode(st status.Status) string {
	if st.OK() {
		return "ok"
	}
	c := string(st.Code)
	if c == "" {
		c = "none"
	}
	return c
}
