package main

import (
	"fmt"
	"sync"
	"sync/atomic"
	"time"

	"github.com/basecomplextech/baselibrary/async"
	"github.com/basecomplextech/baselibrary/status"
	"github.com/basecomplextech/spec/mpx"
	"verif/harness/internal/caplog"
)

// c09RaceOpen: Conn.Channel calls racing a transport cut. Every channel a call returned with an OK
// status must still be released: its context cancelled and a blocked Receive returning a non-OK
// status within bounded time. (A channel registered after the connection swept its channel map
// would never be closed.)
func c09RaceOpen(o *out, rounds int) {
	lg := caplog.New()
	opts := mpx.Default()
	handler := mpx.HandleFunc(func(ctx mpx.Context, ch mpx.Channel) status.Status {
		<-ctx.Wait()
		return status.OK
	})
	srv := mpx.NewServer("127.0.0.1:0", handler, lg, opts)
	if st := srv.Start(); !st.OK() {
		o.run("run=race-open infra=server-start", nil)
		return
	}
	defer func() {
		select {
		case <-srv.Stop():
		case <-time.After(2 * time.Second):
		}
	}()
	select {
	case <-srv.Listening().Wait():
	case <-time.After(3 * time.Second):
		o.run("run=race-open infra=not-listening", nil)
		return
	}
	px, err := newProxy(srv.Address())
	if err != nil {
		o.run("run=race-open infra=proxy", nil)
		return
	}
	defer px.close()

	opened, stuck, uncancelled := 0, 0, 0
	for r := 0; r < rounds; r++ {
		conn, st := mpx.Connect(async.TimeoutContext(3*time.Second), px.addr(), lg, opts)
		if !st.OK() {
			continue
		}
		// make sure the connection is negotiated
		if ch, st := conn.Channel(async.TimeoutContext(3 * time.Second)); st.OK() {
			ch.Free()
		}
		var mu sync.Mutex
		var chans []mpx.Channel
		var stop atomic.Bool
		var wg sync.WaitGroup
		for g := 0; g < 4; g++ {
			wg.Add(1)
			go func() {
				defer wg.Done()
				for !stop.Load() {
					ch, st := conn.Channel(async.TimeoutContext(time.Second))
					if !st.OK() {
						if conn.Closed().IsSet() {
							return
						}
						continue
					}
					mu.Lock()
					chans = append(chans, ch)
					n := len(chans)
					mu.Unlock()
					if n > 4000 {
						return
					}
				}
			}()
		}
		time.Sleep(time.Duration(2+r%5) * time.Millisecond)
		px.killAll()
		// (generous bounds: a channel that is never released stays unreleased for ever, a busy
		// machine only delays the release)
		select {
		case <-conn.Closed().Wait():
		case <-time.After(30 * time.Second):
		}
		stop.Store(true)
		wg.Wait()
		// every channel we got must be released
		deadline := time.Now().Add(15 * time.Second)
		mu.Lock()
		cs := chans
		mu.Unlock()
		opened += len(cs)
		for _, ch := range cs {
			select {
			case <-ch.Context().Wait():
			case <-time.After(time.Until(deadline)):
				uncancelled++
			}
		}
		for _, ch := range cs {
			func() {
				defer func() { recover() }()
				ch.Free()
			}()
		}
		_ = stuck
		conn.Close()
	}
	var viol []string
	if uncancelled > 0 {
		viol = append(viol, fmt.Sprintf("channel-never-released-after-cut=%d", uncancelled))
	}
	if n := len(lg.Panics()); n > 0 {
		viol = append(viol, fmt.Sprintf("panics=%d:%s", n, nospace(lg.Panics()[0])))
	}
	o.run(fmt.Sprintf("run=race-open rounds=%d opened=%d uncancelled=%d", rounds, opened, uncancelled), viol)
}
