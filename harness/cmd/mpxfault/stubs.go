package main

const childOversizeArg = "__oversize"

func childOversize(a []string) {}
func runC11(a args, o *out)   {}
func runC20(a args, o *out)   {}
