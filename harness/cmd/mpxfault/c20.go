package main

import (
	"bytes"
	"encoding/binary"
	"fmt"
	"math"
	"os"
	"runtime"
	"strings"
	"sync"
	"sync/atomic"
	"time"

	"github.com/basecomplextech/baselibrary/async"
	"github.com/basecomplextech/baselibrary/status"
	"github.com/basecomplextech/spec/mpx"
	"verif/harness/internal/caplog"
	"verif/harness/internal/hx"
)

// Scenario c20: handlers and close listeners fire exactly once.

const never = int64(math.MaxInt64)

// c20Chan is the record of one channel of a run.
type c20Chan struct {
	id   uint64
	form byte // 's': the first call is Send (single open frame), 'b': SendAndClose (open+close batch)
	end  byte // 'c': ended by the client, 'h': the handler returns, 's': ended by the shutdown,
	// 'k': the handler ends the channel itself with SendAndClose and keeps running: its context
	// must be cancelled by that
	grp  int  // opener goroutine

	// client side, written by the opener goroutine only (read after it has finished)
	created   bool
	openSent  bool
	roundTrip bool
	confirmed bool // the open frame has certainly been processed by the server
	endStart  atomic.Int64

	// server side
	srvEnd      atomic.Int64 // when the handler began to end the channel itself ('k'), 0 = it did not
	invocations atomic.Int32
	first       atomic.Bool // set after the two fields below
	tFirst      int64
	doneAtFirst bool
	cancelled   atomic.Bool // set after tCancel
	tCancel     int64
	abandoned   atomic.Bool
	returned    atomic.Bool
}

// c20Reg is the record of one listener registration.
type c20Reg struct {
	target string // client | server
	ok     bool
	calls  atomic.Int32
	unset  atomic.Bool // the closed flag was not set inside the listener

	unsub         bool
	tUnsub        int64 // when unsub returned
	closedAtUnsub bool  // the closed flag was set when unsub had returned
	tReg          int64
}

type c20Run struct {
	base time.Time
	lg   *caplog.Logger

	mu    sync.Mutex
	chans map[uint64]*c20Chan

	srvConnOnce  sync.Once
	srvConn      mpx.Conn
	srvConnReady chan struct{}

	unknown atomic.Int32 // handler invocations that cannot be attributed
	active  atomic.Int32

	tShutdown atomic.Int64
	abandon   chan struct{}
}

func (r *c20Run) now() int64 { return int64(time.Since(r.base)) }

func (r *c20Run) handle(ctx mpx.Context, ch mpx.Channel) status.Status {
	r.active.Add(1)
	defer r.active.Add(-1)
	r.srvConnOnce.Do(func() {
		r.srvConn = ch.Conn()
		close(r.srvConnReady)
	})

	b, st := ch.Receive(ctx)
	if !st.OK() || len(b) < 10 {
		r.unknown.Add(1)
		return status.OK
	}
	id := binary.BigEndian.Uint64(b)
	r.mu.Lock()
	rec := r.chans[id]
	r.mu.Unlock()
	if rec == nil {
		r.unknown.Add(1)
		return status.OK
	}
	if rec.invocations.Add(1) > 1 {
		return status.OK
	}
	defer rec.returned.Store(true)

	// Is the context alive at the moment of the first message?
	rec.doneAtFirst = ctx.Done()
	rec.tFirst = r.now()
	rec.first.Store(true)

	if rec.form == 's' {
		// echo for the round trip
		if st := ch.Send(ctx, b); !st.OK() {
			// the channel or the connection is going away
			_ = st
		}
	}
	if rec.end == 'h' {
		return status.OK
	}
	if rec.end == 'k' {
		// the channel ends from this side, by the handler's own SendAndClose
		rec.srvEnd.Store(max(1, r.now()))
		ch.SendAndClose(ctx, []byte("bye"))
	}
	select {
	case <-ctx.Wait():
		rec.tCancel = r.now()
		rec.cancelled.Store(true)
	case <-r.abandon:
		rec.abandoned.Store(true)
	}
	return status.OK
}

// sleepUntil sleeps until t with sub-millisecond precision: the timer for the bulk, yields for the
// last stretch.
func sleepUntil(t time.Time) {
	if d := time.Until(t) - 1500*time.Microsecond; d > 0 {
		time.Sleep(d)
	}
	for time.Now().Before(t) {
		runtime.Gosched()
	}
}

type c20Result struct {
	tokens string
	viol   []string
}

func c20Run1(idx int, seed uint64) c20Result {
	rnd := hx.NewRand(seed)
	var viol []string
	var vmu sync.Mutex
	addViol := func(format string, a ...any) {
		vmu.Lock()
		viol = append(viol, fmt.Sprintf(format, a...))
		vmu.Unlock()
	}

	// Parameters
	prob := []uint32{100, 400, 800}[rnd.Intn(3)]
	sleep := []time.Duration{0, 50 * time.Microsecond, 500 * time.Microsecond}[rnd.Intn(3)]
	nchans := 1 + rnd.Intn(12)
	nburst := 0
	if rnd.Intn(2) == 0 {
		nburst = 2 + rnd.Intn(10)
	}
	burstLead := time.Duration(rnd.Intn(400)) * time.Microsecond
	nregs := 1 + rnd.Intn(6)
	side := []string{"client", "server", "cut"}[rnd.Intn(3)]
	clientFree := rnd.Intn(2) == 0
	shutdownDelay := time.Duration(rnd.Intn(30000)) * time.Microsecond
	if rnd.Intn(5) == 0 {
		shutdownDelay = time.Duration(rnd.Intn(1500)) * time.Microsecond
	}

	r := &c20Run{base: time.Now(), lg: caplog.New(), chans: map[uint64]*c20Chan{},
		srvConnReady: make(chan struct{}), abandon: make(chan struct{})}
	r.tShutdown.Store(never)

	srvOpts := mpx.Default()
	srv := startServer(mpx.HandleFunc(r.handle), r.lg, srvOpts)
	px, err := newProxy(srv.Address())
	if err != nil {
		fail("proxy: %v", err)
	}
	defer px.close()

	mpx.VerifSetYield(seed, prob, sleep)
	defer mpx.VerifSetYield(0, 0, 0)

	clg := caplog.New()
	opts := mpx.Default()
	opts.Compression = rnd.Intn(2) == 0
	cctx := async.TimeoutContext(3 * time.Second)
	conn, st := mpx.Connect(cctx, px.addr(), clg, opts)
	cctx.Free()
	if !st.OK() {
		stopServer(srv)
		return c20Result{tokens: fmt.Sprintf("run=%d seed=%d skipped=connect-%s", idx, seed, stcode(st))}
	}

	ln := px.nextLink(3 * time.Second)
	if ln == nil {
		conn.Free()
		stopServer(srv)
		return c20Result{tokens: fmt.Sprintf("run=%d seed=%d skipped=nolink", idx, seed)}
	}
	r.base = time.Now() // all planned delays are relative to this moment

	// Channels
	const groups = 2
	var recs []*c20Chan
	for i := 0; i < nchans; i++ {
		c := &c20Chan{id: seed<<8 ^ uint64(i+1)*0x9E3779B97F4A7C15, grp: i % groups}
		c.endStart.Store(never)
		c.form = 's'
		if rnd.Intn(4) == 0 {
			c.form = 'b'
		}
		c.end = []byte{'c', 'h', 's', 'k'}[rnd.Intn(4)]
		if c.form == 'b' {
			c.end = 'c'
		}
		recs = append(recs, c)
		r.chans[c.id] = c
	}

	var wg sync.WaitGroup
	var heldMu sync.Mutex
	var held []mpx.Channel
	type plan struct {
		fill     []byte
		pause    time.Duration
		endPause time.Duration
		endHow   int
	}
	plans := make([]plan, nchans)
	for i := range plans {
		plans[i] = plan{fill: rnd.Bytes(rnd.Intn(24)), pause: time.Duration(rnd.Intn(3000)) * time.Microsecond,
			endPause: time.Duration(rnd.Intn(2000)) * time.Microsecond, endHow: rnd.Intn(2)}
	}

	opener := func(grp int) {
		defer wg.Done()
		var mine []*c20Chan
		for i, c := range recs {
			if c.grp != grp {
				continue
			}
			pl := plans[i]
			time.Sleep(pl.pause)
			ctx := async.TimeoutContext(2 * time.Second)
			stop := func() bool {
				defer ctx.Free()
				ch, st := conn.Channel(ctx)
				if !st.OK() {
					if st.Code == status.CodeTimeout {
						addViol("timeout-channel")
					}
					return true
				}
				c.created = true
				payload := make([]byte, 10+len(pl.fill))
				binary.BigEndian.PutUint64(payload, c.id)
				payload[8], payload[9] = c.form, c.end
				copy(payload[10:], pl.fill)

				if c.form == 'b' {
					c.endStart.Store(r.now())
					st := ch.SendAndClose(ctx, payload)
					c.openSent = st.OK()
					ch.Free()
					mine = append(mine, c)
					if st.Code == status.CodeTimeout {
						addViol("timeout-send-and-close")
					}
					return !st.OK()
				}

				st = ch.Send(ctx, payload)
				c.openSent = st.OK()
				if !st.OK() {
					if st.Code == status.CodeTimeout {
						addViol("timeout-send")
					}
					c.endStart.Store(r.now())
					ch.Free()
					return true
				}
				mine = append(mine, c)
				b, st := ch.Receive(ctx)
				switch {
				case st.OK() && bytes.Equal(b, payload):
					c.roundTrip = true
					// every earlier open of this goroutine was written before this one
					for _, p := range mine {
						if p.openSent {
							p.confirmed = true
						}
					}
				case st.OK():
					addViol("wrong-echo-id=%x", c.id)
				case st.Code == status.CodeTimeout:
					addViol("timeout-receive-echo")
				}
				if !st.OK() {
					c.endStart.Store(r.now())
					ch.Free()
					return true
				}

				switch c.end {
				case 'c':
					time.Sleep(pl.endPause)
					c.endStart.Store(r.now())
					if pl.endHow == 0 {
						ch.Free()
					} else {
						ch.SendAndClose(ctx, []byte("bye"))
						ch.Free()
					}
				case 'h':
					// the handler returns: the channel ends from the server side
					_, st := ch.Receive(ctx)
					if st.OK() {
						addViol("unexpected-message-after-handler-return")
					} else if st.Code == status.CodeTimeout {
						addViol("timeout-receive-end-after-handler-return")
					}
					ch.Free()
				case 'k':
					// the handler sends a last message with SendAndClose: it arrives, then the end
					b, st := ch.Receive(ctx)
					if st.OK() && !bytes.Equal(b, []byte("bye")) {
						addViol("wrong-last-message-of-handler-id=%x", c.id)
					}
					if st.OK() {
						if _, st := ch.Receive(ctx); st.OK() {
							addViol("unexpected-message-after-handler-close")
						} else if st.Code == status.CodeTimeout {
							addViol("timeout-receive-end-after-handler-close")
						}
					} else if st.Code == status.CodeTimeout {
						addViol("timeout-receive-last-message-of-handler")
					}
					ch.Free()
				case 's':
					heldMu.Lock()
					held = append(held, ch)
					heldMu.Unlock()
				}
				return false
			}()
			if stop {
				return
			}
		}
	}
	for g := 0; g < groups; g++ {
		wg.Add(1)
		go opener(g)
	}

	// A burst of opens right before the shutdown, without waiting for the echoes, so that the
	// server still has open frames to process when the connection goes away. These channels are
	// ended by the shutdown; they take part in every check except handler-missing.
	var burst []*c20Chan
	for i := 0; i < nburst; i++ {
		c := &c20Chan{id: seed<<8 ^ uint64(1000+i)*0x9E3779B97F4A7C15, grp: -1, form: 's', end: 's'}
		c.endStart.Store(never)
		burst = append(burst, c)
		r.mu.Lock()
		r.chans[c.id] = c
		r.mu.Unlock()
	}
	if nburst > 0 {
		wg.Add(1)
		go func() {
			defer wg.Done()
			sleepUntil(r.base.Add(shutdownDelay - burstLead))
			ctx := async.TimeoutContext(2 * time.Second)
			defer ctx.Free()
			for _, c := range burst {
				ch, st := conn.Channel(ctx)
				if !st.OK() {
					return
				}
				c.created = true
				payload := make([]byte, 10)
				binary.BigEndian.PutUint64(payload, c.id)
				payload[8], payload[9] = c.form, c.end
				st = ch.Send(ctx, payload)
				c.openSent = st.OK()
				heldMu.Lock()
				held = append(held, ch)
				heldMu.Unlock()
				if !st.OK() {
					if st.Code == status.CodeTimeout {
						addViol("timeout-send-burst")
					}
					return
				}
			}
		}()
	}

	// Registrars
	var regMu sync.Mutex
	var regs []*c20Reg
	type regPlan struct {
		start  time.Duration
		n      int
		gaps   []time.Duration
		server []bool
		unsub  []bool
		unsubD []time.Duration
	}
	rplans := make([]regPlan, nregs)
	for i := range rplans {
		p := regPlan{n: 1 + rnd.Intn(4)}
		switch x := rnd.Intn(10); {
		case x < 4: // right at the shutdown
			p.start = shutdownDelay + time.Duration(rnd.Intn(600)-400)*time.Microsecond
		case x < 7: // around the shutdown
			p.start = shutdownDelay + time.Duration(rnd.Intn(4000)-2500)*time.Microsecond
		default: // any time before
			p.start = time.Duration(rnd.Intn(int(shutdownDelay/time.Microsecond)+1)) * time.Microsecond
		}
		if p.start < 0 {
			p.start = 0
		}
		for k := 0; k < p.n; k++ {
			p.gaps = append(p.gaps, time.Duration(rnd.Intn(300))*time.Microsecond)
			p.server = append(p.server, rnd.Intn(3) == 0)
			p.unsub = append(p.unsub, rnd.Intn(3) == 0)
			p.unsubD = append(p.unsubD, time.Duration(rnd.Intn(3000))*time.Microsecond)
		}
		rplans[i] = p
	}
	registrar := func(p regPlan) {
		defer wg.Done()
		sleepUntil(r.base.Add(p.start))
		var subs sync.WaitGroup
		for k := 0; k < p.n; k++ {
			sleepUntil(time.Now().Add(p.gaps[k]))
			target, name := conn, "client"
			if p.server[k] {
				select {
				case <-r.srvConnReady:
					target, name = r.srvConn, "server"
				default:
				}
			}
			reg := &c20Reg{target: name}
			fn := func() {
				if !target.Closed().IsSet() {
					reg.unset.Store(true)
				}
				reg.calls.Add(1)
			}
			unsub, ok := target.OnClosed(fn)
			reg.tReg = r.now()
			reg.ok = ok
			reg.unsub = ok && p.unsub[k]
			regMu.Lock()
			regs = append(regs, reg)
			regMu.Unlock()
			if reg.unsub {
				subs.Add(1)
				go func(d time.Duration) {
					defer subs.Done()
					sleepUntil(time.Now().Add(d))
					unsub()
					reg.tUnsub = r.now()
					reg.closedAtUnsub = target.Closed().IsSet()
				}(p.unsubD[k])
			}
		}
		subs.Wait()
	}
	for _, p := range rplans {
		wg.Add(1)
		go registrar(p)
	}

	// Shutdown
	earlyClose := false
	sideDone := side
	wg.Add(1)
	go func() {
		defer wg.Done()
		sleepUntil(r.base.Add(shutdownDelay))
		var sc mpx.Conn
		if side == "server" {
			select {
			case <-r.srvConnReady:
				sc = r.srvConn
			default:
				sideDone = "server-fallback-client"
			}
		}
		// Did a connection close before the shutdown (an error)? Then "early" is meaningless.
		earlyClose = conn.Closed().IsSet() || (sc != nil && sc.Closed().IsSet())
		r.tShutdown.Store(r.now())
		switch {
		case side == "cut":
			ln.kill()
		case sc != nil:
			sc.Close()
		case clientFree:
			conn.Free()
		default:
			conn.Close()
		}
	}()

	// Quiescence
	allDone := make(chan struct{})
	go func() { wg.Wait(); close(allDone) }()
	if !waitChan(allDone, 8*time.Second) {
		addViol("timeout-goroutines")
		conn.Close()
		px.killAll()
		waitChan(allDone, 3*time.Second)
	}
	if !waitChan(conn.Closed().Wait(), 2*time.Second) {
		addViol("timeout-client-conn-close")
		conn.Close()
	}
	select {
	case <-r.srvConnReady:
		if !waitChan(r.srvConn.Closed().Wait(), 2*time.Second) {
			addViol("timeout-server-conn-close")
			r.srvConn.Close()
		}
	default:
	}
	heldMu.Lock()
	for _, ch := range held {
		ch.Free()
	}
	heldMu.Unlock()
	if !stopServer(srv) {
		addViol("timeout-server-stop")
	}
	time.Sleep(300 * time.Millisecond)
	mpx.VerifSetYield(0, 0, 0)

	// Handlers still waiting for their context at this point were never cancelled.
	close(r.abandon)
	if !waitUntil(time.Now().Add(2*time.Second), func() bool { return r.active.Load() == 0 }) {
		addViol("handler-stuck-n=%d", r.active.Load())
	}

	// Checks: handlers
	tShut := r.tShutdown.Load()
	opened, confirmed, invoked := 0, 0, 0
	for _, c := range append(append([]*c20Chan(nil), recs...), burst...) {
		if c.openSent {
			opened++
		}
		n := c.invocations.Load()
		if n > 0 {
			invoked++
		}
		if n >= 2 {
			addViol("handler-twice-id=%x-n=%d", c.id, n)
		}
		if c.confirmed {
			confirmed++
			if n == 0 {
				addViol("handler-missing-id=%x-form=%c", c.id, c.form)
			}
		}
		if n == 0 || !c.first.Load() {
			continue
		}
		alive := min(c.endStart.Load(), tShut) // the channel is certainly alive before this moment
		if v := c.srvEnd.Load(); v != 0 {
			alive = min(alive, v)
		}
		if !earlyClose {
			if c.doneAtFirst && c.tFirst < alive {
				addViol("ctx-cancelled-early-at-first-message-id=%x", c.id)
			}
			if c.cancelled.Load() && c.tCancel < alive {
				addViol("ctx-cancelled-early-id=%x-end=%c", c.id, c.end)
			}
		}
		if c.end != 'h' && c.abandoned.Load() {
			addViol("ctx-not-cancelled-id=%x-form=%c-end=%c", c.id, c.form, c.end)
		}
	}
	if n := r.unknown.Load(); n > 0 {
		addViol("handler-for-unknown-channel-n=%d", n)
	}

	// Checks: listeners
	nok, ncalled, nunsub, nfail := 0, 0, 0, 0
	for _, g := range regs {
		calls := g.calls.Load()
		if calls > 0 {
			ncalled++
		}
		if g.unset.Load() {
			addViol("closed-flag-not-set-in-listener-%s", g.target)
		}
		switch {
		case !g.ok:
			nfail++
			if calls != 0 {
				addViol("listener-called-after-failed-registration-%s-n=%d", g.target, calls)
			}
		case !g.unsub:
			nok++
			if calls == 0 {
				addViol("listener-not-called-%s", g.target)
			} else if calls > 1 {
				addViol("listener-called-twice-%s-n=%d", g.target, calls)
			}
		default:
			nunsub++
			if calls > 1 {
				addViol("listener-called-twice-%s-n=%d", g.target, calls)
			}
			if calls > 0 && g.tUnsub < tShut && !g.closedAtUnsub && !earlyClose {
				addViol("listener-called-after-unsub-%s", g.target)
			}
		}
	}

	for _, p := range r.lg.Panics() {
		addViol("library-panic:server:%s", p)
	}
	for _, p := range clg.Panics() {
		addViol("library-panic:client:%s", p)
	}

	var forms strings.Builder
	for _, c := range recs {
		forms.WriteByte(c.form)
		forms.WriteByte(c.end)
	}
	tokens := fmt.Sprintf("run=%d seed=%d channels=%d burst=%d registrars=%d side=%s prob=%d sleep_us=%d delay_us=%d lz4=%v plan=%s opened=%d confirmed=%d invoked=%d regs=%d reg_ok=%d reg_unsub=%d reg_failed=%d called=%d yields=%d",
		idx, seed, nchans, nburst, nregs, sideDone, prob, sleep.Microseconds(), shutdownDelay.Microseconds(), opts.Compression,
		forms.String(), opened, confirmed, invoked, len(regs), nok, nunsub, nfail, ncalled, mpx.VerifYieldCount())
	if earlyClose {
		tokens += " early_close=true"
	}
	if os.Getenv("MPXFAULT_DEBUG") != "" {
		for _, g := range regs {
			tokens += fmt.Sprintf(" reg[%s,ok=%v,dt_us=%d,calls=%d]", g.target, g.ok, (g.tReg-tShut)/1000, g.calls.Load())
		}
	}
	return c20Result{tokens: tokens, viol: viol}
}

func runC20(a args, o *out) {
	runs := 40
	if a.tier == "thorough" {
		runs = 600
	}
	bud := newBudget(a.tier, 35*time.Second, 340*time.Second)
	skipped := 0
	for i := 0; i < runs; i++ {
		if a.only >= 0 && i != a.only {
			continue
		}
		if bud.exhausted() {
			skipped++
			continue
		}
		seed := hx.NewRand(a.seed ^ uint64(i+1)*0x9E3779B97F4A7C15).U64()
		res := c20Run1(i, seed)
		o.run(res.tokens, res.viol)
	}
	// peers that open channels and are gone at once
	nb := 6
	if a.tier == "thorough" {
		nb = 60
	}
	for i := 0; i < nb && a.only < 0; i++ {
		if bud.exhausted() {
			skipped++
			continue
		}
		res := c20Burst(i, hx.NewRand(a.seed^uint64(i+77)*0x9E3779B97F4A7C15).U64())
		o.run(res.tokens, res.viol)
	}
	if skipped > 0 {
		o.note(fmt.Sprintf("note=budget-exhausted skipped=%d", skipped))
	}
}
