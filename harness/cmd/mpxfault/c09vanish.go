package main

import (
	"fmt"
	"net"
	"syscall"
	"time"

	"github.com/basecomplextech/baselibrary/async"
	"github.com/basecomplextech/baselibrary/status"
	"github.com/basecomplextech/spec/mpx"
	"verif/harness/internal/caplog"
)

// blackHole returns the address of a peer that does not answer at all: a listening socket with an
// empty backlog that never accepts and whose accept queue is full, so the kernel drops every further
// SYN, as a host that has vanished from the network does. ok=false when that cannot be set up here.
func blackHole() (addr string, closeFn func(), ok bool) {
	fd, err := syscall.Socket(syscall.AF_INET, syscall.SOCK_STREAM, 0)
	if err != nil {
		return "", func() {}, false
	}
	var conns []net.Conn
	closeFn = func() {
		for _, c := range conns {
			c.Close()
		}
		syscall.Close(fd)
	}
	sa := &syscall.SockaddrInet4{Port: 0, Addr: [4]byte{127, 0, 0, 1}}
	if syscall.Bind(fd, sa) != nil || syscall.Listen(fd, 0) != nil {
		closeFn()
		return "", func() {}, false
	}
	lsa, err := syscall.Getsockname(fd)
	if err != nil {
		closeFn()
		return "", func() {}, false
	}
	addr = fmt.Sprintf("127.0.0.1:%d", lsa.(*syscall.SockaddrInet4).Port)
	for i := 0; i < 6; i++ {
		d := net.Dialer{Timeout: 300 * time.Millisecond}
		c, err := d.Dial("tcp", addr)
		if err != nil {
			return addr, closeFn, true // the queue is full: further connects are not answered
		}
		conns = append(conns, c)
	}
	closeFn()
	return "", func() {}, false
}

// c09Vanished: the peer has vanished (it answers nothing, not even a refusal). Calls that need a
// connection return a non-OK status within bounded time (the dial timeout of the options), they do
// not block for ever.
func c09Vanished(o *out) {
	addr, closeFn, ok := blackHole()
	if !ok {
		o.note("note=vanished-peer-cannot-be-simulated-here")
		return
	}
	defer closeFn()
	lg := caplog.New()
	opts := mpx.Default()
	opts.ClientDialTimeout = 300 * time.Millisecond
	const bound = 8 * time.Second
	var viol []string
	var toks []string
	try := func(what string, f func() status.Status) {
		done := make(chan status.Status, 1)
		t0 := time.Now()
		go func() { done <- f() }()
		select {
		case st := <-done:
			toks = append(toks, fmt.Sprintf("%s=%s/%dms", what, stcode(st), time.Since(t0).Milliseconds()))
			if st.OK() {
				viol = append(viol, what+"-to-a-vanished-peer-reported-ok")
			}
		case <-time.After(bound):
			toks = append(toks, what+"=blocked")
			viol = append(viol, fmt.Sprintf("%s-still-blocked-after-%ds-on-a-vanished-peer", what, int(bound.Seconds())))
		}
	}
	cl := mpx.NewClient(addr, mpx.ClientMode_OnDemand, lg, opts)
	defer cl.Close()
	for i := 0; i < 2; i++ {
		try("channel", func() status.Status {
			ch, st := cl.Channel(async.NoContext())
			if st.OK() {
				ch.Free()
			}
			return st
		})
	}
	try("connect", func() status.Status {
		c, st := mpx.Connect(async.NoContext(), addr, lg, opts)
		if st.OK() {
			c.Free()
		}
		return st
	})
	for _, p := range lg.Panics() {
		viol = append(viol, "library-panic:"+nospace(p))
	}
	line := "run=vanished"
	for _, t := range toks {
		line += " " + t
	}
	o.run(line, viol)
}
