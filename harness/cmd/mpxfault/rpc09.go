package main

import (
	"fmt"
	"time"

	"github.com/basecomplextech/baselibrary/alloc"
	"github.com/basecomplextech/baselibrary/async"
	"github.com/basecomplextech/baselibrary/ref"
	"github.com/basecomplextech/baselibrary/status"
	"github.com/basecomplextech/spec"
	"github.com/basecomplextech/spec/proto/prpc"
	"github.com/basecomplextech/spec/rpc"
	"verif/harness/internal/caplog"
	"verif/harness/internal/hx"
)

// rpcSide repeats the core of c09 at the rpc level: an rpc echo server behind a fault-injecting
// proxy; Request must return a non-OK status unless the complete response arrived.
type rpcSide struct {
	lg  *caplog.Logger
	srv rpc.Server
	px  *proxy
	b   [2]int64 // bytes of an undisturbed session
}

const rpcRequests = 3

func rpcOpts() rpc.Options {
	o := rpc.Default()
	o.Compression = false
	o.ClientMaxConns = 1
	return o
}

func newRPCSide() *rpcSide {
	r := &rpcSide{lg: caplog.New()}
	handle := func(ctx rpc.Context, ch rpc.ServerChannel) (ref.R[[]byte], status.Status) {
		req, st := ch.Request(ctx)
		if !st.OK() {
			return nil, st
		}
		calls := req.Calls()
		if calls.Len() == 0 {
			return nil, status.Errorf("no calls")
		}
		msg := calls.Get(0).Input().String(1).Unwrap()

		buf := alloc.AcquireBuffer()
		w := spec.NewValueWriterBuffer(buf)
		w.String(msg)
		b, err := w.Build()
		if err != nil {
			buf.Free()
			return nil, status.WrapError(err)
		}
		return ref.NewFreer(b, buf), status.OK
	}
	r.srv = rpc.NewServer("127.0.0.1:0", rpc.HandleFunc(handle), r.lg, rpcOpts())
	if st := r.srv.Start(); !st.OK() {
		fail("rpc server start: %v", st)
	}
	select {
	case <-r.srv.Listening().Wait():
	case <-time.After(3 * time.Second):
		fail("rpc server did not start listening")
	}
	px, err := newProxy(r.srv.Address())
	if err != nil {
		fail("rpc proxy: %v", err)
	}
	r.px = px

	// dry run
	_, _, b := r.session(1, noCut)
	r.b = b
	return r
}

func (r *rpcSide) close() {
	r.px.close()
	select {
	case <-r.srv.Stop():
	case <-time.After(3 * time.Second):
	}
}

func rpcMessage(tag uint64, i int) string {
	rnd := hx.NewRand(tag + uint64(i)*7919)
	return hx.Hex(rnd.Bytes(10 + rnd.Intn(21)))
}

func rpcEchoRequest(msg string) (prpc.Request, error) {
	w := prpc.NewRequestWriter()
	calls := w.Calls()
	call := calls.Add()
	call.Method("echo")
	input := call.Input()
	input.Field(1).String(msg)
	if err := input.End(); err != nil {
		return prpc.Request{}, err
	}
	if err := call.End(); err != nil {
		return prpc.Request{}, err
	}
	if err := calls.End(); err != nil {
		return prpc.Request{}, err
	}
	return w.Build()
}

// session runs the requests through the proxy with the given plan.
func (r *rpcSide) session(tag uint64, plan cutPlan) (okn int, viol []string, b [2]int64) {
	clg := caplog.New()
	before := len(r.lg.Panics())
	r.px.setPlan(plan)
	cl := rpc.NewClient(r.px.addr(), rpc.ClientMode_OnDemand, clg, rpcOpts())
	defer cl.Close()

	var first *link
	for i := 0; i < rpcRequests; i++ {
		msg := rpcMessage(tag, i)
		req, err := rpcEchoRequest(msg)
		if err != nil {
			fail("rpc request build: %v", err)
		}
		ctx := async.NewContext()
		type result struct {
			got    string
			st     status.Status
			panic_ string
		}
		done := make(chan result, 1)
		go func() {
			var res result
			defer func() {
				if e := recover(); e != nil {
					res.panic_ = fmt.Sprint(e)
				}
				done <- res
			}()
			v, st := cl.Request(ctx, req)
			res.st = st
			if st.OK() {
				res.got = v.Unwrap().String().Unwrap()
				res.got = string(append([]byte(nil), res.got...))
				v.Release()
			}
		}()
		var res result
		select {
		case res = <-done:
		case <-time.After(3 * time.Second):
			viol = append(viol, fmt.Sprintf("blocked-request-i=%d", i))
			ctx.Cancel()
			select {
			case res = <-done:
			case <-time.After(time.Second):
				viol = append(viol, "timeout-request-after-cancel")
			}
			res.st = status.Timeout
		}
		ctx.Free()
		switch {
		case res.panic_ != "":
			viol = append(viol, "library-panic-in-request:"+res.panic_)
		case res.st.OK() && res.got != msg:
			viol = append(viol, fmt.Sprintf("rpc-ok-with-wrong-response-i=%d-len=%d-want=%d", i, len(res.got), len(msg)))
		case res.st.OK():
			okn++
		}
		if first == nil {
			first = r.px.nextLink(0)
		}
	}
	if first == nil {
		first = r.px.nextLink(0)
	}
	if first != nil {
		b = [2]int64{first.bytes(dirC2S), first.bytes(dirS2C)}
	}
	for _, p := range newPanics(r.lg, before) {
		viol = append(viol, "library-panic:rpc-server:"+p)
	}
	for _, p := range clg.Panics() {
		viol = append(viol, "library-panic:rpc-client:"+p)
	}
	return okn, viol, b
}

// run maps the cut offset of the mpx session into the rpc session and runs it.
func (r *rpcSide) run(tag uint64, plan cutPlan) (string, []string) {
	if plan.dir != dirNone {
		plan.k = plan.k % (r.b[plan.dir] + 1)
	}
	okn, viol, _ := r.session(tag, plan)
	tok := fmt.Sprintf("k%d-ok%d/%d", plan.k, okn, rpcRequests)
	if len(viol) > 0 {
		tok += "-fail"
	}
	return tok, viol
}
