// Command poolscen checks property C18 on the real library: pooled objects never leak state
// between uses or goroutines.
//
//	poolscen c18 <seed> <quick|thorough> [only=<run>] [avoid=poolfail,poolfree] [verbose] [sabotage=expect|crash|hang]
//
// avoid=poolfail keeps the programs that fail midway off the pooled writers, avoid=poolfree makes no
// program call Free on a pooled writer: both switch off a trigger of a known defect, to see what
// else there is (diagnosis only; the runner uses neither).
//
// Every run: N seeded writer programs (internal/tree + the call alphabet of internal/wprog: valid
// ones, ones that fail midway, ones that abandon their writer, followed by Free where the variant
// asks for it) are assigned to G goroutines and to the writer variants the library offers (owned,
// owned without buffer, one reused writer per goroutine with Reset, pooled message / list / value
// writers, self-releasing message writers).
//
//	phase alone  every program alone on a fresh owned writer through internal/wprog, one goroutine,
//	             before anything pooled has been used: the expected tokens, bytes and error
//	phase seq    the programs on their variants, one goroutine, program order
//	phase conc   the programs on their variants on G goroutines at once, together with mpx echo
//	             traffic and rpc echo calls in this process (expected outcome: the same burst alone)
//
// Output: first `c18 race-detector=on|off`, then one line per run
//
//	c18 run=<i> seed=<derived> progs= g= failing= trunc= pooled= seq_diff= conc_diff= leaks= shared=
//	    mpx_alone= rpc_alone= mpx_conc= rpc_conc= races= ms=<gen/alone/traffic-alone/seq/conc/stop>
//	    [err=<harness problem>] [VIOL <reason>]...
//
// Violations:
//
//	result-differs=<phase>/prog=<first index>/<variant>/<kind>/<what>   tokens, bytes or error differ from running alone
//	result-differs=traffic/<mpx|rpc>/<first failure>                    the echo traffic differs from the same burst alone
//	state-leak=<phase>/prog=<i>/<variant>/<what>   a freshly obtained writer reports an error, fields, elements,
//	                                               or is an object another program still uses
//	panic=<where>                                  a panic inside the library (recovered, or logged by mpx/rpc)
//	data-race=<frames>                             (race build) the race detector reported an access inside the library
//	hang=<where>
//
// Every run executes in a child process of its own (`... only=<i> child`): the supervisor relays
// the run line, turns a child that died of a fatal runtime fault into `VIOL panic=fatal/...` and
// kills a child that hangs (`VIOL hang=process-killed`).
//
// Race detector: build with `go build -race -tags verif -o bin/poolscen.race ./cmd/poolscen`. The
// supervisor gives every child GORACE=log_path=<scratch>/race-<i> (other GORACE settings of the
// caller are kept), so that the reports can be read: they are counted per run (races=), turned
// into VIOL data-race lines, copied to stderr ("WARNING: DATA RACE ...") and make the supervisor
// exit with status 66, the exit status of the race runtime. With GORACE=halt_on_error=1 a child
// stops at its first report; the supervisor then prints the run line with the VIOL itself.
package main

import (
	"bytes"
	"fmt"
	"os"
	"os/exec"
	"path/filepath"
	"runtime"
	"strconv"
	"strings"
	"sync"
	"time"
	"unsafe"

	"github.com/basecomplextech/baselibrary/buffer"
	"verif/harness/internal/hx"
	"verif/harness/internal/tree"
	"verif/harness/internal/wprog"
)

type config struct {
	thorough      bool
	only          int
	avoidPoolFail bool
	avoidPoolFree bool
	verbose       bool
	sabotage      string
	start         time.Time
	budget        time.Duration // no run starts after this
	limit         time.Duration // the process must be done by then: a run still going is killed
	runs          int
	raceLog       string
	raceSeen      int
}

type totals struct{ runs, viols, errs, races int }

func equalTokens(a, b []string) int {
	for i := 0; i < len(a) && i < len(b); i++ {
		if a[i] != b[i] {
			return i
		}
	}
	if len(a) != len(b) {
		if len(a) < len(b) {
			return len(a)
		}
		return len(b)
	}
	return -1
}

// differs describes the first difference between the expected and the observed result, "" if none.
func differs(exp wprog.Result, got result) string {
	if i := equalTokens(exp.Tokens, got.tokens); i >= 0 {
		e, g := "-", "-"
		if i < len(exp.Tokens) {
			e = exp.Tokens[i]
		}
		if i < len(got.tokens) {
			g = got.tokens[i]
		}
		return fmt.Sprintf("call=%d:want=%s:got=%s", i, token(e, 20), token(g, 20))
	}
	if exp.Built != got.built {
		return fmt.Sprintf("built=%v/%v", exp.Built, got.built)
	}
	if !bytes.Equal(exp.Bytes, got.bytes) {
		return fmt.Sprintf("bytes:len=%d/%d", len(exp.Bytes), len(got.bytes))
	}
	return ""
}

// phaseReport collects the findings of one phase.
type phaseReport struct {
	diffs, leaks, shared int
	viols                []string
	firstDiff            bool
}

func (ph *phaseReport) add(v string) {
	if len(ph.viols) < 6 {
		ph.viols = append(ph.viols, v)
	}
}

func (ph *phaseReport) check(phase string, i int, p *program, exp wprog.Result, got result) {
	if d := differs(exp, got); d != "" {
		ph.diffs++
		if !ph.firstDiff {
			ph.firstDiff = true
			ph.add(fmt.Sprintf("result-differs=%s/prog=%d/%s/%s/%s", phase, i, variantNames[p.variant], p.kind, d))
		}
	}
	for _, l := range got.leaks {
		if strings.Contains(l, "in-use") {
			ph.shared++
		} else {
			ph.leaks++
		}
		if ph.leaks+ph.shared <= 2 {
			ph.add(fmt.Sprintf("state-leak=%s/prog=%d/%s/%s", phase, i, variantNames[p.variant], l))
		}
	}
	for k, pn := range got.panics {
		if k == 0 {
			ph.add(fmt.Sprintf("panic=%s/prog=%d/%s/%s", phase, i, variantNames[p.variant], token(pn, 80)))
		}
	}
}

// closeG frees the reused writer of a goroutine.
func closeG(g *gstate, reg *registry) {
	if g.w == nil {
		return
	}
	func() {
		defer func() { recover() }()
		g.w.Free()
	}()
	reg.mu.Lock()
	delete(reg.inUse, ptrOfWriter(g.w))
	reg.mu.Unlock()
	g.w, g.buf = nil, nil
}

func runOne(i int, seed uint64, cfg *config, tot *totals) {
	r := hx.NewRand(seed)
	var viols, errs []string

	t0 := time.Now()
	var tGen, tAlone, tTrafficAlone, tSeq, tConc, tStop time.Duration

	G := 2 + r.Intn(7)
	N := 120 + r.Intn(200)
	if cfg.thorough {
		G = 2 + r.Intn(15)
		N = 200 + r.Intn(600)
	}
	tg := &tree.Gen{R: r, MaxDepth: 5, MaxElems: 5, Budget: 40000}
	progs := make([]program, N)
	failing, trunc, pooled := 0, 0, 0
	for k := range progs {
		progs[k] = makeProgram(r, tg, k%G, cfg.avoidPoolFail, cfg.avoidPoolFree)
		switch {
		case strings.HasPrefix(progs[k].kind, "fail"):
			failing++
		case progs[k].kind == "trunc":
			trunc++
		}
		if pooledVariant(progs[k].variant) {
			pooled++
		}
	}

	tGen = time.Since(t0)
	t0 = time.Now()
	// ---- phase alone: the expected results (clean owned writers, nothing pooled used so far)
	expected := make([]wprog.Result, N)
	for k := range progs {
		expected[k] = wprog.New(buffer.New()).Run(progs[k].text)
		if cfg.sabotage == "expect" && k == N/2 && len(expected[k].Tokens) > 0 {
			expected[k].Tokens[len(expected[k].Tokens)-1] = "sabotaged"
		}
	}
	// the generator's intent must hold alone: failing programs fail, valid ones build
	for k := range progs {
		hasErr := false
		for _, t := range expected[k].Tokens {
			if len(t) > 1 && t[0] == 'e' && t[1] >= '0' && t[1] <= '9' {
				hasErr = true
			}
			if t == "p" || t == "bad-op" {
				errs = append(errs, fmt.Sprintf("alone-token-%s/prog=%d", t, k))
			}
		}
		switch {
		case strings.HasPrefix(progs[k].kind, "fail") && !hasErr:
			errs = append(errs, fmt.Sprintf("failing-program-did-not-fail/prog=%d/%s/%s", k, progs[k].kind, token(progs[k].text, 200)))
		case progs[k].kind == "valid" && (!expected[k].Built || hasErr):
			errs = append(errs, fmt.Sprintf("valid-program-did-not-build/prog=%d", k))
		}
	}

	tAlone = time.Since(t0)
	t0 = time.Now()
	// ---- traffic alone
	chans, msgs, callers, calls := 2+r.Intn(3), 6+r.Intn(10), 2+r.Intn(3), 6+r.Intn(10)
	plan := makePlan(r, chans, msgs, callers, calls)
	tr, why := startTraffic()
	var mpxAlone, rpcAlone, mpxConc, rpcConc outcome
	// Timeouts: generous for the burst alone; for the concurrent burst a multiple of what the burst
	// took alone (a loaded machine or the race detector slow both down alike), within bounds that
	// keep a run with stuck traffic short.
	aloneTimeout, concMin, concMax, concFactor := 8*time.Second, 3*time.Second, 8*time.Second, 10
	if raceEnabled || cfg.thorough {
		aloneTimeout, concMin, concMax, concFactor = 30*time.Second, 8*time.Second, 40*time.Second, 20
	}
	concTimeout := concMin
	trafficOK := false
	if tr == nil {
		errs = append(errs, "traffic-start:"+why)
	} else {
		t1 := time.Now()
		var hang bool
		mpxAlone, rpcAlone, hang = tr.burst(plan, aloneTimeout)
		if hang || !mpxAlone.allOK() || !rpcAlone.allOK() {
			what := "traffic-alone-failed:mpx=" + token(mpxAlone.String(), 40) + ":rpc=" + token(rpcAlone.String(), 60)
			// a burst that does not finish in time on a busy machine is a problem of the run; a call
			// that returns a wrong status, a wrong echo or panics although nothing else is going on
			// is the library failing on its own (e.g. a call seeing the remains of an earlier one)
			if hang || strings.Contains(what, "timeout") || strings.Contains(what, "cancelled") {
				errs = append(errs, what)
			} else {
				viols = append(viols, what)
			}
		} else {
			trafficOK = true
			if d := time.Duration(concFactor)*time.Since(t1) + time.Second; d > concTimeout {
				concTimeout = d
			}
			if concTimeout > concMax {
				concTimeout = concMax
			}
		}
	}
	tTrafficAlone = time.Since(t0)
	t0 = time.Now()
	// ---- phase seq: the variants, one goroutine, program order
	var seq phaseReport
	{
		reg := newRegistry()
		gs := make([]gstate, G)
		for k := range progs {
			p := &progs[k]
			it := newInterp(p.variant, k, p.firstCall(), &gs[p.g], reg)
			got := it.run(p.text)
			seq.check("seq", k, p, expected[k], got)
		}
		for g := range gs {
			closeG(&gs[g], reg)
		}
	}

	tSeq = time.Since(t0)
	t0 = time.Now()
	// ---- phase conc: G goroutines, with the traffic
	var conc phaseReport
	{
		reg := newRegistry()
		results := make([]result, N)
		var wg sync.WaitGroup
		start := make(chan struct{})
		yields := make([]*hx.Rand, G)
		for g := 0; g < G; g++ {
			yields[g] = hx.NewRand(r.U64())
		}
		for g := 0; g < G; g++ {
			wg.Add(1)
			go func(g int) {
				defer wg.Done()
				gs := &gstate{}
				defer closeG(gs, reg)
				<-start
				for k := g; k < N; k += G {
					p := &progs[k]
					func() {
						defer func() {
							if e := recover(); e != nil {
								results[k].panics = append(results[k].panics, "harness-goroutine:"+fmt.Sprint(e))
							}
						}()
						it := newInterp(p.variant, k, p.firstCall(), gs, reg)
						results[k] = it.run(p.text)
					}()
					if yields[g].Intn(4) == 0 {
						runtime.Gosched()
					}
				}
			}(g)
		}
		trafficDone := make(chan struct{})
		var hangTraffic bool
		go func() {
			defer close(trafficDone)
			if trafficOK {
				<-start
				mpxConc, rpcConc, hangTraffic = tr.burst(plan, concTimeout)
			}
		}()
		close(start)
		done := make(chan struct{})
		go func() { wg.Wait(); close(done) }()
		select {
		case <-done:
			for k := range progs {
				conc.check("conc", k, &progs[k], expected[k], results[k])
			}
		case <-time.After(30 * time.Second):
			viols = append(viols, "hang=programs")
		}
		select {
		case <-trafficDone:
		case <-time.After(concTimeout + 10*time.Second):
			viols = append(viols, "hang=traffic")
		}
		if hangTraffic {
			viols = append(viols, "hang=traffic-burst")
		}
	}
	tConc = time.Since(t0)
	if trafficOK {
		if !mpxConc.allOK() {
			viols = append(viols, "result-differs=traffic/mpx/"+token(mpxConc.String(), 60))
		}
		if !rpcConc.allOK() {
			viols = append(viols, "result-differs=traffic/rpc/"+token(rpcConc.String(), 80))
		}
	}
	if tr != nil {
		t0 = time.Now()
		tr.stop()
		tStop = time.Since(t0)
		for k, pn := range tr.lg.Panics() {
			if k < 2 {
				viols = append(viols, "panic=logged/"+token(pn, 100))
			}
		}
	}
	viols = append(viols, seq.viols...)
	viols = append(viols, conc.viols...)

	// ---- race reports of this run
	races := 0
	if cfg.raceLog != "" {
		reports := readRaceReports(cfg.raceLog)
		for _, rep := range reports[min(cfg.raceSeen, len(reports)):] {
			races++
			if races <= 3 {
				if rep.library {
					viols = append(viols, "data-race="+rep.frames)
				} else {
					errs = append(errs, "race-outside-library="+rep.frames)
				}
			}
		}
		cfg.raceSeen = len(reports)
	}

	tot.runs++
	tot.races += races
	var sb strings.Builder
	fmt.Fprintf(&sb, "c18 run=%d seed=%d progs=%d g=%d failing=%d trunc=%d pooled=%d seq_diff=%d conc_diff=%d leaks=%d shared=%d",
		i, seed, N, G, failing, trunc, pooled, seq.diffs, conc.diffs, seq.leaks+conc.leaks, seq.shared+conc.shared)
	fmt.Fprintf(&sb, " mpx_alone=%d/%d rpc_alone=%d/%d mpx_conc=%d/%d rpc_conc=%d/%d races=%d",
		mpxAlone.ok, len(plan.mpx), rpcAlone.ok, len(plan.rpc), mpxConc.ok, len(plan.mpx), rpcConc.ok, len(plan.rpc), races)
	fmt.Fprintf(&sb, " ms=%d/%d/%d/%d/%d/%d", tGen.Milliseconds(), tAlone.Milliseconds(), tTrafficAlone.Milliseconds(), tSeq.Milliseconds(), tConc.Milliseconds(), tStop.Milliseconds())
	for k, e := range errs {
		if k < 4 {
			sb.WriteString(" err=" + e)
		}
	}
	if len(errs) > 0 {
		tot.errs++
	}
	if len(viols) > 0 {
		tot.viols++
	}
	seen := map[string]bool{}
	for _, v := range viols {
		if !seen[v] {
			seen[v] = true
			sb.WriteString(" VIOL " + v)
		}
	}
	fmt.Println(sb.String())
	if cfg.verbose && len(viols) > 0 {
		for k := range progs {
			fmt.Printf("c18 detail run=%d prog=%d g=%d variant=%s kind=%s calls=%d\n", i, k, progs[k].g, variantNames[progs[k].variant], progs[k].kind, strings.Count(progs[k].text, ";")+1)
		}
	}
}

// ---------------------------------------------------------------- race log

type raceReport struct {
	frames  string
	library bool
}

// readRaceReports parses the race runtime's log files (<path>.<pid>).
func readRaceReports(path string) []raceReport {
	files, _ := filepath.Glob(path + ".*")
	var out []raceReport
	for _, f := range files {
		data, err := os.ReadFile(f)
		if err != nil {
			continue
		}
		for _, rep := range strings.Split(string(data), "WARNING: DATA RACE")[1:] {
			// per access: the first library frame among the top four (else the top frame)
			var tops []string
			lines := strings.Split(rep, "\n")
			for k, l := range lines {
				l = strings.TrimSpace(l)
				if !(strings.HasPrefix(l, "Read at") || strings.HasPrefix(l, "Write at") ||
					strings.HasPrefix(l, "Previous read at") || strings.HasPrefix(l, "Previous write at")) {
					continue
				}
				pick := ""
				for f := 0; f < 4 && k+1+2*f < len(lines); f++ {
					fn := strings.TrimSpace(lines[k+1+2*f])
					if fn == "" {
						break
					}
					if p := strings.LastIndexByte(fn, '('); p > 0 {
						fn = fn[:p]
					}
					if pick == "" {
						pick = fn
					}
					if strings.Contains(fn, "github.com/basecomplextech/") {
						pick = fn
						break
					}
				}
				tops = append(tops, pick)
			}
			r := raceReport{}
			for _, t := range tops {
				if strings.Contains(t, "github.com/basecomplextech/") {
					r.library = true
				}
			}
			for k, t := range tops {
				if p := strings.LastIndexByte(t, '/'); p >= 0 {
					tops[k] = t[p+1:]
				}
			}
			r.frames = token(strings.Join(tops, "~"), 120)
			out = append(out, r)
		}
	}
	return out
}

func usage() {
	fmt.Fprintln(os.Stderr, "usage: poolscen c18 <seed> <quick|thorough> [only=<run>] [avoid=poolfail,poolfree] [verbose] [sabotage=expect|crash|hang]")
	os.Exit(2)
}

func main() {
	if len(os.Args) < 4 || os.Args[1] != "c18" {
		usage()
	}
	seed, err := strconv.ParseUint(os.Args[2], 10, 64)
	if err != nil {
		usage()
	}
	cfg := &config{only: -1, start: time.Now()}
	switch os.Args[3] {
	case "quick":
		cfg.budget, cfg.limit, cfg.runs = 15*time.Second, 28*time.Second, 40
	case "thorough":
		cfg.thorough = true
		cfg.budget, cfg.limit, cfg.runs = 200*time.Second, 290*time.Second, 400
	default:
		usage()
	}
	child := false
	var pass []string // options handed down to the children
	for _, a := range os.Args[4:] {
		switch {
		case strings.HasPrefix(a, "only="):
			n, err := strconv.Atoi(a[5:])
			if err != nil {
				usage()
			}
			cfg.only = n
		case strings.HasPrefix(a, "avoid="):
			for _, v := range strings.Split(a[6:], ",") {
				switch v {
				case "poolfail":
					cfg.avoidPoolFail = true
				case "poolfree":
					cfg.avoidPoolFree = true
				default:
					usage()
				}
			}
			pass = append(pass, a)
		case a == "verbose":
			cfg.verbose = true
			pass = append(pass, a)
		case strings.HasPrefix(a, "sabotage="):
			cfg.sabotage = a[9:]
			pass = append(pass, a)
		case a == "child":
			child = true
		default:
			usage()
		}
	}

	master := hx.NewRand(hx.NewRand(seed).U64() ^ 0xC18900155)
	if child {
		// one run in this process; the supervisor reads the line
		cfg.raceLog = os.Getenv("POOLSCEN_RACELOG")
		tot := &totals{}
		for i := 0; i < cfg.runs; i++ {
			s := master.U64()
			if i == cfg.only {
				switch cfg.sabotage {
				case "crash": // a fault recover() cannot catch, as memory corruption produces
					var p *int
					*(*int)(unsafe.Add(unsafe.Pointer(p), 0x7ead00000bee0000)) = 1
				case "hang":
					select {}
				}
				runOne(i, s, cfg, tot)
			}
		}
		os.Exit(0)
	}
	supervise(cfg, master, pass)
}

// supervise executes every run in a process of its own: a writer object shared between two users
// can corrupt memory beyond what recover() catches (fatal runtime faults), a run may hang, and the
// pools of a process keep what earlier runs left in them. The children print the run lines.
func supervise(cfg *config, master *hx.Rand, pass []string) {
	if raceEnabled {
		fmt.Println("c18 race-detector=on")
	} else {
		fmt.Println("c18 race-detector=off")
	}
	exe, err := os.Executable()
	if err != nil {
		fmt.Fprintln(os.Stderr, "poolscen:", err)
		os.Exit(2)
	}
	scratch, err := os.MkdirTemp("", "poolscen-")
	if err != nil {
		fmt.Fprintln(os.Stderr, "poolscen:", err)
		os.Exit(2)
	}
	defer os.RemoveAll(scratch)

	tot := &totals{}
	truncated := 0
	for i := 0; i < cfg.runs; i++ {
		s := master.U64()
		if cfg.only >= 0 && i != cfg.only {
			continue
		}
		if time.Since(cfg.start) > cfg.budget {
			truncated = cfg.runs - i
			break
		}
		args := append([]string{os.Args[1], os.Args[2], os.Args[3], "only=" + strconv.Itoa(i), "child"}, pass...)
		cmd := exec.Command(exe, args...)
		var stdout, stderr bytes.Buffer
		cmd.Stdout, cmd.Stderr = &stdout, &stderr
		raceLog := ""
		if raceEnabled {
			raceLog = filepath.Join(scratch, "race-"+strconv.Itoa(i))
			cmd.Env = append(os.Environ(),
				"GORACE="+strings.TrimSpace(os.Getenv("GORACE")+" log_path="+raceLog),
				"POOLSCEN_RACELOG="+raceLog)
		}
		killed := false
		if err := cmd.Start(); err != nil {
			fmt.Fprintln(os.Stderr, "poolscen: cannot start a run:", err)
			os.RemoveAll(scratch)
			os.Exit(2)
		}
		done := make(chan error, 1)
		go func() { done <- cmd.Wait() }()
		select {
		case <-done:
		case <-time.After(cfg.limit - time.Since(cfg.start) - time.Second):
			killed = true
			cmd.Process.Kill()
			<-done
		}

		// relay the run line(s)
		sawRun := false
		for _, line := range strings.Split(stdout.String(), "\n") {
			if !strings.HasPrefix(line, "c18 ") {
				continue
			}
			if strings.HasPrefix(line, "c18 run=") {
				sawRun = true
				tot.runs++
				if strings.Contains(line, " VIOL ") {
					tot.viols++
				}
				if strings.Contains(line, " err=") {
					tot.errs++
				}
			}
			fmt.Println(line)
		}
		reports := 0
		if raceLog != "" {
			reps := readRaceReports(raceLog)
			reports = len(reps)
			tot.races += reports
			if !sawRun && !killed && reports > 0 {
				// the race runtime stopped the child (halt_on_error) before it could print its line
				sawRun = true
				tot.runs++
				tot.viols++
				fmt.Printf("c18 run=%d seed=%d races=%d VIOL data-race=%s\n", i, s, reports, reps[0].frames)
			}
			files, _ := filepath.Glob(raceLog + ".*")
			for _, f := range files {
				if data, err := os.ReadFile(f); err == nil {
					os.Stderr.Write(data)
				}
				os.Remove(f)
			}
		}
		if !sawRun {
			tot.runs++
			tot.viols++
			if killed {
				fmt.Printf("c18 run=%d seed=%d VIOL hang=process-killed\n", i, s)
			} else {
				fmt.Printf("c18 run=%d seed=%d VIOL panic=fatal/%s\n", i, s, crashCause(stderr.String()))
			}
		}
		// the child's own stderr (crash dumps are long: the head is enough)
		if e := stderr.String(); e != "" {
			lines := strings.SplitAfter(e, "\n")
			if len(lines) > 80 {
				lines = append(lines[:80], "... ("+strconv.Itoa(len(lines)-80)+" more lines)\n")
			}
			os.Stderr.WriteString(strings.Join(lines, ""))
		}
	}
	fmt.Printf("c18 summary runs=%d viol=%d errors=%d races=%d truncated=%d secs=%.1f\n",
		tot.runs, tot.viols, tot.errs, tot.races, truncated, time.Since(cfg.start).Seconds())
	os.RemoveAll(scratch)
	if raceEnabled && tot.races > 0 {
		os.Exit(66) // what the race runtime does for a single process
	}
	os.Exit(0)
}

// crashCause condenses the stderr of a child that died: the fatal message and the first library frame.
func crashCause(stderr string) string {
	cause, frame := "", ""
	for _, l := range strings.Split(stderr, "\n") {
		t := strings.TrimSpace(l)
		if cause == "" && (strings.HasPrefix(t, "fatal error:") || strings.HasPrefix(t, "panic:") || strings.HasPrefix(t, "unexpected fault")) {
			cause = t
		}
		if frame == "" && cause != "" && strings.HasPrefix(t, "github.com/basecomplextech/") {
			if p := strings.IndexByte(t, '('); p > 0 {
				// keep "pkg.Func" or "pkg.(*T).Method"
				if q := strings.LastIndex(t, "("); q > p {
					t = t[:q]
				}
			}
			if p := strings.LastIndexByte(t, '/'); p >= 0 {
				t = t[p+1:]
			}
			frame = t
		}
	}
	if cause == "" {
		cause = "no-output"
	}
	return token(cause+"/"+frame, 140)
}
