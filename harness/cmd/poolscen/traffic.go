package main

import (
	"bytes"
	"fmt"
	"sync"
	"time"

	"github.com/basecomplextech/baselibrary/alloc"
	"github.com/basecomplextech/baselibrary/async"
	"github.com/basecomplextech/baselibrary/ref"
	"github.com/basecomplextech/baselibrary/status"
	"github.com/basecomplextech/spec"
	"github.com/basecomplextech/spec/mpx"
	"github.com/basecomplextech/spec/rpc"
	"verif/harness/internal/caplog"
	"verif/harness/internal/hx"
)

// traffic is an mpx echo server with one client connection and an rpc echo server with one client,
// all inside this process: their channel states, call states and frame writers come from the same
// pools as the writers of the programs.
type traffic struct {
	lg    *caplog.Logger
	msrv  mpx.Server
	mconn mpx.Conn
	rsrv  rpc.Server
	rcli  rpc.Client
}

// failRequest asks the echo handler to return an error status.
var failRequest = []byte("\xeefail-request")

// streamRequest (prefix of an rpc payload) asks the rpc echo handler to stream two messages first.
var streamRequest = []byte("\xeestream")

// holdRequest (prefix of an rpc payload) asks the rpc echo handler to answer 15 ms late.
var holdRequest = []byte("\xeehold")

func mpxEcho(ctx mpx.Context, ch mpx.Channel) status.Status {
	for {
		data, st := ch.Receive(ctx)
		if !st.OK() {
			return status.OK
		}
		if bytes.Equal(data, failRequest) {
			// the handler ends with an error status: the library logs it and releases the (pooled)
			// handler object
			return status.Errorf("handler failure requested by the peer")
		}
		if st := ch.Send(ctx, data); !st.OK() {
			return status.OK
		}
	}
}

// rpcEcho answers {1: payload, 2: seq} with {1: payload, 2: seq, 3: method}.
func rpcEcho(ctx rpc.Context, ch rpc.ServerChannel) (ref.R[[]byte], status.Status) {
	req, st := ch.Request(ctx)
	if !st.OK() {
		return nil, st
	}
	call := req.Calls().Get(0)
	in := call.Input()
	if bytes.HasPrefix(in.Bytes(1), holdRequest) {
		// answer late: the caller frees its call while its Response is still pending
		select {
		case <-time.After(15 * time.Millisecond):
		case <-ctx.Wait():
			return nil, ctx.Status()
		}
	}

	if bytes.HasPrefix(in.Bytes(1), streamRequest) {
		// a server-streaming call: two messages, the end of the stream, then the result
		for i := 0; i < 2; i++ {
			if st := ch.Send(ctx, []byte{'s', byte(i), byte(in.Int64(2))}); !st.OK() {
				return nil, st
			}
		}
		if st := ch.SendEnd(ctx); !st.OK() {
			return nil, st
		}
	}

	buf := alloc.AcquireBuffer()
	ok := false
	defer func() {
		if !ok {
			buf.Free()
		}
	}()
	w := spec.NewMessageWriterBuffer(buf)
	w.Field(1).Bytes(in.Bytes(1))
	w.Field(2).Int64(in.Int64(2))
	w.Field(3).String(call.Method().Unwrap())
	b, err := w.Build()
	if err != nil {
		return nil, status.WrapError(err)
	}
	ok = true
	return ref.NewFreer(b, buf), status.OK
}

func waitFlag(f async.Flag, d time.Duration) bool {
	select {
	case <-f.Wait():
		return true
	case <-time.After(d):
		return false
	}
}

func startTraffic() (*traffic, string) {
	t := &traffic{lg: caplog.New()}
	t.msrv = mpx.NewServer("localhost:0", mpx.HandleFunc(mpxEcho), t.lg, mpx.Default())
	if st := t.msrv.Start(); !st.OK() {
		return nil, "mpx-start:" + string(st.Code)
	}
	if !waitFlag(t.msrv.Listening(), 5*time.Second) {
		t.stop()
		return nil, "mpx-listen-timeout"
	}
	conn, st := mpx.Connect(async.TimeoutContext(5*time.Second), t.msrv.Address(), t.lg, mpx.Default())
	if !st.OK() {
		t.stop()
		return nil, "mpx-connect:" + string(st.Code)
	}
	t.mconn = conn

	t.rsrv = rpc.NewServer("localhost:0", rpc.HandleFunc(rpcEcho), t.lg, rpc.Default())
	if st := t.rsrv.Start(); !st.OK() {
		t.stop()
		return nil, "rpc-start:" + string(st.Code)
	}
	if !waitFlag(t.rsrv.Listening(), 5*time.Second) {
		t.stop()
		return nil, "rpc-listen-timeout"
	}
	t.rcli = rpc.NewClient(t.rsrv.Address(), rpc.ClientMode_OnDemand, t.lg, rpc.Default())
	return t, ""
}

func (t *traffic) stop() {
	bounded := func(f func()) {
		done := make(chan struct{})
		go func() {
			defer func() { recover() }()
			defer close(done)
			f()
		}()
		select {
		case <-done:
		case <-time.After(2 * time.Second):
		}
	}
	if t.rcli != nil {
		bounded(func() { t.rcli.Close() })
	}
	if t.mconn != nil {
		bounded(func() {
			t.mconn.Close()
			waitFlag(t.mconn.Closed(), 3*time.Second)
		})
	}
	if t.rsrv != nil {
		bounded(func() { <-t.rsrv.Stop() })
	}
	if t.msrv != nil {
		bounded(func() { <-t.msrv.Stop() })
	}
}

// trafficPlan is the seeded traffic of one burst: payloads per mpx channel and per rpc caller.
type trafficPlan struct {
	mpx [][][]byte
	rpc [][][]byte
}

func makePlan(r *hx.Rand, chans, msgs, callers, calls int) *trafficPlan {
	payload := func() []byte {
		var n int
		switch r.Intn(12) {
		case 0:
			n = 4000 + r.Intn(6000)
		case 1:
			n = 60000 + r.Intn(20000)
		default:
			n = 1 + r.Intn(300)
		}
		return r.Bytes(n)
	}
	p := &trafficPlan{}
	for c := 0; c < chans; c++ {
		var l [][]byte
		for k := 0; k < msgs; k++ {
			l = append(l, payload())
		}
		p.mpx = append(p.mpx, l)
	}
	for c := 0; c < callers; c++ {
		var l [][]byte
		for k := 0; k < calls; k++ {
			l = append(l, payload())
		}
		p.rpc = append(p.rpc, l)
	}
	return p
}

// outcome of a burst: one token per mpx channel and per rpc caller ("ok" or what went wrong first).
type outcome struct {
	tokens []string
	ok     int
}

func (o outcome) String() string {
	bad := ""
	for i, t := range o.tokens {
		if t != "ok" {
			bad = fmt.Sprintf("%d:%s", i, t)
			break
		}
	}
	if bad == "" {
		return "ok"
	}
	return bad
}

func (o outcome) allOK() bool { return o.ok == len(o.tokens) }

func (t *traffic) mpxChannel(msgs [][]byte, timeout time.Duration) (tok string) {
	defer func() {
		if e := recover(); e != nil {
			tok = "panic:" + token(fmt.Sprint(e), 60)
		}
	}()
	ctx := async.TimeoutContext(timeout)
	ch, st := t.mconn.Channel(ctx)
	if !st.OK() {
		return "open:" + string(st.Code)
	}
	defer ch.Free()
	for k, m := range msgs {
		if st := ch.Send(ctx, m); !st.OK() {
			return fmt.Sprintf("send[%d]:%s", k, st.Code)
		}
		data, st := ch.Receive(ctx)
		if !st.OK() {
			return fmt.Sprintf("receive[%d]:%s", k, st.Code)
		}
		if !bytes.Equal(data, m) {
			return fmt.Sprintf("echo-differs[%d]:len=%d/%d", k, len(data), len(m))
		}
	}
	if len(msgs) > 0 && len(msgs[0])%2 == 0 {
		// every other channel ends through a handler error
		if st := ch.Send(ctx, failRequest); !st.OK() {
			return "send[fail]:" + string(st.Code)
		}
		if data, st := ch.Receive(ctx); st.OK() {
			return fmt.Sprintf("fail-request-answered:len=%d", len(data))
		}
	}
	return "ok"
}

func (t *traffic) rpcCaller(id int, payloads [][]byte, timeout time.Duration) (tok string) {
	defer func() {
		if e := recover(); e != nil {
			tok = "panic:" + token(fmt.Sprint(e), 60)
		}
	}()
	ctx := async.TimeoutContext(timeout)
	method := fmt.Sprintf("echo%d", id)
	for k, p := range payloads {
		seq := int64(id)<<32 | int64(k)
		if k%3 == 1 {
			// a call whose owner frees it while another goroutine still waits for its response: the
			// call state is reference counted and must not be recycled under the waiter; the calls
			// that follow must see nothing of it
			if tok := t.rpcFreedPending(ctx, method, seq); tok != "ok" {
				return fmt.Sprintf("freed-pending[%d]:%s", k, tok)
			}
		}
		if k%3 == 2 {
			// a streaming call read to its end: the (pooled) call state of the next call starts afresh
			if tok := t.rpcStreamed(ctx, method, seq); tok != "ok" {
				return fmt.Sprintf("streamed[%d]:%s", k, tok)
			}
		}
		tok := func() string {
			req := rpc.NewRequest()
			defer req.Free()
			call := req.Add(method)
			in := call.Input()
			in.Field(1).Bytes(p)
			in.Field(2).Int64(seq)
			if err := in.End(); err != nil {
				return fmt.Sprintf("build[%d]:%s", k, token(err.Error(), 40))
			}
			if err := call.End(); err != nil {
				return fmt.Sprintf("build[%d]:%s", k, token(err.Error(), 40))
			}
			preq, st := req.Build()
			if !st.OK() {
				return fmt.Sprintf("build[%d]:%s", k, token(st.Message, 40))
			}
			res, st := t.rcli.Request(ctx, preq)
			if !st.OK() {
				return fmt.Sprintf("request[%d]:%s:%s", k, st.Code, token(st.Message, 40))
			}
			defer res.Release()
			m, err := res.Unwrap().MessageErr()
			if err != nil {
				return fmt.Sprintf("result[%d]:%s", k, token(err.Error(), 40))
			}
			if !bytes.Equal(m.Bytes(1), p) || m.Int64(2) != seq || m.String(3).Unwrap() != method {
				return fmt.Sprintf("echo-differs[%d]", k)
			}
			return "ok"
		}()
		if tok != "ok" {
			return tok
		}
	}
	return "ok"
}

// rpcFreedPending opens a call to the late-answering handler, lets a goroutine wait for the
// response and frees the call 2 ms later.
func (t *traffic) rpcFreedPending(ctx async.Context, method string, seq int64) (tok string) {
	req := rpc.NewRequest()
	defer req.Free()
	call := req.Add(method)
	in := call.Input()
	in.Field(1).Bytes(holdRequest)
	in.Field(2).Int64(seq)
	if err := in.End(); err != nil {
		return "build"
	}
	if err := call.End(); err != nil {
		return "build"
	}
	preq, st := req.Build()
	if !st.OK() {
		return "build"
	}
	ch, st := t.rcli.Channel(ctx, preq)
	if !st.OK() {
		return "channel:" + string(st.Code)
	}
	done := make(chan string, 1)
	go func() {
		defer func() {
			if e := recover(); e != nil {
				done <- "panic-in-pending-response:" + token(fmt.Sprint(e), 60)
			}
		}()
		ch.Response(ctx)
		done <- "ok"
	}()
	time.Sleep(2 * time.Millisecond)
	ch.Free()
	select {
	case tok := <-done:
		return tok
	case <-time.After(10 * time.Second):
		return "pending-response-never-returned"
	}
}

// rpcStreamed makes a server-streaming call and reads the stream to its end, then the response.
func (t *traffic) rpcStreamed(ctx async.Context, method string, seq int64) (tok string) {
	req := rpc.NewRequest()
	defer req.Free()
	call := req.Add(method)
	in := call.Input()
	in.Field(1).Bytes(streamRequest)
	in.Field(2).Int64(seq)
	if err := in.End(); err != nil {
		return "build"
	}
	if err := call.End(); err != nil {
		return "build"
	}
	preq, st := req.Build()
	if !st.OK() {
		return "build"
	}
	ch, st := t.rcli.Channel(ctx, preq)
	if !st.OK() {
		return "channel:" + string(st.Code)
	}
	defer ch.Free()
	n := 0
	for {
		msg, st := ch.Receive(ctx)
		if st.Code == status.CodeEnd {
			break
		}
		if !st.OK() {
			return fmt.Sprintf("receive[%d]:%s", n, st.Code)
		}
		if len(msg) != 3 || msg[0] != 's' || int(msg[1]) != n || msg[2] != byte(seq) {
			return fmt.Sprintf("stream-message-differs[%d]", n)
		}
		n++
		if n > 2 {
			return "stream-too-long"
		}
	}
	if n != 2 {
		return fmt.Sprintf("stream-ended-after-%d-of-2-messages", n)
	}
	res, st := ch.Response(ctx)
	if !st.OK() {
		return "response:" + string(st.Code)
	}
	m, err := spec.Value(res).MessageErr()
	if err != nil || m.Int64(2) != seq {
		return "response-differs"
	}
	return "ok"
}

// burst runs the plan: every mpx channel and every rpc caller in its own goroutine. It returns
// when all are done or the timeout (plus a grace period) has passed.
func (t *traffic) burst(p *trafficPlan, timeout time.Duration) (mpxOut, rpcOut outcome, hang bool) {
	mpxOut.tokens = make([]string, len(p.mpx))
	rpcOut.tokens = make([]string, len(p.rpc))
	var mu sync.Mutex
	var wg sync.WaitGroup
	for i := range p.mpx {
		mpxOut.tokens[i] = "hang"
		wg.Add(1)
		go func(i int) {
			defer wg.Done()
			tok := t.mpxChannel(p.mpx[i], timeout)
			mu.Lock()
			mpxOut.tokens[i] = tok
			mu.Unlock()
		}(i)
	}
	for i := range p.rpc {
		rpcOut.tokens[i] = "hang"
		wg.Add(1)
		go func(i int) {
			defer wg.Done()
			tok := t.rpcCaller(i, p.rpc[i], timeout)
			mu.Lock()
			rpcOut.tokens[i] = tok
			mu.Unlock()
		}(i)
	}
	done := make(chan struct{})
	go func() { wg.Wait(); close(done) }()
	select {
	case <-done:
	case <-time.After(timeout + 3*time.Second):
		hang = true
	}
	mu.Lock()
	defer mu.Unlock()
	mpxOut.tokens = append([]string(nil), mpxOut.tokens...)
	rpcOut.tokens = append([]string(nil), rpcOut.tokens...)
	for _, t := range mpxOut.tokens {
		if t == "ok" {
			mpxOut.ok++
		}
	}
	for _, t := range rpcOut.tokens {
		if t == "ok" {
			rpcOut.ok++
		}
	}
	return
}
