package main

import (
	"fmt"
	"strings"

	"verif/harness/internal/hx"
	"verif/harness/internal/tree"
)

// program is one seeded writer program: the call sequence (alphabet of internal/wprog), the writer
// variant it runs on and the goroutine it belongs to.
type program struct {
	text    string
	variant int
	kind    string // valid | fail-stray | fail-parent | fail-double | trunc
	g       int
}

type openHandle struct {
	id   int
	kind byte
}

// openAt returns the stack of open handles after calls[:p] of a valid program.
func openAt(calls []string, p int) []openHandle {
	var st []openHandle
	ctr := 0
	for _, c := range calls[:p] {
		op := strings.SplitN(c, " ", 2)[0]
		if i := strings.IndexByte(op, '@'); i >= 0 {
			op = op[:i]
		}
		switch op {
		case "msg", "fmsg", "emsg":
			st = append(st, openHandle{ctr, 'M'})
			ctr++
		case "list", "flist", "elist":
			st = append(st, openHandle{ctr, 'L'})
			ctr++
		case "end", "build":
			if len(st) > 0 {
				st = st[:len(st)-1]
			}
		}
	}
	return st
}

func insertAt(calls []string, p int, c string) []string {
	out := append([]string{}, calls[:p]...)
	out = append(out, c)
	return append(out, calls[p:]...)
}

// makeProgram derives one program from a generator tree.
//
//	valid        the whole tree, built
//	fail-stray   a stray root value written while containers are open: the writer fails at the next
//	             write or end (Any() with bytes that are no value does not fail: the library copies them)
//	fail-parent  a field/element written to the parent while a child container of the other kind is open
//	fail-double  (scalar roots) a second root value
//	trunc        the program stops midway (the writer is abandoned, then freed if the variant can)
//
// avoidPoolFail keeps failing programs off the pooled variants, avoidPoolFree never frees a pooled writer.
func makeProgram(r *hx.Rand, tg *tree.Gen, g int, avoidPoolFail, avoidPoolFree bool) program {
	var node *tree.Node
	switch r.Intn(10) {
	case 0:
		node = tg.Deep(1 + r.Intn(20))
	case 1:
		tg.BigProb = 4
		tg.Budget = 40000
		node = tg.Tree(1 + r.Intn(3))
		tg.BigProb = 0
	default:
		tg.Budget = 40000
		node = tg.Tree(1 + r.Intn(4))
	}
	calls := strings.Split(tree.Program(node), ";")
	scalarRoot := strings.HasPrefix(calls[0], "v ")
	kind := "valid"
	switch r.Intn(10) {
	case 0, 1:
		kind = "fail-stray"
	case 2:
		kind = "fail-parent"
	case 3, 4:
		kind = "trunc"
	}
	if scalarRoot && kind != "valid" {
		kind = "fail-double"
		if r.Intn(2) == 0 {
			kind = "trunc"
		}
	}
	switch kind {
	case "fail-stray":
		calls = insertAt(calls, 1+r.Intn(len(calls)-1), "v i32 5")
	case "fail-parent":
		// positions with at least two open containers
		var cand []int
		for p := 2; p < len(calls); p++ {
			// the library resolves a write through any handle against the innermost open container:
			// it fails only when that container is of the other kind
			if st := openAt(calls, p); len(st) >= 2 && st[len(st)-1].kind != st[len(st)-2].kind {
				cand = append(cand, p)
			}
		}
		if len(cand) == 0 {
			kind = "fail-stray"
			calls = insertAt(calls, 1+r.Intn(len(calls)-1), "v i32 5")
			break
		}
		p := cand[r.Intn(len(cand))]
		st := openAt(calls, p)
		parent := st[len(st)-2]
		if parent.kind == 'M' {
			calls = insertAt(calls, p, fmt.Sprintf("f@%d 9 i32 5", parent.id))
		} else {
			calls = insertAt(calls, p, fmt.Sprintf("e@%d i32 5", parent.id))
		}
	case "fail-double":
		calls = insertAt(calls, 1, calls[0])
	case "trunc":
		calls = calls[:1+r.Intn(len(calls)-1)]
	}

	// a handle that outlived its message: one program in four with a message root calls through the
	// root handle after Build. The library answers "closed writer" and, above all, the call never
	// reaches the pooled writer, which by then may serve another goroutine.
	if kind == "valid" && calls[0] == "msg" && calls[len(calls)-1] == "build@0" && r.Intn(4) == 0 {
		calls = append(calls, "f@0 9 i32 5")
	}

	// the variant must be able to run the program's root
	var variant int
	for {
		variant = r.Intn(nVariants)
		// a pooled list writer has no Writer handle: neither root values nor Free
		if variant == vPooledList && (calls[0] != "list" || kind == "fail-stray") {
			continue
		}
		if avoidPoolFail && pooledVariant(variant) && strings.HasPrefix(kind, "fail") {
			continue
		}
		break
	}
	switch variant {
	case vReused:
		calls = append([]string{"reset"}, calls...)
	case vOwned, vOwnedNoBuf, vReleasedMsg:
		// owned writers are freed by their owner, whatever happened
		calls = append(calls, "free")
	case vPooledMsg:
		// a pooled writer is released by the library when the root ends; the program frees it only
		// when that did not happen
		if kind != "valid" && !avoidPoolFree {
			calls = append(calls, "free")
		}
	}
	return program{text: strings.Join(calls, ";"), variant: variant, kind: kind, g: g}
}

// firstCall is the first call that is not the reset prefix.
func (p *program) firstCall() string {
	calls := strings.SplitN(p.text, ";", 3)
	if calls[0] == "reset" && len(calls) > 1 {
		return calls[1]
	}
	return calls[0]
}
