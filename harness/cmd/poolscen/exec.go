package main

import (
	"fmt"
	"math"
	"strconv"
	"strings"
	"sync"
	"unsafe"

	"github.com/basecomplextech/baselibrary/bin"
	"github.com/basecomplextech/baselibrary/buffer"
	"github.com/basecomplextech/spec"
	"verif/harness/internal/hx"
)

// Writer variants: the ways the library hands out writers.
const (
	vOwned       = iota // spec.NewWriterBuffer(buf), freed by the program
	vOwnedNoBuf         // spec.NewWriter(), freed by the program
	vReused             // one spec.NewWriterBuffer writer per goroutine, Reset before every program
	vPooledMsg          // spec.NewMessageWriterBuffer(buf): pooled writer, released by the library on root end
	vPooledList         // spec.NewListWriterBuffer(buf)
	vPooledValue        // spec.NewValueWriterBuffer(buf)
	vReleasedMsg        // spec.NewMessageWriter(): own buffer, state released on root end
	nVariants
)

var variantNames = [nVariants]string{"owned", "owned-nobuf", "reused", "pooled-msg", "pooled-list", "pooled-value", "released-msg"}

// pooledVariant: the library takes the writer back by itself when the root ends (or on Free); the
// program must not touch it afterwards.
func pooledVariant(v int) bool { return v == vPooledMsg || v == vPooledList || v == vPooledValue }

// registry knows which writer objects are in use by which program. A constructor that returns an
// object that is registered has handed an object in use to somebody else.
type registry struct {
	mu    sync.Mutex
	inUse map[unsafe.Pointer]int
}

func newRegistry() *registry { return &registry{inUse: map[unsafe.Pointer]int{}} }

// acquire registers p for program prog; it returns the program that holds p already, or -1.
func (r *registry) acquire(p unsafe.Pointer, prog int) int {
	r.mu.Lock()
	defer r.mu.Unlock()
	if q, ok := r.inUse[p]; ok {
		return q
	}
	r.inUse[p] = prog
	return -1
}

func (r *registry) release(p unsafe.Pointer, prog int) {
	r.mu.Lock()
	defer r.mu.Unlock()
	if q, ok := r.inUse[p]; ok && q == prog {
		delete(r.inUse, p)
	}
}

// The writer handles are structs of one pointer to the writer object; spec.Writer is an interface
// holding the same pointer.
func ptrOfWriter(w spec.Writer) unsafe.Pointer {
	return (*[2]unsafe.Pointer)(unsafe.Pointer(&w))[1]
}
func ptrOfMsg(m spec.MessageWriter) unsafe.Pointer { return *(*unsafe.Pointer)(unsafe.Pointer(&m)) }
func ptrOfList(l spec.ListWriter) unsafe.Pointer   { return *(*unsafe.Pointer)(unsafe.Pointer(&l)) }
func ptrOfValue(v spec.ValueWriter) unsafe.Pointer { return *(*unsafe.Pointer)(unsafe.Pointer(&v)) }

// gstate is the state of one (real or virtual) goroutine: its reused writer.
type gstate struct {
	buf buffer.Buffer
	w   spec.Writer
}

type handle struct {
	msg  *spec.MessageWriter
	list spec.ListWriter
	kind byte // 'M' or 'L'
}

// result of one program; the same fields as wprog.Result plus what only this interpreter sees.
type result struct {
	tokens []string
	bytes  []byte
	built  bool
	leaks  []string // state-leak findings at acquisition
	panics []string
}

// interp executes the call alphabet of internal/wprog (same tokens) on a writer obtained through one
// of the variants. Differences to wprog.Interp: the root handle can be the one a pooled constructor
// returned, and a pooled writer is not touched after the library took it back.
type interp struct {
	variant  int
	prog     int
	reg      *registry
	ptr      unsafe.Pointer
	buf      buffer.Buffer
	w        spec.Writer // nil for pooled-list / pooled-value (these constructors return no Writer)
	rootM    *spec.MessageWriter
	rootL    *spec.ListWriter
	rootV    *spec.ValueWriter
	errL     *spec.ListWriter // pooled-value with a list root: the handle that can report Err()
	released bool
	handles  []*handle
	errs     map[error]int
	res      result
}

// newInterp obtains the writer for a program. first is the first call of the program.
func newInterp(variant, prog int, first string, g *gstate, reg *registry) *interp {
	it := &interp{variant: variant, prog: prog, reg: reg, errs: map[error]int{}}
	leak := func(format string, a ...any) { it.res.leaks = append(it.res.leaks, fmt.Sprintf(format, a...)) }
	defer func() {
		if e := recover(); e != nil {
			it.res.panics = append(it.res.panics, "acquire:"+fmt.Sprint(e))
		}
	}()
	switch variant {
	case vOwned:
		it.buf = buffer.New()
		it.w = spec.NewWriterBuffer(it.buf)
		it.ptr = ptrOfWriter(it.w)
	case vOwnedNoBuf:
		it.w = spec.NewWriter()
		it.ptr = ptrOfWriter(it.w)
	case vReused:
		if g.w == nil {
			g.buf = buffer.New()
			g.w = spec.NewWriterBuffer(g.buf)
			if q := reg.acquire(ptrOfWriter(g.w), -2-prog); q != -1 {
				leak("new-writer-is-in-use-by-prog=%d", q)
			}
		}
		it.buf, it.w = g.buf, g.w
		// registered for the goroutine's life by the branch above
	case vPooledMsg:
		it.buf = buffer.New()
		m := spec.NewMessageWriterBuffer(it.buf)
		it.w = m.Unwrap()
		it.ptr = ptrOfMsg(m)
		if q := reg.acquire(it.ptr, prog); q != -1 {
			leak("pooled-writer-is-in-use-by-prog=%d", q)
			it.ptr = nil
		}
		if err := it.w.Err(); err != nil {
			leak("fresh-writer-has-error:%s", token(err.Error(), 40))
		}
		for _, t := range []uint16{1, 2, 3, 255, 256, 65535} {
			if m.HasField(t) {
				leak("fresh-message-has-field=%d", t)
			}
		}
		if it.buf.Len() != 0 {
			leak("fresh-buffer-not-empty")
		}
		if first == "msg" {
			it.rootM = &m
		} else {
			// undo the root message the constructor has begun
			it.w.Reset(it.buf)
		}
	case vPooledList:
		it.buf = buffer.New()
		l := spec.NewListWriterBuffer(it.buf)
		it.ptr = ptrOfList(l)
		if q := reg.acquire(it.ptr, prog); q != -1 {
			leak("pooled-writer-is-in-use-by-prog=%d", q)
			it.ptr = nil
		}
		if err := l.Err(); err != nil {
			leak("fresh-writer-has-error:%s", token(err.Error(), 40))
		}
		if n := l.Len(); n != 0 {
			leak("fresh-list-has-len=%d", n)
		}
		it.rootL = &l
	case vPooledValue:
		it.buf = buffer.New()
		v := spec.NewValueWriterBuffer(it.buf)
		it.ptr = ptrOfValue(v)
		if q := reg.acquire(it.ptr, prog); q != -1 {
			leak("pooled-writer-is-in-use-by-prog=%d", q)
			it.ptr = nil
		}
		it.rootV = &v
	case vReleasedMsg:
		m := spec.NewMessageWriter()
		it.w = m.Unwrap()
		it.ptr = ptrOfMsg(m)
		if err := it.w.Err(); err != nil {
			leak("fresh-writer-has-error:%s", token(err.Error(), 40))
		}
		for _, t := range []uint16{1, 2, 3, 255, 256, 65535} {
			if m.HasField(t) {
				leak("fresh-message-has-field=%d", t)
			}
		}
		if first == "msg" {
			it.rootM = &m
		} else {
			it.buf = buffer.New()
			it.w.Reset(it.buf)
		}
	}
	if (variant == vOwned || variant == vOwnedNoBuf || variant == vReleasedMsg) && it.ptr != nil {
		if q := reg.acquire(it.ptr, prog); q != -1 {
			leak("new-writer-is-in-use-by-prog=%d", q)
			it.ptr = nil
		}
		if err := it.w.Err(); err != nil {
			leak("fresh-writer-has-error:%s", token(err.Error(), 40))
		}
	}
	return it
}

// done ends the program's claim on its writer.
func (it *interp) done() {
	if it.ptr != nil {
		it.reg.release(it.ptr, it.prog)
		it.ptr = nil
	}
}

func (it *interp) errTok(idx int, err error) string {
	if err == nil {
		return "ok"
	}
	if err.Error() == "operation on closed writer" {
		return "ec"
	}
	k, ok := it.errs[err]
	if !ok {
		k = idx
		it.errs[err] = idx
	}
	return "e" + strconv.Itoa(k)
}

// curErr reads the writer's error through whatever handle the variant has.
func (it *interp) curErr() error {
	switch {
	case it.w != nil:
		return it.w.Err()
	case it.rootL != nil:
		return it.rootL.Err()
	case it.errL != nil:
		return it.errL.Err()
	}
	return nil
}

// run executes all calls of the program.
func (it *interp) run(prog string) result {
	calls := strings.Split(prog, ";")
	for i, c := range calls {
		// The library takes a pooled writer back inside these calls: the claim ends before them.
		if pooledVariant(it.variant) && (c == "build@0" || c == "vbuild" || c == "end@0" || c == "free") {
			it.done()
		}
		tok := it.call(i, c)
		it.res.tokens = append(it.res.tokens, tok)
		if c == "free" || (pooledVariant(it.variant) && (c == "build@0" || c == "vbuild" || c == "end@0") && (tok == "ok" || strings.HasPrefix(tok, "ok:"))) {
			it.released = true
		}
		if it.released {
			continue
		}
		// an error raised by a call that does not return it is attributed to that call
		func() {
			defer func() { recover() }()
			if err := it.curErr(); err != nil {
				it.errTok(i, err)
			}
		}()
	}
	if it.variant != vReused {
		it.done()
	}
	return it.res
}

func (it *interp) value() spec.ValueWriter {
	if it.rootV != nil {
		return *it.rootV
	}
	return it.w.Value()
}

func (it *interp) call(idx int, c string) (tok string) {
	defer func() {
		if e := recover(); e != nil {
			it.res.panics = append(it.res.panics, fmt.Sprintf("call=%d:%s:%v", idx, strings.SplitN(c, " ", 2)[0], e))
			tok = "p"
		}
	}()
	parts := strings.Split(c, " ")
	op := parts[0]
	args := parts[1:]
	var h *handle
	if i := strings.IndexByte(op, '@'); i >= 0 {
		k, err := strconv.Atoi(op[i+1:])
		if err != nil || k < 0 || k >= len(it.handles) {
			return "bad-op"
		}
		h = it.handles[k]
		op = op[:i]
	}
	needM := func() bool { return h != nil && h.kind == 'M' }
	needL := func() bool { return h != nil && h.kind == 'L' }
	newM := func(m spec.MessageWriter) {
		it.handles = append(it.handles, &handle{msg: &m, kind: 'M'})
	}
	newL := func(l spec.ListWriter) {
		it.handles = append(it.handles, &handle{list: l, kind: 'L'})
	}
	switch op {
	case "msg":
		switch {
		case it.rootM != nil && len(it.handles) == 0:
			it.handles = append(it.handles, &handle{msg: it.rootM, kind: 'M'})
		case it.rootV != nil:
			m := it.rootV.Message()
			if it.w == nil {
				it.w = m.Unwrap() // for Err(); a pooled value writer gives no other access to it
			}
			newM(m)
		default:
			newM(it.w.Message())
		}
		return "ok"
	case "list":
		switch {
		case it.rootL != nil && len(it.handles) == 0:
			it.handles = append(it.handles, &handle{list: *it.rootL, kind: 'L'})
		case it.rootV != nil:
			l := it.rootV.List()
			if it.w == nil && it.rootL == nil {
				it.errL = &l // for Err()
			}
			newL(l)
		default:
			newL(it.w.List())
		}
		return "ok"
	case "v":
		if len(args) != 2 {
			return "bad-op"
		}
		return it.errTok(idx, scalar(it.value(), args[0], args[1]))
	case "vany":
		b, ok := hx.Unhex(args[0])
		if !ok {
			return "bad-op"
		}
		return it.errTok(idx, it.value().Any(b))
	case "vbuild":
		b, err := it.value().Build()
		return it.built(idx, b, err)
	case "f":
		if !needM() || len(args) != 3 {
			return "bad-op"
		}
		tag, _ := strconv.Atoi(args[0])
		return it.errTok(idx, scalar(h.msg.Field(uint16(tag)), args[1], args[2]))
	case "fany":
		if !needM() || len(args) != 2 {
			return "bad-op"
		}
		tag, _ := strconv.Atoi(args[0])
		b, ok := hx.Unhex(args[1])
		if !ok {
			return "bad-op"
		}
		return it.errTok(idx, h.msg.Field(uint16(tag)).Any(b))
	case "fmsg":
		if !needM() {
			return "bad-op"
		}
		tag, _ := strconv.Atoi(args[0])
		newM(h.msg.Field(uint16(tag)).Message())
		return "ok"
	case "flist":
		if !needM() {
			return "bad-op"
		}
		tag, _ := strconv.Atoi(args[0])
		newL(h.msg.Field(uint16(tag)).List())
		return "ok"
	case "has":
		if !needM() {
			return "bad-op"
		}
		tag, _ := strconv.Atoi(args[0])
		return fmt.Sprint(h.msg.HasField(uint16(tag)))
	case "e":
		if !needL() || len(args) != 2 {
			return "bad-op"
		}
		return it.errTok(idx, scalar(h.list, args[0], args[1]))
	case "eany":
		if !needL() {
			return "bad-op"
		}
		b, ok := hx.Unhex(args[0])
		if !ok {
			return "bad-op"
		}
		return it.errTok(idx, h.list.Any(b))
	case "emsg":
		if !needL() {
			return "bad-op"
		}
		newM(h.list.Message())
		return "ok"
	case "elist":
		if !needL() {
			return "bad-op"
		}
		newL(h.list.List())
		return "ok"
	case "len":
		if !needL() {
			return "bad-op"
		}
		return strconv.Itoa(h.list.Len())
	case "end":
		if h == nil {
			return "bad-op"
		}
		if h.kind == 'M' {
			return it.errTok(idx, h.msg.End())
		}
		return it.errTok(idx, h.list.End())
	case "build":
		if h == nil {
			return "bad-op"
		}
		if h.kind == 'M' {
			b, err := h.msg.Build()
			return it.built(idx, b, err)
		}
		b, err := h.list.Build()
		return it.built(idx, b, err)
	case "err":
		return it.errTok(idx, it.curErr())
	case "reset":
		if it.w == nil || it.buf == nil {
			return "bad-op"
		}
		it.buf.Reset()
		it.w.Reset(it.buf)
		return "ok"
	case "free":
		if it.w == nil {
			return "bad-op"
		}
		it.w.Free()
		return "ok"
	}
	return "bad-op"
}

func (it *interp) built(idx int, b []byte, err error) string {
	if err != nil {
		return it.errTok(idx, err)
	}
	it.res.bytes = append([]byte(nil), b...)
	it.res.built = true
	return "ok:" + strconv.Itoa(len(b))
}

type scalarWriter interface {
	Bool(bool) error
	Byte(byte) error
	Int16(int16) error
	Int32(int32) error
	Int64(int64) error
	Uint16(uint16) error
	Uint32(uint32) error
	Uint64(uint64) error
	Float32(float32) error
	Float64(float64) error
	Bin64(bin.Bin64) error
	Bin128(bin.Bin128) error
	Bin256(bin.Bin256) error
	Bytes([]byte) error
	String(string) error
}

func scalar(w scalarWriter, kind, arg string) error {
	switch kind {
	case "bool":
		return w.Bool(arg == "true")
	case "byte":
		v, _ := strconv.ParseUint(arg, 10, 8)
		return w.Byte(byte(v))
	case "i16":
		v, _ := strconv.ParseInt(arg, 10, 16)
		return w.Int16(int16(v))
	case "i32":
		v, _ := strconv.ParseInt(arg, 10, 32)
		return w.Int32(int32(v))
	case "i64":
		v, _ := strconv.ParseInt(arg, 10, 64)
		return w.Int64(v)
	case "u16":
		v, _ := strconv.ParseUint(arg, 10, 16)
		return w.Uint16(uint16(v))
	case "u32":
		v, _ := strconv.ParseUint(arg, 10, 32)
		return w.Uint32(uint32(v))
	case "u64":
		v, _ := strconv.ParseUint(arg, 10, 64)
		return w.Uint64(v)
	case "f32":
		v, _ := strconv.ParseUint(arg, 10, 32)
		return w.Float32(math.Float32frombits(uint32(v)))
	case "f64":
		v, _ := strconv.ParseUint(arg, 10, 64)
		return w.Float64(math.Float64frombits(v))
	case "bin64":
		b, _ := hx.Unhex(arg)
		x, _ := bin.Parse64(b)
		return w.Bin64(x)
	case "bin128":
		b, _ := hx.Unhex(arg)
		x, _ := bin.Parse128(b)
		return w.Bin128(x)
	case "bin256":
		b, _ := hx.Unhex(arg)
		x, _ := bin.Parse256(b)
		return w.Bin256(x)
	case "bytes":
		b, _ := hx.Unhex(arg)
		return w.Bytes(b)
	case "str":
		b, _ := hx.Unhex(arg)
		return w.String(string(b))
	}
	panic("bad kind " + kind)
}

// token makes a text safe to embed in a key=value line.
func token(s string, max int) string {
	s = strings.Map(func(r rune) rune {
		if r <= ' ' || r == 0x7f {
			return '_'
		}
		return r
	}, s)
	if len(s) > max {
		s = s[:max]
	}
	if s == "" {
		s = "-"
	}
	return s
}
