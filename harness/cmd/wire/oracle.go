package main

import (
	"bytes"
	"fmt"
	"math"
	"strconv"
	"strings"

	"github.com/basecomplextech/baselibrary/buffer"
	"github.com/basecomplextech/spec"
	"verif/harness/internal/hx"
	"verif/harness/internal/rd"
)

// rtOp is the Go-only oracle of C10: encode, decode through every reader of the family (bare and
// behind a prefix), and compare with the property directly. Prints "ok" or "VIOL <what>".
func rtOp(op, arg string) string {
	kind := strings.TrimPrefix(op, "rt_")
	prefixes := [][]byte{nil, {1, 2, 0xfd}, {0xff, 0xfe}}
	var bad []string
	fail := func(f string, a ...any) { bad = append(bad, fmt.Sprintf(f, a...)) }

	type intReader struct {
		name   string
		lo, hi int64
		f      func([]byte) (int64, int, error)
	}
	intReaders := []intReader{
		{"i16", math.MinInt16, math.MaxInt16, func(b []byte) (int64, int, error) { v, n, e := spec.DecodeInt16(b); return int64(v), n, e }},
		{"i32", math.MinInt32, math.MaxInt32, func(b []byte) (int64, int, error) { v, n, e := spec.DecodeInt32(b); return int64(v), n, e }},
		{"i64", math.MinInt64, math.MaxInt64, func(b []byte) (int64, int, error) { return spec.DecodeInt64(b) }},
	}
	type uintReader struct {
		name string
		hi   uint64
		f    func([]byte) (uint64, int, error)
	}
	uintReaders := []uintReader{
		{"u16", math.MaxUint16, func(b []byte) (uint64, int, error) { v, n, e := spec.DecodeUint16(b); return uint64(v), n, e }},
		{"u32", math.MaxUint32, func(b []byte) (uint64, int, error) { v, n, e := spec.DecodeUint32(b); return uint64(v), n, e }},
		{"u64", math.MaxUint64, func(b []byte) (uint64, int, error) { return spec.DecodeUint64(b) }},
	}

	switch kind {
	case "i16", "i32", "i64":
		v, err := strconv.ParseInt(arg, 10, 64)
		if err != nil {
			return "bad-op"
		}
		enc := encInt(kind, v)
		for _, p := range prefixes {
			in := append(append([]byte{}, p...), enc...)
			for _, r := range intReaders {
				got, n, err := r.f(in)
				if v >= r.lo && v <= r.hi {
					if err != nil || got != v || n != len(enc) {
						fail("%s->%s got=%d n=%d err=%v", kind, r.name, got, n, err)
					}
				} else if err == nil || !strings.Contains(err.Error(), "overflow") {
					fail("%s->%s expected overflow got=%d err=%v", kind, r.name, got, err)
				}
			}
		}
	case "u16", "u32", "u64":
		v, err := strconv.ParseUint(arg, 10, 64)
		if err != nil {
			return "bad-op"
		}
		enc := encUint(kind, v)
		for _, p := range prefixes {
			in := append(append([]byte{}, p...), enc...)
			for _, r := range uintReaders {
				got, n, err := r.f(in)
				if v <= r.hi {
					if err != nil || got != v || n != len(enc) {
						fail("%s->%s got=%d n=%d err=%v", kind, r.name, got, n, err)
					}
				} else if err == nil || !strings.Contains(err.Error(), "overflow") {
					fail("%s->%s expected overflow got=%d err=%v", kind, r.name, got, err)
				}
			}
		}
	case "f32":
		bits, err := strconv.ParseUint(arg, 10, 32)
		if err != nil {
			return "bad-op"
		}
		x := math.Float32frombits(uint32(bits))
		buf := buffer.New()
		nw, _ := spec.EncodeFloat32(buf, x)
		for _, p := range prefixes {
			in := append(append([]byte{}, p...), buf.Bytes()...)
			got, n, err := spec.DecodeFloat32(in)
			if err != nil || n != nw || !(math.Float32bits(got) == uint32(bits) || (x != x && got != got)) {
				fail("f32->f32 got=%x n=%d err=%v", math.Float32bits(got), n, err)
			}
			got64, n, err := spec.DecodeFloat64(in)
			if err != nil || n != nw || !(got64 == float64(x) && math.Signbit(got64) == math.Signbit(float64(x)) || (x != x && got64 != got64)) {
				fail("f32->f64 got=%v n=%d err=%v", got64, n, err)
			}
		}
	case "f64":
		bits, err := strconv.ParseUint(arg, 10, 64)
		if err != nil {
			return "bad-op"
		}
		y := math.Float64frombits(bits)
		buf := buffer.New()
		nw, _ := spec.EncodeFloat64(buf, y)
		for _, p := range prefixes {
			in := append(append([]byte{}, p...), buf.Bytes()...)
			got, n, err := spec.DecodeFloat64(in)
			if err != nil || n != nw || math.Float64bits(got) != bits {
				fail("f64->f64 got=%x n=%d err=%v", math.Float64bits(got), n, err)
			}
			got32, n, err := spec.DecodeFloat32(in)
			representable := y != y || math.IsInf(y, 0) || math.Abs(y) <= math.MaxFloat32
			if representable {
				want := float32(y)
				if err != nil || n != nw || !(math.Float32bits(got32) == math.Float32bits(want) || (want != want && got32 != got32)) {
					fail("f64->f32 got=%v want=%v n=%d err=%v", got32, want, n, err)
				}
			} else if err == nil || !strings.Contains(err.Error(), "overflow") {
				fail("f64->f32 expected overflow got=%v err=%v", got32, err)
			}
		}
	case "bytes", "str":
		v, ok := hx.Unhex(arg)
		if !ok {
			return "bad-op"
		}
		buf := buffer.New()
		var nw int
		if kind == "bytes" {
			nw, _ = spec.EncodeBytes(buf, v)
		} else {
			nw, _ = spec.EncodeString(buf, string(v))
		}
		if nw != buf.Len() {
			fail("%s reported=%d appended=%d", kind, nw, buf.Len())
		}
		for _, p := range prefixes {
			in := append(append([]byte{}, p...), buf.Bytes()...)
			if kind == "bytes" {
				got, n, err := spec.DecodeBytes(in)
				if err != nil || n != nw || !bytes.Equal(got, v) {
					fail("bytes n=%d err=%v", n, err)
				}
			} else {
				got, n, err := spec.DecodeString(in)
				if err != nil || n != nw || string(got) != string(v) {
					fail("str n=%d err=%v", n, err)
				}
			}
		}
	default:
		return "bad-op"
	}
	if len(bad) > 0 {
		return "VIOL " + strings.Join(bad, "; ")
	}
	return "ok"
}

var c13Prefixes = [][]byte{{0xfd}, {0xfe, 0xfe}, {0xff, 0xff, 0xff}, {1, 2, 0xfd}, {0x00}, {7, 0xfe, 0xff, 0xfd, 3}}

// c13Op is the Go-only oracle of C13 (and the same composite the Lean driver evaluates on the model).
func c13Op(b []byte) (out string) {
	defer func() {
		if e := recover(); e != nil {
			out = "VIOL parse-panic"
		}
	}()
	_, n, err := spec.ParseValue(b)
	if err != nil {
		return "rejected"
	}
	v := b[len(b)-n:]
	var bad []string
	add := func(s string) {
		for _, x := range bad {
			if x == s {
				return
			}
		}
		bad = append(bad, s)
	}
	if t, m, err := spec.DecodeTypeSize(b); err != nil {
		add("probe-rejects")
	} else if m != n || byte(t) != b[len(b)-1] {
		add("probe-size")
	}
	func() {
		defer func() {
			if e := recover(); e != nil {
				add("open-fails")
			}
		}()
		o := spec.OpenValue(b)
		if !bytes.Equal(o, v) {
			add("open-differs")
		}
	}()
	func() {
		defer func() {
			if e := recover(); e != nil {
				add("reparse-fails")
			}
		}()
		if _, m, err := spec.ParseValue(v); err != nil {
			add("reparse-fails")
		} else if m != n {
			add("reparse-size")
		}
	}()
	w := rd.Walk(v, v)
	if strings.Contains(w, "!") || strings.Contains(w, "PANIC") {
		add("reread-error")
	}
	if what := typedOpenDiffers(b, v, 0); what != "" {
		add("typed-open-" + what)
	}
	for _, p := range c13Prefixes {
		pb := append(append([]byte{}, p...), v...)
		func() {
			defer func() {
				if e := recover(); e != nil {
					add("prefix-parse-fails")
				}
			}()
			if _, m, err := spec.ParseValue(pb); err != nil {
				add("prefix-parse-fails")
			} else if m != n {
				add("prefix-parse-size")
			}
		}()
		if rd.Walk(pb, pb) != w {
			add("prefix-walk-differs")
		}
	}
	if len(bad) == 0 {
		return "accepted " + strconv.Itoa(n)
	}
	return "VIOL " + strings.Join(bad, " ")
}

// typedOpenDiffers: the non-recursive typed opens (OpenMessage/OpenList, with and without an error
// result, and Value.Message/List) delimit an accepted list or message as the parser did: their
// Raw() is the parsed value v; the same holds for every nested list and message. in is the input
// the value is the suffix of (a prefix may precede it).
func typedOpenDiffers(in, v []byte, depth int) (what string) {
	defer func() {
		if e := recover(); e != nil {
			what = "panics"
		}
	}()
	if len(v) == 0 || depth > 64 {
		return ""
	}
	switch spec.Type(v[len(v)-1]) {
	case spec.TypeMessage, spec.TypeBigMessage:
		m := spec.OpenMessage(in)
		if !bytes.Equal(m.Raw(), v) {
			return "message-differs"
		}
		if m2, err := spec.OpenMessageErr(in); err != nil || !bytes.Equal(m2.Raw(), v) {
			return "message-err-differs"
		}
		if !bytes.Equal(spec.Value(in).Message().Raw(), v) {
			return "value-message-differs"
		}
		for i := 0; i < m.Fields() && i < 300; i++ {
			if w := typedOpenNested(m.FieldAt(i), depth); w != "" {
				return w
			}
		}
	case spec.TypeList, spec.TypeBigList:
		l := spec.OpenList(in)
		if !bytes.Equal(l.Raw(), v) {
			return "list-differs"
		}
		if l2, err := spec.OpenListErr(in); err != nil || !bytes.Equal(l2.Raw(), v) {
			return "list-err-differs"
		}
		if !bytes.Equal(spec.Value(in).List().Raw(), v) {
			return "value-list-differs"
		}
		for i := 0; i < l.Len() && i < 300; i++ {
			if w := typedOpenNested(l.Get(i), depth); w != "" {
				return w
			}
		}
	}
	return ""
}

// typedOpenNested: a nested field or element is the suffix of its slot that the parser delimits
// (bytes may precede it inside the slot).
func typedOpenNested(slot []byte, depth int) string {
	if len(slot) == 0 {
		return ""
	}
	_, n, err := spec.ParseValue(slot)
	if err != nil || n < 0 || n > len(slot) {
		return "" // reported by the re-read check
	}
	return typedOpenDiffers(slot, slot[len(slot)-n:], depth+1)
}
