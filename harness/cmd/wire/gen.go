package main

import (
	"bufio"
	"encoding/json"
	"fmt"
	"math"
	"os"
	"strconv"

	"github.com/basecomplextech/baselibrary/buffer"
	"github.com/basecomplextech/spec"
	"verif/harness/internal/hx"
	"verif/harness/internal/tree"
	"verif/harness/internal/wprog"
)

// gen <suite> <seed> <tier> <stats.json>: writes op lines to stdout and the input distribution to
// the stats file.

var decodeOps = []string{"bool", "byte", "i16", "i32", "i64", "u16", "u32", "u64", "f32", "f64",
	"bin64", "bin128", "bin256", "bytes", "str", "struct", "ltab", "mtab", "type", "typesize",
	"open", "parse", "parselist", "parsemsg", "walk"}

type genState struct {
	out   *bufio.Writer
	r     *hx.Rand
	stats map[string]int
	lines int
	thor  bool
}

func (g *genState) emit(cat, op, arg string) {
	g.out.WriteString(op)
	g.out.WriteByte(' ')
	g.out.WriteString(arg)
	g.out.WriteByte('\n')
	g.stats[cat]++
	g.lines++
}

func genMain(args []string) {
	if len(args) != 4 {
		fmt.Fprintln(os.Stderr, "usage: wire gen <suite> <seed> <tier> <stats.json>")
		os.Exit(2)
	}
	seed, _ := strconv.ParseUint(args[1], 10, 64)
	g := &genState{
		out:   bufio.NewWriterSize(os.Stdout, 1<<20),
		r:     hx.NewRand(seed),
		stats: map[string]int{},
		thor:  args[2] == "thorough",
	}
	switch args[0] {
	case "c10":
		g.genC10()
	case "c02":
		g.genC02()
	case "c13":
		g.genC13()
	default:
		fmt.Fprintln(os.Stderr, "unknown suite")
		os.Exit(2)
	}
	g.out.Flush()
	g.stats["_lines"] = g.lines
	js, _ := json.Marshal(g.stats)
	os.WriteFile(args[3], js, 0o644)
}

// prefixes that look like varint continuations / markers
func (g *genState) prefix() []byte {
	switch g.r.Intn(6) {
	case 0:
		return []byte{0xfd}
	case 1:
		return []byte{0xfe, 0xfe}
	case 2:
		return []byte{0xff, 0xff, 0xff}
	case 3:
		return []byte{1, 2, 0xfd}
	case 4:
		return g.r.Bytes(1 + g.r.Intn(9))
	}
	return []byte{0x00}
}

func encInt(kind string, v int64) []byte {
	buf := buffer.New()
	switch kind {
	case "i16":
		spec.EncodeInt16(buf, int16(v))
	case "i32":
		spec.EncodeInt32(buf, int32(v))
	case "i64":
		spec.EncodeInt64(buf, v)
	}
	return buf.Bytes()
}

func encUint(kind string, v uint64) []byte {
	buf := buffer.New()
	switch kind {
	case "u16":
		spec.EncodeUint16(buf, uint16(v))
	case "u32":
		spec.EncodeUint32(buf, uint32(v))
	case "u64":
		spec.EncodeUint64(buf, v)
	}
	return buf.Bytes()
}

func (g *genState) decodeAll(cat string, readers []string, b []byte) {
	for _, rd := range readers {
		g.emit(cat, rd, hx.Hex(b))
	}
}

func (g *genState) genC10() {
	ints := []string{"i16", "i32", "i64"}
	uints := []string{"u16", "u32", "u64"}
	// exhaustive small domains
	g.emit("bool", "e_bool", "true")
	g.emit("bool", "e_bool", "false")
	g.decodeAll("bool", []string{"bool"}, []byte{1})
	g.decodeAll("bool", []string{"bool"}, []byte{2})
	for v := 0; v < 256; v++ {
		g.emit("byte", "e_byte", strconv.Itoa(v))
		g.decodeAll("byte", []string{"byte"}, []byte{byte(v), 3})
		g.decodeAll("byte-prefixed", []string{"byte"}, append(g.prefix(), byte(v), 3))
	}
	// int16 / uint16: every value; every (stored width x read width) pair
	stride := 1
	if !g.thor {
		stride = 7 // cross-width pairs on every 7th value plus all boundaries in the quick tier
	}
	for v := -32768; v <= 32767; v++ {
		g.emit("i16-exhaustive", "e_i16", strconv.Itoa(v))
		g.emit("oracle", "rt_i16", strconv.Itoa(v))
		g.decodeAll("i16-exhaustive", ints, encInt("i16", int64(v)))
		if v%stride == 0 || v > 32760 || v < -32760 || (v > -130 && v < 130) {
			g.decodeAll("i16-cross", ints, encInt("i32", int64(v)))
			g.decodeAll("i16-cross", ints, encInt("i64", int64(v)))
		}
	}
	for v := 0; v <= 65535; v++ {
		g.emit("u16-exhaustive", "e_u16", strconv.Itoa(v))
		g.emit("oracle", "rt_u16", strconv.Itoa(v))
		g.decodeAll("u16-exhaustive", uints, encUint("u16", uint64(v)))
		if v%stride == 0 || v > 65520 || v < 260 {
			g.decodeAll("u16-cross", uints, encUint("u32", uint64(v)))
			g.decodeAll("u16-cross", uints, encUint("u64", uint64(v)))
		}
	}
	// 32/64-bit: powers of two +-1, varint boundaries, extremes, random
	var ivals []int64
	var uvals []uint64
	for k := 0; k < 64; k++ {
		for d := -1; d <= 1; d++ {
			p := int64(1) << uint(k)
			ivals = append(ivals, p+int64(d), -p+int64(d))
			uvals = append(uvals, uint64(1)<<uint(k)+uint64(d))
		}
	}
	for _, b := range []uint64{0xfc, 0xfd, 0xfe, 0xff, 0xffff, 0x10000, 0xffffffff, 0x100000000, math.MaxUint64} {
		for d := -2; d <= 2; d++ {
			uvals = append(uvals, b+uint64(d))
			// zig-zag boundaries: values whose zig-zag image is the boundary
			ivals = append(ivals, int64((b+uint64(d))>>1), ^int64((b+uint64(d))>>1))
		}
	}
	ivals = append(ivals, math.MaxInt64, math.MinInt64, math.MaxInt32, math.MinInt32, math.MaxInt16, math.MinInt16)
	nrand := 3000
	if g.thor {
		nrand = 100000
	}
	for i := 0; i < nrand; i++ {
		ivals = append(ivals, int64(g.r.U64())>>uint(g.r.Intn(64)))
		uvals = append(uvals, g.r.U64()>>uint(g.r.Intn(64)))
	}
	for _, v := range ivals {
		g.emit("i64", "e_i64", strconv.FormatInt(v, 10))
		g.emit("oracle", "rt_i64", strconv.FormatInt(v, 10))
		g.emit("oracle", "rt_i32", strconv.FormatInt(int64(int32(v)), 10))
		g.emit("oracle", "rt_i16", strconv.FormatInt(int64(int16(v)), 10))
		g.decodeAll("i64-cross", ints, encInt("i64", v))
		g.decodeAll("i64-prefixed", ints, append(g.prefix(), encInt("i64", v)...))
		v32 := int64(int32(v))
		g.emit("i32", "e_i32", strconv.FormatInt(v32, 10))
		g.decodeAll("i32-cross", ints, encInt("i32", v32))
		g.decodeAll("i32-prefixed", ints, append(g.prefix(), encInt("i32", v32)...))
	}
	for _, v := range uvals {
		g.emit("u64", "e_u64", strconv.FormatUint(v, 10))
		g.emit("oracle", "rt_u64", strconv.FormatUint(v, 10))
		g.emit("oracle", "rt_u32", strconv.FormatUint(uint64(uint32(v)), 10))
		g.emit("oracle", "rt_u16", strconv.FormatUint(uint64(uint16(v)), 10))
		g.decodeAll("u64-cross", uints, encUint("u64", v))
		g.decodeAll("u64-prefixed", uints, append(g.prefix(), encUint("u64", v)...))
		v32 := uint64(uint32(v))
		g.emit("u32", "e_u32", strconv.FormatUint(v32, 10))
		g.decodeAll("u32-cross", uints, encUint("u32", v32))
		g.decodeAll("u32-prefixed", uints, append(g.prefix(), encUint("u32", v32)...))
	}
	// floats: every exponent x mantissa pattern x sign, specials, random
	floats := []string{"f32", "f64"}
	f32 := func(cat string, bits uint32) {
		g.emit(cat, "e_f32", strconv.FormatUint(uint64(bits), 10))
		g.emit("oracle", "rt_f32", strconv.FormatUint(uint64(bits), 10))
		buf := buffer.New()
		spec.EncodeFloat32(buf, math.Float32frombits(bits))
		g.decodeAll(cat, floats, buf.Bytes())
	}
	f64 := func(cat string, bits uint64) {
		g.emit(cat, "e_f64", strconv.FormatUint(bits, 10))
		g.emit("oracle", "rt_f64", strconv.FormatUint(bits, 10))
		buf := buffer.New()
		spec.EncodeFloat64(buf, math.Float64frombits(bits))
		g.decodeAll(cat, floats, buf.Bytes())
	}
	for sign := uint32(0); sign < 2; sign++ {
		for e := uint32(0); e < 256; e++ {
			for _, m := range []uint32{0, 1, 1 << 22, 1<<23 - 1, 0x2aaaaa} {
				f32("f32-grid", sign<<31|e<<23|m)
			}
		}
	}
	for sign := uint64(0); sign < 2; sign++ {
		for e := uint64(0); e < 2048; e++ {
			for _, m := range []uint64{0, 1, 1 << 51, 1<<52 - 1, 1 << 29, 1<<29 - 1, 0xfffffe0000000, 0xfffffefffffff, 0xffffff0000000} {
				f64("f64-grid", sign<<63|e<<52|m)
			}
		}
	}
	for _, f := range []float64{math.MaxFloat32, -math.MaxFloat32, math.Nextafter(math.MaxFloat32, math.Inf(1)),
		math.Nextafter(-math.MaxFloat32, math.Inf(-1)), math.SmallestNonzeroFloat32, math.SmallestNonzeroFloat64,
		math.MaxFloat64, -math.MaxFloat64, math.Inf(1), math.Inf(-1), math.Copysign(0, -1), 0, math.NaN()} {
		f64("f64-special", math.Float64bits(f))
		f32("f32-special", math.Float32bits(float32(f)))
	}
	for i := 0; i < nrand; i++ {
		f32("f32-random", uint32(g.r.U64()))
		f64("f64-random", g.r.U64())
	}
	// bins, bytes, strings
	nb := 200
	if g.thor {
		nb = 3000
	}
	for i := 0; i < nb; i++ {
		for _, k := range []struct {
			op string
			n  int
		}{{"bin64", 8}, {"bin128", 16}, {"bin256", 32}} {
			v := g.r.Bytes(k.n)
			g.emit(k.op, "e_"+k.op, hx.Hex(v))
			enc := append(append([]byte{}, v...), map[string]byte{"bin64": 30, "bin128": 31, "bin256": 32}[k.op])
			g.decodeAll(k.op, []string{k.op}, enc)
			g.decodeAll(k.op+"-prefixed", []string{k.op}, append(g.prefix(), enc...))
		}
		size := tree.BoundSizes[i%len(tree.BoundSizes)]
		if i%3 != 0 {
			size = g.r.Intn(40)
		} else if size > 2 && g.r.Intn(2) == 0 {
			size += g.r.Intn(3) - 1
		}
		v := g.r.Bytes(size)
		if i%5 == 0 {
			for j := range v {
				v[j] = []byte{0, 0xfd, 0xfe, 0xff, 60, 50}[g.r.Intn(6)]
			}
		}
		for _, op := range []string{"bytes", "str"} {
			g.emit(op, "e_"+op, hx.Hex(v))
			g.emit("oracle", "rt_"+op, hx.Hex(v))
			buf := buffer.New()
			if op == "bytes" {
				spec.EncodeBytes(buf, v)
			} else {
				spec.EncodeString(buf, string(v))
			}
			g.decodeAll(op, []string{op}, buf.Bytes())
			g.decodeAll(op+"-prefixed", []string{op}, append(g.prefix(), buf.Bytes()...))
		}
	}
}

// validCorpus returns valid encodings written by the real writer from generated trees.
func (g *genState) validCorpus(n int) [][]byte {
	tg := &tree.Gen{R: g.r, MaxDepth: 3, MaxElems: 4, BigProb: 0}
	var out [][]byte
	for i := 0; i < n; i++ {
		var t *tree.Node
		switch i % 4 {
		case 0:
			t = tg.Scalar()
		case 1:
			t = tg.Msg(2)
		default:
			t = tg.Tree(3)
		}
		if i%50 == 7 {
			tg.BigProb = 2
			t = tg.Tree(1)
			tg.BigProb = 0
		}
		res := wprog.New(buffer.New()).Run(tree.Program(t))
		if res.Built {
			out = append(out, res.Bytes)
		}
	}
	return out
}

var interesting = []byte{0, 1, 2, 3, 10, 11, 12, 20, 21, 22, 30, 31, 32, 40, 41, 50, 60, 70, 71, 80, 81, 90, 0x7f, 0x80, 0xfc, 0xfd, 0xfe, 0xff}

func (g *genState) genC02() {
	ops := decodeOps
	// exhaustive short inputs
	g.decodeAll("len0", ops, nil)
	for a := 0; a < 256; a++ {
		g.decodeAll("len1", ops, []byte{byte(a)})
	}
	for a := 0; a < 256; a++ {
		for b := 0; b < 256; b++ {
			g.decodeAll("len2", ops, []byte{byte(a), byte(b)})
		}
	}
	// empty containers in every table form, alone and behind prefixes (by-tag lookups in an empty table)
	for _, c := range []byte{70, 71, 80, 81} {
		for _, p := range [][]byte{nil, {0xff}, {1, 2, 3, 80}, {0, 0, 81}} {
			g.decodeAll("empty-container", []string{"parse", "typesize", "walk", "open", "ltab", "mtab", "parselist", "parsemsg"}, append(append([]byte{}, p...), 0, 0, c))
		}
	}
	// integers stored in a wider varint form than the encoder chooses, under every integer type code, read by
	// every integer decoder and delimited by every probe (values compared with the model)
	for _, code := range []byte{10, 11, 12, 20, 21, 22} {
		for _, v := range []uint64{0, 1, 10, 0xfc, 0xfd, 0x100, 0x7fff, 0xfffe, 0xffff, 0x10000, 0x1fffe, 0x7fffffff, 0xffffffff, 0x100000000, 1<<63 - 1, 1<<64 - 1} {
			for _, w := range []int{3, 5, 9} {
				var vi []byte
				if w == 9 {
					vi = []byte{byte(v >> 56), byte(v >> 48), byte(v >> 40), byte(v >> 32), byte(v >> 24), byte(v >> 16), byte(v >> 8), byte(v), 0xff}
				} else if vi = forcedVarint(v, w); vi == nil {
					continue
				}
				for _, pre := range [][]byte{nil, {0xff, 0xfe, 0xfd, 0x00}} {
					in := append(append(append([]byte{}, pre...), vi...), code)
					g.decodeAll("widevarint", []string{"i16", "i32", "i64", "u16", "u32", "u64", "parse", "typesize", "walk", "open"}, in)
				}
			}
		}
	}
	if g.thor {
		// all 3-byte inputs ending in a type code, all ops that can accept that code
		for a := 0; a < 256; a++ {
			for b := 0; b < 256; b++ {
				for _, c := range interesting {
					in := []byte{byte(a), byte(b), c}
					g.decodeAll("len3", []string{"parse", "typesize", "walk", "open"}, in)
				}
			}
		}
	}
	// strings over the boundary alphabet ending in a container/size-carrying type code
	nstr := 20000
	if g.thor {
		nstr = 400000
	}
	tails := []byte{50, 60, 70, 71, 80, 81, 90}
	for i := 0; i < nstr; i++ {
		n := 2 + g.r.Intn(9)
		in := make([]byte, n)
		for j := range in {
			in[j] = interesting[g.r.Intn(len(interesting))]
		}
		if g.r.Intn(4) != 0 {
			in[n-1] = tails[g.r.Intn(len(tails))]
		}
		g.decodeAll("alphabet", []string{"parse", "typesize", "walk", "open", "ltab", "mtab", "struct", "bytes", "str", "typed"}, in)
	}
	// size-field attacks: hand-built skeletons whose size varints take boundary values in every
	// varint width (also non-canonical widths), including sums that wrap 32 bits
	g.sizeAttacks([]string{"parse", "typesize", "walk", "open", "bytes", "str", "struct", "ltab", "mtab", "parselist", "parsemsg", "typed"})
	g.offsetAttacks([]string{"parse", "typesize", "walk", "open", "ltab", "mtab", "parselist", "parsemsg", "typed"})
	// structure-aware mutants of valid encodings
	ncorp := 300
	if g.thor {
		ncorp = 3000
	}
	for _, v := range g.validCorpus(ncorp) {
		g.decodeAll("valid", []string{"parse", "typesize", "walk", "open", "typed"}, v)
		if len(v) > 4000 {
			continue
		}
		nm := 40
		for k := 0; k < nm; k++ {
			m := append([]byte{}, v...)
			cat := "mutant"
			switch g.r.Intn(6) {
			case 0: // replace one of the last bytes (type/sizes/table)
				pos := len(m) - 1 - g.r.Intn(min(len(m), 12))
				m[pos] = interesting[g.r.Intn(len(interesting))]
				cat = "mutant-tail-byte"
			case 1: // replace any byte
				m[g.r.Intn(len(m))] = interesting[g.r.Intn(len(interesting))]
				cat = "mutant-any-byte"
			case 2: // truncate front
				m = m[g.r.Intn(len(m)):]
				cat = "mutant-truncate-front"
			case 3: // swap two bytes near the tail (unsorted / non-monotonic tables)
				if len(m) > 3 {
					i := len(m) - 2 - g.r.Intn(min(len(m)-2, 14))
					j := len(m) - 2 - g.r.Intn(min(len(m)-2, 14))
					m[i], m[j] = m[j], m[i]
				}
				cat = "mutant-swap"
			case 4: // increment/decrement a tail byte (offsets beyond data size, duplicate tags)
				pos := len(m) - 1 - g.r.Intn(min(len(m), 14))
				if g.r.Intn(2) == 0 {
					m[pos]++
				} else {
					m[pos]--
				}
				cat = "mutant-incdec"
			case 5: // drop a byte
				pos := g.r.Intn(len(m))
				m = append(m[:pos], m[pos+1:]...)
				cat = "mutant-drop"
			}
			g.decodeAll(cat, []string{"parse", "typesize", "walk", "open", "parselist", "parsemsg", "typed"}, m)
		}
	}
}

func (g *genState) genC13() {
	emit := func(cat string, b []byte) {
		g.emit(cat, "c13", hx.Hex(b))
	}
	for a := 0; a < 256; a++ {
		emit("len1", []byte{byte(a)})
		for b := 0; b < 256; b++ {
			emit("len2", []byte{byte(a), byte(b)})
		}
	}
	ncorp := 400
	if g.thor {
		ncorp = 5000
	}
	for _, v := range g.validCorpus(ncorp) {
		emit("valid", v)
		if len(v) > 3000 {
			continue
		}
		// truncation of a valid encoding at every byte
		for k := 1; k < len(v) && k < 64; k++ {
			emit("truncated", v[k:])
		}
		for k := 0; k < 12; k++ {
			m := append([]byte{}, v...)
			pos := len(m) - 1 - g.r.Intn(min(len(m), 12))
			m[pos] = interesting[g.r.Intn(len(interesting))]
			emit("mutant", m)
		}
	}
	g.sizeAttacks([]string{"c13"})
	g.offsetAttacks([]string{"c13"})
	// integers stored in a wider varint form than the encoder would choose (the decoders accept them when
	// the value fits the declared width): parser, probe and open must agree on them too
	for _, code := range []byte{10, 11, 12, 20, 21, 22} {
		for _, v := range []uint64{0, 1, 10, 0xfc, 0xfd, 0x100, 0x7fff, 0xfffe, 0xffff, 0x10000, 0x1fffe, 0x7fffffff, 0xffffffff, 0x100000000, 1<<63 - 1, 1<<64 - 1} {
			for _, w := range []int{1, 3, 5, 9} {
				var vi []byte
				if w == 9 {
					vi = []byte{byte(v >> 56), byte(v >> 48), byte(v >> 40), byte(v >> 32), byte(v >> 24), byte(v >> 16), byte(v >> 8), byte(v), 0xff}
				} else if vi = forcedVarint(v, w); vi == nil {
					continue
				}
				val := append(vi, code)
				for _, pre := range [][]byte{nil, {0x01}, {0xff, 0xfe, 0xfd, 0x00}, g.prefix()} {
					emit("widevarint", append(append([]byte{}, pre...), val...))
				}
			}
		}
	}
	n := 20000
	if g.thor {
		n = 300000
	}
	for i := 0; i < n; i++ {
		ln := 2 + g.r.Intn(8)
		in := make([]byte, ln)
		for j := range in {
			in[j] = interesting[g.r.Intn(len(interesting))]
		}
		emit("alphabet", in)
	}
}

// forcedVarint encodes v as a reverse varint of the given width (1, 3 or 5 bytes) when it fits.
func forcedVarint(v uint64, width int) []byte {
	switch width {
	case 1:
		if v <= 0xfc {
			return []byte{byte(v)}
		}
	case 3:
		if v <= 0xffff {
			return []byte{byte(v >> 8), byte(v), 0xfd}
		}
	case 5:
		if v <= 0xffffffff {
			return []byte{byte(v >> 24), byte(v >> 16), byte(v >> 8), byte(v), 0xfe}
		}
	}
	return nil
}

func (g *genState) sizeAttacks(ops []string) {
	sizes := []uint64{0, 1, 2, 3, 4, 6, 8, 0xfc, 0xfd, 0xffff, 0x10000, 0x7ffffffe, 0x7fffffff, 0x80000000, 0x80000001,
		0xfffffff0, 0xfffffff8, 0xfffffffa, 0xfffffffb, 0xfffffffc, 0xfffffffd, 0xfffffffe, 0xffffffff}
	payloads := [][]byte{nil, {1}, {1, 1, 3}, {7, 3, 1, 1, 0, 1, 2, 3}}
	// bytes / string / struct: payload, size varint, type
	for _, t := range []byte{50, 60, 90} {
		for _, pl := range payloads {
			for _, sz := range sizes {
				for _, w := range []int{1, 3, 5} {
					vi := forcedVarint(sz, w)
					if vi == nil {
						continue
					}
					in := append(append(append([]byte{}, pl...), vi...), t)
					g.decodeAll("size-attack-scalar", ops, in)
				}
			}
		}
	}
	// list / message: payload, table, data size varint, table size varint, type
	tables := [][]byte{nil, {0, 1}, {1, 0, 1}, {0, 0, 0, 1}, {0, 1, 0, 0, 0, 1}, {0, 1, 0, 2}, {1, 0, 1, 2, 0, 2}}
	for _, t := range []byte{70, 71, 80, 81} {
		for _, pl := range payloads[:3] {
			for _, tb := range tables {
				tsizes := []uint64{uint64(len(tb)), 0, 3, 6, 0xfffffffd, 0xffffffff}
				for _, ts := range tsizes {
					dsizes := append([]uint64{uint64(len(pl)), (1 << 32) - ts, (1<<32) - ts + uint64(len(pl)), (1 << 32) - ts - 1}, sizes...)
					for _, ds := range dsizes {
						ds &= 0xffffffff
						for _, w1 := range []int{1, 5} {
							for _, w2 := range []int{1, 3, 5} {
								v1 := forcedVarint(ts, w1)
								v2 := forcedVarint(ds, w2)
								if v1 == nil || v2 == nil {
									continue
								}
								in := append(append(append(append(append([]byte{}, pl...), tb...), v2...), v1...), t)
								g.decodeAll("size-attack-container", ops, in)
							}
						}
					}
				}
			}
		}
	}
}

// offsetAttacks: hand-built lists and messages (all four table forms) whose table entries carry end
// offsets around every length of the encoding: inside the body, the body size, inside the table and
// the size fields, the total length of the container itself (an entry that would contain the whole
// container again), one more, and the maxima of the offset width.
func (g *genState) offsetAttacks(ops []string) {
	bodies := [][]byte{nil, {2}, {7, 3, 2}, {2, 2, 9, 1, 3, 7, 3}, {0, 0, 80, 2}, {0, 0, 70, 7, 3}}
	for _, t := range []byte{70, 71, 80, 81} {
		ow, tw := 2, 0 // offset width, tag width
		switch t {
		case 71:
			ow = 4
		case 80:
			tw = 1
		case 81:
			ow, tw = 4, 2
		}
		for _, body := range bodies {
			for entries := 1; entries <= 3; entries++ {
				tsize := entries * (ow + tw)
				total := len(body) + tsize + 1 + 1 + 1 // one-byte size varints, type byte
				cands := []int{0, 1, len(body) - 1, len(body), len(body) + 1, len(body) + tsize, total - 2, total - 1, total, total + 1, 0xffff}
				if ow == 4 {
					cands = append(cands, 0x10000, 0x7fffffff, 0xffffffff)
				}
				// the attacked entry takes every candidate, the others stay inside the body
				for at := 0; at < entries; at++ {
					for _, c := range cands {
						if c < 0 {
							continue
						}
						in := append([]byte{}, body...)
						for e := 0; e < entries; e++ {
							off := min(e+1, len(body))
							if e == at {
								off = c
							}
							switch tw {
							case 1:
								in = append(in, byte(e+1))
							case 2:
								in = append(in, 0, byte(e+1))
							}
							if ow == 2 {
								in = append(in, byte(off>>8), byte(off))
							} else {
								in = append(in, byte(off>>24), byte(off>>16), byte(off>>8), byte(off))
							}
						}
						in = append(in, byte(len(body)), byte(tsize), t)
						g.decodeAll("offset-attack", ops, in)
						// and nested: the container as the only element of a list
						outer := append(append([]byte{}, in...), byte(len(in)>>8), byte(len(in)), byte(len(in)), 2, 70)
						if len(in) <= 0xfc {
							g.decodeAll("offset-attack-nested", ops, outer)
						}
					}
				}
			}
		}
	}
}
