package main

import (
	"strconv"
	"unsafe"

	"github.com/basecomplextech/baselibrary/buffer"
	"github.com/basecomplextech/spec"
	"verif/harness/internal/hx"
	"verif/harness/internal/rd"
)

// accessorCheck: the typed accessors of Value and Message (X and XErr) are the decoder of the same
// name applied to the value's bytes; they return what spec.DecodeX returns for them (the value, and
// for XErr whether there is an error). want/wantErr is what spec.DecodeX(b) returned.
// Returns "" or " ACCESSOR-DIFFERS:<which>".
func accessorCheck(op string, b []byte, want string, wantErr bool) (out string) {
	defer func() {
		if e := recover(); e != nil {
			out = " ACCESSOR-DIFFERS:panic"
		}
	}()
	v := spec.Value(b)
	// the same value as field 1 of a message, when the library accepts it as a raw value
	var m spec.Message
	haveMsg := false
	if _, n, err := spec.ParseValue(b); err == nil && n == len(b) && len(b) > 0 {
		mw := spec.NewWriterBuffer(buffer.New()).Message()
		if mw.Field(1).Any(b) == nil {
			if mb, err := mw.Build(); err == nil {
				m, haveMsg = spec.OpenMessage(mb), true
			}
		}
	}
	type pair struct {
		name string
		val  string
		err  error
		noE  bool // accessor without an error result
	}
	var ps []pair
	i := func(x int64) string { return strconv.FormatInt(x, 10) }
	u := func(x uint64) string { return strconv.FormatUint(x, 10) }
	switch op {
	case "bool":
		x, e := v.BoolErr()
		ps = append(ps, pair{"Value.BoolErr", strconv.FormatBool(x), e, false}, pair{"Value.Bool", strconv.FormatBool(v.Bool()), nil, true})
		if haveMsg {
			x, e := m.BoolErr(1)
			ps = append(ps, pair{"Message.BoolErr", strconv.FormatBool(x), e, false}, pair{"Message.Bool", strconv.FormatBool(m.Bool(1)), nil, true})
		}
	case "byte":
		x, e := v.ByteErr()
		ps = append(ps, pair{"Value.ByteErr", i(int64(x)), e, false}, pair{"Value.Byte", i(int64(v.Byte())), nil, true})
		if haveMsg {
			x, e := m.ByteErr(1)
			ps = append(ps, pair{"Message.ByteErr", i(int64(x)), e, false}, pair{"Message.Byte", i(int64(m.Byte(1))), nil, true})
		}
	case "i16":
		x, e := v.Int16Err()
		ps = append(ps, pair{"Value.Int16Err", i(int64(x)), e, false}, pair{"Value.Int16", i(int64(v.Int16())), nil, true})
		if haveMsg {
			x, e := m.Int16Err(1)
			ps = append(ps, pair{"Message.Int16Err", i(int64(x)), e, false}, pair{"Message.Int16", i(int64(m.Int16(1))), nil, true})
		}
	case "i32":
		x, e := v.Int32Err()
		ps = append(ps, pair{"Value.Int32Err", i(int64(x)), e, false}, pair{"Value.Int32", i(int64(v.Int32())), nil, true})
		if haveMsg {
			x, e := m.Int32Err(1)
			ps = append(ps, pair{"Message.Int32Err", i(int64(x)), e, false}, pair{"Message.Int32", i(int64(m.Int32(1))), nil, true})
		}
	case "i64":
		x, e := v.Int64Err()
		ps = append(ps, pair{"Value.Int64Err", i(x), e, false}, pair{"Value.Int64", i(v.Int64()), nil, true})
		if haveMsg {
			x, e := m.Int64Err(1)
			ps = append(ps, pair{"Message.Int64Err", i(x), e, false}, pair{"Message.Int64", i(m.Int64(1)), nil, true})
		}
	case "u16":
		x, e := v.Uint16Err()
		ps = append(ps, pair{"Value.Uint16Err", u(uint64(x)), e, false}, pair{"Value.Uint16", u(uint64(v.Uint16())), nil, true})
		if haveMsg {
			x, e := m.Uint16Err(1)
			ps = append(ps, pair{"Message.Uint16Err", u(uint64(x)), e, false}, pair{"Message.Uint16", u(uint64(m.Uint16(1))), nil, true})
		}
	case "u32":
		x, e := v.Uint32Err()
		ps = append(ps, pair{"Value.Uint32Err", u(uint64(x)), e, false}, pair{"Value.Uint32", u(uint64(v.Uint32())), nil, true})
		if haveMsg {
			x, e := m.Uint32Err(1)
			ps = append(ps, pair{"Message.Uint32Err", u(uint64(x)), e, false}, pair{"Message.Uint32", u(uint64(m.Uint32(1))), nil, true})
		}
	case "u64":
		x, e := v.Uint64Err()
		ps = append(ps, pair{"Value.Uint64Err", u(x), e, false}, pair{"Value.Uint64", u(v.Uint64()), nil, true})
		if haveMsg {
			x, e := m.Uint64Err(1)
			ps = append(ps, pair{"Message.Uint64Err", u(x), e, false}, pair{"Message.Uint64", u(m.Uint64(1)), nil, true})
		}
	case "f32":
		x, e := v.Float32Err()
		ps = append(ps, pair{"Value.Float32Err", rd.ShowF32(x), e, false}, pair{"Value.Float32", rd.ShowF32(v.Float32()), nil, true})
		if haveMsg {
			x, e := m.Float32Err(1)
			ps = append(ps, pair{"Message.Float32Err", rd.ShowF32(x), e, false}, pair{"Message.Float32", rd.ShowF32(m.Float32(1)), nil, true})
		}
	case "f64":
		x, e := v.Float64Err()
		ps = append(ps, pair{"Value.Float64Err", rd.ShowF64(x), e, false}, pair{"Value.Float64", rd.ShowF64(v.Float64()), nil, true})
		if haveMsg {
			x, e := m.Float64Err(1)
			ps = append(ps, pair{"Message.Float64Err", rd.ShowF64(x), e, false}, pair{"Message.Float64", rd.ShowF64(m.Float64(1)), nil, true})
		}
	case "bytes":
		x, e := v.BytesErr()
		ps = append(ps, pair{"Value.BytesErr", hx.Hex(x), e, false}, pair{"Value.Bytes", hx.Hex(v.Bytes()), nil, true})
		if haveMsg {
			x, e := m.BytesErr(1)
			ps = append(ps, pair{"Message.BytesErr", hx.Hex(x), e, false}, pair{"Message.Bytes", hx.Hex(m.Bytes(1)), nil, true})
		}
	case "str":
		x, e := v.StringErr()
		ps = append(ps, pair{"Value.StringErr", strHex(x), e, false}, pair{"Value.String", strHex(v.String()), nil, true})
		if haveMsg {
			x, e := m.StringErr(1)
			ps = append(ps, pair{"Message.StringErr", strHex(x), e, false}, pair{"Message.String", strHex(m.String(1)), nil, true})
		}
	default:
		return ""
	}
	for _, p := range ps {
		if !p.noE && (p.err != nil) != wantErr {
			return " ACCESSOR-DIFFERS:" + p.name + "-error"
		}
		if p.val != want {
			return " ACCESSOR-DIFFERS:" + p.name + "=" + p.val
		}
	}
	return ""
}

func strHex[T ~string](s T) string {
	return hx.Hex(unsafe.Slice(unsafe.StringData(string(s)), len(s)))
}
