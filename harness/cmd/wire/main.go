// Command wire runs wire-format operations of the real library, one per input line, and prints one
// canonical answer line per operation (the same protocol the Lean driver `wiredriver` speaks).
package main

import (
	"bufio"
	"fmt"
	"math"
	"os"
	"strconv"
	"strings"
	"unsafe"

	"github.com/basecomplextech/baselibrary/bin"
	"github.com/basecomplextech/baselibrary/buffer"
	"github.com/basecomplextech/spec"
	"verif/harness/internal/hx"
	"verif/harness/internal/rd"
)

var guard *hx.Guard

func main() {
	if len(os.Args) > 1 && os.Args[1] == "gen" {
		genMain(os.Args[2:])
		return
	}
	guard = hx.NewGuard(1 << 20)
	in := bufio.NewReaderSize(os.Stdin, 1<<22)
	out := bufio.NewWriterSize(os.Stdout, 1<<20)
	defer out.Flush()
	// VERIF_FLUSH: one write per answer, so that after a fatal error of the process (stack overflow,
	// out of memory: not recoverable) the number of answers tells which line killed it
	flush := os.Getenv("VERIF_FLUSH") != ""
	for {
		line, err := in.ReadString('\n')
		line = strings.TrimRight(line, "\r\n ")
		if line != "" {
			out.WriteString(step(line))
			out.WriteByte('\n')
			if flush {
				out.Flush()
			}
		}
		if err != nil {
			return
		}
	}
}

func step(line string) (res string) {
	defer func() {
		if e := recover(); e != nil {
			res = "panic"
		}
	}()
	parts := strings.Split(line, " ")
	if len(parts) != 2 {
		return "bad-op"
	}
	op, arg := parts[0], parts[1]
	if strings.HasPrefix(op, "e_") {
		return encodeOp(op, arg)
	}
	if strings.HasPrefix(op, "rt_") {
		return rtOp(op, arg)
	}
	b, ok := hx.Unhex(arg)
	if !ok {
		return "bad-op"
	}
	// run on both placements: overflow reads fault at the end, underflow reads at the start
	var r1 string
	if len(b) <= guard.Cap() {
		r1 = decodeOp(op, guard.AtEnd(b))
		r2 := decodeOp(op, guard.AtStart(b))
		if r1 != r2 {
			return "PLACEMENT-DEPENDENT " + r1 + " | " + r2
		}
		return r1
	}
	return decodeOp(op, b)
}

func res(v string, n int, err error, inputLen int) string {
	if err != nil {
		return fmt.Sprintf("err %s %d", hx.ErrClass(err), n)
	}
	s := fmt.Sprintf("ok %s %d", v, n)
	if n < 0 || n > inputLen {
		s += " SIZE-OUT-OF-RANGE"
	}
	return s
}

func view(b, v []byte) string {
	s := hx.Hex(v)
	if !rd.Inside(b, v) {
		s += "@OUTSIDE"
	}
	return s
}

func decodeOp(op string, b []byte) string {
	ln := len(b)
	switch op {
	case "bool":
		v, n, err := spec.DecodeBool(b)
		return res(strconv.FormatBool(v), n, err, ln) + accessorCheck(op, b, strconv.FormatBool(v), err != nil)
	case "byte":
		v, n, err := spec.DecodeByte(b)
		return res(strconv.Itoa(int(v)), n, err, ln) + accessorCheck(op, b, strconv.Itoa(int(v)), err != nil)
	case "i16":
		v, n, err := spec.DecodeInt16(b)
		return res(strconv.FormatInt(int64(v), 10), n, err, ln) + accessorCheck(op, b, strconv.FormatInt(int64(v), 10), err != nil)
	case "i32":
		v, n, err := spec.DecodeInt32(b)
		return res(strconv.FormatInt(int64(v), 10), n, err, ln) + accessorCheck(op, b, strconv.FormatInt(int64(v), 10), err != nil)
	case "i64":
		v, n, err := spec.DecodeInt64(b)
		return res(strconv.FormatInt(v, 10), n, err, ln) + accessorCheck(op, b, strconv.FormatInt(v, 10), err != nil)
	case "u16":
		v, n, err := spec.DecodeUint16(b)
		return res(strconv.FormatUint(uint64(v), 10), n, err, ln) + accessorCheck(op, b, strconv.FormatUint(uint64(v), 10), err != nil)
	case "u32":
		v, n, err := spec.DecodeUint32(b)
		return res(strconv.FormatUint(uint64(v), 10), n, err, ln) + accessorCheck(op, b, strconv.FormatUint(uint64(v), 10), err != nil)
	case "u64":
		v, n, err := spec.DecodeUint64(b)
		return res(strconv.FormatUint(v, 10), n, err, ln) + accessorCheck(op, b, strconv.FormatUint(v, 10), err != nil)
	case "f32":
		v, n, err := spec.DecodeFloat32(b)
		return res(rd.ShowF32(v), n, err, ln) + accessorCheck(op, b, rd.ShowF32(v), err != nil)
	case "f64":
		v, n, err := spec.DecodeFloat64(b)
		return res(rd.ShowF64(v), n, err, ln) + accessorCheck(op, b, rd.ShowF64(v), err != nil)
	case "bin64":
		v, n, err := spec.DecodeBin64(b)
		if err != nil || n == 0 {
			return res("-", n, err, ln)
		}
		return res(hx.Hex(v[:]), n, err, ln)
	case "bin128":
		v, n, err := spec.DecodeBin128(b)
		if err != nil || n == 0 {
			return res("-", n, err, ln)
		}
		return res(hx.Hex(v.Marshal()), n, err, ln)
	case "bin256":
		v, n, err := spec.DecodeBin256(b)
		if err != nil || n == 0 {
			return res("-", n, err, ln)
		}
		return res(hx.Hex(v.Marshal()), n, err, ln)
	case "bytes":
		v, n, err := spec.DecodeBytes(b)
		return res(view(b, v), n, err, ln) + accessorCheck(op, b, hx.Hex(v), err != nil)
	case "str":
		v, n, err := spec.DecodeString(b)
		vb := unsafe.Slice(unsafe.StringData(string(v)), len(v))
		return res(view(b, vb), n, err, ln) + accessorCheck(op, b, hx.Hex(vb), err != nil)
	case "struct":
		v, n, err := spec.DecodeStruct(b)
		return res(strconv.Itoa(v), n, err, ln)
	case "ltab":
		t, n, err := spec.DecodeListTable(b)
		if err != nil {
			return res("", n, err, ln)
		}
		return res(tableString(b, unsafe.Pointer(&t), t.DataSize()), n, err, ln)
	case "mtab":
		t, n, err := spec.DecodeMessageTable(b)
		if err != nil {
			return res("", n, err, ln)
		}
		return res(tableString(b, unsafe.Pointer(&t), t.DataSize()), n, err, ln)
	case "type":
		t, n, err := spec.DecodeType(b)
		return res(strconv.Itoa(int(t)), n, err, ln)
	case "typesize":
		t, n, err := spec.DecodeTypeSize(b)
		return res(strconv.Itoa(int(t)), n, err, ln)
	case "open":
		v := spec.OpenValue(b)
		return "ok " + view(b, v)
	case "parse":
		v, n, err := spec.ParseValue(b)
		if err != nil {
			return res("", n, err, ln)
		}
		s := "ok " + strconv.Itoa(n)
		if n < 0 || n > ln {
			s += " SIZE-OUT-OF-RANGE"
		} else if !rd.Inside(b, v) || len(v) != n {
			s += " VIEW-MISMATCH"
		}
		return s
	case "parselist":
		_, n, err := spec.ParseList(b)
		if err != nil {
			return res("", n, err, ln)
		}
		return "ok " + strconv.Itoa(n)
	case "parsemsg":
		_, n, err := spec.ParseMessage(b)
		if err != nil {
			return res("", n, err, ln)
		}
		return "ok " + strconv.Itoa(n)
	case "walk":
		return rd.Walk(b, b)
	case "typed":
		return typedOp(b)
	case "c13":
		return c13Op(b)
	}
	return "bad-op"
}

// tableString prints the private fields of format.ListTable/MessageTable: {table []byte; data uint32; big bool}.
func tableString(b []byte, p unsafe.Pointer, data uint32) string {
	type tbl struct {
		table []byte
		data  uint32
		big   bool
	}
	t := (*tbl)(p)
	return fmt.Sprintf("%s %d %v", view(b, t.table), t.data, t.big)
}

func encodeOp(op, arg string) string {
	buf := buffer.New()
	var n int
	var err error
	switch op {
	case "e_bool":
		n, err = spec.EncodeBool(buf, arg == "true")
	case "e_byte":
		v, e := strconv.ParseUint(arg, 10, 8)
		if e != nil {
			return "bad-op"
		}
		n, err = spec.EncodeByte(buf, byte(v))
	case "e_i16":
		v, e := strconv.ParseInt(arg, 10, 16)
		if e != nil {
			return "bad-op"
		}
		n, err = spec.EncodeInt16(buf, int16(v))
	case "e_i32":
		v, e := strconv.ParseInt(arg, 10, 32)
		if e != nil {
			return "bad-op"
		}
		n, err = spec.EncodeInt32(buf, int32(v))
	case "e_i64":
		v, e := strconv.ParseInt(arg, 10, 64)
		if e != nil {
			return "bad-op"
		}
		n, err = spec.EncodeInt64(buf, v)
	case "e_u16":
		v, e := strconv.ParseUint(arg, 10, 16)
		if e != nil {
			return "bad-op"
		}
		n, err = spec.EncodeUint16(buf, uint16(v))
	case "e_u32":
		v, e := strconv.ParseUint(arg, 10, 32)
		if e != nil {
			return "bad-op"
		}
		n, err = spec.EncodeUint32(buf, uint32(v))
	case "e_u64":
		v, e := strconv.ParseUint(arg, 10, 64)
		if e != nil {
			return "bad-op"
		}
		n, err = spec.EncodeUint64(buf, v)
	case "e_f32":
		v, e := strconv.ParseUint(arg, 10, 32)
		if e != nil {
			return "bad-op"
		}
		n, err = spec.EncodeFloat32(buf, math.Float32frombits(uint32(v)))
	case "e_f64":
		v, e := strconv.ParseUint(arg, 10, 64)
		if e != nil {
			return "bad-op"
		}
		n, err = spec.EncodeFloat64(buf, math.Float64frombits(v))
	case "e_bin64":
		v, ok := hx.Unhex(arg)
		if !ok || len(v) != 8 {
			return "bad-op"
		}
		var x bin.Bin64
		copy(x[:], v)
		n, err = spec.EncodeBin64(buf, x)
	case "e_bin128":
		v, ok := hx.Unhex(arg)
		if !ok || len(v) != 16 {
			return "bad-op"
		}
		x, e := bin.Parse128(v)
		if e != nil {
			return "bad-op"
		}
		n, err = spec.EncodeBin128(buf, x)
	case "e_bin256":
		v, ok := hx.Unhex(arg)
		if !ok || len(v) != 32 {
			return "bad-op"
		}
		x, e := bin.Parse256(v)
		if e != nil {
			return "bad-op"
		}
		n, err = spec.EncodeBin256(buf, x)
	case "e_bytes":
		v, ok := hx.Unhex(arg)
		if !ok {
			return "bad-op"
		}
		n, err = spec.EncodeBytes(buf, v)
	case "e_str":
		v, ok := hx.Unhex(arg)
		if !ok {
			return "bad-op"
		}
		n, err = spec.EncodeString(buf, string(v))
	default:
		return "bad-op"
	}
	if err != nil {
		return "err " + hx.ErrClass(err)
	}
	if n != buf.Len() {
		return fmt.Sprintf("SIZE-MISMATCH reported=%d appended=%d", n, buf.Len())
	}
	return hx.Hex(buf.Bytes())
}

// typedOp runs the remaining public read entry points (OpenValueErr, the typed list wrappers, the
// string clone decoder) on arbitrary bytes and judges C02 directly: no panic, every reported size
// within the input, every returned view inside the input. The model answers "ok" for this op.
func typedOp(b []byte) (out string) {
	defer func() {
		if e := recover(); e != nil {
			out = "PANIC typed"
		}
	}()
	bad := ""
	size := func(what string, n int) {
		if (n < 0 || n > len(b)) && bad == "" {
			bad = "SIZE-" + what
		}
	}
	view := func(what string, v []byte) {
		if !rd.Inside(b, v) && bad == "" {
			bad = "OUTSIDE " + what
		}
	}
	const maxElems = 64
	if v, err := spec.OpenValueErr(b); err == nil {
		view("OpenValueErr", v)
	}
	if l, err := spec.OpenListErr(b); err == nil {
		view("OpenListErr", l.Raw())
	}
	if vl, err := spec.OpenValueListErr(b, spec.DecodeInt64); err == nil {
		for i := 0; i < vl.Len() && i < maxElems; i++ {
			vl.Get(i)
			view("ValueList.GetBytes", vl.GetBytes(i))
		}
	}
	vs := spec.OpenValueList(b, spec.DecodeString)
	for i := 0; i < vs.Len() && i < maxElems; i++ {
		x := vs.Get(i).Unwrap()
		view("ValueList[String].Get", unsafe.Slice(unsafe.StringData(x), len(x)))
	}
	if pv, n, err := spec.ParseValueList(b, spec.DecodeBytes); err == nil {
		size("ParseValueList", n)
		for i := 0; i < pv.Len() && i < maxElems; i++ {
			view("ValueList[Bytes].Get", pv.Get(i))
		}
	} else {
		size("ParseValueList", n)
	}
	ml := spec.OpenMessageList(b, spec.OpenMessageErr)
	for i := 0; i < ml.Len() && i < maxElems; i++ {
		view("MessageList.Get", ml.Get(i).Raw())
	}
	if ml2, err := spec.OpenMessageListErr(b, spec.OpenMessageErr); err == nil {
		for i := 0; i < ml2.Len() && i < maxElems; i++ {
			if m, err := ml2.GetErr(i); err == nil {
				view("MessageList.GetErr", m.Raw())
			}
		}
	}
	if pm, n, err := spec.ParseMessageList(b, spec.OpenMessageErr); err == nil {
		size("ParseMessageList", n)
		for i := 0; i < pm.Len() && i < maxElems; i++ {
			view("ParseMessageList.Get", pm.Get(i).Raw())
		}
	} else {
		size("ParseMessageList", n)
	}
	if _, n, _ := spec.DecodeStringClone(b); true {
		size("DecodeStringClone", n)
	}
	if bad != "" {
		return bad
	}
	return "ok"
}
