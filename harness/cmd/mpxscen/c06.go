package main

import (
	"bytes"
	"encoding/binary"
	"fmt"
	"runtime"
	"strings"
	"sync"
	"time"

	"github.com/basecomplextech/baselibrary/async"
	"github.com/basecomplextech/baselibrary/status"
	"github.com/basecomplextech/baselibrary/units"
	"github.com/basecomplextech/spec/mpx"
	"verif/harness/internal/caplog"
	"verif/harness/internal/hx"
)

// Scenario c06: ending one channel never disturbs the connection or other channels.
//
// Message layout on every c06 channel (messages shorter than 8 bytes are a truncated header):
//
//	byte 0     server behaviour selected by the first message (0 for sibling echo channels)
//	byte 1..2  channel index, big endian
//	byte 3     k, the number of echoes of behaviour 6
//	byte 4..7  sequence number, big endian
//	byte 8..   PRNG fill

const (
	behEcho         = 0 // echo every message until the peer ends, return OK
	behReturn       = 1 // return OK right after the first message
	behPanic        = 2 // panic("test") after the first message
	behSendClose    = 3 // SendAndClose(reply), return
	behError        = 4 // return an error status
	behFree         = 5 // Free() the channel explicitly, return
	behEchoK        = 6 // echo k messages, return mid-stream
	modeKeepSending = 0 // client keeps sending, ignoring errors, then frees
	modeFree        = 1 // client frees the channel at a random point
	modeSendClose   = 2 // client calls SendAndClose at a random point, then frees
)

type c06Plan struct {
	idx     int
	sibling bool
	beh     byte
	k       int
	msgs    int // messages the client intends to send, including the first one
	mode    int
	point   int // index of the message at which mode 1/2 ends the channel
	seed    uint64
}

type c06Result struct {
	what      string // sibling: what went wrong on the client side ("" = nothing)
	panicText string // a panic recovered in a client goroutine
	finished  bool
}

type c06Report struct {
	n   int    // messages echoed by the handler
	end string // what ended the echo loop
}

type c06State struct {
	rctx *runClock

	mu       sync.Mutex
	reports  map[int]c06Report
	badFirst int
}

func runC06(s *scenario, seed uint64) {
	master := hx.NewRand(hx.NewRand(seed).U64() ^ 0xC06C06C06)
	runs := 12
	if s.thorough {
		runs = 1500 // as many as fit into the wall-time budget
	}
	for i := 0; i < runs; i++ {
		derived := master.U64()
		if s.only >= 0 && i != s.only {
			continue
		}
		if s.exhausted() {
			fmt.Printf("c06 note=budget-exhausted skipped=%d\n", runs-i)
			break
		}
		c06Run(s, i, derived)
	}
}

func c06Msg(rng *hx.Rand, beh byte, idx, k int, seq uint32, size int) []byte {
	n := size
	if n < 8 {
		n = 8
	}
	b := make([]byte, n)
	fillBytes(rng, b[8:])
	b[0] = beh
	b[1], b[2] = byte(idx>>8), byte(idx)
	b[3] = byte(k)
	binary.BigEndian.PutUint32(b[4:], seq)
	return b[:size]
}

func c06Size(rng *hx.Rand, first bool) int {
	var size int
	switch rng.Intn(4) {
	case 0:
		size = 1 + rng.Intn(16)
	case 1:
		size = 1 + rng.Intn(256)
	default:
		size = 1 + rng.Intn(3000)
	}
	if first && size < 8 {
		size = 8
	}
	return size
}

func c06Run(s *scenario, run int, derived uint64) {
	r := hx.NewRand(derived)
	maxN := 24
	if s.thorough {
		maxN = 64
	}
	n := 4 + r.Intn(maxN-4+1)
	prob := []uint32{50, 200, 500}[r.Intn(3)]
	sleep := []time.Duration{0, 20 * time.Microsecond, 200 * time.Microsecond}[r.Intn(3)]
	window := []int{2048, 32768, 0}[r.Intn(3)]
	comp := r.Intn(2) == 0

	// Plans
	var allowed []byte
	for b := byte(behReturn); b <= behEchoK; b++ {
		if !strings.Contains(s.skip, string('0'+b)) {
			allowed = append(allowed, b)
		}
	}
	if len(allowed) == 0 {
		allowed = []byte{behReturn}
	}
	plans := make([]*c06Plan, n)
	siblings, wantPanics := 0, 0
	for i := range plans {
		p := &c06Plan{idx: i, seed: r.U64()}
		if i%3 == 0 {
			p.sibling = true
			p.beh = behEcho
			p.msgs = 20 + r.Intn(101)
			siblings++
		} else {
			p.beh = allowed[r.Intn(len(allowed))]
			p.msgs = 20 + r.Intn(281)
			p.mode = r.Intn(3)
			switch p.mode {
			case modeFree:
				p.point = 1 + r.Intn(p.msgs-1)
			case modeSendClose:
				p.point = r.Intn(p.msgs)
			}
			p.k = 1 + r.Intn(40)
			if p.beh == behPanic {
				wantPanics++
			}
		}
		plans[i] = p
	}
	// Start order is shuffled so that siblings and the others interleave differently per seed.
	order := make([]int, n)
	for i := range order {
		order[i] = i
	}
	for i := n - 1; i > 0; i-- {
		j := r.Intn(i + 1)
		order[i], order[j] = order[j], order[i]
	}

	head := fmt.Sprintf("run=%d seed=%d n=%d siblings=%d prob=%d sleepns=%d", run, derived, n, siblings, prob, int64(sleep))
	tail := fmt.Sprintf("window=%d comp=%v", window, comp)
	fail := func(why string) {
		s.emit(head+" closed=false libpanics=0 siblings_ok=false handler_panics=0 "+tail, "setup-failed:"+token(why, 80))
	}

	// Server and client
	opts := mpx.Default()
	opts.Compression = comp
	if window > 0 {
		opts.ChannelWindowSize = units.Bytes(window)
	}
	timeout := s.runTimeout(10*time.Second, 20*time.Second)
	st8 := &c06State{rctx: newRunClock(timeout, s.stallLimit()), reports: map[int]c06Report{}}
	defer st8.rctx.stop()
	lg := caplog.New()
	srv, addr, why := startServer(mpx.HandleFunc(st8.handle), lg, opts)
	if why != "" {
		fail(why)
		return
	}
	defer stopServer(srv)
	conn, st := connect(addr, lg, opts)
	if !st.OK() {
		fail("connect:" + st.String())
		return
	}
	defer closeConn(conn)

	began := time.Now()
	mpx.VerifSetYield(derived, prob, sleep)
	defer mpx.VerifSetYield(0, 0, 0)

	// Channels
	results := make([]*c06Result, n)
	var wg sync.WaitGroup
	for _, i := range order {
		p, res := plans[i], &c06Result{}
		results[i] = res
		wg.Add(1)
		go func() {
			defer wg.Done()
			defer func() {
				if e := recover(); e != nil {
					res.panicText = fmt.Sprint(e)
				}
			}()
			if p.sibling {
				res.what = st8.sibling(conn, p, res)
			} else {
				st8.other(conn, p, res)
			}
			res.finished = true
		}()
	}
	joined := waitGroup(&wg, st8.rctx.Wait(), 3*time.Second)
	st8.rctx.stop()
	timedOut := ""
	if !joined || st8.rctx.Done() {
		timedOut = "timeout-channels"
	}

	// The connection must still serve a new channel. Frames travel in order, so once this round
	// trip is through, the server has seen every frame the channels above have sent.
	closed := conn.Closed().IsSet()
	final := ""
	if timedOut == "" {
		final = c06RoundTrip(conn, n, derived)
	}
	if conn.Closed().IsSet() {
		closed = true
	}

	// Sibling handlers report how they ended.
	if timedOut == "" && !closed {
		deadline := time.Now().Add(3 * time.Second)
		for time.Now().Before(deadline) {
			st8.mu.Lock()
			got := len(st8.reports)
			if _, ok := st8.reports[n]; ok {
				got-- // the round trip channel
			}
			st8.mu.Unlock()
			if got >= siblings || conn.Closed().IsSet() {
				break
			}
			time.Sleep(time.Millisecond)
		}
	}

	// Shut down, then read the records.
	mpx.VerifSetYield(0, 0, 0)
	before := len(lg.All())
	closeConn(conn)
	stopServer(srv)
	if !joined {
		waitGroup(&wg, make(chan struct{}), 3*time.Second)
	}
	time.Sleep(5 * time.Millisecond)
	class := classifyRecords(lg.All(), before)
	// A handler that frees its channel (behaviour 5) makes the library's own deferred Free panic;
	// that record is deterministic, so any other library record is reported ahead of it.
	doubleFree := 0
	var libFirst, libLast []string
	for _, rec := range class.library {
		if strings.Contains(rec, "free called multiple times") {
			doubleFree++
			libLast = append(libLast, rec)
		} else {
			libFirst = append(libFirst, rec)
		}
	}
	class.library = append(libFirst, libLast...)

	// Verdict
	var viols []string
	for _, res := range results {
		if joined && res.panicText != "" {
			viols = append(viols, "client-panic:"+token(res.panicText, 120))
			break
		}
	}
	// (the recovered and logged "free called multiple times" of a handler that freed its own channel is
	// the documented answer to that misuse; everything else the property promises still has to hold in
	// such a run: the connection stays open, the siblings are served, the process lives)
	if len(libFirst) > 0 {
		viols = append(viols, "library-panic:"+token(libFirst[0], 160))
	}
	if closed {
		viols = append(viols, "conn-closed")
	} else if final != "" {
		viols = append(viols, "conn-closed:"+final)
	}
	siblingsOK := true
	if joined {
		for i, p := range plans {
			if !p.sibling {
				continue
			}
			what := results[i].what
			if what == "" && timedOut == "" {
				st8.mu.Lock()
				rep, ok := st8.reports[i]
				st8.mu.Unlock()
				switch {
				case !ok:
					what = "server-never-ended"
				case rep.n != p.msgs:
					what = fmt.Sprintf("server-echoed=%d/%d", rep.n, p.msgs)
				case rep.end != "recv:end":
					what = "server-end=" + rep.end
				}
			}
			if what != "" {
				siblingsOK = false
				viols = append(viols, fmt.Sprintf("sibling-%s,ch=%d", token(what, 80), i))
				break
			}
		}
	} else {
		siblingsOK = false
	}
	if timedOut != "" {
		// Name the channels that did not finish, or else the first sibling that saw the timeout.
		var stuck []string
		for i, res := range results {
			if !joined && !res.finished && len(stuck) < 8 {
				stuck = append(stuck, fmt.Sprintf("ch=%d", i))
			}
		}
		for i, res := range results {
			if joined && strings.Contains(res.what, "timeout") {
				stuck = append(stuck, fmt.Sprintf("ch=%d,%s", i, res.what))
				break
			}
		}
		viols = append(viols, timedOut+":"+token(strings.Join(stuck, ","), 80))
	}

	line := fmt.Sprintf("%s closed=%v libpanics=%d siblings_ok=%v handler_panics=%d %s want_panics=%d dblfree=%d ms=%d",
		head, closed, len(class.library), siblingsOK, class.deliberate, tail, wantPanics, doubleFree, time.Since(began).Milliseconds())
	viol := ""
	if len(viols) > 0 {
		viol = viols[0]
		if len(viols) > 1 {
			line += " also=" + strings.Join(viols[1:], ";")
		}
	}
	s.emit(line, viol)
}

// handle is the server handler: the first byte of the first message selects the behaviour.
func (s *c06State) handle(cctx mpx.Context, ch mpx.Channel) status.Status {
	first, st := ch.Receive(s.rctx)
	if !st.OK() || len(first) < 8 {
		s.mu.Lock()
		s.badFirst++
		s.mu.Unlock()
		return status.OK
	}
	beh, idx, k := first[0], int(first[1])<<8|int(first[2]), int(first[3])

	switch beh {
	case behEcho:
		n, end := s.echo(s.rctx, ch, first, -1)
		s.mu.Lock()
		s.reports[idx] = c06Report{n: n, end: end}
		s.mu.Unlock()
	case behReturn:
	case behPanic:
		panic(deliberatePanic)
	case behSendClose:
		ch.SendAndClose(cctx, []byte("reply-and-close"))
	case behError:
		return status.Errorf("deliberate-error")
	case behFree:
		ch.Free()
	case behEchoK:
		s.echo(cctx, ch, first, k)
	}
	return status.OK
}

// echo sends every received message back, at most limit messages when limit >= 0.
func (s *c06State) echo(ctx async.Context, ch mpx.Channel, first []byte, limit int) (int, string) {
	msg, n := first, 0
	for {
		if limit >= 0 && n >= limit {
			return n, "limit"
		}
		if st := ch.Send(ctx, msg); !st.OK() {
			return n, "send:" + s.rctx.code(st)
		}
		s.rctx.tick()
		n++
		var st status.Status
		msg, st = ch.Receive(ctx)
		if !st.OK() {
			return n, "recv:" + s.rctx.code(st)
		}
	}
}

// sibling runs an echo channel and verifies every echo; it returns what went wrong, if anything.
func (s *c06State) sibling(conn mpx.Conn, p *c06Plan, res *c06Result) string {
	rng := hx.NewRand(p.seed)
	msgs := make([][]byte, p.msgs)
	for i := range msgs {
		msgs[i] = c06Msg(rng, behEcho, p.idx, 0, uint32(i), c06Size(rng, i == 0))
	}

	ch, st := conn.Channel(s.rctx)
	if !st.OK() {
		return "open-error:" + s.rctx.code(st)
	}
	defer ch.Free()

	rc := async.NextContext(s.rctx)
	defer rc.Free()
	recv := make(chan string, 1)
	go func() {
		defer func() {
			if e := recover(); e != nil {
				res.panicText = fmt.Sprint(e)
				recv <- "client-panic"
			}
		}()
		for j := range msgs {
			data, st := ch.Receive(rc)
			if !st.OK() {
				recv <- fmt.Sprintf("recv-error@%d:%s", j, s.rctx.code(st))
				return
			}
			s.rctx.tick()
			if !bytes.Equal(data, msgs[j]) {
				recv <- c06Mismatch(msgs, j, data, p.idx)
				return
			}
		}
		recv <- ""
	}()

	what := ""
	for i, m := range msgs {
		if st := ch.Send(s.rctx, m); !st.OK() {
			what = fmt.Sprintf("send-error@%d:%s", i, s.rctx.code(st))
			rc.Cancel()
			break
		}
		s.rctx.tick()
		c06Pace(rng)
	}
	if w := <-recv; what == "" {
		what = w
	}
	if what != "" {
		return what
	}

	// Every echo arrived; nothing more may be pending and the channel must still be open.
	data, ok, st := ch.ReceiveAsync(s.rctx)
	switch {
	case !st.OK():
		return "ended-early:" + s.rctx.code(st)
	case ok:
		return c06Mismatch(msgs, len(msgs), data, p.idx)
	}
	return ""
}

// c06Mismatch names the way an echo differs from the message expected at position j.
func c06Mismatch(msgs [][]byte, j int, got []byte, idx int) string {
	if len(got) >= 8 && (int(got[1])<<8|int(got[2])) != idx {
		return fmt.Sprintf("foreign-echo@%d", j)
	}
	for k, m := range msgs {
		if bytes.Equal(got, m) {
			switch {
			case k < j:
				return fmt.Sprintf("duplicated-echo@%d=%d", j, k)
			case k > j:
				return fmt.Sprintf("missing-echo@%d,got=%d", j, k)
			}
		}
	}
	if j >= len(msgs) {
		return fmt.Sprintf("extra-echo@%d", j)
	}
	return fmt.Sprintf("corrupt-echo@%d,len=%d/%d", j, len(got), len(msgs[j]))
}

// other runs a channel whose server side ends early; send and receive errors are expected.
func (s *c06State) other(conn mpx.Conn, p *c06Plan, res *c06Result) {
	rng := hx.NewRand(p.seed)
	ch, st := conn.Channel(s.rctx)
	if !st.OK() {
		return
	}

	// A reader drains replies and echoes, so that flow control never stalls both directions.
	rc := async.NextContext(s.rctx)
	defer rc.Free()
	done := make(chan struct{})
	go func() {
		defer close(done)
		defer func() {
			if e := recover(); e != nil {
				res.panicText = fmt.Sprint(e)
			}
		}()
		for {
			if _, st := ch.Receive(rc); !st.OK() {
				return
			}
			s.rctx.tick()
		}
	}()

	for i := 0; i < p.msgs; i++ {
		if p.mode == modeFree && i == p.point {
			break
		}
		m := c06Msg(rng, p.beh, p.idx, p.k, uint32(i), c06Size(rng, i == 0))
		if p.mode == modeSendClose && i == p.point {
			ch.SendAndClose(s.rctx, m)
			break
		}
		if st := ch.Send(s.rctx, m); !st.OK() && s.rctx.code(st) == "timeout" {
			res.what = fmt.Sprintf("send-timeout@%d,beh=%d,mode=%d", i, p.beh, p.mode)
			break
		}
		s.rctx.tick()
		c06Pace(rng)
	}

	// The channel must not be used after Free, so the reader stops first.
	rc.Cancel()
	<-done
	ch.Free()
}

func c06Pace(rng *hx.Rand) {
	switch v := rng.Intn(64); {
	case v == 0:
		time.Sleep(50 * time.Microsecond)
	case v < 5:
		runtime.Gosched()
	}
}

// c06RoundTrip opens one more echo channel on the connection; it returns "" on success.
func c06RoundTrip(conn mpx.Conn, idx int, seed uint64) string {
	ctx := async.TimeoutContext(10 * time.Second)
	defer ctx.Free()
	ch, st := conn.Channel(ctx)
	if !st.OK() {
		return "final-open:" + string(st.Code)
	}
	defer ch.Free()
	msg := c06Msg(hx.NewRand(seed), behEcho, idx, 0, 0, 64)
	if st := ch.Send(ctx, msg); !st.OK() {
		return "final-send:" + string(st.Code)
	}
	data, st := ch.Receive(ctx)
	switch {
	case !st.OK():
		return "final-recv:" + string(st.Code)
	case !bytes.Equal(data, msg):
		return "final-mismatch"
	}
	return ""
}
