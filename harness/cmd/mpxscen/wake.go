package main

import (
	"fmt"
	"time"

	"github.com/basecomplextech/baselibrary/async"
	"github.com/basecomplextech/baselibrary/status"
	"github.com/basecomplextech/spec/mpx"
	"verif/harness/internal/caplog"
)

// Diagnostic scenario wake: the steps of Channel.Receive (poll with ReceiveAsync, then block on
// ReceiveWait) performed one at a time, with a message arriving between the two. It shows the root
// cause of the sporadic `timeout-` violations of c03 and c06: when the message does not fit into
// the emptied first block of the receive queue, ReceiveWait hands out a channel that is not
// notified although the message is pending, so a Receive that lost this race sleeps until the
// next frame for the channel arrives (for ever, if the peer in turn waits for the window).
func runWake(s *scenario, seed uint64) {
	for i, size := range []int{16, 200, 1000, 4000, 100000} {
		wakeOne(s, i, size)
	}
}

func wakeOne(s *scenario, run, size int) {
	head := fmt.Sprintf("run=%d size=%d", run, size)
	lg := caplog.New()
	ctx := async.TimeoutContext(10 * time.Second)
	defer ctx.Free()

	// The handler sends 8 bytes at once and the large message when asked to.
	handler := func(_ mpx.Context, ch mpx.Channel) status.Status {
		if _, st := ch.Receive(ctx); !st.OK() {
			return status.OK
		}
		ch.Send(ctx, make([]byte, 8))
		if _, st := ch.Receive(ctx); !st.OK() {
			return status.OK
		}
		ch.Send(ctx, make([]byte, size))
		ch.Receive(ctx) // until the client ends the channel
		return status.OK
	}
	srv, addr, why := startServer(mpx.HandleFunc(handler), lg, mpx.Default())
	if why != "" {
		s.emit(head, "setup-failed:"+token(why, 80))
		return
	}
	defer stopServer(srv)
	conn, st := connect(addr, lg, mpx.Default())
	if !st.OK() {
		s.emit(head, "setup-failed:connect")
		return
	}
	defer closeConn(conn)
	ch, st := conn.Channel(ctx)
	if !st.OK() {
		s.emit(head, "setup-failed:channel")
		return
	}
	defer ch.Free()

	// Receive the small message; the queue is empty afterwards.
	ch.Send(ctx, []byte("open"))
	if _, st := ch.Receive(ctx); !st.OK() {
		s.emit(head, "setup-failed:first-receive:"+string(st.Code))
		return
	}
	_, ok, _ := ch.ReceiveAsync(ctx)
	empty := !ok

	// The large message arrives after the poll and before the wait.
	ch.Send(ctx, []byte("more"))
	time.Sleep(100 * time.Millisecond)
	notified := false
	select {
	case <-ch.ReceiveWait():
		notified = true
	case <-time.After(500 * time.Millisecond):
	}
	data, pending, _ := ch.ReceiveAsync(ctx)

	line := fmt.Sprintf("%s empty_after_first=%v notified=%v pending=%v pending_len=%d", head, empty, notified, pending, len(data))
	viol := ""
	if pending && !notified {
		viol = "timeout-receive-wait:message-pending-but-not-notified"
	}
	s.emit(line, viol)
}
