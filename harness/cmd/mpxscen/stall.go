package main

import (
	"fmt"
	"io"
	"net"
	"sync"
	"sync/atomic"
	"time"

	"github.com/basecomplextech/baselibrary/async"
	"github.com/basecomplextech/baselibrary/status"
	"github.com/basecomplextech/spec/mpx"
	"verif/harness/internal/caplog"
	"verif/harness/internal/hx"
)

// stallProxy forwards one TCP connection; the client-to-server direction can be stalled, which
// fills the kernel buffers, then the client's connection writer and finally its write queue.
type stallProxy struct {
	ln    net.Listener
	addr  string
	stall atomic.Bool
	fwd   atomic.Int64
	mu    sync.Mutex
	conns []net.Conn
}

func newStallProxy(target string) (*stallProxy, error) {
	ln, err := net.Listen("tcp", "127.0.0.1:0")
	if err != nil {
		return nil, err
	}
	p := &stallProxy{ln: ln, addr: ln.Addr().String()}
	go func() {
		for {
			c, err := ln.Accept()
			if err != nil {
				return
			}
			s, err := net.Dial("tcp", target)
			if err != nil {
				c.Close()
				continue
			}
			p.mu.Lock()
			p.conns = append(p.conns, c, s)
			p.mu.Unlock()
			go func() { io.Copy(c, s); c.Close() }() // server -> client: never stalled
			go func() { // client -> server
				buf := make([]byte, 32<<10)
				for {
					for p.stall.Load() {
						time.Sleep(5 * time.Millisecond)
					}
					n, err := c.Read(buf)
					if n > 0 {
						p.fwd.Add(int64(n))
						if _, werr := s.Write(buf[:n]); werr != nil {
							return
						}
					}
					if err != nil {
						s.Close()
						return
					}
				}
			}()
		}
	}()
	return p, nil
}

func (p *stallProxy) close() {
	p.ln.Close()
	p.mu.Lock()
	defer p.mu.Unlock()
	for _, c := range p.conns {
		c.Close()
	}
}

// stallRun: Free of a channel whose closing frame cannot be queued (the write queue is full because
// the peer's socket is not drained), while the peer ends the same channel. Free must return without
// panicking, the connection must stay open and a sibling channel must keep working once the
// transport drains again.
func stallRun(s *scenario, peerEnds bool) {
	name := "free-first"
	if peerEnds {
		name = "peer-ends"
	}
	lg := caplog.New()
	opts := mpx.Default()
	opts.ChannelWindowSize = 256 << 20
	opts.WriteQueueSize = 16 << 10
	opts.WriteBufferSize = 4 << 10

	release := make(chan struct{})
	var handlerCancelled atomic.Bool
	handler := mpx.HandleFunc(func(ctx mpx.Context, ch mpx.Channel) status.Status {
		b, st := ch.Receive(ctx)
		if !st.OK() {
			return st
		}
		if len(b) > 0 && b[0] == 'E' { // sibling: echo until end
			for {
				if st := ch.Send(ctx, b); !st.OK() {
					return st
				}
				b, st = ch.Receive(ctx)
				if !st.OK() {
					return status.OK
				}
			}
		}
		select {
		case <-release: // handler return ends the channel from the server side
		case <-ctx.Wait(): // the client ended the channel
			handlerCancelled.Store(true)
		}
		return status.OK
	})
	srv, addr, errs := startServer(handler, lg, opts)
	if errs != "" {
		s.emit("run="+name+" infra="+errs, "")
		return
	}
	defer stopServer(srv)
	px, err := newStallProxy(addr)
	if err != nil {
		s.emit("run="+name+" infra=proxy", "")
		return
	}
	defer px.close()
	conn, st := connect(px.addr, lg, opts)
	if !st.OK() {
		s.emit("run="+name+" infra=connect", "")
		return
	}
	defer closeConn(conn)

	ch, st := conn.Channel(async.TimeoutContext(5 * time.Second))
	if !st.OK() {
		s.emit("run="+name+" infra=channel", "")
		return
	}
	if st := ch.Send(async.TimeoutContext(5*time.Second), []byte("S-first")); !st.OK() {
		s.emit("run="+name+" infra=first-send", "")
		return
	}
	time.Sleep(100 * time.Millisecond)

	// fill: stalled transport, keep sending until Send makes no progress
	px.stall.Store(true)
	var sent atomic.Int64
	blocked := true
	// phases with ever smaller messages: in the end not even a closing frame fits the queue
	for _, size := range []int{64 << 10, 1000, 20, 1} {
		sctx := async.NewContext()
		senderDone := make(chan struct{})
		go func() {
			defer close(senderDone)
			msg := make([]byte, size)
			fillBytes(hx.NewRand(7), msg) // incompressible: the connection may have negotiated lz4
			for {
				if st := ch.Send(sctx, msg); !st.OK() {
					return
				}
				sent.Add(1)
			}
		}()
		last, still := int64(-1), 0
		for still < 3 && sent.Load() < 100000 {
			time.Sleep(60 * time.Millisecond)
			if n := sent.Load(); n == last {
				still++
			} else {
				last, still = n, 0
			}
		}
		blocked = blocked && still >= 3
		sctx.Cancel()
		select {
		case <-senderDone:
		case <-time.After(3 * time.Second):
		}
	}

	// Free while the write queue is full; the peer ends the channel meanwhile
	viol := ""
	freeDone := make(chan string, 1)
	go func() {
		defer func() {
			if e := recover(); e != nil {
				freeDone <- fmt.Sprint(e)
				return
			}
			freeDone <- ""
		}()
		ch.Free()
	}()
	time.Sleep(200 * time.Millisecond)
	freeBlocked := len(freeDone) == 0
	if peerEnds {
		close(release) // server handler returns: its close frame reaches the client
	} else {
		defer close(release)
	}
	var freeRes string
	select {
	case freeRes = <-freeDone:
	case <-time.After(3 * time.Second):
		freeRes = "pending"
	}
	if freeRes != "" && freeRes != "pending" {
		viol = "free-panicked:" + token(freeRes, 60)
	}
	px.stall.Store(false)
	if freeRes == "pending" {
		select {
		case freeRes = <-freeDone:
			if freeRes != "" {
				viol = "free-panicked:" + token(freeRes, 60)
			}
		case <-time.After(5 * time.Second):
			viol = "free-hangs"
		}
	}

	// free-first: once the transport drains the closing frame must reach the peer, whose handler
	// context is cancelled because the channel ended
	if !peerEnds && viol == "" {
		deadline := time.Now().Add(5 * time.Second)
		for !handlerCancelled.Load() && time.Now().Before(deadline) {
			time.Sleep(20 * time.Millisecond)
		}
		if !handlerCancelled.Load() {
			viol = "handler-context-not-cancelled-after-free"
		}
	}

	// the connection and a sibling channel still work
	sib := "ok"
	if conn.Closed().IsSet() {
		sib = "conn-closed"
	} else if c2, st := conn.Channel(async.TimeoutContext(5 * time.Second)); !st.OK() {
		sib = "channel:" + string(st.Code)
	} else {
		ctx := async.TimeoutContext(10 * time.Second)
		if st := c2.Send(ctx, []byte("E-echo")); !st.OK() {
			sib = "send:" + string(st.Code)
		} else if b, st := c2.Receive(ctx); !st.OK() || string(b) != "E-echo" {
			sib = "recv:" + string(st.Code)
		}
		c2.Free()
	}
	if viol == "" && sib != "ok" {
		viol = "sibling-" + sib
	}
	if viol == "" && len(lg.Panics()) > 0 {
		viol = "library-panic:" + token(lg.Panics()[0], 60)
	}
	s.emit(fmt.Sprintf("run="+name+" fwd=%d sent=%d send_blocked=%v free_blocked=%v free=%s sibling=%s panics=%d", px.fwd.Load(), sent.Load(), blocked,
		freeBlocked, token(freeRes, 30), sib, len(lg.Panics())), viol)
}
