package main

import (
	"bytes"
	"fmt"
	"time"

	"github.com/basecomplextech/baselibrary/async"
	"github.com/basecomplextech/baselibrary/status"
	"github.com/basecomplextech/spec/mpx"
	"verif/harness/internal/caplog"
	"verif/harness/internal/hx"
)

// c03Sizes: every payload size from 1 to 2200 bytes (the property speaks of non-empty messages) and around the powers of two up to 128 KiB goes
// through one channel, one message at a time, and comes back unchanged (the handler echoes). Frame
// and buffer boundaries of the connection writer and reader (scratch buffers, the size prefix, the
// read buffer, the compression block) are crossed byte by byte, in both directions.
func c03Sizes(s *scenario, seed uint64, lz4 bool) {
	name := "sizes"
	if lz4 {
		name = "sizes-lz4"
	}
	r := hx.NewRand(seed ^ 0x512E5)
	lg := caplog.New()
	opts := mpx.Default()
	opts.Compression = lz4
	handler := mpx.HandleFunc(func(ctx mpx.Context, ch mpx.Channel) status.Status {
		for {
			msg, st := ch.Receive(ctx)
			if !st.OK() {
				if st.Code == status.CodeEnd {
					return status.OK
				}
				return st
			}
			if st := ch.Send(ctx, msg); !st.OK() {
				return st
			}
		}
	})
	srv, addr, errs := startServer(handler, lg, opts)
	if errs != "" {
		s.emit("run="+name+" infra="+errs, "")
		return
	}
	defer stopServer(srv)
	conn, st := connect(addr, lg, opts)
	if !st.OK() {
		s.emit("run="+name+" infra=connect", "")
		return
	}
	defer closeConn(conn)
	ch, st := conn.Channel(async.TimeoutContext(5 * time.Second))
	if !st.OK() {
		s.emit("run="+name+" infra=channel", "")
		return
	}
	defer ch.Free()

	var sizes []int
	for n := 1; n <= 2200; n++ {
		sizes = append(sizes, n)
	}
	for p := 4096; p <= 128*1024; p *= 2 {
		for d := -40; d <= 40; d++ {
			sizes = append(sizes, p+d)
		}
	}
	noise := r.Bytes(256 * 1024)
	viol := ""
	done := 0
	limit := 6 * time.Second
	if s.thorough {
		limit = 40 * time.Second
	}
	t0 := time.Now()
	for _, n := range sizes {
		if time.Since(t0) > limit {
			break
		}
		// half of the payloads compress well, half do not
		msg := make([]byte, n)
		if n%2 == 0 {
			copy(msg, noise[n%1000:])
		} else {
			for i := range msg {
				msg[i] = byte(n + i/7)
			}
		}
		ctx := async.TimeoutContext(10 * time.Second)
		st := ch.Send(ctx, msg)
		if !st.OK() {
			ctx.Free()
			viol = fmt.Sprintf("size-%d-send-%s", n, st.Code)
			break
		}
		got, st := ch.Receive(ctx)
		ctx.Free()
		if !st.OK() {
			viol = fmt.Sprintf("size-%d-message-not-delivered-back-(%s-after-10s)", n, st.Code)
			break
		}
		if !bytes.Equal(got, msg) {
			viol = fmt.Sprintf("size-%d-message-corrupted-(got-%d-bytes)", n, len(got))
			break
		}
		done++
	}
	if viol == "" && len(lg.Panics()) > 0 {
		viol = "library-panic:" + token(lg.Panics()[0], 60)
	}
	s.emit(fmt.Sprintf("run=%s sizes=%d", name, done), viol)
}
