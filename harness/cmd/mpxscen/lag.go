package main

import (
	"fmt"
	"sync/atomic"
	"time"

	"github.com/basecomplextech/baselibrary/async"
	"github.com/basecomplextech/baselibrary/status"
	"github.com/basecomplextech/spec/mpx"
	"verif/harness/internal/caplog"
)

// c03Lag: a receiver that starts reading only after the sender is blocked by flow control (or has
// finished), at the largest window of the property's range and with messages larger than the
// window: everything flow control admitted, plus the closing payload, must still be delivered.
//
//	mode "fill"     16 MiB window, 1 MiB messages until Send blocks, then SendAndClose with a payload
//	mode "oversize" 16 MiB window, two messages of 24 MiB (each admitted at window >= W/2), then close
func c03Lag(s *scenario, mode string) {
	const W = 16 << 20
	lg := caplog.New()
	opts := mpx.Default()
	opts.ChannelWindowSize = W

	type got struct {
		sizes []int
		bad   string
		end   bool
	}
	release := make(chan struct{})
	result := make(chan got, 1)
	handler := mpx.HandleFunc(func(ctx mpx.Context, ch mpx.Channel) status.Status {
		<-release
		var g got
		for {
			b, st := ch.Receive(ctx)
			if !st.OK() {
				g.end = st.Code == status.CodeEnd
				break
			}
			// every message is filled with the low byte of its index
			idx := len(g.sizes)
			for _, c := range b {
				if c != byte(idx) {
					g.bad = fmt.Sprintf("corrupt-msg-%d", idx)
					break
				}
			}
			g.sizes = append(g.sizes, len(b))
		}
		result <- g
		return status.OK
	})
	srv, addr, errs := startServer(handler, lg, opts)
	if errs != "" {
		s.emit("run=lag-"+mode+" infra="+errs, "")
		return
	}
	defer stopServer(srv)
	conn, st := connect(addr, lg, opts)
	if !st.OK() {
		s.emit("run=lag-"+mode+" infra=connect", "")
		return
	}
	defer closeConn(conn)
	ch, st := conn.Channel(async.TimeoutContext(5 * time.Second))
	if !st.OK() {
		s.emit("run=lag-"+mode+" infra=channel", "")
		return
	}
	defer ch.Free()

	mk := func(idx, n int) []byte {
		b := make([]byte, n)
		for i := range b {
			b[i] = byte(idx)
		}
		return b
	}
	var want []int
	var sent atomic.Int32
	size := 1 << 20
	count := 64
	if mode == "oversize" {
		size, count = 24<<20, 2
	}
	senderDone := make(chan string, 1)
	go func() {
		ctx := async.TimeoutContext(20 * time.Second)
		for i := 0; i < count; i++ {
			if st := ch.Send(ctx, mk(i, size)); !st.OK() {
				senderDone <- "send:" + string(st.Code)
				return
			}
			sent.Add(1)
		}
		if st := ch.SendAndClose(ctx, mk(count, 1000)); !st.OK() {
			senderDone <- "close:" + string(st.Code)
			return
		}
		senderDone <- ""
	}()
	// wait until the sender stops making progress (blocked on the window) or finishes
	last, still := int32(-1), 0
	for still < 4 {
		time.Sleep(100 * time.Millisecond)
		if n := sent.Load(); n == last {
			still++
		} else {
			last, still = n, 0
		}
		select {
		case e := <-senderDone:
			senderDone <- e
			still = 99
		default:
		}
	}
	blockedAt := int(sent.Load())
	close(release)
	viol := ""
	var serr string
	select {
	case serr = <-senderDone:
	case <-time.After(25 * time.Second):
		viol = "timeout-send"
	}
	for i := 0; i < count; i++ {
		want = append(want, size)
	}
	want = append(want, 1000)
	var g got
	select {
	case g = <-result:
	case <-time.After(25 * time.Second):
		if viol == "" {
			viol = "timeout-recv"
		}
	}
	if viol == "" {
		switch {
		case serr != "":
			viol = "sender-" + serr
		case g.bad != "":
			viol = "not-prefix-" + g.bad
		case !g.end:
			viol = "no-end-status"
		case len(g.sizes) != len(want):
			viol = fmt.Sprintf("incomplete got=%d want=%d", len(g.sizes), len(want))
		default:
			for i := range want {
				if g.sizes[i] != want[i] {
					viol = fmt.Sprintf("not-prefix-size-at-%d", i)
					break
				}
			}
		}
	}
	s.emit(fmt.Sprintf("run=lag-%s window=%d size=%d blocked_at=%d got=%d want=%d panics=%d", mode, W, size, blockedAt,
		len(g.sizes), len(want), len(lg.Panics())), viol)
}
