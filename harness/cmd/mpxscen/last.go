package main

import (
	"fmt"
	"time"

	"github.com/basecomplextech/baselibrary/async"
	"github.com/basecomplextech/baselibrary/status"
	"github.com/basecomplextech/spec/mpx"
	"verif/harness/internal/caplog"
	"verif/harness/internal/hx"
)

// c03Last: a message accepted by Send is delivered also when it is the last one queued on an
// otherwise silent connection. Every iteration uses a fresh connection, sends a small message that
// opens the channel and, a few microseconds later, a large one, then only waits: the server answers
// after it has received both. Nothing else is ever written to the connection, so a message that is
// queued without waking the send loop would stay in the queue for ever.
func c03Last(s *scenario, seed uint64) {
	iters := 1500
	if s.thorough {
		iters = 10000
	}
	r := hx.NewRand(seed ^ 0x1A57)
	lg := caplog.New()
	opts := mpx.Default()
	opts.Compression = false
	handler := mpx.HandleFunc(func(ctx mpx.Context, ch mpx.Channel) status.Status {
		total := 0
		for i := 0; i < 2; i++ {
			msg, st := ch.Receive(ctx)
			if !st.OK() {
				return st
			}
			total += len(msg)
		}
		return ch.SendAndClose(ctx, []byte{byte(total >> 16), byte(total >> 8), byte(total)})
	})
	srv, addr, errs := startServer(handler, lg, opts)
	if errs != "" {
		s.emit("run=last infra="+errs, "")
		return
	}
	defer stopServer(srv)
	small := r.Bytes(16)
	large := r.Bytes(64 * 1024)
	want := len(small) + len(large)
	viol := ""
	done := 0
	// its own share of the wall time, whatever the machine's load
	limit := 6 * time.Second
	if s.thorough {
		limit = 60 * time.Second
	}
	t0 := time.Now()
	for i := 0; i < iters && viol == ""; i++ {
		if s.exhausted() || time.Since(t0) > limit {
			break
		}
		func() {
			conn, st := connect(addr, lg, opts)
			if !st.OK() {
				viol = "infra"
				return
			}
			defer closeConn(conn)
			ch, st := conn.Channel(async.TimeoutContext(5 * time.Second))
			if !st.OK() {
				viol = "infra"
				return
			}
			defer ch.Free()
			ctx := async.NoContext()
			if st := ch.Send(ctx, small); !st.OK() {
				viol = fmt.Sprintf("iteration-%d-send-small-%s", i, st.Code)
				return
			}
			for spin := time.Now(); time.Since(spin) < time.Duration(i%40)*time.Microsecond; {
			}
			if st := ch.Send(ctx, large); !st.OK() {
				viol = fmt.Sprintf("iteration-%d-send-large-%s", i, st.Code)
				return
			}
			rctx := async.TimeoutContext(10 * time.Second)
			defer rctx.Free()
			reply, st := ch.Receive(rctx)
			if !st.OK() {
				viol = fmt.Sprintf("iteration-%d-message-accepted-by-send-never-delivered-(reply-%s-after-10s)", i, st.Code)
				return
			}
			if len(reply) != 3 || int(reply[0])<<16|int(reply[1])<<8|int(reply[2]) != want {
				viol = fmt.Sprintf("iteration-%d-server-received-wrong-byte-count", i)
				return
			}
			done++
		}()
	}
	if viol == "infra" {
		s.emit(fmt.Sprintf("run=last infra=connect done=%d", done), "")
		return
	}
	if viol == "" && len(lg.Panics()) > 0 {
		viol = "library-panic:" + token(lg.Panics()[0], 60)
	}
	s.emit(fmt.Sprintf("run=last iterations=%d", done), viol)
}
