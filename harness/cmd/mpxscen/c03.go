package main

import (
	"bytes"
	"encoding/binary"
	"fmt"
	"runtime"
	"sort"
	"strings"
	"sync"
	"sync/atomic"
	"time"

	"github.com/basecomplextech/baselibrary/async"
	"github.com/basecomplextech/baselibrary/status"
	"github.com/basecomplextech/baselibrary/units"
	"github.com/basecomplextech/spec/mpx"
	"verif/harness/internal/caplog"
	"verif/harness/internal/hx"
)

// Scenario c03: channels deliver messages exactly once, in order, uncorrupted.
//
// Message layout (messages shorter than 8 bytes are pure PRNG bytes; the first and the last message
// of every sequence are at least 8 bytes long):
//
//	byte 0..3  channel index, big endian
//	byte 4..7  sequence number, big endian; bit 31 = last message of the sequence,
//	           bit 30 = direction (set for server to client)
//	byte 8..   PRNG fill or a short repeated pattern
//
// On every channel both sides send their own sequence at once. One side, the closer, ends the
// channel after its last message, by SendAndClose carrying that message or by Send followed by
// Free (client) / returning from the handler (server). A closer with waitPeer set first waits for
// the last message of the other side, so that both directions must be complete.

const (
	c03FlagLast = 0x80
	c03FlagS2C  = 0x40
	c03MaxMsg   = 200 * 1024
)

type c03Cfg struct {
	window, wq, rb, wb int // 0 = library default
	lz4                bool
	conns, channels    int
	maxMsgs            int
	byteBudget         int
	yieldProb          uint32
	yieldSleep         time.Duration
}

// c03Side is one end of a channel: what it sends and what it received.
type c03Side struct {
	msgs        [][]byte // planned sequence
	sent        int      // msgs[:sent] were accepted by Send/SendAndClose (sending stops at the first error)
	sendErr     string
	recv        [][]byte // copies of what Receive returned, in order
	recvEnd     string   // status code that ended the receive loop
	earlyCancel int      // Receive(channel context) reported cancellation while a message was pending
	slow        bool     // the reader pauses now and then
	panicText   string
}

type c03Chan struct {
	idx, conn    int
	closerClient bool
	waitPeer     bool
	viaClose     bool // the closer's last message is carried by the closing frame
	batch        bool // a single client message sent by SendAndClose as the first call (open+close batch)
	useCctx      bool // the handler receives with the channel context
	delayFirst   time.Duration
	seed         uint64    // message contents
	pace         [2]uint64 // writer pacing, client and server
	slowSeed     [2]uint64 // reader pauses, client and server

	cli, srv  c03Side
	claimed   atomic.Bool
	srvDone   chan struct{}
	abort     chan struct{}
	abortOnce sync.Once
}

type c03Run struct {
	rctx    *runClock
	chans   []*c03Chan
	orphans atomic.Int32
	dupOpen atomic.Int32
}

func runC03(s *scenario, seed uint64) {
	master := hx.NewRand(hx.NewRand(seed).U64() ^ 0xC03C03C03)
	runs := 10
	if s.thorough {
		runs = 1500 // as many as fit into the wall-time budget
	}
	if s.only < 0 {
		c03Sizes(s, seed, false)
		c03Sizes(s, seed, true)
		c03Last(s, seed)
		c03First(s)
		c03Lag(s, "fill")
		c03Lag(s, "oversize")
	}
	for i := 0; i < runs; i++ {
		derived := master.U64()
		if s.only >= 0 && i != s.only {
			continue
		}
		if s.exhausted() {
			fmt.Printf("c03 note=budget-exhausted skipped=%d\n", runs-i)
			break
		}
		c03One(s, i, derived)
	}
}

func pick(r *hx.Rand, vs ...int) int { return vs[r.Intn(len(vs))] }

func c03Config(s *scenario, run int, r *hx.Rand) c03Cfg {
	c := c03Cfg{
		// Windows and compression cycle with the run index, so that every window occurs with and
		// without lz4 within ten runs.
		window:     []int{1, 7, 64, 4096, 0}[run%5],
		lz4:        run%2 == 0,
		wq:         pick(r, 1, 16, 256, 65536, 0),
		rb:         pick(r, 16, 64, 4096, 0),
		wb:         pick(r, 16, 64, 4096, 0),
		conns:      1 + r.Intn(3),
		channels:   1 + r.Intn(16),
		maxMsgs:    120,
		byteBudget: 6 << 20,
	}
	if s.thorough {
		c.maxMsgs = 400
		c.byteBudget = 8 << 20
	}
	if r.Intn(2) == 0 {
		c.yieldProb = uint32(pick(r, 5, 20, 50))
		c.yieldSleep = time.Duration(pick(r, 0, 20000))
	}
	return c
}

func (c c03Cfg) options() mpx.Options {
	o := mpx.Default()
	o.Compression = c.lz4
	if c.window > 0 {
		o.ChannelWindowSize = units.Bytes(c.window)
	}
	if c.wq > 0 {
		o.WriteQueueSize = units.Bytes(c.wq)
	}
	if c.rb > 0 {
		o.ReadBufferSize = units.Bytes(c.rb)
	}
	if c.wb > 0 {
		o.WriteBufferSize = units.Bytes(c.wb)
	}
	return o
}

func c03Size(r *hx.Rand, w int) int {
	clamp := func(v int) int {
		if v < 1 {
			return 1
		}
		if v > c03MaxMsg {
			return c03MaxMsg
		}
		return v
	}
	switch r.Intn(10) {
	case 0, 1, 2:
		return 1 + r.Intn(16)
	case 3, 4, 5:
		return clamp(pick(r, w/2-1, w/2, w/2+1, w-1, w, w+1, 2*w, 3*w))
	case 6, 7, 8:
		return 1 + r.Intn(clamp(3*w))
	}
	return 1 + r.Intn(clamp(max(3*w, 4096)))
}

// c03Seq builds one direction's sequence of count messages within a byte budget.
func c03Seq(r *hx.Rand, idx int, s2c bool, count, window, budget int) [][]byte {
	w := window
	if w == 0 {
		w = int(mpx.Default().ChannelWindowSize)
	}
	msgs := make([][]byte, count)
	total := 0
	for i := range msgs {
		size := c03Size(r, w)
		if total+size > budget {
			size = 1 + r.Intn(64)
		}
		if (i == 0 || i == count-1) && size < 8 {
			size = 8
		}
		total += size
		b := make([]byte, size)
		if size < 8 {
			fillBytes(r, b)
			msgs[i] = b
			continue
		}
		if r.Intn(2) == 0 {
			fillBytes(r, b[8:])
		} else {
			fillPattern(r, b[8:])
		}
		binary.BigEndian.PutUint32(b, uint32(idx))
		binary.BigEndian.PutUint32(b[4:], uint32(i))
		if i == count-1 {
			b[4] |= c03FlagLast
		}
		if s2c {
			b[4] |= c03FlagS2C
		}
		msgs[i] = b
	}
	return msgs
}

func c03Plan(cfg c03Cfg, r *hx.Rand) []*c03Chan {
	chans := make([]*c03Chan, cfg.channels)
	budget := cfg.byteBudget / (2 * cfg.channels)
	for i := range chans {
		c := &c03Chan{
			idx:          i,
			conn:         i % cfg.conns,
			closerClient: r.Intn(2) == 0,
			waitPeer:     r.Intn(2) == 0,
			viaClose:     r.Intn(2) == 0,
			seed:         r.U64(),
			pace:         [2]uint64{r.U64(), r.U64()},
			slowSeed:     [2]uint64{r.U64(), r.U64()},
			srvDone:      make(chan struct{}),
			abort:        make(chan struct{}),
		}
		if r.Intn(3) == 0 {
			c.delayFirst = time.Duration(r.Intn(2000)) * time.Microsecond
		}
		nc := 20 + r.Intn(cfg.maxMsgs-20+1)
		ns := 20 + r.Intn(cfg.maxMsgs-20+1)
		if r.Intn(10) == 0 {
			c.batch, c.closerClient, c.waitPeer, c.viaClose = true, true, false, true
			nc = 1
		}
		// The channel context cannot interrupt a blocked Receive before the channel ends, so it is
		// used only by handlers that read until the end.
		serverStopsReading := !c.closerClient && !c.viaClose
		c.useCctx = r.Intn(2) == 0 && !serverStopsReading
		c.cli.slow = r.Intn(4) == 0
		c.srv.slow = r.Intn(4) == 0
		mr := hx.NewRand(c.seed)
		c.cli.msgs = c03Seq(mr, i, false, nc, cfg.window, budget)
		c.srv.msgs = c03Seq(mr, i, true, ns, cfg.window, budget)
		chans[i] = c
	}
	return chans
}

func c03One(s *scenario, run int, derived uint64) {
	r := hx.NewRand(derived)
	cfg := c03Config(s, run, r)
	opts := cfg.options()
	comp := "none"
	if cfg.lz4 {
		comp = "lz4"
	}
	head := fmt.Sprintf("run=%d seed=%d window=%d wq=%d comp=%s conns=%d channels=%d",
		run, derived, int(opts.ChannelWindowSize), int(opts.WriteQueueSize), comp, cfg.conns, cfg.channels)
	tail := fmt.Sprintf("rb=%d wb=%d yprob=%d ysleepns=%d", int(opts.ReadBufferSize), int(opts.WriteBufferSize),
		cfg.yieldProb, int64(cfg.yieldSleep))

	timeout := s.runTimeout(10*time.Second, 30*time.Second)
	rn := &c03Run{rctx: newRunClock(timeout, s.stallLimit()), chans: c03Plan(cfg, r)}
	defer rn.rctx.stop()
	lg := caplog.New()

	fail := func(why string) {
		s.emit(head+" msgs=0 bytes=0 ok=false "+tail, "setup-failed:"+token(why, 80))
	}
	// compression is what the handshake negotiated (the client offers, the server picks from the offer):
	// the server's own setting differs from the client's in half of the runs
	sopts := opts
	if derived>>9&1 == 1 {
		sopts.Compression = !opts.Compression
	}
	srv, addr, why := startServer(mpx.HandleFunc(rn.handle), lg, sopts)
	if why != "" {
		fail(why)
		return
	}
	defer stopServer(srv)
	conns := make([]mpx.Conn, cfg.conns)
	defer func() {
		for _, c := range conns {
			closeConn(c)
		}
	}()
	for i := range conns {
		c, st := connect(addr, lg, opts)
		if !st.OK() {
			fail("connect:" + st.String())
			return
		}
		conns[i] = c
	}

	began := time.Now()
	mpx.VerifSetYield(derived, cfg.yieldProb, cfg.yieldSleep)
	defer mpx.VerifSetYield(0, 0, 0)

	// Traffic
	var wg sync.WaitGroup
	for _, c := range rn.chans {
		wg.Add(1)
		go func() {
			defer wg.Done()
			defer func() {
				if e := recover(); e != nil {
					c.cli.panicText = fmt.Sprint(e)
				}
			}()
			rn.client(conns[c.conn], c)
		}()
	}
	joined := waitGroup(&wg, rn.rctx.Wait(), 3*time.Second)
	if joined {
		joined = rn.waitHandlers(3 * time.Second)
	}
	rn.rctx.stop()
	mpx.VerifSetYield(0, 0, 0)
	connClosed := false
	for _, c := range conns {
		if c.Closed().IsSet() {
			connClosed = true
		}
	}
	for _, c := range conns {
		closeConn(c)
	}
	if !joined {
		// Closing the connections unblocks whatever was stuck; the logs are read only when
		// every goroutine is gone.
		joined = waitGroup(&wg, make(chan struct{}), 3*time.Second) && rn.waitHandlers(3*time.Second)
	}

	// Verdict
	var viols []string
	if ps := lg.Panics(); len(ps) > 0 {
		viols = append(viols, "library-panic:"+token(ps[0], 160))
	}
	if connClosed {
		viols = append(viols, "conn-closed")
	}
	msgs, total, early := 0, 0, 0
	if joined {
		viols = append(viols, rn.check()...)
		for _, c := range rn.chans {
			for _, side := range []*c03Side{&c.cli, &c.srv} {
				msgs += side.sent
				for _, m := range side.msgs[:side.sent] {
					total += len(m)
				}
				early += side.earlyCancel
			}
		}
	} else {
		viols = append(viols, "timeout-stuck")
	}
	if rn.rctx.Done() && !hasPrefix(viols, "timeout-") {
		viols = append(viols, "timeout-run")
	}

	line := fmt.Sprintf("%s msgs=%d bytes=%d ok=%v %s earlycancel=%d ms=%d", head, msgs, total, len(viols) == 0,
		tail, early, time.Since(began).Milliseconds())
	viol := ""
	if len(viols) > 0 {
		// A panic or wrong content is never the consequence of a timeout, whereas a timeout or a
		// missing tail often is the consequence of one of those: report causes first.
		rank := func(v string) int {
			for i, p := range []string{"library-panic", "cross-channel", "not-prefix", "conn-closed", "timeout-", "incomplete"} {
				if strings.HasPrefix(v, p) {
					return i
				}
			}
			return 9
		}
		sort.SliceStable(viols, func(i, j int) bool { return rank(viols[i]) < rank(viols[j]) })
		viol = viols[0]
		if len(viols) > 1 {
			line += fmt.Sprintf(" more=%d", len(viols)-1)
		}
	}
	s.emit(line, viol)
	if s.verbose && len(viols) > 0 {
		for _, v := range viols {
			fmt.Printf("c03 detail run=%d viol=%s\n", run, token(v, 200))
		}
		for _, c := range rn.chans {
			if !joined {
				break
			}
			fmt.Printf("c03 detail run=%d ch=%d conn=%d closer_client=%v wait=%v viaclose=%v batch=%v usecctx=%v "+
				"cli_sent=%d/%d cli_recv=%d cli_end=%s cli_err=%s srv_sent=%d/%d srv_recv=%d srv_end=%s srv_err=%s\n",
				run, c.idx, c.conn, c.closerClient, c.waitPeer, c.viaClose, c.batch, c.useCctx,
				c.cli.sent, len(c.cli.msgs), len(c.cli.recv), token(c.cli.recvEnd, 20), token(c.cli.sendErr, 40),
				c.srv.sent, len(c.srv.msgs), len(c.srv.recv), token(c.srv.recvEnd, 20), token(c.srv.sendErr, 40))
		}
	}
}

func hasPrefix(vs []string, p string) bool {
	for _, v := range vs {
		if strings.HasPrefix(v, p) {
			return true
		}
	}
	return false
}

// waitHandlers waits for the handler of every channel the client managed to open. A channel whose
// opening message the server could not attribute never gets a handler; such channels are given up
// shortly after the unattributed handlers showed up, and check reports them.
func (r *c03Run) waitHandlers(grace time.Duration) bool {
	count := func() (unclaimed, running int) {
		for _, c := range r.chans {
			if c.cli.sent == 0 {
				continue
			}
			select {
			case <-c.srvDone:
				continue
			default:
			}
			if c.claimed.Load() {
				running++
			} else {
				unclaimed++
			}
		}
		return
	}
	tick := time.NewTicker(2 * time.Millisecond)
	defer tick.Stop()
	expired := r.rctx.Wait()
	var late <-chan time.Time
	var lost time.Time
	for {
		unclaimed, running := count()
		switch {
		case unclaimed == 0 && running == 0:
			return true
		case running == 0 && int(r.orphans.Load()+r.dupOpen.Load()) >= unclaimed:
			if lost.IsZero() {
				lost = time.Now()
			} else if time.Since(lost) > 200*time.Millisecond {
				return true
			}
		}
		select {
		case <-tick.C:
		case <-expired:
			expired, late = nil, time.After(grace)
		case <-late:
			return running == 0
		}
	}
}

func (r *c03Run) client(conn mpx.Conn, c *c03Chan) {
	ch, st := conn.Channel(r.rctx)
	if !st.OK() {
		c.cli.sendErr = "at=open,st=" + r.rctx.code(st)
		return
	}
	if c.delayFirst > 0 {
		time.Sleep(c.delayFirst)
	}
	r.endpoint(ch, c, &c.cli, true, nil)
}

func (r *c03Run) handle(cctx mpx.Context, ch mpx.Channel) status.Status {
	first, st := ch.Receive(r.rctx)
	if !st.OK() || len(first) < 8 || be32(first) >= len(r.chans) {
		r.orphans.Add(1)
		return status.OK
	}
	c := r.chans[be32(first)]
	if !c.claimed.CompareAndSwap(false, true) {
		r.dupOpen.Add(1)
		return status.OK
	}
	defer close(c.srvDone)
	defer func() {
		if e := recover(); e != nil {
			c.srv.panicText = fmt.Sprint(e)
		}
	}()
	c.srv.recv = append(c.srv.recv, append([]byte(nil), first...))
	r.endpoint(ch, c, &c.srv, false, cctx)
	return status.OK
}

// endpoint runs one end of a channel: a reader that records everything until the end status and
// a writer that sends the side's own sequence.
func (r *c03Run) endpoint(ch mpx.Channel, c *c03Chan, me *c03Side, client bool, cctx async.Context) {
	closer := c.closerClient == client
	side := 0
	if !client {
		side = 1
	}
	rc := async.NextContext(r.rctx)
	defer rc.Free()

	peerLast := make(chan struct{})
	sawLast := false
	note := func(m []byte) {
		if !sawLast && len(m) >= 8 && m[4]&c03FlagLast != 0 {
			sawLast = true
			close(peerLast)
		}
	}
	for _, m := range me.recv {
		note(m)
	}

	useCctx := cctx != nil && c.useCctx
	recvDone := make(chan struct{})
	go func() {
		defer close(recvDone)
		defer func() {
			if e := recover(); e != nil {
				me.panicText = fmt.Sprint(e)
				me.recvEnd = "panic"
			}
		}()
		rng := hx.NewRand(c.slowSeed[side])
		for {
			var data []byte
			var st status.Status
			if useCctx {
				data, st = ch.Receive(cctx)
				if st.Code == status.CodeCancelled {
					// The channel ended. Whatever was pending must still come out before the end.
					data, st = ch.Receive(rc)
					if st.OK() {
						me.earlyCancel++
					}
				}
			} else {
				data, st = ch.Receive(rc)
			}
			if !st.OK() {
				me.recvEnd = r.rctx.code(st)
				return
			}
			r.rctx.tick()
			m := append([]byte{}, data...)
			me.recv = append(me.recv, m)
			note(m)
			if me.slow && rng.Intn(16) == 0 {
				time.Sleep(50 * time.Microsecond)
			}
		}
	}()

	rng := hx.NewRand(c.pace[side])
	n := len(me.msgs)
	send := func(i int, closeIt bool) bool {
		var st status.Status
		if closeIt {
			st = ch.SendAndClose(r.rctx, me.msgs[i])
		} else {
			st = ch.Send(r.rctx, me.msgs[i])
		}
		if !st.OK() {
			me.sendErr = fmt.Sprintf("at=%d,st=%s", i, r.rctx.code(st))
			return false
		}
		r.rctx.tick()
		me.sent = i + 1
		return true
	}

	ok := true
	for i := 0; i < n-1 && ok; i++ {
		ok = send(i, false)
		switch v := rng.Intn(64); {
		case v == 0:
			time.Sleep(30 * time.Microsecond)
		case v < 4:
			runtime.Gosched()
		}
	}
	endedByClose := false
	if ok {
		if !closer {
			ok = send(n-1, false)
		} else {
			if c.waitPeer {
				select {
				case <-peerLast:
				case <-recvDone:
				case <-c.abort:
				case <-r.rctx.Wait():
				}
			}
			ok = send(n-1, c.viaClose)
			endedByClose = ok && c.viaClose
		}
	}
	if !ok {
		c.abortOnce.Do(func() { close(c.abort) })
	}
	if closer && !endedByClose {
		// The channel ends by Free (client) or by returning from the handler (server). It must not
		// be used after that, so the reader stops first.
		rc.Cancel()
	}
	<-recvDone
	if client {
		ch.Free()
	}
}

// check compares what was received with what was sent, per channel and direction.
func (r *c03Run) check() []string {
	var out []string
	if n := r.orphans.Load(); n > 0 {
		out = append(out, fmt.Sprintf("not-prefix kind=unidentified-open n=%d", n))
	}
	if n := r.dupOpen.Load(); n > 0 {
		out = append(out, fmt.Sprintf("not-prefix kind=duplicated-open n=%d", n))
	}
	for _, c := range r.chans {
		type dir struct {
			name         string
			s, r         *c03Side
			recvIsClient bool
		}
		if e := c.cli.sendErr; strings.HasPrefix(e, "at=open") {
			out = append(out, fmt.Sprintf("incomplete ch=%d kind=open-failed %s", c.idx, e))
			continue
		}
		if c.cli.sent > 0 && !c.claimed.Load() {
			out = append(out, fmt.Sprintf("incomplete ch=%d dir=c2s kind=no-handler got=0 want=%d", c.idx, c.cli.sent))
			continue
		}
		for _, d := range []dir{{"c2s", &c.cli, &c.srv, false}, {"s2c", &c.srv, &c.cli, true}} {
			id := fmt.Sprintf("ch=%d dir=%s", c.idx, d.name)
			if d.s.panicText != "" {
				out = append(out, fmt.Sprintf("harness-panic %s text=%s", id, token(d.s.panicText, 100)))
			}
			sent, recv := d.s.msgs[:d.s.sent], d.r.recv

			// Content
			for k, m := range recv {
				if len(m) >= 8 {
					if from := be32(m); from != c.idx {
						out = append(out, fmt.Sprintf("cross-channel %s at=%d from=%d", id, k, from))
						break
					}
					if (m[4]&c03FlagS2C != 0) != d.recvIsClient {
						out = append(out, fmt.Sprintf("cross-channel %s at=%d kind=reflected", id, k))
						break
					}
				}
				if k >= len(sent) {
					out = append(out, fmt.Sprintf("not-prefix %s at=%d kind=extra sent=%d", id, k, len(sent)))
					break
				}
				if !bytes.Equal(m, sent[k]) {
					out = append(out, fmt.Sprintf("not-prefix %s at=%d kind=%s", id, k, c03Kind(d.s.msgs, k, m)))
					break
				}
			}

			// Completeness: the receiver read until the end without ending the channel itself and
			// the sender closed after its last message.
			recvIsCloser := c.closerClient == d.recvIsClient
			sentAll := d.s.sent == len(d.s.msgs)
			if !recvIsCloser && d.r.recvEnd == "end" && sentAll && len(recv) != len(sent) {
				out = append(out, fmt.Sprintf("incomplete %s got=%d want=%d", id, len(recv), len(sent)))
			}
			// A closer that waited for the peer's last message ends only after it has seen all of them.
			if recvIsCloser && c.waitPeer && sentAll && len(recv) != len(sent) {
				out = append(out, fmt.Sprintf("incomplete %s got=%d want=%d kind=waited", id, len(recv), len(sent)))
			}

			// End status of the reader
			wantEnd := "end"
			if recvIsCloser && !(c.viaClose && d.r.sent == len(d.r.msgs)) {
				wantEnd = "cancelled" // it stopped reading in order to end the channel
			}
			switch {
			case d.r.recvEnd == wantEnd:
			case d.r.recvEnd == "timeout":
				out = append(out, fmt.Sprintf("timeout-recv %s got=%d", id, len(recv)))
			default:
				out = append(out, fmt.Sprintf("incomplete %s kind=bad-end st=%s want=%s", id, token(d.r.recvEnd, 20), wantEnd))
			}

			// Send errors: only a side whose peer may end the channel at any time can see one,
			// and then only "closed".
			if e := d.s.sendErr; e != "" {
				switch {
				case strings.HasSuffix(e, "st=timeout"):
					out = append(out, fmt.Sprintf("timeout-send %s %s", id, e))
				case !recvIsCloser || c.waitPeer || !strings.HasSuffix(e, "st=closed"):
					out = append(out, fmt.Sprintf("incomplete %s kind=send-error %s", id, e))
				}
			}
		}
	}
	return out
}

// c03Kind names the way a received message differs from the one sent at position k.
func c03Kind(msgs [][]byte, k int, got []byte) string {
	for j, m := range msgs {
		if j != k && bytes.Equal(got, m) {
			if j < k {
				return fmt.Sprintf("duplicate-of=%d", j)
			}
			return fmt.Sprintf("skipped-to=%d", j)
		}
	}
	want := msgs[k]
	switch {
	case len(got) < len(want) && bytes.Equal(got, want[:len(got)]):
		return fmt.Sprintf("truncated,len=%d/%d", len(got), len(want))
	case len(got) != len(want):
		return fmt.Sprintf("corrupt,len=%d/%d", len(got), len(want))
	}
	return "corrupt"
}
