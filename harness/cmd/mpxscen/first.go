package main

import (
	"fmt"
	"sync"
	"time"

	"github.com/basecomplextech/baselibrary/async"
	"github.com/basecomplextech/baselibrary/status"
	"github.com/basecomplextech/spec/mpx"
	"verif/harness/internal/caplog"
)

// c03First: the first messages of a fresh channel sent by two goroutines at the same moment. The
// channel serialises its senders; exactly one of the two Sends opens the channel, both messages are
// delivered, the connection stays up. (Concurrent senders on one channel are part of the property's
// quantifier: "all interleavings of concurrent senders/receivers".)
func c03First(s *scenario) {
	rounds := 10000
	if s.thorough {
		rounds = 30000
	}
	lg := caplog.New()
	opts := mpx.Default()
	handler := mpx.HandleFunc(func(ctx mpx.Context, ch mpx.Channel) status.Status {
		sum := 0
		for i := 0; i < 2; i++ {
			msg, st := ch.Receive(async.NoContext())
			if !st.OK() {
				return st
			}
			sum += len(msg)
		}
		return ch.SendAndClose(ctx, []byte{byte(sum)})
	})
	srv, addr, errs := startServer(handler, lg, opts)
	if errs != "" {
		s.emit("run=first infra="+errs, "")
		return
	}
	defer stopServer(srv)
	conn, st := connect(addr, lg, opts)
	if !st.OK() {
		s.emit("run=first infra=connect", "")
		return
	}
	defer closeConn(conn)

	viol := ""
	done := 0
	limit := 8 * time.Second
	if s.thorough {
		limit = 40 * time.Second
	}
	t0 := time.Now()
	for i := 0; i < rounds && viol == "" && time.Since(t0) < limit; i++ {
		func() {
			ch, st := conn.Channel(async.TimeoutContext(5 * time.Second))
			if !st.OK() {
				viol = fmt.Sprintf("round-%d-channel-%s", i, st.Code)
				return
			}
			defer ch.Free()
			var wg sync.WaitGroup
			start := make(chan struct{})
			sts := make([]status.Status, 2)
			for k := 0; k < 2; k++ {
				wg.Add(1)
				go func(k int) {
					defer wg.Done()
					<-start
					ctx := async.TimeoutContext(10 * time.Second)
					defer ctx.Free()
					sts[k] = ch.Send(ctx, make([]byte, 3+4*k))
				}(k)
			}
			close(start)
			wg.Wait()
			for k, st := range sts {
				if !st.OK() {
					viol = fmt.Sprintf("round-%d-concurrent-first-send-%d-%s", i, k, st.Code)
					return
				}
			}
			rctx := async.TimeoutContext(10 * time.Second)
			defer rctx.Free()
			reply, st := ch.Receive(rctx)
			if !st.OK() {
				viol = fmt.Sprintf("round-%d-two-concurrent-first-sends-not-both-delivered-(reply-%s)", i, st.Code)
				return
			}
			if len(reply) != 1 || reply[0] != 3+7 {
				viol = fmt.Sprintf("round-%d-wrong-bytes-delivered", i)
				return
			}
			done++
		}()
	}
	if viol == "" && conn.Closed().IsSet() {
		viol = "connection-closed"
	}
	if viol == "" && len(lg.Panics()) > 0 {
		viol = "library-panic:" + token(lg.Panics()[0], 60)
	}
	s.emit(fmt.Sprintf("run=first rounds=%d", done), viol)
}
