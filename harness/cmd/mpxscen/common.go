package main

import (
	"encoding/binary"
	"fmt"
	"strings"
	"sync"
	"sync/atomic"
	"time"

	"github.com/basecomplextech/baselibrary/async"
	"github.com/basecomplextech/baselibrary/status"
	"github.com/basecomplextech/spec/mpx"
	"verif/harness/internal/caplog"
	"verif/harness/internal/hx"
)

// runClock is the context of one run. A watchdog cancels it when the run exceeds its timeout or
// when no send or receive succeeded anywhere for the stall period (a hang is then reported within
// seconds instead of after the full timeout).
type runClock struct {
	async.CancelContext
	progress atomic.Int64
	expired  atomic.Bool
	quit     chan struct{}
	once     sync.Once
}

func newRunClock(timeout, stall time.Duration) *runClock {
	c := &runClock{CancelContext: async.NewContext(), quit: make(chan struct{})}
	go func() {
		t := time.NewTicker(20 * time.Millisecond)
		defer t.Stop()
		start := time.Now()
		last, lastAt := int64(-1), start
		for {
			select {
			case <-c.quit:
				return
			case now := <-t.C:
				if p := c.progress.Load(); p != last {
					last, lastAt = p, now
				}
				if now.Sub(start) > timeout || now.Sub(lastAt) > stall {
					c.expired.Store(true)
					c.Cancel()
					return
				}
			}
		}
	}()
	return c
}

// tick records progress.
func (c *runClock) tick() { c.progress.Add(1) }

// stop ends the watchdog; the context stays as it is.
func (c *runClock) stop() { c.once.Do(func() { close(c.quit) }) }

// code is the status code of a failed operation, "timeout" when the watchdog ended the run.
func (c *runClock) code(st status.Status) string {
	if c.expired.Load() && (st.Code == status.CodeCancelled || st.Code == status.CodeTimeout) {
		return "timeout"
	}
	return string(st.Code)
}

// startServer starts a server on a free loopback port and waits until it listens.
func startServer(h mpx.Handler, lg *caplog.Logger, opts mpx.Options) (mpx.Server, string, string) {
	srv := mpx.NewServer("localhost:0", h, lg, opts)
	if st := srv.Start(); !st.OK() {
		return nil, "", "start:" + string(st.Code)
	}
	select {
	case <-srv.Listening().Wait():
	case <-time.After(5 * time.Second):
		stopServer(srv)
		return nil, "", "listen-timeout"
	}
	return srv, srv.Address(), ""
}

func stopServer(srv mpx.Server) {
	select {
	case <-srv.Stop():
	case <-time.After(5 * time.Second):
	}
}

func connect(addr string, lg *caplog.Logger, opts mpx.Options) (mpx.Conn, status.Status) {
	return mpx.Connect(async.TimeoutContext(5*time.Second), addr, lg, opts)
}

// closeConn closes a connection we own and waits (bounded) until the library noticed.
func closeConn(c mpx.Conn) {
	if c == nil {
		return
	}
	c.Close()
	select {
	case <-c.Closed().Wait():
	case <-time.After(3 * time.Second):
	}
}

// waitGroup waits for wg, bounded by the given channel and then a grace period.
func waitGroup(wg *sync.WaitGroup, deadline <-chan struct{}, grace time.Duration) bool {
	done := make(chan struct{})
	go func() { wg.Wait(); close(done) }()
	select {
	case <-done:
		return true
	case <-deadline:
	}
	select {
	case <-done:
		return true
	case <-time.After(grace):
		return false
	}
}

// token makes a text safe to embed in a key=value line.
func token(s string, max int) string {
	s = strings.Map(func(r rune) rune {
		if r <= ' ' || r == 0x7f {
			return '_'
		}
		return r
	}, s)
	if len(s) > max {
		s = s[:max]
	}
	if s == "" {
		s = "-"
	}
	return s
}

// fillBytes fills b from the PRNG, eight bytes per step.
func fillBytes(r *hx.Rand, b []byte) {
	for len(b) >= 8 {
		binary.LittleEndian.PutUint64(b, r.U64())
		b = b[8:]
	}
	if len(b) > 0 {
		v := r.U64()
		for i := range b {
			b[i] = byte(v)
			v >>= 8
		}
	}
}

// fillPattern fills b with a short repeated PRNG pattern (compressible payloads).
func fillPattern(r *hx.Rand, b []byte) {
	p := make([]byte, 1+r.Intn(13))
	fillBytes(r, p)
	for i := range b {
		b[i] = p[i%len(p)]
	}
}

// classify records by what they mean for "the library itself never panics".
type recordClass struct {
	deliberate int      // handler panics the scenario caused on purpose
	library    []string // panics inside the library, unexpected connection errors
}

const deliberatePanic = "test"

var libraryMarkers = []string{"freed channel", "released channel", "free called", "connection panic"}

// classifyRecords splits the logger records. Records with index >= closedFrom were logged after
// the scenario closed the connections itself; plain EOF/closed/reset connection errors among them
// are the expected echo of that close.
func classifyRecords(recs []string, closedFrom int) recordClass {
	var c recordClass
	for i, r := range recs {
		lr := strings.ToLower(r)
		marker := false
		for _, m := range libraryMarkers {
			if strings.Contains(lr, m) {
				marker = true
			}
		}
		switch {
		case marker:
			c.library = append(c.library, r)
		case strings.HasPrefix(r, "Channel panic") && strings.Contains(r, deliberatePanic):
			c.deliberate++
		case strings.Contains(lr, "panic"):
			c.library = append(c.library, r)
		case strings.HasPrefix(r, "Connection error"):
			benign := i >= closedFrom && (strings.Contains(lr, "eof") || strings.Contains(lr, "closed") ||
				strings.Contains(lr, "reset") || strings.Contains(lr, "broken pipe"))
			if !benign {
				c.library = append(c.library, r)
			}
		}
	}
	return c
}

func be32(b []byte) int { return int(binary.BigEndian.Uint32(b)) }

func kv(k string, v any) string { return fmt.Sprintf("%s=%v", k, v) }
