// Command mpxscen runs black-box concurrency scenarios against the mpx package (build tag `verif`
// enables the seeded yield hooks inside the library).
//
//	mpxscen <scenario> <seed> <tier> [only=<run>] [skip=<digits>] [verbose]
//
// only=<run> executes just that run index (same derived seed as in a full invocation); skip=<digits>
// removes the listed server behaviours from scenario c06 (for example skip=5); verbose adds
// `<scenario> detail ...` lines after a run with violations.
//
// Scenarios: c06 (ending one channel never disturbs the connection or other channels) and c03
// (channels deliver messages exactly once, in order, uncorrupted). Tier is quick or thorough.
// The extra scenario wake is a deterministic diagnostic for the lost wake-up of a pending message
// (see wake.go). Every output line starts with the scenario name and consists of key=value tokens; a line that
// demonstrates a violation ends with ` VIOL <reason>`. The process exits 0 unless it cannot start.
package main

import (
	"fmt"
	"os"
	"strconv"
	"strings"
	"time"

	"github.com/basecomplextech/spec/mpx"
)

// scenario is the state shared by the run loops: line output, counters and the wall-time budget.
type scenario struct {
	name     string
	thorough bool
	only     int    // run index to execute, -1 = all
	skip     string // c06: server behaviours (digits) that are not used
	verbose  bool   // print detail lines for runs with violations
	start    time.Time
	budget   time.Duration
	runs     int
	viols    int
}

// emit prints one run line; viol is empty for a clean run.
func (s *scenario) emit(line string, viol string) {
	s.runs++
	if viol != "" {
		s.viols++
		line += " VIOL " + viol
	}
	fmt.Println(s.name + " " + line)
}

// reserve is the time a run may need after its own timeout expired (grace periods, shutdown).
const reserve = 8 * time.Second

// exhausted reports whether the wall-time budget does not allow another run.
func (s *scenario) exhausted() bool {
	return time.Since(s.start)+reserve+time.Second > s.budget
}

// stallLimit is how long a run may go without any successful send or receive.
func (s *scenario) stallLimit() time.Duration {
	if s.thorough {
		return 3 * time.Second
	}
	return 2 * time.Second
}

// runTimeout is the timeout of the next run: the tier's default, cut down so that even a run that
// hangs ends within the budget.
func (s *scenario) runTimeout(quick, thorough time.Duration) time.Duration {
	d := quick
	if s.thorough {
		d = thorough
	}
	if left := s.budget - time.Since(s.start) - reserve; left < d {
		d = left
	}
	return d
}

func (s *scenario) summary() {
	fmt.Printf("%s summary runs=%d viol=%d yields=%d\n", s.name, s.runs, s.viols, mpx.VerifYieldCount())
}

func usage() {
	fmt.Fprintln(os.Stderr, "usage: mpxscen <c06|c03|wake|stall> <seed> <quick|thorough> [only=<run>] [skip=<digits>] [verbose]")
	os.Exit(2)
}

func main() {
	if len(os.Args) < 4 {
		usage()
	}
	seed, err := strconv.ParseUint(os.Args[2], 10, 64)
	if err != nil {
		usage()
	}
	s := &scenario{name: os.Args[1], only: -1, start: time.Now()}
	switch os.Args[3] {
	case "quick":
		s.budget = 40 * time.Second
	case "thorough":
		s.thorough = true
		s.budget = 290 * time.Second
	default:
		usage()
	}
	for _, a := range os.Args[4:] {
		if v, ok := strings.CutPrefix(a, "only="); ok {
			n, err := strconv.Atoi(v)
			if err != nil {
				usage()
			}
			s.only = n
		}
		if v, ok := strings.CutPrefix(a, "skip="); ok {
			s.skip = v
		}
		if a == "verbose" {
			s.verbose = true
		}
	}

	switch s.name {
	case "c06":
		runC06(s, seed)
	case "c03":
		runC03(s, seed)
	case "wake":
		runWake(s, seed)
	case "stall":
		stallRun(s, true)
		stallRun(s, false)
	default:
		usage()
	}
	s.summary()
	os.Exit(0)
}
