// Command mpxlate replays one specific interleaving (F16): the send loop fails and close() runs
// closeChannels while the receive loop is still registering a channel from an open frame it had
// already read. Prints `late-open handlerB_started=<bool> handlerB_exited=<bool> ctx_cancelled=<bool>`
// and ` VIOL handler-stuck` when the late channel's handler is never released.
package main

import (
	"encoding/binary"
	"fmt"
	"net"
	"os"
	"sync/atomic"
	"time"

	"github.com/basecomplextech/baselibrary/alloc"
	"github.com/basecomplextech/baselibrary/async"
	"github.com/basecomplextech/baselibrary/bin"
	"github.com/basecomplextech/baselibrary/status"
	"github.com/basecomplextech/spec/mpx"
	"github.com/basecomplextech/spec/proto/pmpx"
	"verif/harness/internal/caplog"
)

func frame(b []byte) []byte {
	out := make([]byte, 4+len(b))
	binary.BigEndian.PutUint32(out, uint32(len(b)))
	copy(out[4:], b)
	return out
}

func main() {
	lg := caplog.New()
	var bStarted, bExited, bCancelled atomic.Bool
	handler := mpx.HandleFunc(func(ctx mpx.Context, ch mpx.Channel) status.Status {
		first, st := ch.Receive(ctx)
		if !st.OK() {
			return st
		}
		if len(first) > 0 && first[0] == 'A' {
			// keep the server's send loop busy writing to a peer that does not read
			buf := make([]byte, 64*1024)
			for {
				if st := ch.Send(ctx, buf); !st.OK() {
					return st
				}
			}
		}
		bStarted.Store(true)
		defer bExited.Store(true)
		for {
			_, st := ch.Receive(ctx)
			if !st.OK() {
				select {
				case <-ctx.Wait():
					bCancelled.Store(true)
				default:
				}
				return st
			}
		}
	})
	opts := mpx.Default()
	srv := mpx.NewServer("localhost:0", handler, lg, opts)
	if st := srv.Start(); !st.OK() {
		fmt.Println("start:", st)
		os.Exit(2)
	}
	defer func() { <-srv.Stop() }()
	select {
	case <-srv.Listening().Wait():
	case <-time.After(3 * time.Second):
		os.Exit(2)
	}

	nc, err := net.Dial("tcp", srv.Address())
	if err != nil {
		fmt.Println(err)
		os.Exit(2)
	}
	// handshake
	nc.Write([]byte(mpx.ProtocolLine))
	req, _ := pmpx.NewConnectInput().Build()
	nc.Write(frame(req.Unwrap().Raw()))
	time.Sleep(100 * time.Millisecond)

	open := func(payload string) []byte {
		buf := alloc.NewBuffer()
		w := pmpx.NewMessageWriterBuffer(buf)
		msg, err := pmpx.BuildChannelOpen(w, bin.Random128(), []byte(payload), 1<<30)
		if err != nil {
			panic(err)
		}
		return frame(msg.Unwrap().Raw())
	}
	// channel A: its handler floods the send loop
	nc.Write(open("A"))
	time.Sleep(300 * time.Millisecond)
	// from now on every received open sleeps before it is registered
	mpx.VerifSetPointSleep("recv.beforeOpenSet", 400*time.Millisecond)
	nc.Write(open("B"))
	time.Sleep(100 * time.Millisecond) // the receive loop has read B's open frame and sleeps
	// reset the connection: the send loop's write fails, close() runs closeChannels now
	if tc, ok := nc.(*net.TCPConn); ok {
		tc.SetLinger(0)
	}
	nc.Close()
	time.Sleep(1500 * time.Millisecond)
	mpx.VerifSetPointSleep("recv.beforeOpenSet", 0)

	line := fmt.Sprintf("late-open handlerB_started=%v handlerB_exited=%v ctx_cancelled=%v libpanics=%d",
		bStarted.Load(), bExited.Load(), bCancelled.Load(), len(lg.Panics()))
	if bStarted.Load() && !bExited.Load() {
		line += " VIOL handler-stuck"
	}
	fmt.Println(line)
	_ = async.NoContext
}
