// Command langc is the Go side of the schema-compiler check (C14).
//
//	langc gen c14 <seed> <tier> <stats.json>   write operations to stdout
//	langc                                      read all operations on stdin, print one answer line each
//
// Operation:  compile <class> <bundle>
//
//	class   valid | mut:<rule>:<element>
//	bundle  pkg/file=hex;pkg/file=hex;...   (the first package is compiled, the others are importable)
//
// Answer: "ok" (the compiler accepted the package) or "err" (it reported an error), followed by
// Go-only oracle suffixes " VIOL <what>":
//
//	panic / hang                     the compiler panicked or did not return
//	valid-rejected                   a schema that follows every rule was rejected
//	mutant-accepted:<rule>           a schema that breaks the named rule was accepted
//	error-does-not-name:<element>    the error message does not mention the offending element
//	lexerr-accepted                  the compiler succeeded although a source file has a lexical error
//	go-build-fails                   the compiler succeeded but the Go compiler rejects its output
package main

import (
	"bufio"
	"encoding/json"
	"fmt"
	"os"
	"os/exec"
	"path/filepath"
	"regexp"
	"strconv"
	"strings"
	"time"

	"github.com/basecomplextech/spec/verifhooks"
	"verif/harness/internal/hx"
	"verif/harness/internal/schema"
)

func main() {
	args := os.Args[1:]
	switch {
	case len(args) == 0:
		os.Exit(run())
	case len(args) == 5 && args[0] == "gen" && args[1] == "c14":
		seed, _ := strconv.ParseUint(args[2], 10, 64)
		gen(seed, args[3], args[4])
	default:
		fmt.Fprintln(os.Stderr, "usage: langc | langc gen c14 <seed> <tier> <stats.json>")
		os.Exit(2)
	}
}

// ---------------------------------------------------------------- gen

func canonical(f *schema.File) string { return strings.Join(f.Tokens(), " ") }

func hexOf(s string) string {
	if s == "" {
		return "-"
	}
	return hx.Hex([]byte(s))
}

func gen(seed uint64, tier, statsPath string) {
	r := hx.NewRand(seed ^ 0xc14)
	out := bufio.NewWriterSize(os.Stdout, 1<<20)
	defer out.Flush()
	stats := map[string]int{}
	n := 40
	if tier == "thorough" {
		n = 150
	}
	line := 0
	emit := func(class string, b *schema.Bundle) {
		fmt.Fprintf(out, "compile %s %s\n", class, b.Encode(canonical))
		line++
	}
	// fixed probes: names that collide once mapped to Go identifiers (class probe:<name>; the oracle
	// is "an error, or code that compiles")
	probes := [][2]string{
		{"field-case-collision", `message M { a int32 1; A int32 2; }`},
		{"field-vs-generated-method", `message M { unwrap int32 1; clone int32 2; has_a int32 3; a int32 4 }`},
		{"lowercase-definition", `message m { a int32 1 } enum e { z = 0; }`},
		{"builtin-named-definition", `struct bool { a int32; } message M { a bool 1 }`},
		{"ok-empty-methods", `message M { a int32 1 } service S { m() ; n() () ; }`},
		{"ok-no-go-package", `message M { a int32 1 }`},
		{"generated-request-clash", `message SCallRequest { a int32 1 } service S { call(x int32 1); }`},
		{"generated-response-clash-other-file", `service S { call(x int32 1) (y int32 1); }`},
	}
	for _, p := range probes {
		text := fmt.Sprintf("options ( go_package = \"gen.test/b%d/root\" ) ", line) + p[1]
		if p[0] == "ok-no-go-package" {
			text = p[1]
		}
		bundle := "root/f0=" + hexOf(text)
		if p[0] == "generated-response-clash-other-file" {
			bundle += ";root/f1=" + hexOf("message SCallResponse { a int32 1 }")
		}
		stats["probe"]++
		fmt.Fprintf(out, "compile probe:%s %s\n", p[0], bundle)
		line++
	}
	for i := 0; i < n; i++ {
		b := schema.GenSemantic(r, fmt.Sprintf("gen.test/b%d", line))
		stats["valid"]++
		emit("valid", b)
		// text-level damage of the root file: only the oracles apply (no panic, no hang, and what is
		// accepted must compile)
		for k := 0; k < 2; k++ {
			b3 := schema.GenSemantic(hx.NewRand(seed^uint64(i)*7919^0xabc), fmt.Sprintf("gen.test/b%d", line))
			f0 := b3.Packages[0].Files[0]
			text := schema.Layout(r, f0.File.TokensOpt(r), true)
			if k == 0 {
				text = schema.Layout(r, schema.MutateTokens(r, f0.File.TokensOpt(r)), true)
			} else {
				text = schema.MutateText(r, text)
			}
			stats["fuzz"]++
			fmt.Fprintf(out, "compile fuzz %s\n", b3.Encode(func(f *schema.File) string {
				if f == f0.File {
					return text
				}
				return canonical(f)
			}))
			line++
		}
		// random semantic edits: valid or not, the model and the compiler have to agree (and what is
		// accepted must compile)
		for k := 0; k < 4; k++ {
			b4 := schema.Perturb(r, schema.GenSemantic(hx.NewRand(seed^uint64(i)*7919^0xabc), fmt.Sprintf("gen.test/b%d", line)))
			stats["sem"]++
			emit("sem", b4)
		}
		// every rule once per base schema (where it has a site)
		for _, rule := range schema.Rules {
			if tier != "thorough" && r.Intn(3) != 0 {
				continue
			}
			b2 := schema.GenSemantic(hx.NewRand(seed^uint64(i)*7919^0xabc), fmt.Sprintf("gen.test/b%d", line))
			m, el, ok := schema.Mutate(r, b2, rule)
			if !ok {
				stats["nosite:"+rule]++
				continue
			}
			stats["mut:"+rule]++
			emit("mut:"+rule+":"+el, m)
		}
	}
	// every rule at least `min` times, whatever the random choices above were
	min := 3
	if tier == "thorough" {
		min = 10
	}
	for _, rule := range schema.Rules {
		for tries := 0; stats["mut:"+rule] < min && tries < 400; tries++ {
			b2 := schema.GenSemantic(r, fmt.Sprintf("gen.test/b%d", line))
			if m, el, ok := schema.Mutate(r, b2, rule); ok {
				stats["mut:"+rule]++
				emit("mut:"+rule+":"+el, m)
			}
		}
	}
	if b, err := json.Marshal(stats); err == nil {
		os.WriteFile(statsPath, b, 0o644)
	}
}

// ---------------------------------------------------------------- run

type job struct {
	class, rule, element string
	files                map[string]map[string]string // pkg -> file -> text
	order                []string                     // packages in bundle order
	accepted             bool
	errText              string
	viol                 []string
	dir                  string // module-relative dir of the generated code
}

func parseBundle(s string) (map[string]map[string]string, []string, bool) {
	files := map[string]map[string]string{}
	var order []string
	for _, part := range strings.Split(s, ";") {
		kv := strings.SplitN(part, "=", 2)
		if len(kv) != 2 {
			return nil, nil, false
		}
		pf := strings.SplitN(kv[0], "/", 2)
		if len(pf) != 2 {
			return nil, nil, false
		}
		text := ""
		if kv[1] != "-" {
			b, ok := hx.Unhex(kv[1])
			if !ok {
				return nil, nil, false
			}
			text = string(b)
		}
		if files[pf[0]] == nil {
			files[pf[0]] = map[string]string{}
			order = append(order, pf[0])
		}
		files[pf[0]][pf[1]] = text
	}
	return files, order, len(order) > 0
}

func generate(src, dst string, imports []string) (err error, panicked string, hung bool) {
	type res struct {
		err error
		p   string
	}
	ch := make(chan res, 1)
	go func() {
		defer func() {
			if e := recover(); e != nil {
				ch <- res{nil, fmt.Sprint(e)}
			}
		}()
		ch <- res{verifhooks.Generate(src, dst, imports, false), ""}
	}()
	select {
	case r := <-ch:
		return r.err, r.p, false
	case <-time.After(120 * time.Second):
		return nil, "", true
	}
}

func nospace(s string) string {
	s = strings.Join(strings.Fields(s), "_")
	if len(s) > 160 {
		s = s[:160]
	}
	return s
}

func run() int {
	in := bufio.NewReaderSize(os.Stdin, 1<<20)
	var jobs []*job
	var raw []string
	for {
		line, err := in.ReadString('\n')
		line = strings.TrimRight(line, "\n")
		if line != "" {
			raw = append(raw, line)
		}
		if err != nil {
			break
		}
	}
	work, err := os.MkdirTemp("", "langc")
	if err != nil {
		fmt.Fprintln(os.Stderr, err)
		return 2
	}
	defer os.RemoveAll(work)
	mod := filepath.Join(work, "mod")
	os.MkdirAll(mod, 0o755)

	// VERIF_CRASHLOG: the index of the line being compiled is appended to this file before the
	// compiler is called, so that after a fatal error of the process (a stack overflow is not
	// recoverable) the runner knows which line killed it
	crashLog := os.Getenv("VERIF_CRASHLOG")
	for i, line := range raw {
		if crashLog != "" {
			if f, err := os.OpenFile(crashLog, os.O_APPEND|os.O_CREATE|os.O_WRONLY, 0o644); err == nil {
				fmt.Fprintf(f, "%d\n", i)
				f.Close()
			}
		}
		f := strings.SplitN(line, " ", 3)
		j := &job{}
		jobs = append(jobs, j)
		if len(f) != 3 || f[0] != "compile" {
			j.errText = "bad-op"
			continue
		}
		j.class = f[1]
		if strings.HasPrefix(j.class, "mut:") {
			p := strings.SplitN(j.class, ":", 3)
			if len(p) == 3 {
				j.rule, j.element = p[1], p[2]
			}
		}
		var ok bool
		j.files, j.order, ok = parseBundle(f[2])
		if !ok {
			j.errText = "bad-op"
			continue
		}
		src := filepath.Join(work, "src", fmt.Sprintf("b%d", i))
		for pkg, fs := range j.files {
			os.MkdirAll(filepath.Join(src, pkg), 0o755)
			for name, text := range fs {
				os.WriteFile(filepath.Join(src, pkg, name+".spec"), []byte(text), 0o644)
			}
		}
		j.dir = fmt.Sprintf("b%d", i)
		rootPkg := j.order[0]
		err, panicked, hung := generate(filepath.Join(src, rootPkg), filepath.Join(mod, goDst(j, rootPkg)), []string{src})
		switch {
		case hung:
			j.viol = append(j.viol, "hang")
			j.errText = "hang"
		case panicked != "":
			j.viol = append(j.viol, "panic:"+nospace(panicked))
			j.errText = "panic"
		case err != nil:
			j.errText = err.Error()
		default:
			j.accepted = true
			// the imported packages have to exist for the Go compiler
			for _, dep := range j.order[1:] {
				if e, p, h := generate(filepath.Join(src, dep), filepath.Join(mod, goDst(j, dep)), []string{src}); e != nil || p != "" || h {
					// a dependency the root does not import may be invalid on purpose: leave it out
					os.RemoveAll(filepath.Join(mod, goDst(j, dep)))
				}
			}
		}
		if j.accepted {
			// "never exits successfully after a lexical error"
			for _, text := range j.files[rootPkg] {
				if _, errs := verifhooks.ScanTokens(text); errs > 0 {
					j.viol = append(j.viol, "lexerr-accepted")
					break
				}
			}
		}
		if j.class == "valid" && !j.accepted && len(j.viol) == 0 {
			j.viol = append(j.viol, "valid-rejected:"+nospace(j.errText))
		}
		if j.rule != "" {
			if j.accepted {
				j.viol = append(j.viol, "mutant-accepted:"+j.rule)
			} else if len(j.viol) == 0 && j.element != "" && !strings.Contains(j.errText, j.element) &&
				!strings.Contains(j.errText, "syntax error") && !strings.Contains(j.errText, "unused import") {
				// (a signature the grammar cannot express is reported by position only; a mutation that
				// removes the last use of an import is rejected for that reason first)
				j.viol = append(j.viol, "error-does-not-name:"+j.element+":"+nospace(j.errText))
			}
		}
	}

	// Go compiler on everything that was accepted
	buildFailures := goBuild(mod)
	for _, j := range jobs {
		if !j.accepted {
			continue
		}
		if msg, bad := buildFailures[j.dir]; bad {
			j.viol = append(j.viol, "go-build-fails:"+nospace(msg))
		}
	}

	out := bufio.NewWriter(os.Stdout)
	defer out.Flush()
	for _, j := range jobs {
		ans := "err"
		if j.errText == "bad-op" {
			ans = "bad-op"
		} else if j.accepted {
			ans = "ok"
		}
		for _, v := range j.viol {
			ans += " VIOL " + v
		}
		fmt.Fprintln(out, ans)
	}
	return 0
}

var goPackageRe = regexp.MustCompile(`go_package\s*=\s*"gen\.test/(b[0-9]+/[A-Za-z0-9_]+)"`)

// goDst returns the directory (relative to the module) the package's Go code belongs in: the path of
// its go_package option, or <bundle>/<pkg> without one.
func goDst(j *job, pkg string) string {
	for _, text := range j.files[pkg] {
		if m := goPackageRe.FindStringSubmatch(text); m != nil {
			return filepath.FromSlash(m[1])
		}
	}
	return filepath.Join(j.dir, pkg)
}

var buildErrRe = regexp.MustCompile(`^(?:\./)?(b\d+)/[^:]*:\d+(?::\d+)?: (.*)$`)

// goBuild compiles every generated package under mod and returns the first error per bundle dir.
func goBuild(mod string) map[string]string {
	fails := map[string]string{}
	entries, _ := os.ReadDir(mod)
	if len(entries) == 0 {
		return fails
	}
	gomod := "module gen.test\n\ngo 1.24.0\n\nrequire github.com/basecomplextech/spec v0.0.0\n\nreplace github.com/basecomplextech/spec => " + hx.RepoDir() + "\n"
	os.WriteFile(filepath.Join(mod, "go.mod"), []byte(gomod), 0o644)
	if sum, err := os.ReadFile(hx.RepoDir() + "/go.sum"); err == nil {
		os.WriteFile(filepath.Join(mod, "go.sum"), sum, 0o644)
	}
	cmd := exec.Command("go", "build", "-gcflags=-e", "./...")
	cmd.Dir = mod
	cmd.Env = append(os.Environ(), "GOFLAGS=-mod=mod", "GOPROXY=off")
	outb, err := cmd.CombinedOutput()
	if err == nil {
		return fails
	}
	matched := false
	for _, l := range strings.Split(string(outb), "\n") {
		if m := buildErrRe.FindStringSubmatch(strings.TrimSpace(l)); m != nil {
			matched = true
			if _, ok := fails[m[1]]; !ok {
				fails[m[1]] = m[2]
			}
		}
	}
	if !matched {
		// the build failed in a way we cannot attribute: blame everything, with the message
		for _, e := range entries {
			if e.IsDir() {
				fails[e.Name()] = "unattributed: " + strings.TrimSpace(string(outb))
			}
		}
	}
	return fails
}
