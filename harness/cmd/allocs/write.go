package main

import (
	"github.com/basecomplextech/baselibrary/buffer"
	"github.com/basecomplextech/spec"
)

// encodeStruct writes the struct the way generated code does.
func encodeStruct(b buffer.Buffer, s structVal) (int, error) {
	var dataSize, n int
	var err error

	if n, err = spec.EncodeInt32(b, s.X); err != nil {
		return 0, err
	}
	dataSize += n
	if n, err = spec.EncodeInt64(b, s.Y); err != nil {
		return 0, err
	}
	dataSize += n
	if n, err = spec.EncodeUint16(b, s.Z); err != nil {
		return 0, err
	}
	dataSize += n
	if n, err = spec.EncodeFloat64(b, s.F); err != nil {
		return 0, err
	}
	dataSize += n
	if n, err = spec.EncodeBool(b, s.B); err != nil {
		return 0, err
	}
	dataSize += n
	if n, err = spec.EncodeBin128(b, s.K); err != nil {
		return 0, err
	}
	dataSize += n
	if n, err = spec.EncodeStruct(b, dataSize); err != nil {
		return 0, err
	}
	return dataSize + n, nil
}

// writeMsg writes the fields of c through m (it does not end m). It calls nothing but the library.
func writeMsg(m spec.MessageWriter, c *cnode) error {
	for i, f := range c.fields {
		tag := c.tags[i]
		var err error
		switch f.kind {
		case kBool:
			err = m.Field(tag).Bool(f.b)
		case kByte:
			err = m.Field(tag).Byte(byte(f.u))
		case kI16:
			err = m.Field(tag).Int16(int16(f.i))
		case kI32:
			err = m.Field(tag).Int32(int32(f.i))
		case kI64:
			err = m.Field(tag).Int64(f.i)
		case kU16:
			err = m.Field(tag).Uint16(uint16(f.u))
		case kU32:
			err = m.Field(tag).Uint32(uint32(f.u))
		case kU64:
			err = m.Field(tag).Uint64(f.u)
		case kF32:
			err = m.Field(tag).Float32(f.f32)
		case kF64:
			err = m.Field(tag).Float64(f.f64)
		case kB64:
			err = m.Field(tag).Bin64(f.b64)
		case kB128:
			err = m.Field(tag).Bin128(f.b128)
		case kB256:
			err = m.Field(tag).Bin256(f.b256)
		case kBytes:
			err = m.Field(tag).Bytes(f.data)
		case kStr:
			err = m.Field(tag).String(f.str)
		case kStruct:
			err = spec.WriteField(m.Field(tag), f.st, encodeStruct)
		case kList:
			sub := m.Field(tag).List()
			if err = writeList(sub, f); err == nil {
				err = sub.End()
			}
		case kMsg:
			sub := m.Field(tag).Message()
			if err = writeMsg(sub, f); err == nil {
				err = sub.End()
			}
		}
		if err != nil {
			return err
		}
	}
	return nil
}

func writeList(l spec.ListWriter, c *cnode) error {
	for _, e := range c.elems {
		var err error
		switch e.kind {
		case kBool:
			err = l.Bool(e.b)
		case kByte:
			err = l.Byte(byte(e.u))
		case kI16:
			err = l.Int16(int16(e.i))
		case kI32:
			err = l.Int32(int32(e.i))
		case kI64:
			err = l.Int64(e.i)
		case kU16:
			err = l.Uint16(uint16(e.u))
		case kU32:
			err = l.Uint32(uint32(e.u))
		case kU64:
			err = l.Uint64(e.u)
		case kF32:
			err = l.Float32(e.f32)
		case kF64:
			err = l.Float64(e.f64)
		case kB64:
			err = l.Bin64(e.b64)
		case kB128:
			err = l.Bin128(e.b128)
		case kB256:
			err = l.Bin256(e.b256)
		case kBytes:
			err = l.Bytes(e.data)
		case kStr:
			err = l.String(e.str)
		case kStruct:
			err = spec.NewValueListWriter(l, encodeStruct).Add(e.st)
		case kList:
			sub := l.List()
			if err = writeList(sub, e); err == nil {
				err = sub.End()
			}
		case kMsg:
			sub := l.Message()
			if err = writeMsg(sub, e); err == nil {
				err = sub.End()
			}
		}
		if err != nil {
			return err
		}
	}
	return nil
}

// writeTarget is what one write pattern needs; out/err receive the result of the last run.
type writeTarget struct {
	root *cnode
	buf  buffer.Buffer
	w    spec.Writer // the reused writer of the reset pattern
	out  []byte
	err  error
}

// writeReset is the reused-writer pattern: one spec.NewWriterBuffer writer, Reset per message.
func (t *writeTarget) writeReset() {
	t.buf.Reset()
	t.w.Reset(t.buf)
	m := t.w.Message()
	if err := writeMsg(m, t.root); err != nil {
		t.out, t.err = nil, err
		return
	}
	t.out, t.err = m.Build()
}

// writePooled is the pattern of the library's own benchmarks and of generated code: a pooled
// writer per message (spec.NewMessageWriterBuffer), released by the library when the root ends.
func (t *writeTarget) writePooled() {
	t.buf.Reset()
	m := spec.NewMessageWriterBuffer(t.buf)
	if err := writeMsg(m, t.root); err != nil {
		t.out, t.err = nil, err
		return
	}
	t.out, t.err = m.Build()
}

// writeFresh creates a writer per message and frees it (not a reuse pattern; informational).
func (t *writeTarget) writeFresh() {
	t.buf.Reset()
	w := spec.NewWriterBuffer(t.buf)
	m := w.Message()
	if err := writeMsg(m, t.root); err != nil {
		t.out, t.err = nil, err
		w.Free()
		return
	}
	t.out, t.err = m.Build()
	w.Free()
}
