// Command allocs checks property C17 on the real library: reading allocates nothing, steady-state
// writing allocates nothing.
//
//	allocs c17 <seed> <quick|thorough> [only=<run>] [sabotage=read-alloc|write-alloc|expect]
//
// One line per message shape:
//
//	c17 run=<i> seed=<derived> shape=<name> nodes= depth= maxfields= maxelems= maxtag= bytes= structs=
//	    read_allocs=<n> write_allocs=<n> warmup=<k> w_reset=<n> w_pooled=<n> w_fresh=<n>
//	    hostile=<n> hostile_ok=<n> reject_max=<n> [err=<harness problem>] [VIOL <reason>]...
//
// read_allocs   heap allocations per read of the built bytes: spec.ParseMessage, OpenMessage(Err),
//
//	ParseValue, then every field (by index, by tag, through the typed accessors of Message
//	and Value), every list element, string, byte string, nested message and struct.
//
// write_allocs  allocations per message in steady state, the maximum over the two reuse patterns the
//
//	library offers: w_reset (one spec.NewWriterBuffer writer, buf.Reset + w.Reset(buf) per
//	message) and w_pooled (spec.NewMessageWriterBuffer(buf) per message: pooled writer that
//	the library releases when the root ends; the pattern of internal/bench and generated code).
//	warmup is the number of initial runs that did allocate (tables and buffer growing).
//	w_fresh (spec.NewWriterBuffer + Free per message) is not a reuse pattern and only printed.
//
// hostile       mutated inputs tried; hostile_ok of them were accepted by ParseMessage and then read
//
//	completely (these reads count for read-allocates); reject_max is the largest number of
//	allocations of a rejection (errors may allocate; printed, never a violation).
//
// Violations: read-allocates=<n>, write-allocates=<n> (per message, <pattern>), view-outside-buffer,
// panic. Allocations are counted with runtime.MemStats.Mallocs deltas, GC off, GOMAXPROCS(1) (the
// pools are per-P), taking the minimum over three measurements so that a stray runtime allocation
// cannot produce a report.
package main

import (
	"bytes"
	"fmt"
	"os"
	"runtime"
	"runtime/debug"
	"strconv"
	"strings"
	"time"

	"github.com/basecomplextech/baselibrary/buffer"
	"github.com/basecomplextech/spec"
	"verif/harness/internal/hx"
	"verif/harness/internal/tree"
	"verif/harness/internal/wprog"
)

var (
	ms1, ms2 runtime.MemStats
	sink     []byte

	sabotage string
)

// mallocs returns the number of heap objects allocated by runs calls of f.
func mallocs(f func(), runs int) uint64 {
	runtime.ReadMemStats(&ms1)
	for i := 0; i < runs; i++ {
		f()
	}
	runtime.ReadMemStats(&ms2)
	return ms2.Mallocs - ms1.Mallocs
}

// steady is the minimum of up to three measurements.
func steady(f func(), runs int) uint64 {
	best := ^uint64(0)
	for a := 0; a < 3; a++ {
		if n := mallocs(f, runs); n < best {
			best = n
		}
		if best == 0 {
			break
		}
	}
	return best
}

// warm runs f until a run allocates nothing; it returns the number of runs that allocated.
func warm(f func(), max int) int {
	k := 0
	for k < max && mallocs(f, 1) != 0 {
		k++
	}
	return k
}

// per renders allocations per run.
func per(total uint64, runs int) string {
	if total%uint64(runs) == 0 {
		return strconv.FormatUint(total/uint64(runs), 10)
	}
	return strconv.FormatFloat(float64(total)/float64(runs), 'f', 2, 64)
}

// reader is the measured read of a well-formed input.
type reader struct {
	b      []byte
	root   *cnode
	rs     readState
	failed bool
	size   int
	h1, h2 uint64
	extra  int
}

func (r *reader) once() {
	r.rs.setRoot(r.b)
	m, n, err := spec.ParseMessage(r.b)
	if err != nil {
		r.failed = true
		return
	}
	r.size = n
	r.h1 = r.rs.walkGeneric(spec.Value(m.Raw()), hashSeed, true)
	m2, err := spec.OpenMessageErr(r.b)
	if err != nil {
		r.failed = true
		return
	}
	r.h2 = r.rs.walkTyped(m2, r.root, hashSeed)
	v, n2, err := spec.ParseValue(r.b)
	if err != nil || n2 != n {
		r.failed = true
	}
	r.extra = len(v) + spec.OpenMessage(r.b).Len() + len(spec.OpenValue(r.b))
	if sabotage == "read-alloc" {
		sink = make([]byte, 1)
	}
}

// hostile is the measured read of a mutated input.
type hostile struct {
	b        []byte
	rs       readState
	accepted bool
	panicked bool
	h        uint64
}

func (x *hostile) once() {
	defer func() {
		if e := recover(); e != nil {
			x.panicked = true
		}
	}()
	x.accepted = false
	x.rs.setRoot(x.b)
	m, _, err := spec.ParseMessage(x.b)
	if err != nil {
		return
	}
	x.accepted = true
	x.h = x.rs.walkGeneric(spec.Value(m.Raw()), hashSeed, false)
}

// mutate writes a mutant of src into scratch and returns it.
func mutate(r *hx.Rand, src, scratch []byte) []byte {
	b := scratch[:len(src)]
	copy(b, src)
	n := len(b)
	switch r.Intn(9) {
	case 0:
		if n > 0 {
			b[r.Intn(n)] ^= 1 << uint(r.Intn(8))
		}
	case 1:
		if n > 0 {
			k := 1 + r.Intn(8)
			if k > n {
				k = n
			}
			b[n-1-r.Intn(k)] ^= 1 << uint(r.Intn(8))
		}
	case 2:
		b = b[:r.Intn(n+1)]
	case 3:
		b = b[r.Intn(n+1):]
	case 4:
		if n > 0 {
			b[r.Intn(n)] = byte(r.U64())
		}
	case 5:
		for k := 2; k <= 5 && k <= n; k++ {
			b[n-k] = 0xff
		}
	case 6:
		k := 1 + r.Intn(64)
		b = scratch[:k]
		for i := range b {
			b[i] = byte(r.U64())
		}
		b[k-1] = byte(spec.TypeMessage)
		if r.Intn(2) == 0 {
			b[k-1] = byte(spec.TypeBigMessage)
		}
	case 7:
		b = scratch[:n+1]
		b[n] = byte(r.U64())
	case 8:
		// the type byte of the root keeps, the table bytes before it change
		for k := 2; k <= 12 && k <= n; k++ {
			if r.Intn(3) == 0 {
				b[n-k] = byte(r.U64())
			}
		}
	}
	return b
}

type config struct {
	thorough bool
	only     int
	start    time.Time
	budget   time.Duration
	runs     int
	steadyN  int
	mutants  int
}

type totals struct {
	runs, viols, errs int
	rejectMax         uint64
	freshMax          uint64
	hostileOK         int
	hostile           int
	warmMax           int
}

func runShape(i int, seed uint64, cfg *config, tot *totals) {
	r := hx.NewRand(seed)
	tg := &tree.Gen{R: r, MaxDepth: 6, MaxElems: 6, Budget: 150000}
	var name string
	var node *tree.Node
	switch {
	case i < directedCount:
		name, node = directedShape(i, tg)
	case i%7 == 0:
		name, node = "deep", wrap(tg.Deep(1+r.Intn(40)))
	case i%11 == 0:
		tg.BigProb = 3
		name, node = "gen-big", wrap(tg.Tree(1+r.Intn(5)))
	default:
		// the largest of three generator trees (a third of the generator's trees are single scalars)
		name = "gen"
		for k := 0; k < 3; k++ {
			tg.Budget = 150000
			if t := wrap(tg.Tree(1 + r.Intn(5))); node == nil || tree.Nodes(t) > tree.Nodes(node) {
				node = t
			}
		}
	}
	root := compile(node)

	var viols, errs []string

	// reference bytes through the interpreter of the other checks (only without structs)
	structs := 0
	var refBytes []byte
	if i >= directedExact && r.Intn(3) == 0 {
		structs = addStructs(root, r, 3)
	}
	if structs == 0 {
		res := wprog.New(buffer.New()).Run(tree.Program(node))
		if !res.Built {
			errs = append(errs, "reference-write-failed")
		}
		refBytes = res.Bytes
	}
	var st shapeStats
	root.stats(0, &st)
	exp := expect(root, hashSeed)
	if sabotage == "expect" {
		exp ^= 1
	}

	steadyN := cfg.steadyN
	if lim := 400000 / st.nodes; lim < steadyN {
		steadyN = lim
	}
	if steadyN < 4 {
		steadyN = 4
	}

	// the bytes of the shape
	first := &writeTarget{root: root, buf: buffer.New()}
	first.w = spec.NewWriterBuffer(first.buf)
	first.writeReset()
	if first.err != nil {
		errs = append(errs, "write-failed:"+token(first.err.Error()))
	}
	data := append([]byte(nil), first.out...)
	first.w.Free()
	if structs == 0 && refBytes != nil && !bytes.Equal(refBytes, data) {
		errs = append(errs, "bytes-differ-from-reference")
	}

	// ---- reading
	rd := &reader{b: data, root: root}
	fRead := rd.once
	warm(fRead, 3)
	readTotal := steady(fRead, steadyN)
	switch {
	case rd.failed:
		errs = append(errs, "read-rejected")
	case rd.h1 != exp:
		errs = append(errs, "generic-read-differs")
	case rd.h2 != exp:
		errs = append(errs, "typed-read-differs")
	case rd.size != len(data):
		errs = append(errs, "size-differs")
	case rd.rs.errs != 0:
		errs = append(errs, "accessor-errors="+strconv.Itoa(rd.rs.errs))
	}
	if rd.rs.outside != 0 {
		viols = append(viols, "view-outside-buffer")
	}
	if readTotal != 0 {
		viols = append(viols, "read-allocates="+per(readTotal, steadyN))
	}

	// ---- hostile inputs
	hs := &hostile{}
	fHost := hs.once
	scratch := make([]byte, len(data)+80)
	var rejectMax uint64
	hostileOK := 0
	hostileAllocs := uint64(0)
	hostileErrs := 0
	for k := 0; k < cfg.mutants; k++ {
		hs.b = mutate(r, data, scratch)
		n1 := mallocs(fHost, 1)
		if hs.panicked {
			hs.panicked = false
			viols = append(viols, "panic-on-hostile-input:"+hx.Hex(tail(hs.b, 12)))
			continue
		}
		if !hs.accepted {
			if n1 > rejectMax {
				rejectMax = n1
			}
			continue
		}
		hostileOK++
		if hs.rs.errs != 0 {
			// accepted by ParseMessage, yet an accessor reported an error: the error allocates; this
			// is not a successful read in the sense of the property
			hostileErrs++
			continue
		}
		if hs.rs.outside != 0 {
			viols = append(viols, "view-outside-buffer")
		}
		if n1 != 0 {
			n1 = steady(fHost, 1)
		}
		if n1 > hostileAllocs {
			hostileAllocs = n1
		}
	}
	if hostileAllocs != 0 {
		viols = append(viols, "read-allocates="+per(hostileAllocs, 1)+"(accepted-mutant)")
	}

	// ---- writing
	type pattern struct {
		name string
		f    func(t *writeTarget) func()
	}
	patterns := []pattern{
		{"reset", func(t *writeTarget) func() { return t.writeReset }},
		{"pooled", func(t *writeTarget) func() { return t.writePooled }},
		{"fresh", func(t *writeTarget) func() { return t.writeFresh }},
	}
	var wTotals [3]uint64
	warmup := 0
	for pi, p := range patterns {
		t := &writeTarget{root: root, buf: buffer.New()}
		t.w = spec.NewWriterBuffer(t.buf)
		f := p.f(t)
		if sabotage == "write-alloc" && pi == 1 {
			g := f
			f = func() { g(); sink = make([]byte, 1) }
		}
		k := warm(f, 16)
		if pi < 2 && k > warmup {
			warmup = k
		}
		wTotals[pi] = steady(f, steadyN)
		if t.err != nil || !bytes.Equal(t.out, data) {
			errs = append(errs, "steady-write-differs("+p.name+")")
		}
		t.w.Free()
		if pi < 2 && wTotals[pi] != 0 {
			viols = append(viols, "write-allocates="+per(wTotals[pi], steadyN)+"("+p.name+")")
		}
	}
	writeMax := wTotals[0]
	if wTotals[1] > writeMax {
		writeMax = wTotals[1]
	}

	// ---- report
	tot.runs++
	tot.hostile += cfg.mutants
	tot.hostileOK += hostileOK
	if rejectMax > tot.rejectMax {
		tot.rejectMax = rejectMax
	}
	if f := (wTotals[2] + uint64(steadyN) - 1) / uint64(steadyN); f > tot.freshMax {
		tot.freshMax = f
	}
	if warmup > tot.warmMax {
		tot.warmMax = warmup
	}
	var sb strings.Builder
	fmt.Fprintf(&sb, "c17 run=%d seed=%d shape=%s nodes=%d depth=%d maxfields=%d maxelems=%d maxtag=%d payload=%d bytes=%d structs=%d",
		i, seed, name, st.nodes, st.depth, st.maxFields, st.maxElems, st.maxTag, st.maxPayload, len(data), structs)
	fmt.Fprintf(&sb, " n=%d read_allocs=%s write_allocs=%s warmup=%d w_reset=%s w_pooled=%s w_fresh=%s",
		steadyN, per(readTotal, steadyN), per(writeMax, steadyN), warmup,
		per(wTotals[0], steadyN), per(wTotals[1], steadyN), per(wTotals[2], steadyN))
	fmt.Fprintf(&sb, " hostile=%d hostile_ok=%d hostile_acc_err=%d reject_max=%d", cfg.mutants, hostileOK, hostileErrs, rejectMax)
	for _, e := range errs {
		tot.errs++
		sb.WriteString(" err=" + e)
	}
	if len(viols) > 0 {
		tot.viols++
	}
	seen := map[string]bool{}
	for _, v := range viols {
		if !seen[v] {
			seen[v] = true
			sb.WriteString(" VIOL " + v)
		}
	}
	fmt.Println(sb.String())
}

func tail(b []byte, n int) []byte {
	if len(b) > n {
		return b[len(b)-n:]
	}
	return b
}

func token(s string) string {
	s = strings.Map(func(r rune) rune {
		if r <= ' ' || r == 0x7f {
			return '_'
		}
		return r
	}, s)
	if len(s) > 60 {
		s = s[:60]
	}
	return s
}

func usage() {
	fmt.Fprintln(os.Stderr, "usage: allocs c17 <seed> <quick|thorough> [only=<run>] [sabotage=read-alloc|write-alloc|expect]")
	os.Exit(2)
}

func main() {
	if len(os.Args) < 4 || os.Args[1] != "c17" {
		usage()
	}
	seed, err := strconv.ParseUint(os.Args[2], 10, 64)
	if err != nil {
		usage()
	}
	cfg := &config{only: -1, start: time.Now()}
	switch os.Args[3] {
	case "quick":
		cfg.budget, cfg.runs, cfg.steadyN, cfg.mutants = 30*time.Second, 1500, 20, 12
	case "thorough":
		cfg.thorough = true
		cfg.budget, cfg.runs, cfg.steadyN, cfg.mutants = 240*time.Second, 40000, 40, 40
	default:
		usage()
	}
	for _, a := range os.Args[4:] {
		if v, ok := strings.CutPrefix(a, "only="); ok {
			n, err := strconv.Atoi(v)
			if err != nil {
				usage()
			}
			cfg.only = n
		} else if v, ok := strings.CutPrefix(a, "sabotage="); ok {
			sabotage = v
		} else {
			usage()
		}
	}

	// The pools of the library are sync.Pools (per-P caches, emptied by the garbage collector):
	// "steady state" is measured on one P with the collector off; the heap is collected between
	// shapes (every shape warms up again).
	runtime.GOMAXPROCS(1)
	debug.SetGCPercent(-1)

	master := hx.NewRand(hx.NewRand(seed).U64() ^ 0xC17A110C5)
	tot := &totals{}
	truncated := 0
	for i := 0; i < cfg.runs; i++ {
		s := master.U64()
		if cfg.only >= 0 && i != cfg.only {
			continue
		}
		if time.Since(cfg.start) > cfg.budget {
			truncated = cfg.runs - i
			break
		}
		func() {
			defer func() {
				if e := recover(); e != nil {
					tot.runs++
					tot.viols++
					fmt.Printf("c17 run=%d seed=%d VIOL panic:%s\n", i, s, token(fmt.Sprint(e)))
				}
			}()
			runShape(i, s, cfg, tot)
		}()
		runtime.ReadMemStats(&ms1)
		if ms1.HeapAlloc > 96<<20 {
			runtime.GC()
		}
	}
	fmt.Printf("c17 summary runs=%d viol=%d errors=%d hostile=%d hostile_ok=%d reject_max=%d fresh_max=%d warmup_max=%d truncated=%d secs=%.1f\n",
		tot.runs, tot.viols, tot.errs, tot.hostile, tot.hostileOK, tot.rejectMax, tot.freshMax, tot.warmMax, truncated, time.Since(cfg.start).Seconds())
}
