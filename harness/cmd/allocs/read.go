package main

import (
	"github.com/basecomplextech/baselibrary/bin"
	"unsafe"

	"github.com/basecomplextech/spec"
)

// readState collects what the walkers observe without allocating: counters only.
type readState struct {
	errs    int // accessor errors, mismatches between access paths
	outside int // views that do not point into the input
	lo, hi  uintptr
	sink    uint64 // keeps values read through the typed list wrappers alive
}

func (s *readState) setRoot(b []byte) {
	s.errs, s.outside = 0, 0
	if len(b) == 0 {
		s.lo, s.hi = 0, 0
		return
	}
	s.lo = uintptr(unsafe.Pointer(unsafe.SliceData(b)))
	s.hi = s.lo + uintptr(len(b))
}

// view checks that a returned view lies inside the caller's buffer.
func (s *readState) view(p unsafe.Pointer, n int) {
	if n == 0 {
		return
	}
	a := uintptr(p)
	if a < s.lo || a+uintptr(n) > s.hi {
		s.outside++
	}
}

func (s *readState) err(e error) {
	if e != nil {
		s.errs++
	}
}

// walkGeneric reads a value knowing nothing about its shape: by type, recursively, every field by
// index and by tag, every element. strict: structs have the harness layout and are decoded memberwise.
func (s *readState) walkGeneric(v spec.Value, h uint64, strict bool) uint64 {
	if len(v) == 0 {
		return mix(h, uint64(kNil))
	}
	s.view(unsafe.Pointer(unsafe.SliceData(v)), len(v))
	switch v.Type() {
	case spec.TypeTrue, spec.TypeFalse:
		x, e := v.BoolErr()
		s.err(e)
		return mixBool(mix(h, uint64(kBool)), x)
	case spec.TypeByte:
		x, e := v.ByteErr()
		s.err(e)
		return mix(mix(h, uint64(kByte)), uint64(x))
	case spec.TypeInt16:
		x, e := v.Int16Err()
		s.err(e)
		return mix(mix(h, uint64(kI16)), uint64(int64(x)))
	case spec.TypeInt32:
		x, e := v.Int32Err()
		s.err(e)
		return mix(mix(h, uint64(kI32)), uint64(int64(x)))
	case spec.TypeInt64:
		x, e := v.Int64Err()
		s.err(e)
		return mix(mix(h, uint64(kI64)), uint64(x))
	case spec.TypeUint16:
		x, e := v.Uint16Err()
		s.err(e)
		return mix(mix(h, uint64(kU16)), uint64(x))
	case spec.TypeUint32:
		x, e := v.Uint32Err()
		s.err(e)
		return mix(mix(h, uint64(kU32)), uint64(x))
	case spec.TypeUint64:
		x, e := v.Uint64Err()
		s.err(e)
		return mix(mix(h, uint64(kU64)), x)
	case spec.TypeFloat32:
		x, e := v.Float32Err()
		s.err(e)
		return mixF32(mix(h, uint64(kF32)), x)
	case spec.TypeFloat64:
		x, e := v.Float64Err()
		s.err(e)
		return mixF64(mix(h, uint64(kF64)), x)
	case spec.TypeBin64:
		x, e := v.Bin64Err()
		s.err(e)
		return mixBytes(mix(h, uint64(kB64)), x[:])
	case spec.TypeBin128:
		x, e := v.Bin128Err()
		s.err(e)
		return mix128(mix(h, uint64(kB128)), x)
	case spec.TypeBin256:
		x, e := v.Bin256Err()
		s.err(e)
		return mix256(mix(h, uint64(kB256)), x)
	case spec.TypeBytes:
		x, e := v.BytesErr()
		s.err(e)
		s.view(unsafe.Pointer(unsafe.SliceData(x)), len(x))
		return mixBytes(mix(h, uint64(kBytes)), x.Unwrap())
	case spec.TypeString:
		x, e := v.StringErr()
		s.err(e)
		str := x.Unwrap()
		s.view(unsafe.Pointer(unsafe.StringData(str)), len(str))
		return mixString(mix(h, uint64(kStr)), str)
	case spec.TypeStruct:
		h = mix(h, uint64(kStruct))
		if strict {
			var st structVal
			_, e := st.decode(v)
			s.err(e)
			return mixStruct(h, &st)
		}
		ds, _, e := spec.DecodeStruct(v)
		s.err(e)
		return mix(h, uint64(ds))
	case spec.TypeList, spec.TypeBigList:
		l, e := v.ListErr()
		s.err(e)
		n := l.Len()
		h = mix(mix(h, uint64(kList)), uint64(n))
		raw := l.Raw()
		s.view(unsafe.Pointer(unsafe.SliceData(raw)), len(raw))
		for i := 0; i < n; i++ {
			ev := l.Get(i)
			if eb := l.GetBytes(i); len(eb) != len(ev) {
				s.errs++
			}
			h = s.walkGeneric(ev, h, strict)
		}
		return h
	case spec.TypeMessage, spec.TypeBigMessage:
		m, e := v.MessageErr()
		s.err(e)
		n := m.Fields()
		h = mix(mix(h, uint64(kMsg)), uint64(n))
		raw := m.Raw()
		s.view(unsafe.Pointer(unsafe.SliceData(raw)), len(raw))
		for i := 0; i < n; i++ {
			tag, ok := m.TagAt(i)
			if !ok {
				s.errs++
			}
			fv := m.FieldAt(i)
			if strict {
				// the second access path: by tag (tags of harness shapes are distinct and sorted)
				if bt := m.Field(tag); len(bt) != len(fv) || !m.HasField(tag) || len(m.FieldRaw(tag)) < len(fv) {
					s.errs++
				}
			}
			h = mix(h, uint64(tag))
			h = s.walkGeneric(fv, h, strict)
		}
		return h
	}
	s.errs++
	return h
}

// decode reads the struct the way generated code does.
func (st *structVal) decode(b []byte) (size int, err error) {
	dataSize, size, err := spec.DecodeStruct(b)
	if err != nil || size == 0 {
		return
	}
	b = b[len(b)-size:]
	n := size - dataSize
	off := len(b) - n

	st.K, n, err = spec.DecodeBin128(b[:off])
	if err != nil {
		return
	}
	off -= n
	st.B, n, err = spec.DecodeBool(b[:off])
	if err != nil {
		return
	}
	off -= n
	st.F, n, err = spec.DecodeFloat64(b[:off])
	if err != nil {
		return
	}
	off -= n
	st.Z, n, err = spec.DecodeUint16(b[:off])
	if err != nil {
		return
	}
	off -= n
	st.Y, n, err = spec.DecodeInt64(b[:off])
	if err != nil {
		return
	}
	off -= n
	st.X, n, err = spec.DecodeInt32(b[:off])
	if err != nil {
		return
	}
	off -= n
	_ = off
	return size, nil
}

// walkTyped reads a message the way a generated reader does: by tag, with the typed accessor of the
// kind the shape says the field has. It produces the same checksum as walkGeneric and expect.
func (s *readState) walkTyped(m spec.Message, c *cnode, h uint64) uint64 {
	return s.typedMsgBody(m, c, mix(h, uint64(kMsg)))
}

// typedMsgBody continues after the kind code has been mixed.
func (s *readState) typedMsgBody(m spec.Message, c *cnode, h uint64) uint64 {
	h = mix(h, uint64(m.Fields()))
	s.absentReads(m, c)
	for _, i := range c.sorted {
		tag := c.tags[i]
		f := c.fields[i]
		h = mix(h, uint64(tag))
		h = mix(h, uint64(f.kind))
		switch f.kind {
		case kBool:
			x, e := m.BoolErr(tag)
			s.err(e)
			if x != m.Bool(tag) {
				s.errs++
			}
			h = mixBool(h, x)
		case kByte:
			x, e := m.ByteErr(tag)
			s.err(e)
			h = mix(h, uint64(x))
		case kI16:
			x, e := m.Int16Err(tag)
			s.err(e)
			h = mix(h, uint64(int64(x)))
		case kI32:
			x, e := m.Int32Err(tag)
			s.err(e)
			if x != m.Int32(tag) {
				s.errs++
			}
			h = mix(h, uint64(int64(x)))
		case kI64:
			x, e := m.Int64Err(tag)
			s.err(e)
			h = mix(h, uint64(x))
		case kU16:
			x, e := m.Uint16Err(tag)
			s.err(e)
			h = mix(h, uint64(x))
		case kU32:
			x, e := m.Uint32Err(tag)
			s.err(e)
			h = mix(h, uint64(x))
		case kU64:
			x, e := m.Uint64Err(tag)
			s.err(e)
			if x != m.Uint64(tag) {
				s.errs++
			}
			h = mix(h, x)
		case kF32:
			x, e := m.Float32Err(tag)
			s.err(e)
			h = mixF32(h, x)
		case kF64:
			x, e := m.Float64Err(tag)
			s.err(e)
			h = mixF64(h, x)
		case kB64:
			x, e := m.Bin64Err(tag)
			s.err(e)
			h = mixBytes(h, x[:])
		case kB128:
			x, e := m.Bin128Err(tag)
			s.err(e)
			h = mix128(h, x)
		case kB256:
			x, e := m.Bin256Err(tag)
			s.err(e)
			h = mix256(h, x)
		case kBytes:
			x, e := m.BytesErr(tag)
			s.err(e)
			if len(m.Bytes(tag)) != len(x) {
				s.errs++
			}
			s.view(unsafe.Pointer(unsafe.SliceData(x)), len(x))
			h = mixBytes(h, x)
		case kStr:
			x, e := m.StringErr(tag)
			s.err(e)
			if len(m.String(tag)) != len(x) {
				s.errs++
			}
			str := x.Unwrap()
			s.view(unsafe.Pointer(unsafe.StringData(str)), len(str))
			h = mixString(h, str)
		case kStruct:
			var st structVal
			_, e := st.decode(m.FieldRaw(tag))
			s.err(e)
			h = mixStruct(h, &st)
		case kList:
			l, e := m.ListErr(tag)
			s.err(e)
			if m.List(tag).Len() != l.Len() {
				s.errs++
			}
			h = s.typedListBody(l, f, h)
		case kMsg:
			sub, e := m.MessageErr(tag)
			s.err(e)
			if m.Message(tag).Fields() != sub.Fields() {
				s.errs++
			}
			h = s.typedMsgBody(sub, f, h)
		}
	}
	return h
}

func (s *readState) typedListBody(l spec.List, c *cnode, h uint64) uint64 {
	n := l.Len()
	h = mix(h, uint64(n))
	if n != len(c.elems) {
		s.errs++
		return h
	}
	// the typed wrappers the generated accessors build for a list field (one construction per read of
	// the field): constructing them and reading through them must not allocate either
	if n > 0 {
		switch c.elems[0].kind {
		case kBool:
			vl := spec.NewValueList(l, spec.DecodeBool)
			if vl.Len() == n && vl.Get(0) {
				s.sink++
			}
		case kI32:
			vl := spec.NewValueList(l, spec.DecodeInt32)
			s.sink += uint64(vl.Len()) + uint64(vl.Get(0))
		case kI64:
			vl := spec.NewValueList(l, spec.DecodeInt64)
			s.sink += uint64(vl.Len()) + uint64(vl.Get(0))
		case kU32:
			vl := spec.NewValueList(l, spec.DecodeUint32)
			s.sink += uint64(vl.Len()) + uint64(vl.Get(0))
		case kU64:
			vl := spec.OpenValueList(l.Raw(), spec.DecodeUint64)
			s.sink += uint64(vl.Len()) + vl.Get(0)
		case kF64:
			vl := spec.NewValueList(l, spec.DecodeFloat64)
			if vl.Get(0) > 0 {
				s.sink++
			}
		case kBytes:
			vl := spec.NewValueList(l, spec.DecodeBytes)
			s.sink += uint64(len(vl.Get(0)))
		case kStr:
			vl := spec.NewValueList(l, spec.DecodeString)
			s.sink += uint64(len(vl.Get(0)))
		case kMsg:
			ml := spec.NewMessageList(l, spec.OpenMessageErr)
			s.sink += uint64(ml.Len()) + uint64(ml.Get(0).Fields())
		}
	}
	for i, e := range c.elems {
		v := l.Get(i)
		h = mix(h, uint64(e.kind))
		switch e.kind {
		case kBool:
			x, er := v.BoolErr()
			s.err(er)
			h = mixBool(h, x)
		case kByte:
			x, er := v.ByteErr()
			s.err(er)
			h = mix(h, uint64(x))
		case kI16:
			h = mix(h, uint64(int64(v.Int16())))
		case kI32:
			h = mix(h, uint64(int64(v.Int32())))
		case kI64:
			h = mix(h, uint64(v.Int64()))
		case kU16:
			h = mix(h, uint64(v.Uint16()))
		case kU32:
			h = mix(h, uint64(v.Uint32()))
		case kU64:
			h = mix(h, v.Uint64())
		case kF32:
			h = mixF32(h, v.Float32())
		case kF64:
			h = mixF64(h, v.Float64())
		case kB64:
			x := v.Bin64()
			h = mixBytes(h, x[:])
		case kB128:
			x := v.Bin128()
			h = mix128(h, x)
		case kB256:
			x := v.Bin256()
			h = mix256(h, x)
		case kBytes:
			x := v.Bytes()
			s.view(unsafe.Pointer(unsafe.SliceData(x)), len(x))
			h = mixBytes(h, x)
		case kStr:
			str := v.String().Unwrap()
			s.view(unsafe.Pointer(unsafe.StringData(str)), len(str))
			h = mixString(h, str)
		case kStruct:
			var st structVal
			_, er := st.decode(v)
			s.err(er)
			h = mixStruct(h, &st)
		case kList:
			h = s.typedListBody(v.List(), e, h)
		case kMsg:
			h = s.typedMsgBody(v.Message(), e, h)
		}
	}
	return h
}

// absentReads reads a tag the message does not have through every typed accessor: a generated
// reader does that for every field that was not set. All of them return the zero value, none may
// allocate (this runs inside the measured closure).
func (s *readState) absentReads(m spec.Message, c *cnode) {
	tag := uint16(65535)
	for {
		found := false
		for _, t := range c.tags {
			if t == tag {
				found = true
				break
			}
		}
		if !found {
			break
		}
		tag--
	}
	if m.HasField(tag) {
		s.errs++
		return
	}
	bad := false
	bad = bad || m.Bool(tag) || m.Byte(tag) != 0 || m.Int16(tag) != 0 || m.Int32(tag) != 0 || m.Int64(tag) != 0
	bad = bad || m.Uint16(tag) != 0 || m.Uint32(tag) != 0 || m.Uint64(tag) != 0 || m.Float32(tag) != 0 || m.Float64(tag) != 0
	bad = bad || m.Bin64(tag) != (bin.Bin64{}) || m.Bin128(tag) != (bin.Bin128{}) || m.Bin256(tag) != (bin.Bin256{})
	bad = bad || len(m.Bytes(tag)) != 0 || len(m.String(tag)) != 0
	bad = bad || m.List(tag).Len() != 0 || m.Message(tag).Fields() != 0 || len(m.Field(tag)) != 0
	if bad {
		s.errs++
	}
}
