package main

import (
	"math"
	"sort"

	"github.com/basecomplextech/baselibrary/bin"
	"verif/harness/internal/hx"
	"verif/harness/internal/tree"
)

// Value kinds of a compiled shape. The numbers are also the kind codes mixed into checksums.
const (
	kNil uint8 = iota
	kBool
	kByte
	kI16
	kI32
	kI64
	kU16
	kU32
	kU64
	kF32
	kF64
	kB64
	kB128
	kB256
	kBytes
	kStr
	kList
	kMsg
	kStruct
)

// structVal is the fixed-layout struct the shapes embed; it is written and read the way generated
// code does it (members in order, spec.EncodeStruct after them; decoded in reverse order).
type structVal struct {
	X int32
	Y int64
	Z uint16
	F float64
	B bool
	K bin.Bin128
}

// cnode is a value tree with every argument already converted to the type the writer takes, so
// that the measured closures call nothing but the library.
type cnode struct {
	kind uint8
	b    bool
	i    int64
	u    uint64
	f32  float32
	f64  float64
	b64  bin.Bin64
	b128 bin.Bin128
	b256 bin.Bin256
	data []byte
	str  string
	st   structVal

	elems  []*cnode // list
	tags   []uint16 // msg, write order
	fields []*cnode // msg, write order
	sorted []int    // msg: indexes into tags/fields in ascending tag order
}

var kindOf = map[string]uint8{
	"bool": kBool, "byte": kByte, "i16": kI16, "i32": kI32, "i64": kI64, "u16": kU16, "u32": kU32, "u64": kU64,
	"f32": kF32, "f64": kF64, "bin64": kB64, "bin128": kB128, "bin256": kB256, "bytes": kBytes, "str": kStr,
	"list": kList, "msg": kMsg,
}

// compile converts a generator tree.
func compile(n *tree.Node) *cnode {
	c := &cnode{kind: kindOf[n.Kind]}
	switch c.kind {
	case kBool:
		c.b = n.Bool
	case kByte, kU16, kU32, kU64:
		c.u = n.U
	case kI16, kI32, kI64:
		c.i = n.I
	case kF32:
		c.f32 = math.Float32frombits(uint32(n.U))
	case kF64:
		c.f64 = math.Float64frombits(n.U)
	case kB64:
		c.b64, _ = bin.Parse64(n.Data)
	case kB128:
		c.b128, _ = bin.Parse128(n.Data)
	case kB256:
		c.b256, _ = bin.Parse256(n.Data)
	case kBytes:
		c.data = n.Data
	case kStr:
		c.str = string(n.Data)
	case kList:
		for _, e := range n.Elems {
			c.elems = append(c.elems, compile(e))
		}
	case kMsg:
		c.tags = append(c.tags, n.Tags...)
		for _, f := range n.Fields {
			c.fields = append(c.fields, compile(f))
		}
		c.sortTags()
	default:
		panic("bad kind " + n.Kind)
	}
	return c
}

func (c *cnode) sortTags() {
	c.sorted = c.sorted[:0]
	for i := range c.tags {
		c.sorted = append(c.sorted, i)
	}
	sort.Slice(c.sorted, func(a, b int) bool { return c.tags[c.sorted[a]] < c.tags[c.sorted[b]] })
}

func randStruct(r *hx.Rand) *cnode {
	c := &cnode{kind: kStruct}
	c.st.X = int32(r.U64() >> uint(r.Intn(64)))
	c.st.Y = int64(r.U64()) >> uint(r.Intn(64))
	c.st.Z = uint16(r.U64() >> uint(48+r.Intn(16)))
	c.st.F = float64(int64(r.U64()>>20)) / 1024
	c.st.B = r.Intn(2) == 0
	c.st.K, _ = bin.Parse128(r.Bytes(16))
	return c
}

// addStructs adds struct values: as extra fields (unused tags) of some messages and as extra
// elements of some lists. It returns the number of structs added.
func addStructs(c *cnode, r *hx.Rand, prob int) int {
	added := 0
	switch c.kind {
	case kMsg:
		for _, f := range c.fields {
			added += addStructs(f, r, prob)
		}
		if r.Intn(prob) == 0 {
			used := map[uint16]bool{}
			for _, t := range c.tags {
				used[t] = true
			}
			for k := 1 + r.Intn(3); k > 0; k-- {
				tag := uint16(1 + r.Intn(600))
				if used[tag] {
					continue
				}
				used[tag] = true
				// random position in the write order
				pos := r.Intn(len(c.tags) + 1)
				c.tags = append(c.tags, 0)
				c.fields = append(c.fields, nil)
				copy(c.tags[pos+1:], c.tags[pos:])
				copy(c.fields[pos+1:], c.fields[pos:])
				c.tags[pos] = tag
				c.fields[pos] = randStruct(r)
				added++
			}
			c.sortTags()
		}
	case kList:
		for _, e := range c.elems {
			added += addStructs(e, r, prob)
		}
		if r.Intn(prob) == 0 {
			for k := 1 + r.Intn(3); k > 0; k-- {
				c.elems = append(c.elems, randStruct(r))
				added++
			}
		}
	}
	return added
}

// shapeStats are the numbers printed per shape.
type shapeStats struct {
	nodes, depth, maxFields, maxElems, maxTag, maxPayload int
}

func (c *cnode) stats(depth int, s *shapeStats) {
	s.nodes++
	if depth > s.depth {
		s.depth = depth
	}
	if n := len(c.data); n > s.maxPayload {
		s.maxPayload = n
	}
	if n := len(c.str); n > s.maxPayload {
		s.maxPayload = n
	}
	switch c.kind {
	case kMsg:
		if len(c.fields) > s.maxFields {
			s.maxFields = len(c.fields)
		}
		for i, f := range c.fields {
			if int(c.tags[i]) > s.maxTag {
				s.maxTag = int(c.tags[i])
			}
			f.stats(depth+1, s)
		}
	case kList:
		if len(c.elems) > s.maxElems {
			s.maxElems = len(c.elems)
		}
		for _, e := range c.elems {
			e.stats(depth+1, s)
		}
	}
}

// ---------------------------------------------------------------- checksums

const hashSeed = 0x5bd1e9955bd1e995

func mix(h, x uint64) uint64 {
	h ^= x
	h *= 0x9E3779B97F4A7C15
	return h ^ (h >> 29)
}

func mixBytes(h uint64, b []byte) uint64 {
	h = mix(h, uint64(len(b)))
	for _, c := range b {
		h = (h ^ uint64(c)) * 0x100000001b3
	}
	return h
}

func mixRaw(h uint64, b []byte) uint64 {
	for _, c := range b {
		h = (h ^ uint64(c)) * 0x100000001b3
	}
	return h
}

func mix128(h uint64, x bin.Bin128) uint64 {
	h = mix(h, 16)
	h = mixRaw(h, x[0][:])
	return mixRaw(h, x[1][:])
}

func mix256(h uint64, x bin.Bin256) uint64 {
	h = mix(h, 32)
	for i := range x {
		h = mixRaw(h, x[i][:])
	}
	return h
}

func mixString(h uint64, s string) uint64 {
	h = mix(h, uint64(len(s)))
	for i := 0; i < len(s); i++ {
		h = (h ^ uint64(s[i])) * 0x100000001b3
	}
	return h
}

func mixF32(h uint64, v float32) uint64 {
	if v != v {
		return mix(h, 0x7fc00000)
	}
	return mix(h, uint64(math.Float32bits(v)))
}

func mixF64(h uint64, v float64) uint64 {
	if v != v {
		return mix(h, 0x7ff8000000000000)
	}
	return mix(h, math.Float64bits(v))
}

func mixBool(h uint64, v bool) uint64 {
	if v {
		return mix(h, 1)
	}
	return mix(h, 0)
}

func mixStruct(h uint64, s *structVal) uint64 {
	h = mix(h, uint64(uint32(s.X)))
	h = mix(h, uint64(s.Y))
	h = mix(h, uint64(s.Z))
	h = mixF64(h, s.F)
	h = mixBool(h, s.B)
	return mix128(h, s.K)
}

// expect is the checksum a complete and correct read of the shape must produce. It is computed
// from the tree alone (fields in ascending tag order), independently of the library.
func expect(c *cnode, h uint64) uint64 {
	h = mix(h, uint64(c.kind))
	switch c.kind {
	case kBool:
		h = mixBool(h, c.b)
	case kByte, kU16, kU32, kU64:
		h = mix(h, c.u)
	case kI16, kI32, kI64:
		h = mix(h, uint64(c.i))
	case kF32:
		h = mixF32(h, c.f32)
	case kF64:
		h = mixF64(h, c.f64)
	case kB64:
		h = mixBytes(h, c.b64[:])
	case kB128:
		h = mix128(h, c.b128)
	case kB256:
		h = mix256(h, c.b256)
	case kBytes:
		h = mixBytes(h, c.data)
	case kStr:
		h = mixString(h, c.str)
	case kStruct:
		h = mixStruct(h, &c.st)
	case kList:
		h = mix(h, uint64(len(c.elems)))
		for _, e := range c.elems {
			h = expect(e, h)
		}
	case kMsg:
		h = mix(h, uint64(len(c.fields)))
		for _, i := range c.sorted {
			h = mix(h, uint64(c.tags[i]))
			h = expect(c.fields[i], h)
		}
	}
	return h
}

// ---------------------------------------------------------------- shape catalogue

func scalarMsg(tg *tree.Gen, tags []uint16) *tree.Node {
	m := &tree.Node{Kind: "msg"}
	for _, t := range tags {
		m.Tags = append(m.Tags, t)
		m.Fields = append(m.Fields, tg.Scalar())
	}
	return m
}

func seqTags(n int, from int) []uint16 {
	out := make([]uint16, n)
	for i := range out {
		out[i] = uint16(from + i)
	}
	return out
}

// randTags returns n distinct tags below max in random order.
func randTags(r *hx.Rand, n, max int) []uint16 {
	used := map[uint16]bool{}
	var out []uint16
	for len(out) < n {
		t := uint16(1 + r.Intn(max))
		if !used[t] {
			used[t] = true
			out = append(out, t)
		}
	}
	return out
}

func scalarList(tg *tree.Gen, n int) *tree.Node {
	l := &tree.Node{Kind: "list"}
	for i := 0; i < n; i++ {
		l.Elems = append(l.Elems, tg.Scalar())
	}
	return l
}

// wideDeep nests messages of `width` scalar fields `depth` levels deep (tables of all open levels
// are on the writer's field stack at the same time).
func wideDeep(tg *tree.Gen, depth, width int, lists bool) *tree.Node {
	m := scalarMsg(tg, randTags(tg.R, width, 400))
	if depth > 0 {
		child := wideDeep(tg, depth-1, width, lists)
		if lists {
			l := scalarList(tg, width)
			l.Elems = append(l.Elems, child)
			child = l
		}
		pos := tg.R.Intn(len(m.Tags) + 1)
		m.Tags = append(m.Tags[:pos], append([]uint16{uint16(500 + depth)}, m.Tags[pos:]...)...)
		m.Fields = append(m.Fields[:pos], append([]*tree.Node{child}, m.Fields[pos:]...)...)
	}
	return m
}

func wrap(n *tree.Node) *tree.Node {
	if n.Kind == "msg" {
		return n
	}
	return &tree.Node{Kind: "msg", Tags: []uint16{1}, Fields: []*tree.Node{n}}
}

// directed shapes: the boundaries named by the property (tables beyond 255 entries, tags beyond
// 255, lists beyond 255 elements, nesting and table sizes beyond the preallocated 14/48/48).
const (
	directedCount = 40
	directedExact = 34 // these keep their exact counts: no structs are added
)

func directedShape(i int, tg *tree.Gen) (string, *tree.Node) {
	r := tg.R
	payload := func(kind string, n int) *tree.Node { return &tree.Node{Kind: kind, Data: r.Bytes(n)} }
	switch i {
	case 0:
		return "empty", &tree.Node{Kind: "msg"}
	case 1:
		return "one-field", scalarMsg(tg, []uint16{1})
	case 2:
		return "fields-47", scalarMsg(tg, seqTags(47, 1))
	case 3:
		return "fields-48", scalarMsg(tg, seqTags(48, 1))
	case 4:
		return "fields-49", scalarMsg(tg, randTags(r, 49, 200))
	case 5:
		return "fields-255", scalarMsg(tg, seqTags(255, 1))
	case 6:
		return "fields-256", scalarMsg(tg, randTags(r, 256, 1000))
	case 7:
		return "fields-300", scalarMsg(tg, seqTags(300, 1))
	case 8:
		return "fields-1000-bigtags", scalarMsg(tg, randTags(r, 1000, 65535))
	case 9:
		return "tags-big", scalarMsg(tg, []uint16{65535, 256, 255, 1, 40000, 257})
	case 10:
		return "list-48", wrap(scalarList(tg, 48))
	case 11:
		return "list-49", wrap(scalarList(tg, 49))
	case 12:
		return "list-255", wrap(scalarList(tg, 255))
	case 13:
		return "list-256", wrap(scalarList(tg, 256))
	case 14:
		return "list-300", wrap(scalarList(tg, 300))
	case 15:
		return "list-2000", wrap(scalarList(tg, 2000))
	case 16:
		l := &tree.Node{Kind: "list"}
		for k := 0; k < 300; k++ {
			l.Elems = append(l.Elems, scalarMsg(tg, randTags(r, 3, 300)))
		}
		return "list-300-msgs", wrap(l)
	case 17:
		return "deep-6", wrap(tg.Deep(6))
	case 18:
		return "deep-7", wrap(tg.Deep(7))
	case 19:
		return "deep-8", wrap(tg.Deep(8))
	case 20:
		return "deep-15", wrap(tg.Deep(15))
	case 21:
		return "deep-30", wrap(tg.Deep(30))
	case 22:
		return "deep-60", wrap(tg.Deep(60))
	case 23:
		return "deep-200", wrap(tg.Deep(200))
	case 24:
		return "wide-deep-5x20", wideDeep(tg, 5, 20, false)
	case 25:
		return "wide-deep-20x60", wideDeep(tg, 20, 60, false)
	case 26:
		return "wide-deep-lists-12x30", wideDeep(tg, 12, 30, true)
	case 27:
		return "payload-65535", &tree.Node{Kind: "msg", Tags: []uint16{2, 1}, Fields: []*tree.Node{payload("bytes", 65535), payload("str", 3)}}
	case 28:
		return "payload-70000", &tree.Node{Kind: "msg", Tags: []uint16{1, 300}, Fields: []*tree.Node{payload("str", 70000), payload("bytes", 65536)}}
	case 29:
		return "payload-1M", &tree.Node{Kind: "msg", Tags: []uint16{7}, Fields: []*tree.Node{payload("bytes", 1<<20)}}
	case 30:
		// a big table whose data is also beyond 64 KiB (big offsets)
		m := scalarMsg(tg, randTags(r, 400, 2000))
		m.Tags = append(m.Tags, 3000)
		m.Fields = append(m.Fields, payload("bytes", 66000))
		return "fields-400-bigdata", m
	case 31:
		l := scalarList(tg, 400)
		l.Elems = append([]*tree.Node{payload("str", 66000)}, l.Elems...)
		return "list-400-bigdata", wrap(l)
	case 32:
		// many sibling containers: every one returns its table space
		m := &tree.Node{Kind: "msg"}
		for k := 0; k < 60; k++ {
			m.Tags = append(m.Tags, uint16(60-k))
			if k%2 == 0 {
				m.Fields = append(m.Fields, scalarList(tg, 30))
			} else {
				m.Fields = append(m.Fields, scalarMsg(tg, randTags(r, 30, 100)))
			}
		}
		return "siblings-60x30", m
	case 33:
		return "fields-5000", scalarMsg(tg, randTags(r, 5000, 65535))
	}
	// the rest: generator trees with boundary counts and sizes
	tg.BigProb = 2
	defer func() { tg.BigProb = 0 }()
	return "gen-big", wrap(tg.Tree(2 + r.Intn(3)))
}
