package main

import (
	"fmt"
	"net"
	"strings"
	"sync"
	"time"

	"github.com/basecomplextech/baselibrary/async"
	"github.com/basecomplextech/spec/mpx"
	"verif/harness/internal/caplog"
)

// runLongOutage: auto-connect clients whose server is away long enough for the back-off to reach
// its 1 s cap and stay there for several attempts. Within the run of failures the gaps between
// dials must be at least 25 ms (20 ms with timer tolerance) and must never decrease (a gap below
// 85 % of the previous one counts as a decrease); afterwards the clients reconnect by themselves.
func runLongOutage(clients int, outage time.Duration) (line string, viol []string) {
	head := fmt.Sprintf("c19 run=longdown clients=%d outage_ms=%d", clients, outage/time.Millisecond)
	lg := caplog.New()
	srv := mpx.NewServer("127.0.0.1:0", mpx.HandleFunc(echoHandler), lg, mpx.Default())
	if st := srv.Start(); !st.OK() {
		return head + " VIOL infra-server-start", []string{"infra-server-start"}
	}
	defer func() {
		select {
		case <-srv.Stop():
		case <-time.After(2 * time.Second):
		}
	}()
	select {
	case <-srv.Listening().Wait():
	case <-time.After(3 * time.Second):
		return head + " VIOL infra-server-not-listening", []string{"infra-server-not-listening"}
	}
	px, err := newProxy(srv.Address())
	if err != nil {
		return head + " VIOL infra-proxy", []string{"infra-proxy"}
	}
	defer px.stop()

	type cli struct {
		cl    mpx.Client
		dials *dialLog
	}
	var cs []cli
	for i := 0; i < clients; i++ {
		dl := &dialLog{}
		opts := mpx.Default()
		dialer := &net.Dialer{Timeout: opts.ClientDialTimeout, Control: dl.control}
		cl := mpx.NewClientDialer(px.addr, mpx.ClientMode_AutoConnect, dialer, lg, opts)
		cs = append(cs, cli{cl, dl})
		defer cl.Close()
	}
	for _, c := range cs {
		ctx := async.TimeoutContext(3 * time.Second)
		_, st := c.cl.Conn(ctx)
		ctx.Free()
		if !st.OK() {
			return head + " VIOL infra-first-connect", []string{"infra-first-connect"}
		}
	}
	from := time.Now()
	px.goDown("refuse")
	time.Sleep(outage)
	to := time.Now()
	if !px.resume() {
		return head + " infra=proxy-port-not-reopened", nil
	}
	var mu sync.Mutex
	var shown []string
	for i, c := range cs {
		ts := c.dials.between(from, to)
		var gaps []time.Duration
		for k := 1; k < len(ts); k++ {
			gaps = append(gaps, ts[k].Sub(ts[k-1]))
		}
		var s []string
		for _, g := range gaps {
			s = append(s, fmt.Sprintf("%.0f", float64(g)/1e6))
		}
		mu.Lock()
		shown = append(shown, fmt.Sprintf("c%d:%s", i, strings.Join(s, "/")))
		mu.Unlock()
		if len(gaps) < 5 {
			viol = append(viol, fmt.Sprintf("too-few-attempts-in-%dms-client=%d-n=%d", outage/time.Millisecond, i, len(ts)))
			continue
		}
		for k, g := range gaps {
			if g < 20*time.Millisecond {
				viol = append(viol, fmt.Sprintf("backoff-gap-below-20ms-longdown-%.2fms", float64(g)/1e6))
				break
			}
			if k > 0 && float64(g) < 0.85*float64(gaps[k-1]) {
				viol = append(viol, fmt.Sprintf("backoff-decreases-longdown-%.1fms-then-%.1fms", float64(gaps[k-1])/1e6, float64(g)/1e6))
				break
			}
		}
	}
	for i, c := range cs {
		select {
		case <-c.cl.Connected().Wait():
		case <-time.After(5 * time.Second):
			viol = append(viol, fmt.Sprintf("auto-not-reconnected-in-5s-after-long-outage-client=%d", i))
		}
	}
	line = fmt.Sprintf("%s gaps_ms=%s panics=%d", head, strings.Join(shown, ","), len(lg.Panics()))
	for _, v := range viol {
		line += " VIOL " + v
	}
	return line, viol
}
