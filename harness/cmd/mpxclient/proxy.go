package main

import (
	"fmt"
	"io"
	"net"
	"sync"
	"time"
)

// proxy is a counting TCP proxy between the client under test and the real mpx server.
// It can kill its connections and stop serving to simulate the server going away:
//
//	refuse: the listener is closed, dials fail with "connection refused"
//	reset:  connections are accepted and closed right away (a dead backend behind a live port)
type proxy struct {
	addr   string // fixed listen address, reused when the listener is reopened
	target string

	mu       sync.Mutex
	ln       net.Listener
	down     bool // reset style: accept and close
	pairs    map[*pair]struct{}
	open     int // currently open client-side connections
	maxOpen  int
	accepted int         // connections which have been served
	rejected []time.Time // connections accepted and closed in the reset style
	stopped  bool
	start    time.Time
	events   []string // accept/close trace with the open count, for replays
}

type pair struct {
	c, s net.Conn
	once sync.Once
	seq  int // accept order
}

func newProxy(target string) (*proxy, error) {
	ln, err := net.Listen("tcp", "127.0.0.1:0")
	if err != nil {
		return nil, err
	}
	p := &proxy{
		addr:   ln.Addr().String(),
		target: target,
		ln:     ln,
		pairs:  map[*pair]struct{}{},
		start:  time.Now(),
	}
	go p.serve(ln)
	return p, nil
}

func (p *proxy) serve(ln net.Listener) {
	for {
		c, err := ln.Accept()
		if err != nil {
			return
		}
		p.mu.Lock()
		if p.stopped || p.ln != ln {
			p.mu.Unlock()
			c.Close()
			continue
		}
		if p.down {
			if len(p.rejected) < 100000 {
				p.rejected = append(p.rejected, time.Now())
			}
			p.mu.Unlock()
			if tc, ok := c.(*net.TCPConn); ok {
				tc.SetLinger(0)
			}
			c.Close()
			continue
		}
		pr := &pair{c: c, seq: p.accepted}
		p.pairs[pr] = struct{}{}
		p.open++
		p.accepted++
		if p.open > p.maxOpen {
			p.maxOpen = p.open
		}
		p.event("accept " + c.RemoteAddr().String())
		p.mu.Unlock()
		go p.run(pr)
	}
}

func (p *proxy) run(pr *pair) {
	s, err := net.DialTimeout("tcp", p.target, 2*time.Second)
	if err != nil {
		p.closePair(pr)
		return
	}
	p.mu.Lock()
	_, alive := p.pairs[pr]
	if alive {
		pr.s = s
	}
	p.mu.Unlock()
	if !alive {
		s.Close()
		return
	}
	go func() {
		io.Copy(s, pr.c)
		p.closePair(pr)
	}()
	io.Copy(pr.c, s)
	p.closePair(pr)
}

func (p *proxy) closePair(pr *pair) {
	pr.once.Do(func() {
		p.mu.Lock()
		delete(p.pairs, pr)
		p.open--
		p.event("close " + pr.c.RemoteAddr().String())
		s := pr.s
		p.mu.Unlock()
		pr.c.Close()
		if s != nil {
			s.Close()
		}
	})
}

// killAll closes all proxied connections.
func (p *proxy) killAll() {
	p.mu.Lock()
	prs := make([]*pair, 0, len(p.pairs))
	for pr := range p.pairs {
		prs = append(prs, pr)
	}
	p.mu.Unlock()
	for _, pr := range prs {
		p.closePair(pr)
	}
}

// goDown stops serving in the given style ("refuse" or "reset") and kills all connections.
func (p *proxy) goDown(style string) {
	p.mu.Lock()
	if style == "refuse" {
		if p.ln != nil {
			p.ln.Close()
			p.ln = nil
		}
	} else {
		p.down = true
	}
	p.mu.Unlock()
	p.killAll()
}

// resume serves again, false when the port could not be reopened.
func (p *proxy) resume() bool {
	p.mu.Lock()
	p.down = false
	need := p.ln == nil && !p.stopped
	p.mu.Unlock()
	if !need {
		return true
	}
	deadline := time.Now().Add(2 * time.Second)
	for {
		ln, err := net.Listen("tcp", p.addr)
		if err == nil {
			p.mu.Lock()
			p.ln = ln
			p.mu.Unlock()
			go p.serve(ln)
			return true
		}
		if time.Now().After(deadline) {
			return false
		}
		time.Sleep(10 * time.Millisecond)
	}
}

func (p *proxy) stop() {
	p.mu.Lock()
	p.stopped = true
	if p.ln != nil {
		p.ln.Close()
		p.ln = nil
	}
	p.mu.Unlock()
	p.killAll()
}

// event must be called with the mutex held.
func (p *proxy) event(what string) {
	if len(p.events) < 2000 {
		p.events = append(p.events, fmt.Sprintf("%8.3fms open=%d %s", float64(time.Since(p.start))/1e6, p.open, what))
	}
}

func (p *proxy) eventLog() []string {
	p.mu.Lock()
	defer p.mu.Unlock()
	return append([]string(nil), p.events...)
}

func (p *proxy) counts() (open, maxOpen, accepted int) {
	p.mu.Lock()
	defer p.mu.Unlock()
	return p.open, p.maxOpen, p.accepted
}

func (p *proxy) rejectedBetween(from, to time.Time) []time.Time {
	p.mu.Lock()
	defer p.mu.Unlock()
	var out []time.Time
	for _, t := range p.rejected {
		if !t.Before(from) && !t.After(to) {
			out = append(out, t)
		}
	}
	return out
}
