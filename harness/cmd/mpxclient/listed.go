package main

import (
	"fmt"
	"net"
	"time"

	"github.com/basecomplextech/baselibrary/async"
	"github.com/basecomplextech/spec/mpx"
	"verif/harness/internal/caplog"
)

// closeListener stops accepting (dials are refused) and leaves the served connections alone.
func (p *proxy) closeListener() {
	p.mu.Lock()
	if p.ln != nil {
		p.ln.Close()
		p.ln = nil
	}
	p.mu.Unlock()
}

// killNewest closes the connection that was accepted last.
func (p *proxy) killNewest() bool {
	p.mu.Lock()
	var newest *pair
	for pr := range p.pairs {
		if newest == nil || pr.seq > newest.seq {
			newest = pr
		}
	}
	p.mu.Unlock()
	if newest == nil {
		return false
	}
	p.closePair(newest)
	return true
}

// runClosedListed replays one interleaving deterministically (hook point close.afterSet): a client
// with two connections loses the second one; for 300 ms that connection is closed but still in the
// client's list. The first connection is open and served all the time, the server accepts no new
// connections. "Connected implies that a call can obtain a usable connection": every Conn and
// Channel call in that window returns OK (the open connection), whatever position the closed one
// has in the list.
func runClosedListed() (line string, viol []string) {
	head := "c19 run=closedlisted"
	lg := caplog.New()
	srv := mpx.NewServer("127.0.0.1:0", mpx.HandleFunc(echoHandler), lg, mpx.Default())
	if st := srv.Start(); !st.OK() {
		return head + " VIOL infra-server-start", []string{"infra-server-start"}
	}
	defer func() {
		select {
		case <-srv.Stop():
		case <-time.After(2 * time.Second):
		}
	}()
	select {
	case <-srv.Listening().Wait():
	case <-time.After(3 * time.Second):
		return head + " VIOL infra-server-not-listening", []string{"infra-server-not-listening"}
	}
	px, err := newProxy(srv.Address())
	if err != nil {
		return head + " VIOL infra-proxy", []string{"infra-proxy"}
	}
	defer px.stop()

	opts := mpx.Default()
	opts.ClientMaxConns = 2
	opts.ClientConnChannels = 1
	dialer := &net.Dialer{Timeout: opts.ClientDialTimeout}
	cl := mpx.NewClientDialer(px.addr, mpx.ClientMode_OnDemand, dialer, lg, opts)
	defer cl.Close()

	// two connections: the second is dialled when the first reaches its channel target
	var held []mpx.Channel
	defer func() {
		for _, ch := range held {
			ch.Free()
		}
	}()
	deadline := time.Now().Add(4 * time.Second)
	for {
		open, _, _ := px.counts()
		if open >= 2 {
			break
		}
		if time.Now().After(deadline) {
			return head + " note=second-connection-not-dialled", nil
		}
		if len(held) < 6 {
			ctx := async.TimeoutContext(2 * time.Second)
			ch, st := cl.Channel(ctx)
			if st.OK() {
				st = echo(ch, uint64(len(held)))
			}
			ctx.Free()
			if !st.OK() {
				return head + " note=setup-channel-failed", nil
			}
			held = append(held, ch)
		}
		time.Sleep(20 * time.Millisecond)
	}
	time.Sleep(100 * time.Millisecond) // the client has registered the second connection

	mpx.VerifSetPointSleep("close.afterSet", 300*time.Millisecond)
	defer mpx.VerifSetPointSleep("close.afterSet", 0)
	px.closeListener()
	if !px.killNewest() {
		return head + " note=nothing-to-kill", nil
	}
	time.Sleep(60 * time.Millisecond) // the client has seen the cut: closed flag set, removal pending

	calls, bad := 0, 0
	firstBad := ""
	t0 := time.Now()
	for time.Since(t0) < 180*time.Millisecond {
		ctx := async.TimeoutContext(2 * time.Second)
		connected := cl.Connected().IsSet()
		c, st := cl.Conn(ctx)
		ctx.Free()
		calls++
		if !connected {
			continue
		}
		if !st.OK() {
			bad++
			if firstBad == "" {
				firstBad = "conn-" + firstWords(st.String())
			}
		} else if c.Closed().IsSet() {
			bad++
			if firstBad == "" {
				firstBad = "conn-returned-the-closed-connection"
			}
		}
	}
	if bad > 0 {
		viol = append(viol, fmt.Sprintf("connected-but-conn-fails-while-an-open-connection-is-listed-behind-a-closed-one=%d-of-%d:%s", bad, calls, firstBad))
	}
	open, maxOpen, accepted := px.counts()
	if maxOpen > opts.ClientMaxConns {
		viol = append(viol, fmt.Sprintf("maxconns-exceeded=%d", maxOpen))
	}
	for _, p := range lg.Panics() {
		viol = append(viol, "library-panic:"+firstWords(p))
	}
	line = fmt.Sprintf("%s calls=%d bad=%d open=%d accepted=%d", head, calls, bad, open, accepted)
	for _, v := range viol {
		line += " VIOL " + v
	}
	return line, viol
}
