// Command mpxclient checks the client connection state property (C19).
//
//	mpxclient backoff              print `backoff <attempt> <nanoseconds>` (mpx.VerifReconnectTimeout)
//	mpxclient scen <seed> <tier>   run scenarios against a real server behind a counting TCP proxy
package main

import (
	"time"
	"fmt"
	"os"
	"sort"
	"strconv"
	"strings"

	"github.com/basecomplextech/spec/mpx"
	"verif/harness/internal/hx"
)

var debugLog bool

func main() {
	args := os.Args[1:]
	switch {
	case len(args) == 1 && args[0] == "backoff":
		cmdBackoff()
	case len(args) == 3 && args[0] == "scen":
		os.Exit(cmdScen(args[1], args[2]))
	case len(args) == 2 && args[0] == "one":
		// replay of one run by its derived seed, with the records of the captured log
		seed, err := strconv.ParseUint(args[1], 10, 64)
		if err != nil {
			os.Exit(2)
		}
		debugLog = true
		line, _ := runOne(0, seed, 6)
		fmt.Println(line)
	default:
		fmt.Fprintln(os.Stderr, "usage: mpxclient backoff | mpxclient scen <seed> <quick|thorough> | mpxclient one <derived-seed>")
		os.Exit(2)
	}
}

// cmdBackoff prints the reconnect timeout for attempts 0..300 and around the powers of two.
func cmdBackoff() {
	seen := map[int]bool{}
	var attempts []int
	add := func(a int) {
		if !seen[a] {
			seen[a] = true
			attempts = append(attempts, a)
		}
	}
	for a := 0; a <= 300; a++ {
		add(a)
	}
	for k := 1; k <= 62; k++ {
		p := 1 << k
		add(p - 1)
		add(p)
		add(p + 1)
	}
	sort.Ints(attempts)
	prev := int64(0)
	for _, a := range attempts {
		d := int64(mpx.VerifReconnectTimeout(a))
		line := fmt.Sprintf("backoff %d %d", a, d)
		// the property itself, independent of the model: 25 ms <= wait <= 1 s for every attempt >= 2,
		// never decreasing with the attempt number
		if a >= 2 && (d < 25e6 || d > 1e9) {
			line += " VIOL backoff-out-of-range"
		}
		if a >= 3 && d < prev {
			line += " VIOL backoff-decreases"
		}
		if a >= 2 {
			prev = d
		}
		fmt.Println(line)
	}
}

func cmdScen(seedS, tier string) int {
	seed, err := strconv.ParseUint(seedS, 10, 64)
	if err != nil || (tier != "quick" && tier != "thorough") {
		fmt.Fprintln(os.Stderr, "scen: bad seed or tier (quick|thorough)")
		return 2
	}
	runs := 25
	if tier == "thorough" {
		runs = 300
	}
	// hx.NewRand(seed+1) is hx.NewRand(seed) shifted by one draw, so reseed with an output
	rnd := hx.NewRand(hx.NewRand(seed).U64())
	violRuns := 0
	kinds := map[string]int{}
	// deterministic replay of one interleaving: Close while a dial has just returned
	for _, mode := range []mpx.ClientMode{mpx.ClientMode_OnDemand, mpx.ClientMode_AutoConnect} {
		line, viol := runCloseDuringDial(mode)
		fmt.Println(line)
		if len(viol) > 0 {
			violRuns++
			for _, v := range viol {
				kinds[kind(v)]++
			}
		}
	}
	// deterministic replay: a closed connection still listed next to an open one
	{
		line, viol := runClosedListed()
		fmt.Println(line)
		if len(viol) > 0 {
			violRuns++
			for _, v := range viol {
				kinds[kind(v)]++
			}
		}
	}
	// both connections of a two-connection client die at once
	for _, mode := range []mpx.ClientMode{mpx.ClientMode_OnDemand, mpx.ClientMode_AutoConnect} {
		line, viol := runBothDie(mode)
		fmt.Println(line)
		if len(viol) > 0 {
			violRuns++
			for _, v := range viol {
				kinds[kind(v)]++
			}
		}
	}
	// a long outage: the back-off reaches its cap and stays there for several attempts
	{
		line, viol := runLongOutage(3, 6500*time.Millisecond)
		fmt.Println(line)
		if len(viol) > 0 {
			violRuns++
			for _, v := range viol {
				kinds[kind(v)]++
			}
		}
	}
	for i := 0; i < runs; i++ {
		derived := rnd.U64() >> 1 // printed in the line, `mpxclient one <derived>` replays the run
		line, viol := runOne(i, derived, 6)
		fmt.Println(line)
		if len(viol) > 0 {
			violRuns++
			for _, v := range viol {
				kinds[kind(v)]++
			}
		}
	}
	summary := fmt.Sprintf("c19 summary runs=%d viol=%d", runs, violRuns)
	if len(kinds) > 0 {
		var ks []string
		for k, n := range kinds {
			ks = append(ks, fmt.Sprintf("%s:%d", k, n))
		}
		sort.Strings(ks)
		summary += " kinds=" + strings.Join(ks, ",")
	}
	fmt.Println(summary)
	// violations are reported by the VIOL lines; a non-zero exit means the scenario could not run
	return 0
}

// kind is the violation reason without its numbers.
func kind(v string) string {
	for _, p := range []string{"backoff-gap-below-20ms", "backoff-decreases", "flags-after-close", "flags-", "maxconns", "library-panic",
		"open-connections-after-close", "dials-after-close", "concurrent-call-after-close", "pending-call-after-close", "connected-but-conn", "connected-but-channel", "connected-but-echo"} {
		if strings.HasPrefix(v, p) {
			return strings.TrimSuffix(p, "-")
		}
	}
	return v
}
