package main

import (
	"fmt"
	"net"
	"time"

	"github.com/basecomplextech/baselibrary/async"
	"github.com/basecomplextech/spec/mpx"
	"verif/harness/internal/caplog"
)

// runCloseDuringDial replays one interleaving deterministically (hook point client.afterDial):
// Close is called after the client's dial has returned a connection and before the client has
// registered it. The property requires the pending call to return a closed status, no connection
// to stay open and the flags to read closed/disconnected.
func runCloseDuringDial(mode mpx.ClientMode) (line string, viol []string) {
	head := "c19 run=closedial mode=" + modeName(mode)
	lg := caplog.New()
	srv := mpx.NewServer("127.0.0.1:0", mpx.HandleFunc(echoHandler), lg, mpx.Default())
	if st := srv.Start(); !st.OK() {
		return head + " VIOL infra-server-start", []string{"infra-server-start"}
	}
	defer func() {
		select {
		case <-srv.Stop():
		case <-time.After(2 * time.Second):
		}
	}()
	select {
	case <-srv.Listening().Wait():
	case <-time.After(3 * time.Second):
		return head + " VIOL infra-server-not-listening", []string{"infra-server-not-listening"}
	}
	px, err := newProxy(srv.Address())
	if err != nil {
		return head + " VIOL infra-proxy", []string{"infra-proxy"}
	}
	defer px.stop()

	mpx.VerifSetPointSleep("client.afterDial", 400*time.Millisecond)
	defer mpx.VerifSetPointSleep("client.afterDial", 0)

	opts := mpx.Default()
	dialer := &net.Dialer{Timeout: opts.ClientDialTimeout}
	cl := mpx.NewClientDialer(px.addr, mode, dialer, lg, opts)

	type res struct {
		conn mpx.Conn
		st   string
		ok   bool
	}
	done := make(chan res, 1)
	go func() {
		c, st := cl.Conn(async.NoContext())
		done <- res{c, firstWords(st.String()), st.OK()}
	}()
	time.Sleep(150 * time.Millisecond) // the dial has returned, the connect routine sleeps at the hook
	cl.Close()
	var r res
	select {
	case r = <-done:
	case <-time.After(3 * time.Second):
		viol = append(viol, "pending-call-hangs-after-close")
	}
	time.Sleep(700 * time.Millisecond)
	if r.ok {
		viol = append(viol, "pending-call-after-close-status=ok")
	}
	if cl.Connected().IsSet() || !cl.Disconnected().IsSet() {
		viol = append(viol, "flags-after-close-connected")
	}
	open, _, accepted := px.counts()
	if open > 0 {
		viol = append(viol, fmt.Sprintf("connection-left-open-after-close=%d", open))
	}
	if _, st := cl.Conn(async.NoContext()); st.OK() {
		viol = append(viol, "call-after-close-status=ok")
	}
	line = fmt.Sprintf("%s pending=%s open=%d accepted=%d panics=%d", head, r.st, open, accepted, len(lg.Panics()))
	for _, v := range viol {
		line += " VIOL " + v
	}
	return line, viol
}
