package main

import (
	"fmt"
	"net"
	"time"

	"github.com/basecomplextech/baselibrary/async"
	"github.com/basecomplextech/spec/mpx"
	"verif/harness/internal/caplog"
)

// runBothDie: a client with two connections loses both at once (the server stays up). When it is
// quiescent again exactly one of Connected/Disconnected is set and Connected implies a usable
// connection: an on-demand client reads Disconnected and reconnects on its next call, an
// auto-connect client reconnects by itself; in both cases a call then gets a connection that works,
// and no more than the maximum number of connections is open.
func runBothDie(mode mpx.ClientMode) (line string, viol []string) {
	head := "c19 run=bothdie mode=" + modeName(mode)
	lg := caplog.New()
	srv := mpx.NewServer("127.0.0.1:0", mpx.HandleFunc(echoHandler), lg, mpx.Default())
	if st := srv.Start(); !st.OK() {
		return head + " VIOL infra-server-start", []string{"infra-server-start"}
	}
	defer func() {
		select {
		case <-srv.Stop():
		case <-time.After(2 * time.Second):
		}
	}()
	select {
	case <-srv.Listening().Wait():
	case <-time.After(3 * time.Second):
		return head + " VIOL infra-server-not-listening", []string{"infra-server-not-listening"}
	}
	px, err := newProxy(srv.Address())
	if err != nil {
		return head + " VIOL infra-proxy", []string{"infra-proxy"}
	}
	defer px.stop()

	opts := mpx.Default()
	opts.ClientMaxConns = 2
	opts.ClientConnChannels = 1
	dialer := &net.Dialer{Timeout: opts.ClientDialTimeout}
	cl := mpx.NewClientDialer(px.addr, mode, dialer, lg, opts)
	defer cl.Close()

	var held []mpx.Channel
	defer func() {
		for _, ch := range held {
			ch.Free()
		}
	}()
	deadline := time.Now().Add(4 * time.Second)
	for {
		open, _, _ := px.counts()
		if open >= 2 {
			break
		}
		if time.Now().After(deadline) {
			return head + " note=second-connection-not-dialled", nil
		}
		if len(held) < 6 {
			ctx := async.TimeoutContext(2 * time.Second)
			ch, st := cl.Channel(ctx)
			if st.OK() {
				st = echo(ch, uint64(len(held)))
			}
			ctx.Free()
			if !st.OK() {
				return head + " note=setup-channel-failed", nil
			}
			held = append(held, ch)
		}
		time.Sleep(20 * time.Millisecond)
	}
	time.Sleep(100 * time.Millisecond)

	px.killAll()
	// quiescence: both connections are seen closed, an auto-connect client has had time to redial
	time.Sleep(1500 * time.Millisecond)
	connected, disconnected := cl.Connected().IsSet(), cl.Disconnected().IsSet()
	if connected == disconnected {
		viol = append(viol, fmt.Sprintf("flags-after-both-died-connected=%v-disconnected=%v", connected, disconnected))
	}
	if mode == mpx.ClientMode_AutoConnect && !connected {
		viol = append(viol, "auto-connect-client-did-not-reconnect-within-1500ms-(server-up)")
	}
	// the client's view is consistent with its connections: nobody has called since both died, so
	// what is open now was dialled by the client itself
	openNow, _, _ := px.counts()
	if connected && openNow == 0 {
		viol = append(viol, "connected-but-no-open-connection-(both-died-1500ms-ago)")
	}
	if mode == mpx.ClientMode_AutoConnect && openNow == 0 {
		viol = append(viol, "auto-connect-client-has-no-connection-1500ms-after-both-died-(server-up)")
	}
	// a call now gets a connection that works
	ctx := async.TimeoutContext(3 * time.Second)
	ch, st := cl.Channel(ctx)
	if st.OK() {
		st = echo(ch, 4242)
		ch.Free()
	}
	ctx.Free()
	tok := firstWords(st.String())
	if !st.OK() {
		what := "call-after-both-died"
		if connected {
			what = "connected-but-channel"
		}
		viol = append(viol, what+"-fails:"+tok)
	}
	// the dead connections do not count against the maximum: with a channel target of 1 the
	// client grows to two connections again
	grow := time.Now().Add(3 * time.Second)
	for len(held) < 12 {
		if o, _, _ := px.counts(); o >= 2 || time.Now().After(grow) {
			break
		}
		ctx := async.TimeoutContext(2 * time.Second)
		ch, st := cl.Channel(ctx)
		if st.OK() {
			st = echo(ch, uint64(100+len(held)))
		}
		ctx.Free()
		if !st.OK() {
			break
		}
		held = append(held, ch)
		time.Sleep(20 * time.Millisecond)
	}
	time.Sleep(200 * time.Millisecond)
	if o, _, _ := px.counts(); o < 2 && st.OK() {
		viol = append(viol, fmt.Sprintf("second-connection-never-dialled-again-after-both-died-open=%d-(dead-connections-still-counted)", o))
	}
	open, maxOpen, accepted := px.counts()
	if maxOpen > opts.ClientMaxConns {
		viol = append(viol, fmt.Sprintf("maxconns-exceeded=%d", maxOpen))
	}
	for _, p := range lg.Panics() {
		viol = append(viol, "library-panic:"+firstWords(p))
	}
	line = fmt.Sprintf("%s connected=%v disconnected=%v call=%s open=%d accepted=%d", head, connected, disconnected, tok, open, accepted)
	for _, v := range viol {
		line += " VIOL " + v
	}
	return line, viol
}
