package main

import (
	"bytes"
	"fmt"
	"net"
	"os"
	"sort"
	"strconv"
	"strings"
	"sync"
	"syscall"
	"time"

	"github.com/basecomplextech/baselibrary/async"
	"github.com/basecomplextech/baselibrary/status"
	"github.com/basecomplextech/spec/mpx"
	"verif/harness/internal/caplog"
	"verif/harness/internal/hx"
)

const (
	quiesce       = 150 * time.Millisecond
	callTimeout   = 2 * time.Second
	reconnectWait = 3 * time.Second
	runTimeout    = 60 * time.Second
)

// postCloseWatch is how long the dial attempts are watched after Close (MPXCLIENT_POSTCLOSE_MS).
var postCloseWatch = func() time.Duration {
	if v, err := strconv.Atoi(os.Getenv("MPXCLIENT_POSTCLOSE_MS")); err == nil && v >= 300 {
		return time.Duration(v) * time.Millisecond
	}
	return 700 * time.Millisecond
}()

// dialLog records the dial attempts of the client under test (net.Dialer.Control hook).
type dialLog struct {
	mu sync.Mutex
	ts []time.Time
}

func (d *dialLog) control(network, address string, c syscall.RawConn) error {
	d.mu.Lock()
	if len(d.ts) < 100000 {
		d.ts = append(d.ts, time.Now())
	}
	d.mu.Unlock()
	return nil
}

func (d *dialLog) between(from, to time.Time) []time.Time {
	d.mu.Lock()
	defer d.mu.Unlock()
	var out []time.Time
	for _, t := range d.ts {
		if !t.Before(from) && !t.After(to) {
			out = append(out, t)
		}
	}
	return out
}

func (d *dialLog) count() int {
	d.mu.Lock()
	defer d.mu.Unlock()
	return len(d.ts)
}

type run struct {
	rnd      *hx.Rand
	lg       *caplog.Logger
	srv      mpx.Server
	px       *proxy
	cl       mpx.Client
	dials    *dialLog
	mode     mpx.ClientMode
	maxConns int
	target   int

	vmu       sync.Mutex
	closed    bool
	closeDone time.Time // when the first Close returned
	maxOpen   int       // simultaneous connections seen by the proxy before Close
	acts      []string
	gaps      []string // observed back-off gaps per down window
	viol      []string
	infra     []string // harness problems, not findings
}

func (r *run) violate(format string, a ...any) {
	v := strings.ReplaceAll(fmt.Sprintf(format, a...), " ", "_")
	r.vmu.Lock()
	defer r.vmu.Unlock()
	for _, x := range r.viol {
		if x == v {
			return
		}
	}
	r.viol = append(r.viol, v)
}

func modeName(m mpx.ClientMode) string {
	if m == mpx.ClientMode_AutoConnect {
		return "auto"
	}
	return "ondemand"
}

func echoHandler(ctx mpx.Context, ch mpx.Channel) status.Status {
	for {
		data, st := ch.Receive(ctx)
		if !st.OK() {
			return st
		}
		if st := ch.Send(ctx, data); !st.OK() {
			return st
		}
	}
}

// echo does one round trip, all payloads have the same size on purpose (see the report: growing
// frames can be stranded in the connection write queue, which is unrelated to C19).
func echo(ch mpx.Channel, tag uint64) status.Status {
	ctx := async.TimeoutContext(callTimeout)
	defer ctx.Free()

	msg := []byte(fmt.Sprintf("%016x", tag))
	if st := ch.Send(ctx, msg); !st.OK() {
		return st
	}
	data, st := ch.Receive(ctx)
	if !st.OK() {
		return st
	}
	if !bytes.Equal(data, msg) {
		return status.Newf(status.CodeError, "echo mismatch")
	}
	return status.OK
}

// callResult is the outcome of one client.Channel call (plus echo).
type callResult struct {
	chanSt status.Status
	echoSt status.Status
	ret    time.Time // when Channel returned
}

// openChannels opens k channels concurrently, echoes on each, holds them until all are done.
func (r *run) openChannels(k int, timeout time.Duration, tag uint64) []callResult {
	res := make([]callResult, k)
	var wg sync.WaitGroup
	release := make(chan struct{})
	var hold sync.WaitGroup
	for i := 0; i < k; i++ {
		wg.Add(1)
		hold.Add(1)
		go func(i int) {
			defer hold.Done()
			ctx := async.TimeoutContext(timeout)
			defer ctx.Free()
			ch, st := r.cl.Channel(ctx)
			res[i].chanSt = st
			res[i].ret = time.Now()
			if !st.OK() {
				wg.Done()
				return
			}
			defer ch.Free()
			res[i].echoSt = echo(ch, tag+uint64(i))
			wg.Done()
			<-release
		}(i)
	}
	done := make(chan struct{})
	go func() { wg.Wait(); close(done) }()
	select {
	case <-done:
	case <-time.After(timeout + callTimeout + 2*time.Second):
		r.violate("channel-call-hang")
	}
	close(release)
	held := make(chan struct{})
	go func() { hold.Wait(); close(held) }()
	select {
	case <-held:
	case <-time.After(5 * time.Second):
		r.violate("channel-free-hang")
	}
	return res
}

// flags returns the two flags, polled until they are consistent for a short while.
func (r *run) checkFlags(where string) (connected bool) {
	var c, d bool
	for i := 0; i < 5; i++ {
		c, d = r.cl.Connected().IsSet(), r.cl.Disconnected().IsSet()
		if c != d {
			return c
		}
		time.Sleep(20 * time.Millisecond)
	}
	r.violate("flags-%s-connected=%v-disconnected=%v", where, c, d)
	return c
}

func (r *run) checkMaxConns() {
	_, maxOpen, _ := r.px.counts()
	limit := max(1, r.maxConns)
	if maxOpen > limit {
		r.violate("maxconns-open=%d-limit=%d", maxOpen, limit)
	}
}

// checkQuiescent is run after every action once the client had time to settle.
func (r *run) checkQuiescent(where string) {
	time.Sleep(quiesce)
	connected := r.checkFlags(where)
	if connected && !r.closed {
		ctx := async.TimeoutContext(callTimeout)
		conn, st := r.cl.Conn(ctx)
		if !st.OK() {
			r.violate("connected-but-conn-%s-%s", where, st.Code)
		} else {
			ch, st := conn.Channel(ctx)
			if !st.OK() {
				r.violate("connected-but-channel-%s-%s", where, st.Code)
			} else {
				if st := echo(ch, r.rnd.U64()); !st.OK() {
					r.violate("connected-but-echo-%s-%s", where, st.Code)
				}
				ch.Free()
			}
		}
		ctx.Free()
	}
	r.checkMaxConns()
	if p := r.lg.Panics(); len(p) > 0 {
		r.violate("library-panic-%s", firstWords(p[0]))
	}
}

func firstWords(s string) string {
	if len(s) > 60 {
		s = s[:60]
	}
	return strings.Map(func(c rune) rune {
		if c == ' ' || c == '\n' || c == '\t' {
			return '_'
		}
		return c
	}, s)
}

// actions

func (r *run) actOpen() {
	k := 1 + r.rnd.Intn(2*r.target+2)
	r.acts = append(r.acts, fmt.Sprintf("open%d", k))
	res := r.openChannels(k, reconnectWait, r.rnd.U64())
	for _, c := range res {
		if !c.chanSt.OK() {
			r.violate("open-channel-failed-%s", c.chanSt.Code)
		} else if !c.echoSt.OK() {
			r.violate("open-echo-failed-%s", c.echoSt.Code)
		}
	}
}

func (r *run) actKill() {
	r.acts = append(r.acts, "kill")
	// callers keep asking for a connection while the connections die: the calls may fail, they must
	// not panic (the connection list is read without the mutex)
	stop := make(chan struct{})
	var wg sync.WaitGroup
	var mu sync.Mutex
	panicked := ""
	for g := 0; g < 4; g++ {
		wg.Add(1)
		go func() {
			defer wg.Done()
			defer func() {
				if e := recover(); e != nil {
					mu.Lock()
					panicked = firstWords(fmt.Sprint(e))
					mu.Unlock()
				}
			}()
			for {
				select {
				case <-stop:
					return
				default:
				}
				ctx := async.TimeoutContext(50 * time.Millisecond)
				r.cl.Conn(ctx)
				ctx.Free()
			}
		}()
	}
	time.Sleep(2 * time.Millisecond)
	r.px.killAll()
	time.Sleep(30 * time.Millisecond)
	close(stop)
	wg.Wait()
	if panicked != "" {
		r.violate("conn-call-panicked-while-connections-die-%s", panicked)
	}
}

// actDown: the server goes away (all connections die, nothing is served), and comes back.
func (r *run) actDown() {
	style := "refuse"
	if r.rnd.Intn(3) == 0 {
		style = "reset"
	}
	d := time.Duration(100+r.rnd.Intn(201)) * time.Millisecond
	if r.rnd.Intn(5) == 0 {
		d = time.Duration(600+r.rnd.Intn(801)) * time.Millisecond
	}
	calls := 0
	if r.rnd.Intn(3) == 0 {
		calls = 1 + r.rnd.Intn(3)
	}
	r.acts = append(r.acts, fmt.Sprintf("down-%s-%dms-calls%d", style, d/time.Millisecond, calls))

	from := time.Now()
	r.px.goDown(style)
	if calls > 0 {
		// calls made while the server is away must fail and must not hang
		time.Sleep(20 * time.Millisecond)
		res := r.openChannels(calls, callTimeout+500*time.Millisecond, r.rnd.U64())
		for _, c := range res {
			if c.chanSt.OK() && c.echoSt.OK() {
				r.violate("echo-ok-while-server-down")
			}
		}
	}
	if rest := d - time.Since(from); rest > 0 {
		time.Sleep(rest)
	}
	to := time.Now()
	if !r.px.resume() {
		r.infra = append(r.infra, "proxy-port-not-reopened")
		return
	}

	if r.mode == mpx.ClientMode_AutoConnect {
		r.checkBackoff(style, from, to)

		// reconnects by itself, without any call
		select {
		case <-r.cl.Connected().Wait():
		case <-time.After(reconnectWait):
			r.violate("auto-not-reconnected-in-3s-after-%s", style)
		}
		return
	}

	// on-demand: the next call reconnects
	res := r.openChannels(1, reconnectWait, r.rnd.U64())
	if !res[0].chanSt.OK() {
		r.violate("ondemand-next-call-failed-after-%s-%s", style, res[0].chanSt.Code)
	} else if !res[0].echoSt.OK() {
		r.violate("ondemand-next-echo-failed-after-%s-%s", style, res[0].echoSt.Code)
	}
}

// checkBackoff checks the dial attempts made while the server was away: lower bounds only.
func (r *run) checkBackoff(style string, from, to time.Time) {
	ts := r.dials.between(from, to)
	if style == "reset" {
		// cross-check: the attempts as seen by the proxy (accepted and closed right away)
		style = fmt.Sprintf("reset(proxy-saw-%d)", len(r.px.rejectedBetween(from, to)))
	}
	if len(ts) < 3 {
		r.gaps = append(r.gaps, fmt.Sprintf("%s:n%d", style, len(ts)))
		return
	}
	gaps := make([]time.Duration, 0, len(ts)-1)
	for i := 1; i < len(ts); i++ {
		gaps = append(gaps, ts[i].Sub(ts[i-1]))
	}
	show := make([]string, 0, 8)
	for i, g := range gaps {
		if i == 8 {
			show = append(show, "...")
			break
		}
		show = append(show, fmt.Sprintf("%.1f", float64(g)/1e6))
	}
	r.gaps = append(r.gaps, fmt.Sprintf("%s:n%d:%s", style, len(ts), strings.Join(show, "/")))

	minGap := gaps[0]
	for _, g := range gaps {
		minGap = min(minGap, g)
	}
	if minGap < 20*time.Millisecond {
		r.violate("backoff-gap-below-20ms-%s-attempts=%d-min=%.2fms", style, len(ts), float64(minGap)/1e6)
	}
	for i := 1; i < len(gaps); i++ {
		if float64(gaps[i]) < 0.85*float64(gaps[i-1]) {
			r.violate("backoff-decreases-%s-%.1fms-then-%.1fms", style, float64(gaps[i-1])/1e6, float64(gaps[i])/1e6)
			break
		}
	}
}

func (r *run) actWait() {
	r.acts = append(r.acts, "wait")
	time.Sleep(100 * time.Millisecond)
}

// actClose closes the client in one of several ways and checks that Close is terminal.
func (r *run) actClose(variant int) {
	names := []string{"close", "close2", "close-par", "close-with-calls", "close-pending"}
	r.acts = append(r.acts, names[variant])

	closeSt := func() status.Status {
		res := make(chan status.Status, 1)
		go func() { res <- r.cl.Close() }()
		select {
		case st := <-res:
			return st
		case <-time.After(5 * time.Second):
			r.violate("close-hang")
			return status.Newf(status.CodeTimeout, "close hang")
		}
	}
	checkCalls := func(res []callResult, closeDone time.Time, what string) {
		for _, c := range res {
			switch {
			case c.chanSt.OK():
				// the call won the race, fine
			case c.chanSt.Code == status.CodeClosed:
			case c.ret.After(closeDone):
				// pending at Close, returned after Close: must be a closed status
				r.violate("%s-call-after-close-status=%s", what, c.chanSt.Code)
			}
		}
	}

	// The proxy learns about connections closed by the client with a delay, so the bound on the
	// simultaneous connections is checked on what has been seen before Close.
	r.checkMaxConns()
	_, r.maxOpen, _ = r.px.counts()

	var closeDone time.Time
	switch variant {
	case 0:
		if st := closeSt(); !st.OK() {
			r.violate("close-status-%s", st.Code)
		}
		closeDone = time.Now()
	case 1:
		if st := closeSt(); !st.OK() {
			r.violate("close-status-%s", st.Code)
		}
		closeDone = time.Now()
		if st := closeSt(); !st.OK() {
			r.violate("close-second-status-%s", st.Code)
		}
	case 2:
		var wg sync.WaitGroup
		for i := 0; i < 2; i++ {
			wg.Add(1)
			go func() {
				defer wg.Done()
				if st := closeSt(); !st.OK() {
					r.violate("close-par-status-%s", st.Code)
				}
			}()
		}
		wg.Wait()
		closeDone = time.Now()
	case 3:
		k := 2 + r.rnd.Intn(4)
		var res []callResult
		got := make(chan struct{})
		tag := r.rnd.U64()
		go func() { res = r.openChannels(k, callTimeout, tag); close(got) }()
		time.Sleep(time.Duration(r.rnd.Intn(300)) * time.Microsecond)
		if st := closeSt(); !st.OK() {
			r.violate("close-status-%s", st.Code)
		}
		closeDone = time.Now()
		<-got
		checkCalls(res, closeDone, "concurrent")
	case 4:
		// calls are pending (the server is away) when Close is called
		style := "refuse"
		if r.rnd.Intn(3) == 0 {
			style = "reset"
		}
		r.acts[len(r.acts)-1] += "-" + style
		r.px.goDown(style)
		time.Sleep(30 * time.Millisecond)
		k := 1 + r.rnd.Intn(3)
		var res []callResult
		got := make(chan struct{})
		tag := r.rnd.U64()
		go func() { res = r.openChannels(k, callTimeout+500*time.Millisecond, tag); close(got) }()
		time.Sleep(time.Duration(5+r.rnd.Intn(60)) * time.Millisecond)
		if st := closeSt(); !st.OK() {
			r.violate("close-status-%s", st.Code)
		}
		closeDone = time.Now()
		<-got
		checkCalls(res, closeDone, "pending")
		if !r.px.resume() {
			r.infra = append(r.infra, "proxy-port-not-reopened")
		}
	}
	r.closed = true
	r.closeDone = closeDone
	r.checkClosed()
}

// checkClosed: Close is idempotent and terminal.
func (r *run) checkClosed() {
	if !r.cl.Closed().IsSet() {
		r.violate("closed-flag-not-set")
	}
	done := make(chan status.Status, 1)
	go func() { done <- r.cl.Close() }()
	select {
	case st := <-done:
		if !st.OK() {
			r.violate("close-again-status-%s", st.Code)
		}
	case <-time.After(5 * time.Second):
		r.violate("close-again-hang")
	}

	for i := 0; i < 3; i++ {
		ctx := async.TimeoutContext(callTimeout)
		ch, st := r.cl.Channel(ctx)
		if st.OK() {
			ch.Free()
		}
		if st.Code != status.CodeClosed {
			r.violate("channel-after-close-status=%s", st.Code)
		}
		_, st = r.cl.Conn(ctx)
		if st.Code != status.CodeClosed {
			r.violate("conn-after-close-status=%s", st.Code)
		}
		ctx.Free()
	}

	time.Sleep(quiesce)
	c, d := r.cl.Connected().IsSet(), r.cl.Disconnected().IsSet()
	if c || !d {
		r.violate("flags-after-close-connected=%v-disconnected=%v", c, d)
	}

	time.Sleep(300*time.Millisecond - quiesce)
	if open, _, _ := r.px.counts(); open != 0 {
		r.violate("open-connections-after-close=%d", open)
	}
	// A closed client must not keep dialing: count the dial attempts made after Close returned,
	// the observation is long enough to see a redial loop with the 50/150/350 ms back-off.
	time.Sleep(postCloseWatch - 300*time.Millisecond)
	if ts := r.dials.between(r.closeDone.Add(time.Millisecond), time.Now()); len(ts) > 0 {
		last := float64(ts[len(ts)-1].Sub(r.closeDone)) / 1e6
		r.violate("dials-after-close=%d-last-at=%.0fms", len(ts), last)
	}
	if p := r.lg.Panics(); len(p) > 0 {
		r.violate("library-panic-%s", firstWords(p[0]))
	}
}

// runOne runs one scenario and returns its report line.
func runOne(idx int, seed uint64, nActions int) (line string, viol []string) {
	rnd := hx.NewRand(seed)
	r := &run{rnd: rnd, lg: caplog.New(), dials: &dialLog{}}
	r.mode = mpx.ClientMode_OnDemand
	if rnd.Intn(2) == 1 {
		r.mode = mpx.ClientMode_AutoConnect
	}
	r.maxConns = 1 + rnd.Intn(4)
	r.target = 1 + rnd.Intn(8)
	n := 1 + rnd.Intn(nActions)

	head := fmt.Sprintf("c19 run=%d seed=%d mode=%s maxconns=%d target=%d", idx, seed, modeName(r.mode), r.maxConns, r.target)
	fail := func(what string) (string, []string) {
		return head + " actions=- ok=false VIOL infra-" + what, []string{"infra-" + what}
	}

	// Server
	srv := mpx.NewServer("127.0.0.1:0", mpx.HandleFunc(echoHandler), r.lg, mpx.Default())
	if st := srv.Start(); !st.OK() {
		return fail("server-start")
	}
	defer func() {
		select {
		case <-srv.Stop():
		case <-time.After(2 * time.Second):
		}
	}()
	select {
	case <-srv.Listening().Wait():
	case <-time.After(3 * time.Second):
		return fail("server-not-listening")
	}
	r.srv = srv

	// Proxy
	px, err := newProxy(srv.Address())
	if err != nil {
		return fail("proxy-listen")
	}
	defer px.stop()
	r.px = px

	// Client
	opts := mpx.Default()
	opts.ClientMaxConns = r.maxConns
	opts.ClientConnChannels = r.target
	dialer := &net.Dialer{
		Timeout:         opts.ClientDialTimeout,
		KeepAliveConfig: net.KeepAliveConfig{Enable: true},
		Control:         r.dials.control,
	}
	r.cl = mpx.NewClientDialer(px.addr, r.mode, dialer, r.lg, opts)

	finished := make(chan struct{})
	go func() {
		defer close(finished)
		r.checkQuiescent("start")
		for i := 0; i < n && !r.closed; i++ {
			last := i == n-1
			switch k := rnd.Intn(100); {
			case last && k < 70:
				r.actClose(rnd.Intn(5))
			case k < 40:
				r.actOpen()
			case k < 55:
				r.actKill()
			case k < 85:
				r.actDown()
			default:
				r.actWait()
			}
			if !r.closed {
				r.checkQuiescent(fmt.Sprintf("after-%d-%s", i, r.acts[len(r.acts)-1]))
			}
		}
		if !r.closed {
			// every run ends with a plain Close and the terminal checks
			r.actClose(0)
		}
	}()
	select {
	case <-finished:
	case <-time.After(runTimeout):
		// r is still in use by the scenario goroutine, report without touching it
		return head + " actions=? ok=false VIOL run-hang", []string{"run-hang"}
	}

	if debugLog {
		for _, rec := range r.lg.All() {
			fmt.Println("log:", rec)
		}
		for _, e := range px.eventLog() {
			fmt.Println("proxy:", e)
		}
	}
	_, _, accepted := px.counts()
	maxOpen := r.maxOpen
	sort.Strings(r.infra)
	gaps := "-"
	if len(r.gaps) > 0 {
		gaps = strings.Join(r.gaps, ",")
	}
	line = fmt.Sprintf("%s actions=%s maxopen=%d served=%d dials=%d backoff=%s", head,
		strings.Join(r.acts, ","), maxOpen, accepted, r.dials.count(), gaps)
	if len(r.infra) > 0 {
		line += " infra=" + strings.Join(r.infra, ",")
	}
	line += fmt.Sprintf(" ok=%v", len(r.viol) == 0)
	for _, v := range r.viol {
		line += " VIOL " + v
	}
	return line, r.viol
}
