// Package rd reads values back through the public API of the library: the canonical walk shared
// with the Lean model (SpecVerif.walk) and the view containment check.
package rd

import (
	"bytes"
	"math"
	"strconv"
	"strings"
	"unsafe"

	"github.com/basecomplextech/spec"
	"verif/harness/internal/hx"
)

// inside reports whether view v lies inside b (empty views are always fine).
func Inside(b, v []byte) bool {
	if len(v) == 0 {
		return true
	}
	if len(b) == 0 {
		return false
	}
	b0 := uintptr(unsafe.Pointer(unsafe.SliceData(b)))
	v0 := uintptr(unsafe.Pointer(unsafe.SliceData(v)))
	return v0 >= b0 && v0+uintptr(len(v)) <= b0+uintptr(len(b))
}

func ShowF32(v float32) string {
	if v != v {
		return "nan"
	}
	return strconv.FormatUint(uint64(math.Float32bits(v)), 10)
}

func ShowF64(v float64) string {
	if v != v {
		return "nan"
	}
	return strconv.FormatUint(math.Float64bits(v), 10)
}

func sc(v string, err error) string {
	if err != nil {
		return "!" + hx.ErrClass(err)
	}
	return v
}

// walk mirrors SpecVerif.walk through the public accessors; root is the original input (for the
// containment check of every returned view).
func Walk(root []byte, b []byte) (out string) {
	defer func() {
		if e := recover(); e != nil {
			out = "PANIC"
		}
	}()
	if !Inside(root, b) {
		return "OUTSIDE"
	}
	if len(b) == 0 {
		return "nil"
	}
	v := spec.Value(b)
	t := v.Type()
	switch t {
	case spec.TypeTrue:
		return "T"
	case spec.TypeFalse:
		return "F"
	case spec.TypeByte:
		x, err := v.ByteErr()
		return "by:" + sc(strconv.Itoa(int(x)), err)
	case spec.TypeInt16:
		x, err := v.Int16Err()
		return "i16:" + sc(strconv.FormatInt(int64(x), 10), err)
	case spec.TypeInt32:
		x, err := v.Int32Err()
		return "i32:" + sc(strconv.FormatInt(int64(x), 10), err)
	case spec.TypeInt64:
		x, err := v.Int64Err()
		return "i64:" + sc(strconv.FormatInt(x, 10), err)
	case spec.TypeUint16:
		x, err := v.Uint16Err()
		return "u16:" + sc(strconv.FormatUint(uint64(x), 10), err)
	case spec.TypeUint32:
		x, err := v.Uint32Err()
		return "u32:" + sc(strconv.FormatUint(uint64(x), 10), err)
	case spec.TypeUint64:
		x, err := v.Uint64Err()
		return "u64:" + sc(strconv.FormatUint(x, 10), err)
	case spec.TypeFloat32:
		x, err := v.Float32Err()
		return "f32:" + sc(ShowF32(x), err)
	case spec.TypeFloat64:
		x, err := v.Float64Err()
		return "f64:" + sc(ShowF64(x), err)
	case spec.TypeBin64:
		x, err := v.Bin64Err()
		return "b64:" + sc(hx.Hex(x[:]), err)
	case spec.TypeBin128:
		x, err := v.Bin128Err()
		return "b128:" + sc(hx.Hex(x.Marshal()), err)
	case spec.TypeBin256:
		x, err := v.Bin256Err()
		return "b256:" + sc(hx.Hex(x.Marshal()), err)
	case spec.TypeBytes:
		x, err := v.BytesErr()
		if !Inside(root, x) {
			return "bs:OUTSIDE"
		}
		return "bs:" + sc(hx.Hex(x), err)
	case spec.TypeString:
		x, err := v.StringErr()
		xb := unsafe.Slice(unsafe.StringData(string(x)), len(x))
		if !Inside(root, xb) {
			return "s:OUTSIDE"
		}
		return "s:" + sc(hx.Hex(xb), err)
	case spec.TypeStruct:
		x, _, err := spec.DecodeStruct(b)
		return "S:" + sc(strconv.Itoa(x), err)
	case spec.TypeList, spec.TypeBigList:
		l, err := v.ListErr()
		if err != nil {
			return "!L" + hx.ErrClass(err)
		}
		return WalkList(root, l)
	case spec.TypeMessage, spec.TypeBigMessage:
		m, err := v.MessageErr()
		if err != nil {
			return "!M" + hx.ErrClass(err)
		}
		return WalkMessage(root, m)
	}
	return "?" + strconv.Itoa(int(t))
}

// WalkList walks an already opened list (so that what is read is the list object itself, with the
// table it holds, not a re-opened copy of its bytes).
func WalkList(root []byte, l spec.List) (out string) {
	defer func() {
		if e := recover(); e != nil {
			out = "PANIC"
		}
	}()
	var sb strings.Builder
	sb.WriteString("[")
	n := l.Len()
	for i := 0; i < n; i++ {
		sb.WriteString(walkElem(root, l, i))
		sb.WriteString(",")
	}
	sb.WriteString("]")
	return sb.String()
}

// WalkMessage walks an already opened message.
func WalkMessage(root []byte, m spec.Message) (out string) {
	defer func() {
		if e := recover(); e != nil {
			out = "PANIC"
		}
	}()
	var sb strings.Builder
	sb.WriteString("{")
	n := m.Fields()
	sorted := tagsSorted(m)
	for i := 0; i < n; i++ {
		sb.WriteString(walkField(root, m, i, sorted))
		sb.WriteString(",")
	}
	sb.WriteString("}")
	if sorted {
		// tags the message does not have must read as absent in every table form, also in an
		// empty table (by-tag lookup = the binary search over the raw table)
		for _, t := range []int{0, 1, 255, 256, 65535} {
			sb.WriteString(ghostProbe(m, t))
		}
	}
	return sb.String()
}

func walkElem(root []byte, l spec.List, i int) (out string) {
	defer func() {
		if e := recover(); e != nil {
			out = "PANIC"
		}
	}()
	return Walk(root, l.Get(i))
}

// tagsSorted reports whether the tags of the table are strictly increasing (a well-formed table).
func tagsSorted(m spec.Message) (ok bool) {
	defer func() {
		if e := recover(); e != nil {
			ok = false
		}
	}()
	prev := -1
	for i := 0; i < m.Fields(); i++ {
		t, ok := m.TagAt(i)
		if !ok || int(t) <= prev {
			return false
		}
		prev = int(t)
	}
	return true
}

// ghostProbe returns "!GHOST<tag>" when a tag that is not in the table is reported present or readable.
func ghostProbe(m spec.Message, tag int) string {
	if tag > 65535 {
		return ""
	}
	for i := 0; i < m.Fields(); i++ {
		if t, ok := m.TagAt(i); ok && int(t) == tag {
			return ""
		}
	}
	if m.HasField(uint16(tag)) || len(m.Field(uint16(tag))) != 0 {
		return "!GHOST" + strconv.Itoa(tag)
	}
	return ""
}

func walkField(root []byte, m spec.Message, i int, sorted bool) (out string) {
	defer func() {
		if e := recover(); e != nil {
			out = "PANIC"
		}
	}()
	tag, ok := m.TagAt(i)
	tg := "none"
	if ok {
		tg = strconv.Itoa(int(tag))
	}
	byTag := ""
	if ok && sorted {
		a, b := m.Field(tag), m.FieldAt(i)
		if !bytes.Equal(a, b) || !(m.HasField(tag) || len(b) == 0) {
			byTag = "!TAGLOOKUP"
		}
	}
	// FieldRaw (what generated enum and struct getters read from): the message data up to the end
	// of the field, never beyond the data of the message, always inside it
	if ok && sorted {
		raw := m.FieldRaw(tag)
		if len(raw) > 0 {
			if t, _, err := spec.DecodeMessageTable(m.Raw()); err == nil {
				if !Inside(root, raw) || len(raw) > int(t.DataSize()) || !bytes.HasPrefix(m.Raw(), raw) || !bytes.HasSuffix(raw, m.Field(tag)) {
					byTag += "!FIELDRAW"
				}
			}
		}
	}
	ghost := ""
	if ok && sorted && i < 8 && m.Fields() <= 64 {
		ghost = ghostProbe(m, int(tag)+256) + ghostProbe(m, (int(tag)+65280)%65536)
	}
	return tg + "=" + Walk(root, m.FieldAt(i)) + byTag + ghost
}
