package hx

import "os"

// RepoDir is the checkout of the library the checks run against: /repo, or VERIF_REPO when the
// runner was pointed at another working tree (seeded-mutation tests on scratch worktrees).
func RepoDir() string {
	if d := os.Getenv("VERIF_REPO"); d != "" {
		return d
	}
	return "/repo"
}
