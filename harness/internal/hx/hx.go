// Package hx holds helpers shared by the harness commands: hex, PRNG, guarded allocations.
package hx

import (
	"encoding/hex"
	"runtime/debug"
	"strings"
	"syscall"
)

func Hex(b []byte) string {
	if len(b) == 0 {
		return "-"
	}
	return hex.EncodeToString(b)
}

func Unhex(s string) ([]byte, bool) {
	if s == "-" {
		return []byte{}, true
	}
	b, err := hex.DecodeString(s)
	return b, err == nil
}

// ErrClass maps an error text to the model's error classes.
func ErrClass(err error) string {
	s := err.Error()
	switch {
	case strings.Contains(s, "overflow"):
		return "overflow"
	case strings.Contains(s, "invalid type"), strings.Contains(s, "unsupported type"):
		return "type"
	}
	return "data"
}

// Rand is splitmix64; every random choice of the harness derives from one state.
type Rand struct{ s uint64 }

// NewRand hashes the seed first: with the plain splitmix increment as state, seed k+1 would be the
// stream of seed k shifted by one step.
func NewRand(seed uint64) *Rand {
	z := seed + 0x1234567
	z = (z ^ (z >> 33)) * 0xFF51AFD7ED558CCD
	z = (z ^ (z >> 33)) * 0xC4CEB9FE1A85EC53
	return &Rand{s: z ^ (z >> 33)}
}

func (r *Rand) U64() uint64 {
	r.s += 0x9E3779B97F4A7C15
	z := r.s
	z = (z ^ (z >> 30)) * 0xBF58476D1CE4E5B9
	z = (z ^ (z >> 27)) * 0x94D049BB133111EB
	return z ^ (z >> 31)
}

func (r *Rand) Intn(n int) int {
	if n <= 0 {
		return 0
	}
	return int(r.U64() % uint64(n))
}

func (r *Rand) Bytes(n int) []byte {
	b := make([]byte, n)
	for i := range b {
		b[i] = byte(r.U64())
	}
	return b
}

// Guard is a byte region surrounded by inaccessible pages, so that a read outside a slice placed
// against one of its edges faults (and, with SetPanicOnFault, panics) instead of reading junk.
type Guard struct {
	mem  []byte
	page int
	data int // number of data pages
}

func NewGuard(maxSize int) *Guard {
	debug.SetPanicOnFault(true)
	page := syscall.Getpagesize()
	data := (maxSize + page - 1) / page
	if data == 0 {
		data = 1
	}
	mem, err := syscall.Mmap(-1, 0, (data+2)*page, syscall.PROT_READ|syscall.PROT_WRITE, syscall.MAP_ANON|syscall.MAP_PRIVATE)
	if err != nil {
		panic(err)
	}
	if err := syscall.Mprotect(mem[:page], syscall.PROT_NONE); err != nil {
		panic(err)
	}
	if err := syscall.Mprotect(mem[(data+1)*page:], syscall.PROT_NONE); err != nil {
		panic(err)
	}
	return &Guard{mem: mem, page: page, data: data}
}

func (g *Guard) Cap() int { return g.data * g.page }

// AtEnd copies b so that its last byte is the last accessible byte (cap == len).
func (g *Guard) AtEnd(b []byte) []byte {
	end := (g.data + 1) * g.page
	p := g.mem[end-len(b) : end : end]
	copy(p, b)
	return p
}

// AtStart copies b so that its first byte is the first accessible byte.
func (g *Guard) AtStart(b []byte) []byte {
	start := g.page
	p := g.mem[start : start+len(b) : start+len(b)]
	copy(p, b)
	return p
}
