package schema

import (
	"fmt"
	"sort"
	"strings"

	"verif/harness/internal/hx"
)

// Package is one schema package of a bundle: a directory of .spec files.
type Package struct {
	ID    string // import id and directory name
	Files []*NamedFile
}

type NamedFile struct {
	Name string // file name without extension
	File *File
}

// Bundle is a set of packages; Packages[0] is the one that gets compiled.
type Bundle struct {
	Packages []*Package
}

// Encode renders the bundle as "pkg/file=hex;..." (files of one package in name order, which is the
// order the compiler reads a directory in).
func (b *Bundle) Encode(render func(*File) string) string {
	var parts []string
	for _, p := range b.Packages {
		fs := append([]*NamedFile(nil), p.Files...)
		sort.Slice(fs, func(i, j int) bool { return fs[i].Name < fs[j].Name })
		for _, f := range fs {
			text := render(f.File)
			h := "-"
			if text != "" {
				h = hx.Hex([]byte(text))
			}
			parts = append(parts, p.ID+"/"+f.Name+"="+h)
		}
	}
	return strings.Join(parts, ";")
}

// ---------------------------------------------------------------- semantic generator

type genDef struct {
	pkg  string
	kind string // enum | struct | message | service | subservice
	name string
}

type semGen struct {
	r      *hx.Rand
	module string // go module prefix of the generated code
	seq    int
}

func (g *semGen) name(prefix string) string {
	g.seq++
	return fmt.Sprintf("%s%d", prefix, g.seq)
}

var semFieldNames = []string{"a", "b", "value", "id", "name", "items", "any", "import", "message", "options", "struct",
	"service", "subservice", "type", "func", "range", "len", "string", "bytes", "int32", "data", "x1", "y_2", "fooBar",
	"_pre", "post_", "two__under", "CAPS"}

func (g *semGen) fieldNames(n int) []string {
	perm := make([]string, len(semFieldNames))
	copy(perm, semFieldNames)
	for i := len(perm) - 1; i > 0; i-- {
		j := g.r.Intn(i + 1)
		perm[i], perm[j] = perm[j], perm[i]
	}
	if n > len(perm) {
		n = len(perm)
	}
	return perm[:n]
}

var primitives = []string{"bool", "byte", "int16", "int32", "int64", "uint16", "uint32", "uint64", "float32", "float64",
	"bin64", "bin128", "bin256"}

// ref returns a base type naming def from package `from` (which imports other packages under the
// aliases in `aliases`).
func refTo(d genDef, from string, aliases map[string]string) (BaseT, bool) {
	if d.pkg == from {
		return BaseT{Kind: BName, Name: d.name}, true
	}
	a, ok := aliases[d.pkg]
	if !ok {
		return BaseT{}, false
	}
	return BaseT{Kind: BRef, Import: a, Name: d.name}, true
}

func (g *semGen) pick(defs []genDef, kinds ...string) (genDef, bool) {
	var c []genDef
	for _, d := range defs {
		for _, k := range kinds {
			if d.kind == k {
				c = append(c, d)
			}
		}
	}
	if len(c) == 0 {
		return genDef{}, false
	}
	return c[g.r.Intn(len(c))], true
}

func (g *semGen) tags(n int) []int64 {
	seen := map[int64]bool{}
	var out []int64
	for len(out) < n {
		var t int64
		switch g.r.Intn(8) {
		case 0:
			t = 65535 - int64(g.r.Intn(3))
		case 1:
			t = 255 + int64(g.r.Intn(3))
		default:
			t = 1 + int64(g.r.Intn(60))
		}
		if !seen[t] {
			seen[t] = true
			out = append(out, t)
		}
	}
	return out
}

// messageFieldType picks a field type usable in a message (visible = definitions usable from pkg).
func (g *semGen) messageFieldType(visible []genDef, from string, aliases map[string]string) Ty {
	elem := func() BaseT {
		for tries := 0; tries < 8; tries++ {
			switch g.r.Intn(7) {
			case 0, 1:
				return BaseT{Kind: BName, Name: primitives[g.r.Intn(len(primitives))]}
			case 2:
				return BaseT{Kind: BName, Name: []string{"string", "bytes"}[g.r.Intn(2)]}
			case 3:
				if g.r.Intn(3) == 0 {
					return BaseT{Kind: BAnyMessage}
				}
				return BaseT{Kind: BAny}
			default:
				if d, ok := g.pick(visible, "enum", "struct", "message"); ok {
					if b, ok := refTo(d, from, aliases); ok {
						return b
					}
				}
			}
		}
		return BaseT{Kind: BName, Name: "int32"}
	}
	return Ty{List: g.r.Intn(4) == 0, Base: elem()}
}

func (g *semGen) fields(n int, visible []genDef, from string, aliases map[string]string) []Field {
	names := g.fieldNames(n)
	tags := g.tags(len(names))
	var fs []Field
	for i, nm := range names {
		fs = append(fs, Field{Name: nm, Ty: g.messageFieldType(visible, from, aliases), Tag: tags[i]})
	}
	return fs
}

// GenSemantic returns a bundle the compiler must accept, with Go package paths under module.
func GenSemantic(r *hx.Rand, module string) *Bundle {
	g := &semGen{r: r, module: module}
	npk := 1 + r.Intn(3)
	ids := []string{"root", "dep1", "dep2"}[:npk]
	// imports: root -> dep1, dep2 ; dep1 -> dep2 (acyclic)
	imports := map[string][]string{}
	for i, id := range ids {
		for _, other := range ids[i+1:] {
			if r.Intn(3) != 0 {
				imports[id] = append(imports[id], other)
			}
		}
	}
	// the directory of the generated Go package: the package id, or a different name
	godirs := map[string]string{}
	for _, id := range ids {
		godirs[id] = id
		if r.Intn(3) == 0 {
			godirs[id] = "go" + id
		}
	}
	b := &Bundle{}
	var all []genDef // definitions of the packages generated so far (dependencies first)
	pkgs := map[string]*Package{}
	for i := len(ids) - 1; i >= 0; i-- {
		id := ids[i]
		aliases := map[string]string{}
		var imps []Import
		for _, dep := range imports[id] {
			im := Import{ID: dep}
			aliases[dep] = dep
			switch r.Intn(4) {
			case 0:
				im.Alias = "al" + dep
				aliases[dep] = im.Alias
			case 1:
				// the alias is the last element of the Go import path (which is not the Go package name)
				im.Alias = goDir(dep, godirs)
				aliases[dep] = im.Alias
			}
			imps = append(imps, im)
		}
		var visible []genDef
		for _, d := range all {
			if _, ok := aliases[d.pkg]; ok {
				visible = append(visible, d)
			}
		}
		nfiles := 1 + r.Intn(2)
		p := &Package{ID: id}
		var local []genDef
		for fi := 0; fi < nfiles; fi++ {
			f := &File{}
			if fi == 0 {
				f.Options = append(f.Options, Option{Name: "go_package", Value: module + "/" + goDir(id, godirs)})
			}
			// every file imports what the package imports and uses each import at least once
			f.Imports = append(f.Imports, imps...)
			used := map[string]bool{}
			vis := func() []genDef { return append(append([]genDef(nil), visible...), local...) }
			// enums
			for k, n := 0, r.Intn(3); k < n; k++ {
				d := Def{Kind: "enum", Name: g.name("E")}
				vals := r.Intn(4)
				d.Values = append(d.Values, EnumValue{Name: "Zero" + d.Name, Value: 0})
				for v := 0; v < vals; v++ {
					d.Values = append(d.Values, EnumValue{Name: fmt.Sprintf("V%d%s", v, d.Name), Value: int64(v + 1 + r.Intn(2)*100*(v+1))})
				}
				f.Defs = append(f.Defs, d)
				local = append(local, genDef{id, "enum", d.Name})
			}
			// structs: value types, enums and earlier structs
			for k, n := 0, r.Intn(3); k < n; k++ {
				d := Def{Kind: "struct", Name: g.name("S")}
				for _, nm := range g.fieldNames(1 + r.Intn(4)) {
					var base BaseT
					if dd, ok := g.pick(vis(), "enum", "struct"); ok && r.Intn(3) == 0 {
						if bb, ok := refTo(dd, id, aliases); ok {
							base = bb
							used[dd.pkg] = true
						}
					}
					if base.Name == "" {
						base = BaseT{Kind: BName, Name: primitives[r.Intn(len(primitives))]}
					}
					d.SFields = append(d.SFields, SField{Name: nm, Ty: Ty{Base: base}})
				}
				f.Defs = append(f.Defs, d)
				local = append(local, genDef{id, "struct", d.Name})
			}
			// messages (may refer to themselves and to each other)
			nm := 1 + r.Intn(3)
			var msgNames []string
			for k := 0; k < nm; k++ {
				msgNames = append(msgNames, g.name("M"))
			}
			for _, mn := range msgNames {
				local = append(local, genDef{id, "message", mn})
			}
			for _, mn := range msgNames {
				d := Def{Kind: "message", Name: mn, Fields: g.fields(r.Intn(7), vis(), id, aliases)}
				f.Defs = append(f.Defs, d)
			}
			// services
			for k, n := 0, r.Intn(2); k < n; k++ {
				// every other service has a second level: service -> Sub -> Sub2 (call chains of three)
				var sub2p *genDef
				if r.Intn(2) == 0 {
					sub2 := Def{Kind: "subservice", Name: g.name("Leaf")}
					sub2.Methods = append(sub2.Methods, g.method("leaf", vis(), id, aliases, nil))
					if r.Intn(2) == 0 {
						sub2.Methods = append(sub2.Methods, g.method("second", vis(), id, aliases, nil))
					}
					f.Defs = append(f.Defs, sub2)
					local = append(local, genDef{id, "subservice", sub2.Name})
					sub2p = &genDef{id, "subservice", sub2.Name}
				}
				sub := Def{Kind: "subservice", Name: g.name("Sub")}
				sub.Methods = append(sub.Methods, g.method("get", vis(), id, aliases, nil))
				if sub2p != nil {
					sub.Methods = append(sub.Methods, g.method("deeper", vis(), id, aliases, sub2p))
					if r.Intn(2) == 0 {
						sub.Methods = append(sub.Methods, g.method("put", vis(), id, aliases, nil))
					}
				}
				f.Defs = append(f.Defs, sub)
				local = append(local, genDef{id, "subservice", sub.Name})
				svc := Def{Kind: "service", Name: g.name("Svc")}
				names := []string{"call", "stream", "notify", "open", "message", "import", "getSub", "list", "get_value"}
				for mi, mn := range names[:1+r.Intn(len(names))] {
					var subp *genDef
					if mi%3 == 2 {
						subp = &genDef{id, "subservice", sub.Name}
					}
					svc.Methods = append(svc.Methods, g.method(mn, vis(), id, aliases, subp))
				}
				f.Defs = append(f.Defs, svc)
				local = append(local, genDef{id, "service", svc.Name})
			}
			// make sure every import of the file is used (an unused import is a separate case)
			for _, im := range imps {
				dep := im.ID
				inUse := false
				for _, d := range f.Defs {
					if strings.Contains(fmt.Sprint(d), aliases[dep]) {
						inUse = true
					}
				}
				if !inUse {
					if dd, ok := g.pick(filterPkg(all, dep), "enum", "struct", "message"); ok {
						bt, _ := refTo(dd, id, aliases)
						d := Def{Kind: "message", Name: g.name("MU"), Fields: []Field{{Name: "dep", Ty: Ty{Base: bt}, Tag: 1}}}
						f.Defs = append(f.Defs, d)
						local = append(local, genDef{id, "message", d.Name})
					} else {
						// the dependency has nothing to refer to: drop the import from this file
						var keep []Import
						for _, x := range f.Imports {
							if x.ID != dep {
								keep = append(keep, x)
							}
						}
						f.Imports = keep
					}
				}
			}
			// file names with more than one dot: `f0.spec` and `f0.v2.spec` are two files with two
			// generated files
			fname := fmt.Sprintf("f%d", fi)
			if fi > 0 && r.Intn(2) == 0 {
				fname = fmt.Sprintf("f%d.v2", fi-1)
			}
			p.Files = append(p.Files, &NamedFile{Name: fname, File: f})
		}
		all = append(all, local...)
		pkgs[id] = p
	}
	for _, id := range ids {
		b.Packages = append(b.Packages, pkgs[id])
	}
	return b
}

func goDir(id string, godirs map[string]string) string {
	if d, ok := godirs[id]; ok {
		return d
	}
	return id
}

func filterPkg(ds []genDef, pkg string) []genDef {
	var out []genDef
	for _, d := range ds {
		if d.pkg == pkg {
			out = append(out, d)
		}
	}
	return out
}

func (g *semGen) method(name string, visible []genDef, from string, aliases map[string]string, sub *genDef) Method {
	m := Method{Name: name}
	msg := func() (*BaseT, bool) {
		if d, ok := g.pick(visible, "message"); ok {
			if b, ok := refTo(d, from, aliases); ok {
				return &b, true
			}
		}
		return nil, false
	}
	// input
	if b, ok := msg(); ok && g.r.Intn(2) == 0 {
		m.InType = b
	} else {
		m.InFields = g.fields(g.r.Intn(4), visible, from, aliases)
	}
	if sub != nil {
		// one method in three that returns a subservice takes no arguments: `node() Node;`
		if g.r.Intn(3) == 0 {
			m.InType, m.InFields = nil, nil
		}
		b, _ := refTo(*sub, from, aliases)
		m.OutType = &b
		return m
	}
	out := func() {
		if b, ok := msg(); ok && g.r.Intn(2) == 0 {
			m.OutType = b
		} else {
			m.HasOutFields = true
			m.OutFields = g.fields(g.r.Intn(4), visible, from, aliases)
		}
	}
	switch g.r.Intn(5) {
	case 0:
	case 1:
		m.Oneway = true
	case 2:
		out()
	default:
		a, ok1 := msg()
		c, ok2 := msg()
		if !ok1 || !ok2 {
			out()
			break
		}
		switch g.r.Intn(3) {
		case 0:
			m.ChanIn = &Ty{Base: *a}
		case 1:
			m.ChanOut = &Ty{Base: *c}
		default:
			m.ChanIn, m.ChanOut = &Ty{Base: *a}, &Ty{Base: *c}
		}
		if g.r.Intn(2) == 0 {
			out()
		}
	}
	return m
}
