// Package schema is the harness-side representation of schema files: syntax trees, the canonical
// dump (same text as verifhooks.DumpFile and the Lean model's File.dump), a renderer with random
// layout, generators and a reader of dumps.
package schema

import (
	"fmt"
	"strconv"
	"strings"
)

// Base type kinds.
const (
	BName = iota // IDENT (builtin or local reference)
	BRef         // IDENT '.' IDENT
	BAny
	BAnyMessage
)

type BaseT struct {
	Kind   int
	Name   string
	Import string
}

type Ty struct {
	List bool
	Base BaseT
}

type Field struct {
	Name string
	Ty   Ty
	Tag  int64
}

type EnumValue struct {
	Name  string
	Value int64
}

type SField struct {
	Name string
	Ty   Ty
}

type Method struct {
	Name string

	InType   *BaseT
	InFields []Field // used when InType == nil

	Oneway  bool
	ChanIn  *Ty
	ChanOut *Ty

	OutType      *BaseT
	OutFields    []Field
	HasOutFields bool // `(...)` output, possibly empty
}

// Def kinds: "enum", "message", "struct", "service", "subservice".
type Def struct {
	Kind    string
	Name    string
	Values  []EnumValue
	Fields  []Field
	SFields []SField
	Methods []Method
}

type Import struct{ Alias, ID string }
type Option struct{ Name, Value string }

type File struct {
	Imports []Import
	Options []Option
	Defs    []Def
}

var builtins = map[string]bool{"any": true, "bool": true, "byte": true, "int16": true, "int32": true, "int64": true,
	"uint16": true, "uint32": true, "uint64": true, "float32": true, "float64": true, "bin64": true, "bin128": true,
	"bin256": true, "bytes": true, "string": true, "message": true}

func kindName(n string) string {
	if builtins[n] {
		return n
	}
	return "ref"
}

func q(s string) string { return strconv.Quote(s) }

// lit is a string literal of the schema language: the text between the quotes is taken as it is (the
// language defines no escapes; a literal cannot contain a quote, a newline or - for this printer - a
// backslash)
func lit(s string) string { return "\"" + s + "\"" }

func (b BaseT) dump(sb *strings.Builder) {
	switch b.Kind {
	case BName:
		fmt.Fprintf(sb, "(t %s %s %s)", kindName(b.Name), b.Name, q(""))
	case BRef:
		fmt.Fprintf(sb, "(t ref %s %s)", b.Name, q(b.Import))
	case BAny:
		sb.WriteString(`(t any any "")`)
	case BAnyMessage:
		sb.WriteString(`(t message message "")`)
	}
}

func (t Ty) dump(sb *strings.Builder) {
	if t.List {
		sb.WriteString("(list ")
		t.Base.dump(sb)
		sb.WriteString(")")
		return
	}
	t.Base.dump(sb)
}

func dumpFields(sb *strings.Builder, fs []Field) {
	for _, f := range fs {
		fmt.Fprintf(sb, " (field %s ", f.Name)
		f.Ty.dump(sb)
		fmt.Fprintf(sb, " %d)", f.Tag)
	}
}

// Dump renders the tree exactly like verifhooks.DumpFile renders the parser's tree.
func (f *File) Dump() string {
	var sb strings.Builder
	sb.WriteString("(file (imports")
	for _, im := range f.Imports {
		fmt.Fprintf(&sb, " (import %s %s)", q(im.Alias), q(im.ID))
	}
	sb.WriteString(") (options")
	for _, o := range f.Options {
		fmt.Fprintf(&sb, " (opt %s %s)", o.Name, q(o.Value))
	}
	sb.WriteString(") (defs")
	for _, d := range f.Defs {
		sb.WriteString(" ")
		switch d.Kind {
		case "enum":
			fmt.Fprintf(&sb, "(enum %s", d.Name)
			for _, v := range d.Values {
				fmt.Fprintf(&sb, " (val %s %d)", v.Name, v.Value)
			}
			sb.WriteString(")")
		case "message":
			fmt.Fprintf(&sb, "(message %s", d.Name)
			dumpFields(&sb, d.Fields)
			sb.WriteString(")")
		case "struct":
			fmt.Fprintf(&sb, "(struct %s", d.Name)
			for _, f := range d.SFields {
				fmt.Fprintf(&sb, " (sfield %s ", f.Name)
				f.Ty.dump(&sb)
				sb.WriteString(")")
			}
			sb.WriteString(")")
		default:
			fmt.Fprintf(&sb, "(%s %s", d.Kind, d.Name)
			for _, m := range d.Methods {
				fmt.Fprintf(&sb, " (method %s ", m.Name)
				if m.InType != nil {
					sb.WriteString("(in-type ")
					m.InType.dump(&sb)
					sb.WriteString(")")
				} else {
					sb.WriteString("(in-fields")
					dumpFields(&sb, m.InFields)
					sb.WriteString(")")
				}
				sb.WriteString(" ")
				switch {
				case m.OutType != nil:
					sb.WriteString("(out-type ")
					m.OutType.dump(&sb)
					sb.WriteString(")")
				case m.HasOutFields:
					sb.WriteString("(out-fields")
					dumpFields(&sb, m.OutFields)
					sb.WriteString(")")
				default:
					sb.WriteString("(out-none)")
				}
				if m.ChanIn != nil || m.ChanOut != nil {
					sb.WriteString(" (chan ")
					if m.ChanIn != nil {
						m.ChanIn.dump(&sb)
					} else {
						sb.WriteString("nil")
					}
					sb.WriteString(" ")
					if m.ChanOut != nil {
						m.ChanOut.dump(&sb)
					} else {
						sb.WriteString("nil")
					}
					sb.WriteString(")")
				} else {
					sb.WriteString(" (chan-none)")
				}
				fmt.Fprintf(&sb, " %v)", m.Oneway)
			}
			sb.WriteString(")")
		}
	}
	sb.WriteString("))")
	return sb.String()
}

// Tokens returns the canonical token texts of the tree (no optional separators).
func (f *File) Tokens() []string {
	var t []string
	add := func(s ...string) { t = append(t, s...) }
	base := func(b BaseT) {
		switch b.Kind {
		case BName:
			add(b.Name)
		case BRef:
			add(b.Import, ".", b.Name)
		case BAny:
			add("any")
		case BAnyMessage:
			add("message")
		}
	}
	ty := func(x Ty) {
		if x.List {
			add("[", "]")
		}
		base(x.Base)
	}
	fields := func(fs []Field, sep string) {
		for i, f := range fs {
			if i > 0 {
				add(sep)
			}
			add(f.Name)
			ty(f.Ty)
			add(strconv.FormatInt(f.Tag, 10))
		}
	}
	if len(f.Imports) > 0 {
		add("import", "(")
		for _, im := range f.Imports {
			if im.Alias != "" {
				add(im.Alias)
			}
			add(lit(im.ID))
		}
		add(")")
	}
	if len(f.Options) > 0 {
		add("options", "(")
		for _, o := range f.Options {
			add(o.Name, "=", lit(o.Value))
		}
		add(")")
	}
	for _, d := range f.Defs {
		add(d.Kind, d.Name, "{")
		switch d.Kind {
		case "enum":
			for _, v := range d.Values {
				add(v.Name, "=", strconv.FormatInt(v.Value, 10), ";")
			}
		case "message":
			fields(d.Fields, ";")
		case "struct":
			for _, f := range d.SFields {
				add(f.Name)
				ty(f.Ty)
				add(";")
			}
		default:
			for _, m := range d.Methods {
				add(m.Name, "(")
				if m.InType != nil {
					base(*m.InType)
				} else {
					fields(m.InFields, ",")
				}
				add(")")
				if m.Oneway {
					add("oneway")
				}
				if m.ChanIn != nil || m.ChanOut != nil {
					add("(")
					if m.ChanIn != nil {
						add("<", "-")
						ty(*m.ChanIn)
					}
					if m.ChanIn != nil && m.ChanOut != nil {
						add(",")
					}
					if m.ChanOut != nil {
						ty(*m.ChanOut)
						add("-", ">")
					}
					add(")")
				}
				if m.OutType != nil {
					base(*m.OutType)
				} else if m.HasOutFields {
					add("(")
					fields(m.OutFields, ",")
					add(")")
				}
				add(";")
			}
		}
		add("}")
	}
	return t
}
