package schema

import (
	"strconv"
	"strings"

	"verif/harness/internal/hx"
)

// ---------------------------------------------------------------- rendering

func isWordByte(c byte) bool {
	return c == '_' || (c >= '0' && c <= '9') || (c >= 'a' && c <= 'z') || (c >= 'A' && c <= 'Z')
}

// needSep reports whether two adjacent token texts would lex differently without a separator.
func needSep(a, b string) bool {
	if a == "" || b == "" {
		return false
	}
	x, y := a[len(a)-1], b[0]
	if isWordByte(x) && isWordByte(y) {
		return true
	}
	if x >= '0' && x <= '9' && y == '.' {
		return true
	}
	if x == '.' && y >= '0' && y <= '9' {
		return true
	}
	if x == '/' && (y == '/' || y == '*') {
		return true
	}
	return false
}

var commentWords = []string{"message", "import", "x", "1", "\"", "'", "`", "*", "/", "/*", "//", "{", "}", ";", "é", "\\", "\t", "0x1f", "1.5"}

func comment(r *hx.Rand) string {
	var sb strings.Builder
	n := r.Intn(4)
	for i := 0; i < n; i++ {
		sb.WriteString(commentWords[r.Intn(len(commentWords))])
		if r.Intn(2) == 0 {
			sb.WriteString(" ")
		}
	}
	body := sb.String()
	if r.Intn(2) == 0 {
		return "//" + strings.ReplaceAll(body, "\n", " ") + "\n"
	}
	body = strings.ReplaceAll(body, "*/", "* /")
	if strings.HasSuffix(body, "*") { // "* /" would otherwise close early: "/**/" is fine, "/* **/" too
		body += " "
	}
	return "/*" + body + "*/"
}

// separator returns a random (possibly empty) run of white space and comments; ascii restricts the
// comment bodies to ASCII so that the text stays inside the lexer model's domain.
func separator(r *hx.Rand, must bool, ascii bool) string {
	var sb strings.Builder
	k := r.Intn(10)
	switch {
	case k < 3 && !must:
		return ""
	case k < 7:
		return " "
	}
	n := 1 + r.Intn(3)
	for i := 0; i < n; i++ {
		switch r.Intn(6) {
		case 0:
			sb.WriteString("\n")
		case 1:
			sb.WriteString("\t")
		case 2:
			sb.WriteString("\r\n")
		case 3, 4:
			c := comment(r)
			if ascii {
				c = strings.ReplaceAll(c, "é", "e")
			}
			sb.WriteString(c)
		default:
			sb.WriteString("  ")
		}
	}
	return sb.String()
}

// Layout joins token texts with random separators.
func Layout(r *hx.Rand, toks []string, ascii bool) string {
	var sb strings.Builder
	sb.WriteString(separator(r, false, ascii))
	for i, t := range toks {
		sb.WriteString(t)
		must := i+1 < len(toks) && needSep(t, toks[i+1])
		sb.WriteString(separator(r, must, ascii))
	}
	return sb.String()
}

// TokensOpt is Tokens with random optional separators (trailing/leading ';' and ',', empty groups).
func (f *File) TokensOpt(r *hx.Rand) []string {
	var out []string
	add := func(s ...string) { out = append(out, s...) }
	bt := func(b BaseT) {
		switch b.Kind {
		case BName:
			add(b.Name)
		case BRef:
			add(b.Import, ".", b.Name)
		case BAny:
			add("any")
		case BAnyMessage:
			add("message")
		}
	}
	ty := func(x Ty) {
		if x.List {
			add("[", "]")
		}
		bt(x.Base)
	}
	fields := func(fs []Field, sep string) {
		if r.Intn(12) == 0 && len(fs) > 0 {
			add(sep) // fields: (empty) ';' field
		}
		for i, fl := range fs {
			if i > 0 {
				add(sep)
			}
			add(fl.Name)
			ty(fl.Ty)
			add(strconv.FormatInt(fl.Tag, 10))
		}
		if r.Intn(3) == 0 {
			add(sep) // semi_opt / comma_opt
		}
	}
	if len(f.Imports) > 0 || r.Intn(10) == 0 {
		add("import", "(")
		for _, im := range f.Imports {
			if im.Alias != "" {
				add(im.Alias)
			}
			add(lit(im.ID))
		}
		add(")")
	}
	if len(f.Options) > 0 || r.Intn(10) == 0 {
		add("options", "(")
		for _, o := range f.Options {
			add(o.Name, "=", lit(o.Value))
		}
		add(")")
	}
	for _, d := range f.Defs {
		add(d.Kind, d.Name, "{")
		switch d.Kind {
		case "enum":
			for _, v := range d.Values {
				add(v.Name, "=", strconv.FormatInt(v.Value, 10), ";")
			}
		case "message":
			fields(d.Fields, ";")
		case "struct":
			for _, fl := range d.SFields {
				add(fl.Name)
				ty(fl.Ty)
				add(";")
			}
		default:
			for _, m := range d.Methods {
				add(m.Name, "(")
				if m.InType != nil {
					bt(*m.InType)
				} else {
					fields(m.InFields, ",")
				}
				add(")")
				if m.Oneway {
					add("oneway")
				}
				if m.ChanIn != nil || m.ChanOut != nil {
					add("(")
					if m.ChanIn != nil {
						add("<", "-")
						ty(*m.ChanIn)
					}
					if m.ChanIn != nil && m.ChanOut != nil {
						add(",")
					}
					if m.ChanOut != nil {
						ty(*m.ChanOut)
						add("-", ">")
					}
					add(")")
				}
				if m.OutType != nil {
					bt(*m.OutType)
				} else if m.HasOutFields {
					add("(")
					fields(m.OutFields, ",")
					add(")")
				}
				add(";")
			}
		}
		add("}")
	}
	return out
}

// ---------------------------------------------------------------- syntactic generator (C15)

var nameKeywords = []string{"any", "import", "message", "options", "struct", "service", "subservice"}
var builtinNames = []string{"bool", "byte", "int16", "int32", "int64", "uint16", "uint32", "uint64", "float32", "float64",
	"bin64", "bin128", "bin256", "bytes", "string"}
var allKeywords = map[string]bool{"any": true, "enum": true, "import": true, "message": true, "oneway": true, "options": true,
	"struct": true, "service": true, "subservice": true}

const identFirst = "abcdefghijklmnopqrstuvwxyzABCDEFGHIJKLMNOPQRSTUVWXYZ_"
const identRest = identFirst + "0123456789"

// Ident returns a random identifier that is not a keyword.
func Ident(r *hx.Rand) string {
	for {
		n := 1 + r.Intn(8)
		b := make([]byte, n)
		b[0] = identFirst[r.Intn(len(identFirst))]
		for i := 1; i < n; i++ {
			b[i] = identRest[r.Intn(len(identRest))]
		}
		s := string(b)
		if r.Intn(8) == 0 {
			// near-keywords
			s = []string{"Message", "messages", "enum1", "oneway_", "_any", "imports", "structs", "int", "Any"}[r.Intn(9)]
		}
		if !allKeywords[s] {
			return s
		}
	}
}

// fieldName: an identifier, a contextual keyword, or a builtin type name.
func fieldName(r *hx.Rand) string {
	switch r.Intn(6) {
	case 0:
		return nameKeywords[r.Intn(len(nameKeywords))]
	case 1:
		return builtinNames[r.Intn(len(builtinNames))]
	}
	return Ident(r)
}

func genInt(r *hx.Rand) int64 {
	switch r.Intn(10) {
	case 0:
		return 0
	case 1:
		return int64(r.U64() >> 1) // up to 2^63-1
	case 2:
		return 65535 + int64(r.Intn(3)) - 1
	case 3:
		return int64(r.Intn(1 << 20))
	}
	return int64(r.Intn(300))
}

func genString(r *hx.Rand) string {
	n := r.Intn(12)
	b := make([]byte, n)
	for i := range b {
		for {
			c := byte(32 + r.Intn(95))
			if c != '"' && c != '\\' {
				b[i] = c
				break
			}
		}
	}
	if r.Intn(4) == 0 {
		return []string{"", "a/b/c", "//x", "/*", "*/", "github.com/x/y", " ", "message", "'"}[r.Intn(9)]
	}
	return string(b)
}

func genBase(r *hx.Rand) BaseT {
	switch r.Intn(8) {
	case 0:
		return BaseT{Kind: BAny}
	case 1:
		return BaseT{Kind: BAnyMessage}
	case 2, 3:
		// a qualified reference is a reference whatever its parts are called: also `pkg.string`,
		// `int32.T`, `bytes.bool`
		imp, name := Ident(r), Ident(r)
		if r.Intn(3) == 0 {
			name = builtinNames[r.Intn(len(builtinNames))]
		}
		if r.Intn(6) == 0 {
			imp = builtinNames[r.Intn(len(builtinNames))]
		}
		return BaseT{Kind: BRef, Import: imp, Name: name}
	case 4, 5:
		return BaseT{Kind: BName, Name: builtinNames[r.Intn(len(builtinNames))]}
	}
	return BaseT{Kind: BName, Name: Ident(r)}
}

func genTy(r *hx.Rand) Ty { return Ty{List: r.Intn(3) == 0, Base: genBase(r)} }

func genFields(r *hx.Rand, max int) []Field {
	n := r.Intn(max + 1)
	var fs []Field
	for i := 0; i < n; i++ {
		fs = append(fs, Field{Name: fieldName(r), Ty: genTy(r), Tag: genInt(r)})
	}
	return fs
}

func genMethod(r *hx.Rand) Method {
	m := Method{Name: fieldName(r)}
	if r.Intn(2) == 0 {
		b := genBase(r)
		m.InType = &b
	} else {
		m.InFields = genFields(r, 4)
	}
	out := func() {
		if r.Intn(2) == 0 {
			b := genBase(r)
			m.OutType = &b
		} else {
			m.HasOutFields = true
			m.OutFields = genFields(r, 3)
		}
	}
	switch r.Intn(6) {
	case 0:
	case 1:
		m.Oneway = true
	case 2:
		out()
	default:
		switch r.Intn(3) {
		case 0:
			t := genTy(r)
			m.ChanIn = &t
		case 1:
			t := genTy(r)
			m.ChanOut = &t
		default:
			a, b := genTy(r), genTy(r)
			m.ChanIn, m.ChanOut = &a, &b
		}
		if r.Intn(2) == 0 {
			out()
		}
	}
	return m
}

// GenSyntactic returns a random tree of the grammar, with no regard for the rules of the compiler.
func GenSyntactic(r *hx.Rand, size int) *File {
	f := &File{}
	for i, n := 0, r.Intn(3)*r.Intn(3); i < n; i++ {
		im := Import{ID: genString(r)}
		if r.Intn(2) == 0 {
			im.Alias = Ident(r)
		}
		f.Imports = append(f.Imports, im)
	}
	for i, n := 0, r.Intn(2)*r.Intn(4); i < n; i++ {
		f.Options = append(f.Options, Option{Name: Ident(r), Value: genString(r)})
	}
	for i, n := 0, r.Intn(size+1); i < n; i++ {
		d := Def{Name: Ident(r)}
		switch r.Intn(5) {
		case 0:
			d.Kind = "enum"
			for j, k := 0, r.Intn(5); j < k; j++ {
				d.Values = append(d.Values, EnumValue{Name: fieldName(r), Value: genInt(r)})
			}
		case 1:
			d.Kind = "message"
			d.Fields = genFields(r, 6)
		case 2:
			d.Kind = "struct"
			for j, k := 0, r.Intn(5); j < k; j++ {
				d.SFields = append(d.SFields, SField{Name: fieldName(r), Ty: genTy(r)})
			}
		default:
			d.Kind = []string{"service", "subservice"}[r.Intn(2)]
			for j, k := 0, r.Intn(5); j < k; j++ {
				d.Methods = append(d.Methods, genMethod(r))
			}
		}
		f.Defs = append(f.Defs, d)
	}
	return f
}

// ---------------------------------------------------------------- mutation

var mutPool = []string{"(", ")", "{", "}", "[", "]", "=", ";", ",", ".", "<", ">", "-", "message", "enum", "oneway", "import",
	"options", "struct", "service", "subservice", "any", "x", "T", "int32", "0", "1", "65536", "\"s\"", "+", ":", "*", "/", "@"}

// MutateTokens applies 1..3 token-level edits.
func MutateTokens(r *hx.Rand, toks []string) []string {
	out := append([]string(nil), toks...)
	for k, n := 0, 1+r.Intn(3); k < n; k++ {
		if len(out) == 0 {
			out = append(out, mutPool[r.Intn(len(mutPool))])
			continue
		}
		i := r.Intn(len(out))
		switch r.Intn(6) {
		case 0: // delete
			out = append(out[:i], out[i+1:]...)
		case 1: // duplicate
			out = append(out[:i+1], out[i:]...)
		case 2: // swap with neighbour
			if i+1 < len(out) {
				out[i], out[i+1] = out[i+1], out[i]
			}
		case 3: // replace
			out[i] = mutPool[r.Intn(len(mutPool))]
		case 4: // insert
			out = append(out[:i], append([]string{mutPool[r.Intn(len(mutPool))]}, out[i:]...)...)
		default: // truncate
			out = out[:i]
		}
	}
	return out
}

var junk = []string{"\"", "'", "`", "\\", "/*", "//", "\x00", "é", "1.5", "0x10", "1e3", "99999999999999999999", "007", "08", "1_0", "\"a\nb\"",
	"'a'", "`raw`", "\"\\\"q\\\"\"", "#", ".5", "1.", "9223372036854775808", "9223372036854775807", "\xff",
	// runes that are neither ASCII nor letters: among them the private use code points that equal the
	// token numbers of the generated parser (U+E002 = ANY ... U+E00E)
	"\ue002", "\ue003", "\ue005", "\ue006", "\ue00a", "\ue00b", "\ue00c", "\ue00d", "\ue000", "\u00a7", "\u2028", "\ufffd", "\U0001f600"}

// MutateText inserts lexically interesting junk at a random position or truncates the text.
func MutateText(r *hx.Rand, s string) string {
	if len(s) == 0 {
		return junk[r.Intn(len(junk))]
	}
	i := r.Intn(len(s) + 1)
	if r.Intn(5) == 0 {
		return s[:i]
	}
	j := junk[r.Intn(len(junk))]
	if r.Intn(2) == 0 {
		j = " " + j + " "
	}
	return s[:i] + j + s[i:]
}

// EscapedString is the raw text of a string literal that contains backslash sequences the scanner
// accepts. The language defines no escapes: the tree records such a literal as it is written.
func EscapedString(r *hx.Rand) string {
	parts := []string{`\\`, `\t`, `\n`, `\"`, `\x41`, `\u00e9`, `\101`, `\a`, `\'`[:0] + `\r`, "a", "b/c", " ", "x.y"}
	n := 1 + r.Intn(4)
	var sb strings.Builder
	esc := false
	for i := 0; i < n; i++ {
		p := parts[r.Intn(len(parts))]
		if strings.HasPrefix(p, `\`) {
			esc = true
		}
		sb.WriteString(p)
	}
	if !esc {
		sb.WriteString(`\\`)
	}
	return sb.String()
}

// EscapeStrings gives every import id and option value of the file an escaped string (at least one
// string exists afterwards).
func EscapeStrings(r *hx.Rand, f *File) {
	if len(f.Imports) == 0 && len(f.Options) == 0 {
		f.Options = append(f.Options, Option{Name: "go_package", Value: ""})
	}
	for i := range f.Imports {
		f.Imports[i].ID = EscapedString(r)
	}
	for i := range f.Options {
		f.Options[i].Value = EscapedString(r)
	}
}
