package schema

import (
	"fmt"

	"verif/harness/internal/hx"
)

// GenCoverage returns a bundle the compiler must accept: GenSemantic's random bundle extended, in
// every package, with definitions that deterministically exercise every construct the Go generator
// translates (C05):
//
//   - an enum with keyword-named and underscore-named values and the int32 extremes,
//   - a struct with a field of every value kind (all primitives, string, a local enum) and a second
//     struct nesting the first one and, where the file imports one, an imported struct; a third
//     struct with bytes, string, any and message fields,
//   - a message with one field of every kind and one list field of every element kind (primitives,
//     string, bytes, any, message, local and imported enum / struct / message, itself), whose field
//     names include every contextual keyword and whose tags include 1, 255, 256 and 65535.
//
// The definitions are appended to one file of each package, dependencies first, so that a package
// can also refer to the additions of the packages it imports. Names start with "Cov" and do not
// collide with GenSemantic's names (E, S, M, MU, Sub, Svc + number). All added names map to distinct
// Go identifiers which differ from the method names of the generated types.
func GenCoverage(r *hx.Rand, module string) *Bundle {
	b := GenSemantic(r, module)
	byID := map[string]*Package{}
	for _, p := range b.Packages {
		byID[p.ID] = p
	}
	seq := 0
	name := func(prefix string) string {
		seq++
		return fmt.Sprintf("%s%d", prefix, seq)
	}
	for i := len(b.Packages) - 1; i >= 0; i-- {
		p := b.Packages[i]
		f := p.Files[r.Intn(len(p.Files))].File

		// what the file can see through its imports: alias -> definitions of that package
		type vis struct {
			alias string
			def   Def
		}
		var imported []vis
		for _, im := range f.Imports {
			dep := byID[im.ID]
			if dep == nil {
				continue
			}
			alias := im.Alias
			if alias == "" {
				alias = im.ID
			}
			for _, df := range dep.Files {
				for _, d := range df.File.Defs {
					imported = append(imported, vis{alias, d})
				}
			}
		}
		pickImported := func(kind string) (BaseT, bool) {
			var c []vis
			for _, v := range imported {
				if v.def.Kind == kind {
					c = append(c, v)
				}
			}
			if len(c) == 0 {
				return BaseT{}, false
			}
			v := c[r.Intn(len(c))]
			return BaseT{Kind: BRef, Import: v.alias, Name: v.def.Name}, true
		}
		local := func(n string) BaseT { return BaseT{Kind: BName, Name: n} }

		// enum
		en := Def{Kind: "enum", Name: name("CovE")}
		en.Values = []EnumValue{
			{"none", 0}, {"first_value", 1}, {"message", 2}, {"any", 3}, {"MAX", 2147483647},
			{"import", 100 + int64(r.Intn(1000))}, {"struct_", 70000 + int64(r.Intn(1000))},
		}
		// (negative numbers have no syntax)
		f.Defs = append(f.Defs, en)

		// struct with every value kind
		st := Def{Kind: "struct", Name: name("CovS")}
		stNames := []string{"bool", "byte", "i16", "int32", "long_value", "u16", "uint32", "u64", "f32", "float_64",
			"bin64", "b128", "bin_256", "string", "enum_value"}
		stTypes := append(append([]string(nil), primitives...), "string", en.Name)
		for k, tn := range stTypes {
			st.SFields = append(st.SFields, SField{Name: stNames[k], Ty: Ty{Base: local(tn)}})
		}
		f.Defs = append(f.Defs, st)

		// nesting struct
		ns := Def{Kind: "struct", Name: name("CovN")}
		ns.SFields = append(ns.SFields, SField{Name: "id", Ty: Ty{Base: local("int64")}})
		ns.SFields = append(ns.SFields, SField{Name: "struct", Ty: Ty{Base: local(st.Name)}})
		if bt, ok := pickImported("struct"); ok {
			ns.SFields = append(ns.SFields, SField{Name: "import", Ty: Ty{Base: bt}})
		}
		if bt, ok := pickImported("enum"); ok {
			ns.SFields = append(ns.SFields, SField{Name: "any", Ty: Ty{Base: bt}})
		}
		ns.SFields = append(ns.SFields, SField{Name: "message", Ty: Ty{Base: local("string")}})
		f.Defs = append(f.Defs, ns)

		// struct with the variable-size builtin kinds
		xs := Def{Kind: "struct", Name: name("CovX")}
		xs.SFields = []SField{
			{Name: "id", Ty: Ty{Base: local("int32")}},
			{Name: "data", Ty: Ty{Base: local("bytes")}},
			{Name: "name", Ty: Ty{Base: local("string")}},
			// (any and message fields are rejected in structs since the repair of F43)
			{Name: "any", Ty: Ty{Base: local("bytes")}},
			{Name: "message", Ty: Ty{Base: local("string")}},
			{Name: "last", Ty: Ty{Base: local("bool")}},
		}
		f.Defs = append(f.Defs, xs)

		// message with every field kind and every list element kind
		mn := name("CovM")
		var bases []BaseT
		for _, pn := range primitives {
			bases = append(bases, local(pn))
		}
		bases = append(bases, local("string"), local("bytes"), BaseT{Kind: BAny}, BaseT{Kind: BAnyMessage},
			local(en.Name), local(st.Name), local(ns.Name), local(xs.Name), local(mn))
		for _, k := range []string{"enum", "struct", "message"} {
			if bt, ok := pickImported(k); ok {
				bases = append(bases, bt)
			}
		}
		// another local message (GenSemantic gives every file at least one; the chosen file is ours)
		for _, d := range f.Defs {
			if d.Kind == "message" {
				bases = append(bases, local(d.Name))
				break
			}
		}
		n := 2 * len(bases)
		// (leading / trailing / doubled underscores and upper case go through the name mapping)
		names := append([]string(nil), semFieldNames...)
		names = append(names, "_lead", "trail_", "dbl__under", "MixedCase", "UPPER", "snake_case_name")
		for k := len(names); k < n; k++ {
			names = append(names, fmt.Sprintf("f%d_x", k))
		}
		for k := len(names) - 1; k > 0; k-- {
			j := r.Intn(k + 1)
			names[k], names[j] = names[j], names[k]
		}
		// tags: the boundaries first, the rest random and distinct
		tags := []int64{1, 255, 256, 65535, 65534, 127, 128}
		seen := map[int64]bool{}
		for _, t := range tags {
			seen[t] = true
		}
		for len(tags) < n {
			var t int64
			switch r.Intn(4) {
			case 0:
				t = 1 + int64(r.Intn(65535))
			case 1:
				t = 250 + int64(r.Intn(12))
			default:
				t = 2 + int64(r.Intn(120))
			}
			if !seen[t] {
				seen[t] = true
				tags = append(tags, t)
			}
		}
		for k := len(tags) - 1; k > 0; k-- {
			j := r.Intn(k + 1)
			tags[k], tags[j] = tags[j], tags[k]
		}
		msg := Def{Kind: "message", Name: mn}
		for k, bt := range bases {
			msg.Fields = append(msg.Fields, Field{Name: names[2*k], Ty: Ty{Base: bt}, Tag: tags[2*k]})
			msg.Fields = append(msg.Fields, Field{Name: names[2*k+1], Ty: Ty{List: true, Base: bt}, Tag: tags[2*k+1]})
		}
		// declaration order is not tag order
		for k := len(msg.Fields) - 1; k > 0; k-- {
			j := r.Intn(k + 1)
			msg.Fields[k], msg.Fields[j] = msg.Fields[j], msg.Fields[k]
		}
		f.Defs = append(f.Defs, msg)

		// in half of the packages the package options live in a file of their own that defines nothing
		// (sorted before the others): they count for the whole package all the same
		if r.Intn(2) == 0 && len(p.Files) > 0 && len(p.Files[0].File.Options) > 0 {
			opts := p.Files[0].File.Options
			p.Files[0].File.Options = nil
			p.Files = append([]*NamedFile{{Name: "a_options", File: &File{Options: opts}}}, p.Files...)
		}
	}
	return b
}
