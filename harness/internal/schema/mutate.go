package schema

import (
	"encoding/json"

	"verif/harness/internal/hx"
)

func (b *Bundle) Clone() *Bundle {
	raw, _ := json.Marshal(b)
	var c Bundle
	json.Unmarshal(raw, &c)
	return &c
}

// Rules: one mutation operator per rule of the language.
var Rules = []string{
	"dup-definition", "dup-field-name", "dup-tag", "zero-tag", "tag-out-of-range", "dup-enum-name", "dup-enum-number",
	"no-zero-enum", "enum-out-of-range", "unknown-type", "unknown-import-type", "service-field", "service-element",
	"struct-message-field", "struct-list-field", "struct-self", "struct-cycle", "channel-non-message", "missing-import",
	"circular-import", "oneway-output", "oneway-channel", "input-non-message", "output-non-message", "subservice-channel",
	"dup-method", "dup-import", "dup-option", "dup-struct-field", "dup-definition-across-files", "struct-any-field",
	// the field rules again, in the field lists of methods (arguments, results, results after a channel)
	"mfield-dup-name", "mfield-dup-tag", "mfield-zero-tag", "mfield-tag-out-of-range", "mfield-unknown-type",
	"mfield-service-type", "mfield-service-element",
}

type site struct {
	f *File
	d *Def
}

func (b *Bundle) sites(kinds ...string) []site {
	var out []site
	for _, f := range b.Packages[0].Files {
		for i := range f.File.Defs {
			d := &f.File.Defs[i]
			for _, k := range kinds {
				if d.Kind == k {
					out = append(out, site{f.File, d})
				}
			}
		}
	}
	return out
}

func firstDef(b *Bundle, kind string) (string, bool) {
	for _, s := range b.sites(kind) {
		return s.d.Name, true
	}
	return "", false
}

// Mutate applies the operator of `rule` at a random applicable site of the root package and returns
// the mutant and the name of the offending element; ok=false when the rule has no site.
func Mutate(r *hx.Rand, orig *Bundle, rule string) (m *Bundle, element string, ok bool) {
	b := orig.Clone()
	pick := func(ss []site) (site, bool) {
		if len(ss) == 0 {
			return site{}, false
		}
		return ss[r.Intn(len(ss))], true
	}
	withFields := func() (site, bool) {
		var c []site
		for _, s := range b.sites("message") {
			if len(s.d.Fields) > 0 {
				c = append(c, s)
			}
		}
		return pick(c)
	}
	root := b.Packages[0]
	switch rule {
	case "dup-definition":
		s, ok := pick(b.sites("enum", "struct", "message", "service", "subservice"))
		if !ok {
			return nil, "", false
		}
		s.f.Defs = append(s.f.Defs, Def{Kind: "message", Name: s.d.Name})
		return b, s.d.Name, true
	case "dup-definition-across-files":
		if len(root.Files) < 2 {
			return nil, "", false
		}
		var s0 *Def
		for i := range root.Files[0].File.Defs {
			s0 = &root.Files[0].File.Defs[i]
			break
		}
		if s0 == nil {
			return nil, "", false
		}
		root.Files[1].File.Defs = append(root.Files[1].File.Defs, Def{Kind: "message", Name: s0.Name})
		return b, s0.Name, true
	case "dup-field-name":
		s, ok := withFields()
		if !ok {
			return nil, "", false
		}
		f := s.d.Fields[r.Intn(len(s.d.Fields))]
		f.Tag = 60000
		s.d.Fields = append(s.d.Fields, f)
		return b, f.Name, true
	case "dup-tag":
		s, ok := withFields()
		if !ok {
			return nil, "", false
		}
		f := s.d.Fields[r.Intn(len(s.d.Fields))]
		f.Name = "dupTagField"
		s.d.Fields = append(s.d.Fields, f)
		return b, f.Name, true
	case "zero-tag", "tag-out-of-range":
		s, ok := withFields()
		if !ok {
			return nil, "", false
		}
		i := r.Intn(len(s.d.Fields))
		if rule == "zero-tag" {
			s.d.Fields[i].Tag = 0
		} else {
			s.d.Fields[i].Tag = []int64{65536, 70000, 1 << 32, 1<<62 + 1}[r.Intn(4)]
		}
		return b, s.d.Fields[i].Name, true
	case "dup-enum-name", "dup-enum-number", "no-zero-enum", "enum-out-of-range":
		s, ok := pick(b.sites("enum"))
		if !ok {
			return nil, "", false
		}
		switch rule {
		case "dup-enum-name":
			v := s.d.Values[r.Intn(len(s.d.Values))]
			v.Value = 7777
			s.d.Values = append(s.d.Values, v)
			return b, v.Name, true
		case "dup-enum-number":
			v := s.d.Values[r.Intn(len(s.d.Values))]
			v.Name = "DupNumber" + s.d.Name
			s.d.Values = append(s.d.Values, v)
			return b, v.Name, true
		case "no-zero-enum":
			for i := range s.d.Values {
				if s.d.Values[i].Value == 0 {
					s.d.Values[i].Value = 9999
				}
			}
			return b, s.d.Name, true
		default:
			s.d.Values = append(s.d.Values, EnumValue{Name: "Huge" + s.d.Name, Value: []int64{1 << 31, 1 << 40, 1<<63 - 1}[r.Intn(3)]})
			return b, "Huge" + s.d.Name, true
		}
	case "unknown-type", "unknown-import-type", "service-field", "service-element":
		s, ok := withFields()
		if !ok {
			return nil, "", false
		}
		i := r.Intn(len(s.d.Fields))
		switch rule {
		case "unknown-type":
			s.d.Fields[i].Ty = Ty{List: r.Intn(2) == 0, Base: BaseT{Kind: BName, Name: "NoSuchType"}}
		case "unknown-import-type":
			s.d.Fields[i].Ty = Ty{Base: BaseT{Kind: BRef, Import: "nopkg", Name: "T"}}
		default:
			svc, ok := firstDef(b, "service")
			if !ok {
				return nil, "", false
			}
			s.d.Fields[i].Ty = Ty{List: rule == "service-element", Base: BaseT{Kind: BName, Name: svc}}
		}
		return b, s.d.Fields[i].Name, true
	case "struct-message-field", "struct-list-field", "struct-self", "struct-cycle", "dup-struct-field", "struct-any-field":
		s, ok := pick(b.sites("struct"))
		if !ok {
			return nil, "", false
		}
		switch rule {
		case "struct-message-field":
			mn, ok := firstDef(b, "message")
			if !ok {
				return nil, "", false
			}
			s.d.SFields = append(s.d.SFields, SField{Name: "badMessage", Ty: Ty{Base: BaseT{Kind: BName, Name: mn}}})
			return b, "badMessage", true
		case "struct-any-field":
			k := BAny
			if r.Intn(2) == 0 {
				k = BAnyMessage
			}
			s.d.SFields = append(s.d.SFields, SField{Name: "badDynamic", Ty: Ty{Base: BaseT{Kind: k}}})
			return b, "badDynamic", true
		case "struct-list-field":
			s.d.SFields = append(s.d.SFields, SField{Name: "badList", Ty: Ty{List: true, Base: BaseT{Kind: BName, Name: "int32"}}})
			return b, "badList", true
		case "struct-self":
			s.d.SFields = append(s.d.SFields, SField{Name: "selfRef", Ty: Ty{Base: BaseT{Kind: BName, Name: s.d.Name}}})
			return b, "selfRef", true
		case "dup-struct-field":
			s.d.SFields = append(s.d.SFields, s.d.SFields[0])
			return b, s.d.SFields[0].Name, true
		default:
			// two or three new structs that contain each other; the field that closes the cycle sits
			// at any position among other (value-typed) fields
			names := []string{"CycA", "CycB", "CycC"}[:2+r.Intn(2)]
			for i, n := range names {
				link := SField{Name: "next", Ty: Ty{Base: BaseT{Kind: BName, Name: names[(i+1)%len(names)]}}}
				var fs []SField
				pre, post := r.Intn(3), r.Intn(3)
				for k := 0; k < pre; k++ {
					fs = append(fs, SField{Name: "p" + string(rune('a'+k)), Ty: Ty{Base: BaseT{Kind: BName, Name: "int32"}}})
				}
				fs = append(fs, link)
				for k := 0; k < post; k++ {
					fs = append(fs, SField{Name: "q" + string(rune('a'+k)), Ty: Ty{Base: BaseT{Kind: BName, Name: "int64"}}})
				}
				s.f.Defs = append(s.f.Defs, Def{Kind: "struct", Name: n, SFields: fs})
			}
			return b, "Cyc", true
		}
	case "missing-import":
		f := root.Files[0].File
		f.Imports = append(f.Imports, Import{ID: "nosuchpackage"})
		return b, "nosuchpackage", true
	case "circular-import":
		if len(b.Packages) < 2 {
			return nil, "", false
		}
		uses := false
		for _, im := range root.Files[0].File.Imports {
			if im.ID == b.Packages[1].ID {
				uses = true
			}
		}
		if !uses {
			return nil, "", false
		}
		dep := b.Packages[1].Files[0].File
		dep.Imports = append(dep.Imports, Import{ID: root.ID})
		// the import has to be used, otherwise the package is rejected for that reason
		var target string
		for _, k := range []string{"message", "enum", "struct"} {
			if n, ok := firstDef(b, k); ok {
				target = n
				break
			}
		}
		if target == "" {
			return nil, "", false
		}
		dep.Defs = append(dep.Defs, Def{Kind: "message", Name: "MCycle", Fields: []Field{{Name: "back", Ty: Ty{Base: BaseT{Kind: BRef, Import: root.ID, Name: target}}, Tag: 1}}})
		return b, root.ID, true
	case "dup-import":
		f := root.Files[0].File
		if len(f.Imports) == 0 {
			return nil, "", false
		}
		f.Imports = append(f.Imports, f.Imports[0])
		name := f.Imports[0].Alias
		if name == "" {
			name = f.Imports[0].ID
		}
		return b, name, true
	case "dup-option":
		f := root.Files[0].File
		if len(f.Options) == 0 {
			return nil, "", false
		}
		f.Options = append(f.Options, f.Options[0])
		return b, f.Options[0].Name, true
	case "mfield-dup-name", "mfield-dup-tag", "mfield-zero-tag", "mfield-tag-out-of-range", "mfield-unknown-type",
		"mfield-service-type", "mfield-service-element":
		s, ok := pick(b.sites("service", "subservice"))
		if !ok || len(s.d.Methods) == 0 {
			return nil, "", false
		}
		m := &s.d.Methods[r.Intn(len(s.d.Methods))]
		// the list to damage: arguments, or results (plain or after a channel)
		var list *[]Field
		if r.Intn(2) == 0 {
			m.InType = nil
			list = &m.InFields
		} else {
			m.Oneway, m.OutType, m.HasOutFields = false, nil, true
			if r.Intn(3) == 0 {
				if msgName, ok := firstDef(b, "message"); ok {
					t := Ty{Base: BaseT{Kind: BName, Name: msgName}}
					m.ChanIn, m.ChanOut = &t, nil
				}
			}
			list = &m.OutFields
		}
		for len(*list) < 2 {
			k := len(*list)
			*list = append(*list, Field{Name: []string{"mfa", "mfb"}[k], Ty: Ty{Base: BaseT{Kind: BName, Name: "int64"}}, Tag: int64(10 + k)})
		}
		i := r.Intn(len(*list))
		f := (*list)[i]
		switch rule {
		case "mfield-dup-name":
			f.Tag = 60000
			*list = append(*list, f)
		case "mfield-dup-tag":
			f.Name = "mfDupTag"
			*list = append(*list, f)
		case "mfield-zero-tag":
			(*list)[i].Tag = 0
		case "mfield-tag-out-of-range":
			(*list)[i].Tag = []int64{65536, 70000, 1 << 32}[r.Intn(3)]
		case "mfield-unknown-type":
			(*list)[i].Ty = Ty{List: r.Intn(2) == 0, Base: BaseT{Kind: BName, Name: "NoSuchType"}}
		case "mfield-service-type", "mfield-service-element":
			svc, ok := firstDef(b, "service")
			if !ok {
				svc = s.d.Name
			}
			(*list)[i].Ty = Ty{List: rule == "mfield-service-element", Base: BaseT{Kind: BName, Name: svc}}
		}
		return b, f.Name, true
	case "channel-non-message", "oneway-output", "oneway-channel", "input-non-message", "output-non-message",
		"subservice-channel", "dup-method":
		s, ok := pick(b.sites("service"))
		if !ok || len(s.d.Methods) == 0 {
			return nil, "", false
		}
		i := r.Intn(len(s.d.Methods))
		m := &s.d.Methods[i]
		clear := func() {
			m.Oneway, m.ChanIn, m.ChanOut, m.OutType, m.OutFields, m.HasOutFields = false, nil, nil, nil, nil, false
		}
		msgName, hasMsg := firstDef(b, "message")
		switch rule {
		case "dup-method":
			s.d.Methods = append(s.d.Methods, *m)
			return b, m.Name, true
		case "channel-non-message":
			clear()
			t := Ty{Base: BaseT{Kind: BName, Name: []string{"int32", "string", "bytes"}[r.Intn(3)]}}
			if e, ok := firstDef(b, "enum"); ok && r.Intn(2) == 0 {
				t = Ty{Base: BaseT{Kind: BName, Name: e}}
			}
			if st, ok := firstDef(b, "struct"); ok && r.Intn(3) == 0 {
				t = Ty{Base: BaseT{Kind: BName, Name: st}}
			}
			if r.Intn(4) == 0 && hasMsg {
				t = Ty{List: true, Base: BaseT{Kind: BName, Name: msgName}}
			}
			if r.Intn(2) == 0 {
				m.ChanIn = &t
			} else {
				m.ChanOut = &t
			}
			return b, m.Name, true
		case "oneway-output":
			if !hasMsg {
				return nil, "", false
			}
			clear()
			m.Oneway = true
			m.OutType = &BaseT{Kind: BName, Name: msgName}
			return b, m.Name, true
		case "oneway-channel":
			if !hasMsg {
				return nil, "", false
			}
			clear()
			m.Oneway = true
			m.ChanIn = &Ty{Base: BaseT{Kind: BName, Name: msgName}}
			return b, m.Name, true
		case "input-non-message":
			m.InFields = nil
			m.InType = &BaseT{Kind: BName, Name: []string{"int32", "string", "bool"}[r.Intn(3)]}
			if e, ok := firstDef(b, "enum"); ok && r.Intn(2) == 0 {
				m.InType = &BaseT{Kind: BName, Name: e}
			}
			return b, m.Name, true
		case "output-non-message":
			clear()
			m.OutType = &BaseT{Kind: BName, Name: []string{"int32", "string", "bool"}[r.Intn(3)]}
			if e, ok := firstDef(b, "struct"); ok && r.Intn(2) == 0 {
				m.OutType = &BaseT{Kind: BName, Name: e}
			}
			return b, m.Name, true
		case "subservice-channel":
			sub, ok := firstDef(b, "subservice")
			if !ok || !hasMsg {
				return nil, "", false
			}
			clear()
			m.ChanIn = &Ty{Base: BaseT{Kind: BName, Name: msgName}}
			m.OutType = &BaseT{Kind: BName, Name: sub}
			return b, m.Name, true
		}
	}
	return nil, "", false
}

// Perturb applies 1..3 random semantic edits (retype, retag, rename, drop or add an import) to the
// root package; the result may or may not follow the rules.
func Perturb(r *hx.Rand, orig *Bundle) *Bundle {
	b := orig.Clone()
	root := b.Packages[0]
	var names []string
	for _, p := range b.Packages {
		for _, f := range p.Files {
			for _, d := range f.File.Defs {
				names = append(names, d.Name)
			}
		}
	}
	defNames := append([]string(nil), names...) // renaming a definition to a builtin name is a probe of its own
	names = append(names, "int32", "string", "bool", "bytes", "NoSuch")
	randBase := func() BaseT {
		switch r.Intn(6) {
		case 0:
			return BaseT{Kind: BAny}
		case 1:
			return BaseT{Kind: BAnyMessage}
		case 2:
			return BaseT{Kind: BRef, Import: []string{"dep1", "dep2", "aldep1", "aldep2", "root"}[r.Intn(5)], Name: names[r.Intn(len(names))]}
		}
		return BaseT{Kind: BName, Name: names[r.Intn(len(names))]}
	}
	for k, n := 0, 1+r.Intn(3); k < n; k++ {
		f := root.Files[r.Intn(len(root.Files))].File
		if len(f.Defs) == 0 {
			continue
		}
		d := &f.Defs[r.Intn(len(f.Defs))]
		switch d.Kind {
		case "enum":
			if len(d.Values) > 0 {
				i := r.Intn(len(d.Values))
				if r.Intn(2) == 0 {
					d.Values[i].Value = int64(r.Intn(4))
				} else {
					d.Values[i].Name = d.Values[r.Intn(len(d.Values))].Name
				}
			}
		case "message":
			if len(d.Fields) > 0 {
				i := r.Intn(len(d.Fields))
				switch r.Intn(3) {
				case 0:
					d.Fields[i].Ty = Ty{List: r.Intn(3) == 0, Base: randBase()}
				case 1:
					d.Fields[i].Tag = int64(r.Intn(6))
				default:
					d.Fields[i].Name = d.Fields[r.Intn(len(d.Fields))].Name
				}
			}
		case "struct":
			if len(d.SFields) > 0 {
				i := r.Intn(len(d.SFields))
				if r.Intn(2) == 0 {
					d.SFields[i].Ty = Ty{List: r.Intn(6) == 0, Base: randBase()}
				} else {
					d.SFields[i].Name = d.SFields[r.Intn(len(d.SFields))].Name
				}
			}
		default:
			if len(d.Methods) > 0 {
				m := &d.Methods[r.Intn(len(d.Methods))]
				switch r.Intn(5) {
				case 0:
					bt := randBase()
					m.InType, m.InFields = &bt, nil
				case 1:
					bt := randBase()
					m.OutType, m.OutFields, m.HasOutFields = &bt, nil, false
					m.Oneway = false
				case 2:
					t := Ty{List: r.Intn(5) == 0, Base: randBase()}
					m.ChanIn = &t
					m.Oneway = false
				case 3:
					t := Ty{Base: randBase()}
					m.ChanOut = &t
					m.Oneway = false
				default:
					m.Name = d.Methods[r.Intn(len(d.Methods))].Name
				}
			}
		}
		if r.Intn(6) == 0 && len(f.Imports) > 0 {
			f.Imports = f.Imports[1:]
		}
		if r.Intn(8) == 0 {
			f.Imports = append(f.Imports, Import{ID: []string{"dep1", "dep2", "root", "nosuch"}[r.Intn(4)]})
		}
		if d.Kind != "enum" && r.Intn(10) == 0 {
			d.Name = defNames[r.Intn(len(defNames))]
		}
	}
	return b
}
