package schema

import (
	"fmt"
	"strconv"
)

// sexp is a parsed s-expression: an atom (string, quoted strings unquoted with Quoted=true) or a list.
type sexp struct {
	Atom   string
	Quoted bool
	List   []*sexp
	IsList bool
}

func readSexp(s string, i int) (*sexp, int, error) {
	for i < len(s) && s[i] == ' ' {
		i++
	}
	if i >= len(s) {
		return nil, i, fmt.Errorf("unexpected end")
	}
	if s[i] == '(' {
		n := &sexp{IsList: true}
		i++
		for {
			for i < len(s) && s[i] == ' ' {
				i++
			}
			if i >= len(s) {
				return nil, i, fmt.Errorf("unterminated list")
			}
			if s[i] == ')' {
				return n, i + 1, nil
			}
			c, j, err := readSexp(s, i)
			if err != nil {
				return nil, j, err
			}
			n.List = append(n.List, c)
			i = j
		}
	}
	if s[i] == '"' {
		j := i + 1
		for j < len(s) {
			if s[j] == '\\' {
				j += 2
				continue
			}
			if s[j] == '"' {
				break
			}
			j++
		}
		if j >= len(s) {
			return nil, j, fmt.Errorf("unterminated string")
		}
		u, err := strconv.Unquote(s[i : j+1])
		if err != nil {
			return nil, j, err
		}
		return &sexp{Atom: u, Quoted: true}, j + 1, nil
	}
	j := i
	for j < len(s) && s[j] != ' ' && s[j] != ')' && s[j] != '(' {
		j++
	}
	return &sexp{Atom: s[i:j]}, j, nil
}

func (n *sexp) head() string {
	if n.IsList && len(n.List) > 0 && !n.List[0].IsList {
		return n.List[0].Atom
	}
	return ""
}

func toBase(n *sexp) (BaseT, error) {
	if n.head() != "t" || len(n.List) != 4 {
		return BaseT{}, fmt.Errorf("bad base type")
	}
	kind, name, imp := n.List[1].Atom, n.List[2].Atom, n.List[3].Atom
	switch {
	case kind == "any":
		return BaseT{Kind: BAny}, nil
	case kind == "message":
		return BaseT{Kind: BAnyMessage}, nil
	case imp != "":
		return BaseT{Kind: BRef, Name: name, Import: imp}, nil
	}
	return BaseT{Kind: BName, Name: name}, nil
}

func toTy(n *sexp) (*Ty, error) {
	if !n.IsList {
		if n.Atom == "nil" {
			return nil, nil
		}
		return nil, fmt.Errorf("bad type")
	}
	if n.head() == "list" && len(n.List) == 2 {
		b, err := toBase(n.List[1])
		return &Ty{List: true, Base: b}, err
	}
	b, err := toBase(n)
	return &Ty{Base: b}, err
}

func toFields(ns []*sexp) ([]Field, error) {
	var fs []Field
	for _, n := range ns {
		if n.head() != "field" || len(n.List) != 4 {
			return nil, fmt.Errorf("bad field")
		}
		t, err := toTy(n.List[2])
		if err != nil || t == nil {
			return nil, fmt.Errorf("bad field type")
		}
		tag, err := strconv.ParseInt(n.List[3].Atom, 10, 64)
		if err != nil {
			return nil, err
		}
		fs = append(fs, Field{Name: n.List[1].Atom, Ty: *t, Tag: tag})
	}
	return fs, nil
}

// ReadDump parses the canonical dump back into a tree.
func ReadDump(s string) (*File, error) {
	root, _, err := readSexp(s, 0)
	if err != nil {
		return nil, err
	}
	if root.head() != "file" || len(root.List) != 4 {
		return nil, fmt.Errorf("bad file")
	}
	f := &File{}
	for _, n := range root.List[1].List[1:] {
		f.Imports = append(f.Imports, Import{Alias: n.List[1].Atom, ID: n.List[2].Atom})
	}
	for _, n := range root.List[2].List[1:] {
		f.Options = append(f.Options, Option{Name: n.List[1].Atom, Value: n.List[2].Atom})
	}
	for _, n := range root.List[3].List[1:] {
		d := Def{Kind: n.head(), Name: n.List[1].Atom}
		body := n.List[2:]
		switch d.Kind {
		case "enum":
			for _, v := range body {
				x, err := strconv.ParseInt(v.List[2].Atom, 10, 64)
				if err != nil {
					return nil, err
				}
				d.Values = append(d.Values, EnumValue{Name: v.List[1].Atom, Value: x})
			}
		case "message":
			if d.Fields, err = toFields(body); err != nil {
				return nil, err
			}
		case "struct":
			for _, v := range body {
				t, err := toTy(v.List[2])
				if err != nil || t == nil {
					return nil, fmt.Errorf("bad struct field")
				}
				d.SFields = append(d.SFields, SField{Name: v.List[1].Atom, Ty: *t})
			}
		case "service", "subservice":
			for _, v := range body {
				m := Method{Name: v.List[1].Atom}
				in, out, ch, ow := v.List[2], v.List[3], v.List[4], v.List[5]
				switch in.head() {
				case "in-type":
					b, err := toBase(in.List[1])
					if err != nil {
						return nil, err
					}
					m.InType = &b
				case "in-fields":
					if m.InFields, err = toFields(in.List[1:]); err != nil {
						return nil, err
					}
				default:
					return nil, fmt.Errorf("method without input")
				}
				switch out.head() {
				case "out-type":
					b, err := toBase(out.List[1])
					if err != nil {
						return nil, err
					}
					m.OutType = &b
				case "out-fields":
					m.HasOutFields = true
					if m.OutFields, err = toFields(out.List[1:]); err != nil {
						return nil, err
					}
				}
				if ch.head() == "chan" {
					if m.ChanIn, err = toTy(ch.List[1]); err != nil {
						return nil, err
					}
					if m.ChanOut, err = toTy(ch.List[2]); err != nil {
						return nil, err
					}
				}
				m.Oneway = ow.Atom == "true"
				d.Methods = append(d.Methods, m)
			}
		default:
			return nil, fmt.Errorf("bad definition %q", d.Kind)
		}
		f.Defs = append(f.Defs, d)
	}
	return f, nil
}
