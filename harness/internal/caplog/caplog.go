// Package caplog is a logging.Logger that records the error statuses the library logs (connection
// errors, channel panics), so that scenarios can observe "the library itself panicked".
package caplog

import (
	"fmt"
	"strings"
	"sync"

	"github.com/basecomplextech/baselibrary/logging"
	"github.com/basecomplextech/baselibrary/status"
)

type base = logging.Logger

type Logger struct {
	base
	mu      sync.Mutex
	Records []string
}

func New() *Logger { return &Logger{base: logging.Null} }

func (l *Logger) add(msg string, st status.Status) {
	l.mu.Lock()
	defer l.mu.Unlock()
	if len(l.Records) < 1000 {
		l.Records = append(l.Records, fmt.Sprintf("%s: %v", msg, st))
	}
}

func (l *Logger) ErrorStatus(msg string, st status.Status, keyValues ...any) { l.add(msg, st) }
func (l *Logger) FatalStatus(msg string, st status.Status, keyValues ...any) { l.add(msg, st) }
func (l *Logger) Error(msg string, keyValues ...any)                         { l.add(msg, status.None) }
func (l *Logger) Logger(name string) logging.Logger                          { return l }
func (l *Logger) WithFields(keyValuePairs ...any) logging.Logger             { return l }

// Panics returns the recorded messages that report a panic inside the library.
func (l *Logger) Panics() []string {
	l.mu.Lock()
	defer l.mu.Unlock()
	var out []string
	for _, r := range l.Records {
		lr := strings.ToLower(r)
		if strings.Contains(lr, "panic") || strings.Contains(lr, "freed channel") || strings.Contains(lr, "released channel") {
			out = append(out, r)
		}
	}
	return out
}

// All returns a copy of all records.
func (l *Logger) All() []string {
	l.mu.Lock()
	defer l.mu.Unlock()
	return append([]string(nil), l.Records...)
}
