// Package tree generates value trees over the 21 wire types and turns them into writer programs
// (the call sequences of the line protocol shared with the Lean writer driver).
package tree

import (
	"fmt"
	"strings"

	"verif/harness/internal/hx"
)

// Node is a value tree. Kind is one of: bool byte i16 i32 i64 u16 u32 u64 f32 f64 bin64 bin128
// bin256 bytes str list msg raw.
type Node struct {
	Kind   string
	Bool   bool
	I      int64
	U      uint64
	Data   []byte  // bin*, bytes, str
	Elems  []*Node // list
	Tags   []uint16
	Fields []*Node // msg, in write order
}

// Boundary alphabets of the property statement.
var (
	BoundTags  = []uint16{1, 2, 3, 254, 255, 256, 257, 65535}
	BoundSizes = []int{0, 1, 2, 0xfb, 0xfc, 0xfd, 0xfe, 0xffff, 0x10000, 70000}
	BoundInts  = []int64{0, 1, -1, 63, 64, -64, -65, 126, 127, 128, 0x7ffe, 0x7fff, -0x8000, 0x8000, 0x7fffffff, -0x80000000, 0x80000000, 1<<63 - 1, -1 << 63}
	BoundUints = []uint64{0, 1, 0xfc, 0xfd, 0xfe, 0xff, 0x100, 0xffff, 0x10000, 0xffffffff, 0x100000000, 1<<64 - 1}
)

var scalarKinds = []string{"bool", "byte", "i16", "i32", "i64", "u16", "u32", "u64", "f32", "f64", "bin64", "bin128", "bin256", "bytes", "str"}

type Gen struct {
	R        *hx.Rand
	MaxDepth int
	MaxElems int
	BigProb  int // 1/BigProb chance of boundary-size payloads and counts
	Budget   int // remaining bytes of big payloads for the tree being generated (keeps the model run fast)
}

func (g *Gen) pickInt(bits uint) int64 {
	r := g.R
	var v int64
	if r.Intn(2) == 0 {
		v = BoundInts[r.Intn(len(BoundInts))]
		v += int64(r.Intn(3)) - 1
	} else {
		v = int64(r.U64()) >> uint(r.Intn(64))
	}
	// wrap into range
	switch bits {
	case 16:
		return int64(int16(v))
	case 32:
		return int64(int32(v))
	}
	return v
}

func (g *Gen) pickUint(bits uint) uint64 {
	r := g.R
	var v uint64
	if r.Intn(2) == 0 {
		v = BoundUints[r.Intn(len(BoundUints))] + uint64(r.Intn(3)) - 1
	} else {
		v = r.U64() >> uint(r.Intn(64))
	}
	switch bits {
	case 16:
		return uint64(uint16(v))
	case 32:
		return uint64(uint32(v))
	}
	return v
}

func (g *Gen) payloadSize() int {
	r := g.R
	if g.BigProb > 0 && r.Intn(g.BigProb) == 0 {
		n := BoundSizes[r.Intn(len(BoundSizes))]
		if n <= g.Budget {
			g.Budget -= n
			return n
		}
	}
	return r.Intn(12)
}

func (g *Gen) Scalar() *Node {
	r := g.R
	k := scalarKinds[r.Intn(len(scalarKinds))]
	n := &Node{Kind: k}
	switch k {
	case "bool":
		n.Bool = r.Intn(2) == 0
	case "byte":
		n.U = uint64(r.Intn(256))
	case "i16":
		n.I = g.pickInt(16)
	case "i32":
		n.I = g.pickInt(32)
	case "i64":
		n.I = g.pickInt(64)
	case "u16":
		n.U = g.pickUint(16)
	case "u32":
		n.U = g.pickUint(32)
	case "u64":
		n.U = g.pickUint(64)
	case "f32":
		n.U = uint64(uint32(r.U64()))
		if r.Intn(16) == 0 {
			n.U = []uint64{0x80000000, 0, 0x7f800000, 0xff800000, 1, 0x7fc00000}[r.Intn(6)]
		}
	case "f64":
		n.U = r.U64()
		if r.Intn(16) == 0 {
			n.U = []uint64{0x8000000000000000, 0, 0x7ff0000000000000, 0xfff0000000000000, 1}[r.Intn(5)]
		}
	case "bin64":
		n.Data = g.binPayload(8)
	case "bin128":
		n.Data = g.binPayload(16)
	case "bin256":
		n.Data = g.binPayload(32)
	case "bytes", "str":
		n.Data = r.Bytes(g.payloadSize())
	}
	return n
}

// binPayload: random bytes; one value in four is the zero value (which an encoder may be tempted
// to treat specially).
func (g *Gen) binPayload(n int) []byte {
	if g.R.Intn(4) == 0 {
		return make([]byte, n)
	}
	return g.R.Bytes(n)
}

func (g *Gen) count() int {
	r := g.R
	if g.BigProb > 0 && r.Intn(g.BigProb*2) == 0 {
		return []int{47, 48, 49, 255, 256, 257}[r.Intn(6)]
	}
	return r.Intn(g.MaxElems + 1)
}

// Tree returns a random tree of at most the given depth.
func (g *Gen) Tree(depth int) *Node {
	if depth >= g.MaxDepth || g.Budget <= 0 {
		g.Budget = 150000
	}
	return g.tree(depth)
}

func (g *Gen) tree(depth int) *Node {
	r := g.R
	if depth <= 0 || r.Intn(3) == 0 {
		return g.Scalar()
	}
	if r.Intn(2) == 0 {
		n := &Node{Kind: "list"}
		c := g.count()
		for i := 0; i < c; i++ {
			if c > 40 {
				n.Elems = append(n.Elems, g.Scalar())
			} else {
				n.Elems = append(n.Elems, g.tree(depth-1))
			}
		}
		return n
	}
	return g.Msg(depth)
}

// Msg returns a random message with distinct tags in a random write order.
func (g *Gen) Msg(depth int) *Node {
	r := g.R
	n := &Node{Kind: "msg"}
	c := g.count()
	used := map[uint16]bool{}
	for i := 0; i < c; i++ {
		var tag uint16
		for tries := 0; ; tries++ {
			switch r.Intn(3) {
			case 0:
				tag = BoundTags[r.Intn(len(BoundTags))]
			case 1:
				tag = uint16(1 + r.Intn(300))
			default:
				tag = uint16(1 + r.Intn(20))
			}
			if !used[tag] {
				break
			}
			if tries > 20 {
				tag = uint16(1000 + i)
				break
			}
		}
		used[tag] = true
		n.Tags = append(n.Tags, tag)
		if c > 40 {
			n.Fields = append(n.Fields, g.Scalar())
		} else {
			n.Fields = append(n.Fields, g.tree(depth-1))
		}
	}
	return n
}

// Deep returns a chain of nested containers of the given depth ending in a scalar.
func (g *Gen) Deep(depth int) *Node {
	if depth == 0 {
		return g.Scalar()
	}
	if g.R.Intn(2) == 0 {
		return &Node{Kind: "list", Elems: []*Node{g.Deep(depth - 1)}}
	}
	return &Node{Kind: "msg", Tags: []uint16{uint16(1 + g.R.Intn(3))}, Fields: []*Node{g.Deep(depth - 1)}}
}

// scalarArg renders the argument of a scalar call.
func scalarArg(n *Node) string {
	switch n.Kind {
	case "bool":
		return fmt.Sprint(n.Bool)
	case "i16", "i32", "i64":
		return fmt.Sprint(n.I)
	case "byte", "u16", "u32", "u64", "f32", "f64":
		return fmt.Sprint(n.U)
	}
	return hx.Hex(n.Data)
}

// Program renders the writer call sequence that writes the tree as the root value. Calls are
// separated by ';' and name the handle they act on explicitly (`op@h`); handles are numbered in
// creation order. Alphabet (see wprog and the Lean Writer model):
//
//	msg | list | v <kind> <arg>             root begin (creates a handle) / root value
//	f@h <tag> <kind> <arg>                  h.Field(tag).<scalar>
//	fmsg@h <tag> | flist@h <tag>            h.Field(tag).Message() / .List()   (creates a handle)
//	e@h <kind> <arg> | emsg@h | elist@h     list element scalar / Message() / List()
//	end@h | build@h | vbuild                End()/Build()
func Program(n *Node) string {
	var sb strings.Builder
	ctr := 0
	switch n.Kind {
	case "msg":
		sb.WriteString("msg")
		ctr++
		body(&sb, n, 0, &ctr)
		sb.WriteString(";build@0")
	case "list":
		sb.WriteString("list")
		ctr++
		body(&sb, n, 0, &ctr)
		sb.WriteString(";build@0")
	case "struct":
		sb.WriteString("vany " + hx.Hex(EncStruct(n.Data)) + ";vbuild")
	default:
		sb.WriteString("v " + n.Kind + " " + scalarArg(n) + ";vbuild")
	}
	return sb.String()
}

// EncStruct is the pinned layout of a struct value: the field bytes (opaque without the schema),
// their size as a reverse compact varint, the type code 90. Kind "struct" carries such a value into
// a tree through Any (the writer has no struct API of its own; generated code writes structs raw).
func EncStruct(data []byte) []byte {
	out := append([]byte{}, data...)
	n := len(data)
	switch {
	case n <= 0xfc:
		out = append(out, byte(n))
	case n <= 0xffff:
		out = append(out, byte(n>>8), byte(n), 0xfd)
	default:
		out = append(out, byte(n>>24), byte(n>>16), byte(n>>8), byte(n), 0xfe)
	}
	return append(out, 90)
}

func body(sb *strings.Builder, n *Node, h int, ctr *int) {
	switch n.Kind {
	case "msg":
		for i, f := range n.Fields {
			tag := n.Tags[i]
			switch f.Kind {
			case "msg", "list":
				if f.Kind == "msg" {
					fmt.Fprintf(sb, ";fmsg@%d %d", h, tag)
				} else {
					fmt.Fprintf(sb, ";flist@%d %d", h, tag)
				}
				c := *ctr
				*ctr++
				body(sb, f, c, ctr)
				fmt.Fprintf(sb, ";end@%d", c)
			case "struct":
				fmt.Fprintf(sb, ";fany@%d %d %s", h, tag, hx.Hex(EncStruct(f.Data)))
			default:
				fmt.Fprintf(sb, ";f@%d %d %s %s", h, tag, f.Kind, scalarArg(f))
			}
		}
	case "list":
		for _, e := range n.Elems {
			switch e.Kind {
			case "msg", "list":
				if e.Kind == "msg" {
					fmt.Fprintf(sb, ";emsg@%d", h)
				} else {
					fmt.Fprintf(sb, ";elist@%d", h)
				}
				c := *ctr
				*ctr++
				body(sb, e, c, ctr)
				fmt.Fprintf(sb, ";end@%d", c)
			case "struct":
				fmt.Fprintf(sb, ";eany@%d %s", h, hx.Hex(EncStruct(e.Data)))
			default:
				fmt.Fprintf(sb, ";e@%d %s %s", h, e.Kind, scalarArg(e))
			}
		}
	}
}

func isNaN32(bits uint32) bool { return (bits>>23)&0xff == 0xff && bits&0x7fffff != 0 }
func isNaN64(bits uint64) bool { return (bits>>52)&0x7ff == 0x7ff && bits&0xfffffffffffff != 0 }

// Canon is the walk string the tree must read back as (fields sorted by tag); it is computed from
// the tree alone, independently of the library.
func Canon(n *Node) string {
	switch n.Kind {
	case "bool":
		if n.Bool {
			return "T"
		}
		return "F"
	case "struct":
		return fmt.Sprintf("S:%d", len(n.Data))
	case "byte":
		return fmt.Sprintf("by:%d", n.U)
	case "i16", "i32", "i64":
		return fmt.Sprintf("%s:%d", n.Kind, n.I)
	case "u16", "u32", "u64":
		return fmt.Sprintf("%s:%d", n.Kind, n.U)
	case "f32":
		if isNaN32(uint32(n.U)) {
			return "f32:nan"
		}
		return fmt.Sprintf("f32:%d", n.U)
	case "f64":
		if isNaN64(n.U) {
			return "f64:nan"
		}
		return fmt.Sprintf("f64:%d", n.U)
	case "bin64":
		return "b64:" + hx.Hex(n.Data)
	case "bin128":
		return "b128:" + hx.Hex(n.Data)
	case "bin256":
		return "b256:" + hx.Hex(n.Data)
	case "bytes":
		return "bs:" + hx.Hex(n.Data)
	case "str":
		return "s:" + hx.Hex(n.Data)
	case "list":
		var sb strings.Builder
		sb.WriteString("[")
		for _, e := range n.Elems {
			sb.WriteString(Canon(e))
			sb.WriteString(",")
		}
		sb.WriteString("]")
		return sb.String()
	case "msg":
		idx := make([]int, len(n.Tags))
		for i := range idx {
			idx[i] = i
		}
		// insertion sort by tag (tags are distinct)
		for i := 1; i < len(idx); i++ {
			for j := i; j > 0 && n.Tags[idx[j-1]] > n.Tags[idx[j]]; j-- {
				idx[j-1], idx[j] = idx[j], idx[j-1]
			}
		}
		var sb strings.Builder
		sb.WriteString("{")
		for _, i := range idx {
			fmt.Fprintf(&sb, "%d=%s,", n.Tags[i], Canon(n.Fields[i]))
		}
		sb.WriteString("}")
		return sb.String()
	}
	return "?"
}

// Nodes counts the nodes of a tree.
func Nodes(n *Node) int {
	c := 1
	for _, e := range n.Elems {
		c += Nodes(e)
	}
	for _, f := range n.Fields {
		c += Nodes(f)
	}
	return c
}
