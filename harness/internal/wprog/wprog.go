// Package wprog interprets writer programs (see tree.Program) against the real spec.Writer.
package wprog

import (
	"errors"
	"fmt"
	"math"
	"strconv"
	"strings"

	"github.com/basecomplextech/baselibrary/bin"
	"github.com/basecomplextech/baselibrary/buffer"
	"github.com/basecomplextech/spec"
	"verif/harness/internal/hx"
)

type handle struct {
	msg  *spec.MessageWriter // pointer: End/Build act on the variable
	list spec.ListWriter
	kind byte // 'M' or 'L'
}

// Result of running a program.
type Result struct {
	Tokens []string // one per call
	Bytes  []byte   // bytes of the last successful Build (a copy), nil if none
	Raw    []byte   // the slice Build returned (a view into the writer's buffer)
	Built  bool
}

type Interp struct {
	buf     buffer.Buffer
	w       spec.Writer
	handles []*handle
	errs    map[error]int
	res     Result
}

// New returns an interpreter writing into buf with an explicitly owned writer.
func New(buf buffer.Buffer) *Interp {
	return NewWith(buf, spec.NewWriterBuffer(buf))
}

func NewWith(buf buffer.Buffer, w spec.Writer) *Interp {
	return &Interp{buf: buf, w: w, errs: map[error]int{}}
}

func (it *Interp) errTok(idx int, err error) string {
	if err == nil {
		return "ok"
	}
	if err.Error() == "operation on closed writer" {
		return "ec"
	}
	k, ok := it.errs[err]
	if !ok {
		k = idx
		it.errs[err] = idx
	}
	return "e" + strconv.Itoa(k)
}

// Run executes all calls of the program.
func (it *Interp) Run(prog string) Result {
	calls := strings.Split(prog, ";")
	for i, c := range calls {
		it.res.Tokens = append(it.res.Tokens, it.call(i, c))
		// an error raised by a call that does not return it is attributed to that call
		func() {
			defer func() { recover() }()
			if err := it.w.Err(); err != nil {
				it.errTok(i, err)
			}
		}()
	}
	return it.res
}

func (it *Interp) call(idx int, c string) (tok string) {
	defer func() {
		if e := recover(); e != nil {
			tok = "p"
		}
	}()
	parts := strings.Split(c, " ")
	op := parts[0]
	args := parts[1:]
	var h *handle
	if i := strings.IndexByte(op, '@'); i >= 0 {
		k, err := strconv.Atoi(op[i+1:])
		if err != nil || k < 0 || k >= len(it.handles) {
			return "bad-op"
		}
		h = it.handles[k]
		op = op[:i]
	}
	needM := func() bool { return h != nil && h.kind == 'M' }
	needL := func() bool { return h != nil && h.kind == 'L' }
	newM := func(m spec.MessageWriter) {
		it.handles = append(it.handles, &handle{msg: &m, kind: 'M'})
	}
	newL := func(l spec.ListWriter) {
		it.handles = append(it.handles, &handle{list: l, kind: 'L'})
	}
	switch op {
	case "msg":
		newM(it.w.Message())
		return "ok"
	case "list":
		newL(it.w.List())
		return "ok"
	case "v":
		if len(args) != 2 {
			return "bad-op"
		}
		return it.errTok(idx, writeScalar(it.w.Value(), args[0], args[1]))
	case "vany":
		b, ok := hx.Unhex(args[0])
		if !ok {
			return "bad-op"
		}
		return it.errTok(idx, it.w.Value().Any(b))
	case "vbuild":
		b, err := it.w.Value().Build()
		return it.built(idx, b, err)
	case "f":
		if !needM() || len(args) != 3 {
			return "bad-op"
		}
		tag, _ := strconv.Atoi(args[0])
		return it.errTok(idx, writeField(h.msg.Field(uint16(tag)), args[1], args[2]))
	case "fw":
		// WriteField with a caller-supplied write function: it appends the bytes and succeeds ("ok")
		// or fails after appending them ("fail")
		if !needM() || len(args) != 3 {
			return "bad-op"
		}
		tag, _ := strconv.Atoi(args[0])
		b, ok := hx.Unhex(args[1])
		if !ok {
			return "bad-op"
		}
		return it.errTok(idx, spec.WriteField(h.msg.Field(uint16(tag)), b, rawWrite(args[2] == "fail", idx)))
	case "ew":
		// ValueListWriter.Add with such a function
		if !needL() || len(args) != 2 {
			return "bad-op"
		}
		b, ok := hx.Unhex(args[0])
		if !ok {
			return "bad-op"
		}
		return it.errTok(idx, spec.NewValueListWriter(h.list, rawWrite(args[1] == "fail", idx)).Add(b))
	case "fany":
		if !needM() || len(args) != 2 {
			return "bad-op"
		}
		tag, _ := strconv.Atoi(args[0])
		b, ok := hx.Unhex(args[1])
		if !ok {
			return "bad-op"
		}
		return it.errTok(idx, h.msg.Field(uint16(tag)).Any(b))
	case "fmsg":
		if !needM() {
			return "bad-op"
		}
		tag, _ := strconv.Atoi(args[0])
		newM(h.msg.Field(uint16(tag)).Message())
		return "ok"
	case "flist":
		if !needM() {
			return "bad-op"
		}
		tag, _ := strconv.Atoi(args[0])
		newL(h.msg.Field(uint16(tag)).List())
		return "ok"
	case "has":
		if !needM() {
			return "bad-op"
		}
		tag, _ := strconv.Atoi(args[0])
		return fmt.Sprint(h.msg.HasField(uint16(tag)))
	case "copy", "merge":
		if !needM() {
			return "bad-op"
		}
		b, ok := hx.Unhex(args[0])
		if !ok {
			return "bad-op"
		}
		src := spec.OpenMessage(b)
		if op == "copy" {
			return it.errTok(idx, h.msg.Copy(src))
		}
		return it.errTok(idx, h.msg.Merge(src))
	case "e":
		if !needL() || len(args) != 2 {
			return "bad-op"
		}
		return it.errTok(idx, writeElem(h.list, args[0], args[1]))
	case "eany":
		if !needL() {
			return "bad-op"
		}
		b, ok := hx.Unhex(args[0])
		if !ok {
			return "bad-op"
		}
		// a raw message goes through the typed list wrapper every other time: MessageListWriter.Copy
		// is documented as "adds a message copy to the list", i.e. Any(raw)
		if n := len(b); n > 0 && idx%2 == 0 && (spec.Type(b[n-1]) == spec.TypeMessage || spec.Type(b[n-1]) == spec.TypeBigMessage) {
			if m, err := spec.OpenMessageErr(b); err == nil && len(m.Raw()) == n {
				lw := spec.NewMessageListWriter(h.list, func(w spec.MessageWriter) spec.MessageWriter { return w })
				return it.errTok(idx, lw.Copy(rawMessage{m}))
			}
		}
		return it.errTok(idx, h.list.Any(b))
	case "emsg":
		if !needL() {
			return "bad-op"
		}
		newM(h.list.Message())
		return "ok"
	case "elist":
		if !needL() {
			return "bad-op"
		}
		newL(h.list.List())
		return "ok"
	case "len":
		if !needL() {
			return "bad-op"
		}
		return strconv.Itoa(h.list.Len())
	case "end":
		if h == nil {
			return "bad-op"
		}
		if h.kind == 'M' {
			return it.errTok(idx, h.msg.End())
		}
		return it.errTok(idx, h.list.End())
	case "build":
		if h == nil {
			return "bad-op"
		}
		if h.kind == 'M' {
			b, err := h.msg.Build()
			return it.built(idx, b, err)
		}
		b, err := h.list.Build()
		return it.built(idx, b, err)
	case "err":
		return it.errTok(idx, it.w.Err())
	case "reset":
		it.buf.Reset()
		it.w.Reset(it.buf)
		return "ok"
	case "free":
		it.w.Free()
		return "ok"
	}
	return "bad-op"
}

func (it *Interp) built(idx int, b []byte, err error) string {
	if err != nil {
		return it.errTok(idx, err)
	}
	it.res.Bytes = append([]byte(nil), b...)
	it.res.Raw = b
	it.res.Built = true
	return "ok:" + strconv.Itoa(len(b))
}

// rawMessage is a MessageType (what generated message types are) over a plain message.
type rawMessage struct{ m spec.Message }

func (r rawMessage) Unwrap() spec.Message { return r.m }

type scalarWriter interface {
	Bool(bool) error
	Byte(byte) error
	Int16(int16) error
	Int32(int32) error
	Int64(int64) error
	Uint16(uint16) error
	Uint32(uint32) error
	Uint64(uint64) error
	Float32(float32) error
	Float64(float64) error
	Bin64(bin.Bin64) error
	Bin128(bin.Bin128) error
	Bin256(bin.Bin256) error
	Bytes([]byte) error
	String(string) error
}

func writeScalar(w spec.ValueWriter, kind, arg string) error { return scalar(w, kind, arg) }
func writeField(w spec.FieldWriter, kind, arg string) error  { return scalar(w, kind, arg) }
func writeElem(w spec.ListWriter, kind, arg string) error    { return scalar(w, kind, arg) }

func scalar(w scalarWriter, kind, arg string) error {
	switch kind {
	case "bool":
		return w.Bool(arg == "true")
	case "byte":
		v, _ := strconv.ParseUint(arg, 10, 8)
		return w.Byte(byte(v))
	case "i16":
		v, _ := strconv.ParseInt(arg, 10, 16)
		return w.Int16(int16(v))
	case "i32":
		v, _ := strconv.ParseInt(arg, 10, 32)
		return w.Int32(int32(v))
	case "i64":
		v, _ := strconv.ParseInt(arg, 10, 64)
		return w.Int64(v)
	case "u16":
		v, _ := strconv.ParseUint(arg, 10, 16)
		return w.Uint16(uint16(v))
	case "u32":
		v, _ := strconv.ParseUint(arg, 10, 32)
		return w.Uint32(uint32(v))
	case "u64":
		v, _ := strconv.ParseUint(arg, 10, 64)
		return w.Uint64(v)
	case "f32":
		v, _ := strconv.ParseUint(arg, 10, 32)
		return w.Float32(math.Float32frombits(uint32(v)))
	case "f64":
		v, _ := strconv.ParseUint(arg, 10, 64)
		return w.Float64(math.Float64frombits(v))
	case "bin64":
		b, _ := hx.Unhex(arg)
		x, _ := bin.Parse64(b)
		return w.Bin64(x)
	case "bin128":
		b, _ := hx.Unhex(arg)
		x, _ := bin.Parse128(b)
		return w.Bin128(x)
	case "bin256":
		b, _ := hx.Unhex(arg)
		x, _ := bin.Parse256(b)
		return w.Bin256(x)
	case "bytes":
		b, _ := hx.Unhex(arg)
		return w.Bytes(b)
	case "str":
		b, _ := hx.Unhex(arg)
		return w.String(string(b))
	}
	panic("bad kind " + kind)
}

// rawWrite returns a write function which appends the given bytes and then succeeds or fails (with
// an error value of its own, so that the error of call idx is told apart from earlier ones).
func rawWrite(fail bool, idx int) func(b buffer.Buffer, v []byte) (int, error) {
	errWriteFunc := errors.New("write function failed at call " + strconv.Itoa(idx))
	return func(b buffer.Buffer, v []byte) (int, error) {
		p := b.Grow(len(v))
		copy(p, v)
		if fail {
			return 0, errWriteFunc
		}
		return len(v), nil
	}
}
