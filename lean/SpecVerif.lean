import SpecVerif.Basic
