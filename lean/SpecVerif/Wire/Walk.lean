/-
Canonical recursive read of a value through the accessors (`walk`), used by the differential check
(the Go harness prints the same string through the public API) and by the round-trip theorems.
-/
import SpecVerif.Wire.Types
namespace SpecVerif
open Pinned

def hexDigit (n : Nat) : Char :=
  if n < 10 then Char.ofNat (48 + n) else Char.ofNat (87 + n)

def hexOf (b : Bytes) : String :=
  if b.isEmpty then "-" else
  String.ofList (b.flatMap fun x => [hexDigit (x.toNat / 16), hexDigit (x.toNat % 16)])

def errName : Err → String
  | .data => "data" | .type => "type" | .overflow => "overflow"

def showRes {α} (f : α → String) : Res α → String
  | .ok a => "ok " ++ f a
  | .err e n => "err " ++ errName e ++ " " ++ toString n
  | .panic => "panic"

/-- NaN bit patterns are printed as "nan" (payloads are not compared). -/
def showF32 (bits : Nat) : String :=
  if (bits / 2^23) % 256 = 255 ∧ bits % 2^23 ≠ 0 then "nan" else toString bits
def showF64 (bits : Nat) : String :=
  if (bits / 2^52) % 2048 = 2047 ∧ bits % 2^52 ≠ 0 then "nan" else toString bits

def sc {α} (f : α → String) : Res (α × Nat) → String
  | .ok (a, _) => f a
  | .err e _ => "!" ++ errName e
  | .panic => "PANIC"

/-- are the tags of the table strictly increasing (a well-formed table)? -/
def tagsSorted (m : MsgV) : Nat → Nat → Option Nat → Bool
  | 0, _, _ => true
  | k+1, i, prev =>
    match m.tagAt i with
    | .ok (some t) =>
      (match prev with
       | some p => p < t && tagsSorted m k (i + 1) (some t)
       | none => tagsSorted m k (i + 1) (some t))
    | _ => false

/-- is `tag` one of the tags of the table? -/
def tagPresent (m : MsgV) (tag : Nat) : Nat → Nat → Bool
  | 0, _ => false
  | k+1, i =>
    match m.tagAt i with
    | .ok (some t) => t == tag || tagPresent m tag k (i + 1)
    | _ => tagPresent m tag k (i + 1)

/-- "!GHOST<tag>" when a tag that is not in the table is reported present or readable -/
def ghostProbe (m : MsgV) (tag : Nat) : String :=
  if tagPresent m tag m.fields 0 then "" else
  match m.hasField tag, m.field tag with
  | .ok false, .ok [] => ""
  | .panic, _ => "PANIC"
  | _, .panic => "PANIC"
  | _, _ => "!GHOST" ++ toString tag

mutual
def walk (F : FloatOps) : Nat → Bytes → String
  | 0, _ => "FUEL"
  | fuel+1, v =>
    if v.length = 0 then "nil" else
    let t := (decodeType v).1
    if t = tTrue then "T" else if t = tFalse then "F"
    else if t = tByte then "by:" ++ sc (fun (x : UInt8) => toString x.toNat) (decodeByte v)
    else if t = tInt16 then "i16:" ++ sc (fun (x : Int) => toString x) (decodeInt16 v)
    else if t = tInt32 then "i32:" ++ sc (fun (x : Int) => toString x) (decodeInt32 v)
    else if t = tInt64 then "i64:" ++ sc (fun (x : Int) => toString x) (decodeInt64 v)
    else if t = tUint16 then "u16:" ++ sc (fun (x : Nat) => toString x) (decodeUint16 v)
    else if t = tUint32 then "u32:" ++ sc (fun (x : Nat) => toString x) (decodeUint32 v)
    else if t = tUint64 then "u64:" ++ sc (fun (x : Nat) => toString x) (decodeUint64 v)
    else if t = tFloat32 then "f32:" ++ sc showF32 (decodeFloat32 F v)
    else if t = tFloat64 then "f64:" ++ sc showF64 (decodeFloat64 F v)
    else if t = tBin64 then "b64:" ++ sc hexOf (decodeBin64 v)
    else if t = tBin128 then "b128:" ++ sc hexOf (decodeBin128 v)
    else if t = tBin256 then "b256:" ++ sc hexOf (decodeBin256 v)
    else if t = tBytes then "bs:" ++ sc hexOf (decodeBytes v)
    else if t = tString then "s:" ++ sc hexOf (decodeString v)
    else if t = tStruct then "S:" ++ sc (fun (x : Nat) => toString x) (decodeStruct v)
    else if t = tList ∨ t = tBigList then
      match openListErr v with
      | .ok l => "[" ++ walkElems F fuel l l.len 0 ++ "]"
      | .err e _ => "!L" ++ errName e
      | .panic => "PANIC"
    else if t = tMessage ∨ t = tBigMessage then
      match openMessageErr v with
      | .ok m =>
        let sorted := tagsSorted m m.fields 0 none
        "{" ++ walkFields F fuel m sorted m.fields 0 ++ "}" ++
          (if sorted then
            ghostProbe m 0 ++ ghostProbe m 1 ++ ghostProbe m 255 ++ ghostProbe m 256 ++ ghostProbe m 65535
           else "")
      | .err e _ => "!M" ++ errName e
      | .panic => "PANIC"
    else "?" ++ toString t.toNat

def walkElems (F : FloatOps) (fuel : Nat) (l : ListV) : Nat → Nat → String
  | 0, _ => ""
  | k+1, i =>
    let e := match l.getBytes i with
      | .ok b => walk F fuel b
      | .err _ _ => "!E"
      | .panic => "PANIC"
    e ++ "," ++ walkElems F fuel l k (i + 1)

def walkFields (F : FloatOps) (fuel : Nat) (m : MsgV) (sorted : Bool) : Nat → Nat → String
  | 0, _ => ""
  | k+1, i =>
    let tg := match m.tagAt i with
      | .ok (some t) => toString t
      | .ok none => "none"
      | .err _ _ => "!T"
      | .panic => "PANIC"
    let f := match m.fieldAt i with
      | .ok b => walk F fuel b
      | .err _ _ => "!F"
      | .panic => "PANIC"
    -- a field of a table with strictly increasing tags must also be found by its tag
    let byTag := match m.tagAt i with
      | .ok (some t) =>
        if sorted then
          (match m.field t, m.fieldAt i, m.hasField t with
           | .ok a, .ok b, .ok h => if a == b && (h || b.isEmpty) then "" else "!TAGLOOKUP"
           | _, _, _ => "PANIC")
        else ""
      | _ => ""
    -- a tag that is not in the table must read as absent (probe the aliases t+256 and t+65280 of
    -- the first fields of small tables)
    let ghost := match m.tagAt i with
      | .ok (some t) =>
        if sorted && i < 8 && m.fields ≤ 64 then
          ghostProbe m (t + 256) ++ ghostProbe m ((t + 65280) % 65536)
        else ""
      | _ => ""
    tg ++ "=" ++ f ++ byTag ++ ghost ++ "," ++ walkFields F fuel m sorted k (i + 1)
end

end SpecVerif
