/-
Model of /repo/internal/decode (one function per Go decoder), as of the repaired tree.
Every decoder reads from the END of the slice it is given.  Sizes reported next to an error
follow Go's named results (bare `return`s keep the partially accumulated size).
-/
import SpecVerif.Pinned
import SpecVerif.Wire.Varint
namespace SpecVerif
open Pinned

/-- IEEE conversions and comparisons are parameters of the model (trusted base): the drivers
instantiate them with the platform's float operations, theorems state what they assume. Floats are
carried as bit patterns (`Nat`). -/
structure FloatOps where
  widen : Nat → Nat      -- bits of float64(float32frombits x)
  narrow : Nat → Nat     -- bits of float32(float64frombits x)
  isInf : Nat → Bool     -- math.IsInf(float64frombits x, 0)
  ltNegMax : Nat → Bool  -- float64frombits x < -math.MaxFloat32
  gtMax : Nat → Bool     -- float64frombits x >  math.MaxFloat32

/-- decodeType: `(type, 1)` or `(TypeUndefined, 0)` on empty input; it never reports n < 0. -/
def decodeType (b : Bytes) : UInt8 × Nat :=
  match b.getLast? with
  | none => (tUndefined, 0)
  | some t => (t, 1)

/-- decodeSize (repaired): a truncated varint (n = 0) is invalid. -/
def decodeSize (b : Bytes) : Nat × Int :=
  let (v, n) := revU32 b
  if n = 0 then (0, -1) else (v, n)

def decodeBool (b : Bytes) : Res (Bool × Nat) :=
  if b.length = 0 then .ok (false, 0) else
  let (t, n) := decodeType b
  .ok (t == tTrue, n)

def decodeByte (b : Bytes) : Res (UInt8 × Nat) :=
  if b.length = 0 then .ok (0, 0) else
  let (t, _) := decodeType b
  if t ≠ tByte then .err .type 0 else
  if b.length < 2 then .err .data 0 else
  .ok ((lastN 2 b).headD 0, 2)

-- Int

def decodeInt16 (b : Bytes) : Res (Int × Nat) :=
  if b.length = 0 then .ok (0, 0) else
  let (t, n) := decodeType b
  let v1 := dropLastN n b
  if t = tInt16 ∨ t = tInt32 then
    let (v, m) := revI32 v1
    if m ≤ 0 then .err .data 0 else
    if v < -32768 then .err .overflow 0 else
    if v > 32767 then .err .overflow 0 else
    .ok (v, n + m.toNat)
  else if t = tInt64 then
    let (v, m) := revI64 v1
    if m ≤ 0 then .err .data 0 else
    if v < -32768 then .err .overflow 0 else
    if v > 32767 then .err .overflow 0 else
    .ok (v, n + m.toNat)
  else .err .type 0

def decodeInt32 (b : Bytes) : Res (Int × Nat) :=
  if b.length = 0 then .ok (0, 0) else
  let (t, n) := decodeType b
  let v1 := dropLastN n b
  if t = tInt16 ∨ t = tInt32 then
    let (v, m) := revI32 v1
    if m ≤ 0 then .err .data 0 else
    .ok (v, n + m.toNat)
  else if t = tInt64 then
    let (v, m) := revI64 v1
    if m ≤ 0 then .err .data 0 else
    if v < -2147483648 then .err .overflow 0 else
    if v > 2147483647 then .err .overflow 0 else
    .ok (v, n + m.toNat)
  else .err .type 0

def decodeInt64 (b : Bytes) : Res (Int × Nat) :=
  if b.length = 0 then .ok (0, 0) else
  let (t, n) := decodeType b
  let v1 := dropLastN n b
  if t = tInt16 ∨ t = tInt32 then
    let (v, m) := revI32 v1
    if m ≤ 0 then .err .data 0 else
    .ok (v, n + m.toNat)
  else if t = tInt64 then
    let (v, m) := revI64 v1
    if m ≤ 0 then .err .data 0 else
    .ok (v, n + m.toNat)
  else .err .type 0

-- Uint

def decodeUint16 (b : Bytes) : Res (Nat × Nat) :=
  if b.length = 0 then .ok (0, 0) else
  let (t, n) := decodeType b
  let v1 := dropLastN n b
  if t = tUint16 ∨ t = tUint32 then
    let (v, m) := revU32 v1
    if m ≤ 0 then .err .data 0 else
    if v > 65535 then .err .overflow 0 else
    .ok (v, n + m.toNat)
  else if t = tUint64 then
    let (v, m) := revU64 v1
    if m ≤ 0 then .err .data 0 else
    if v > 65535 then .err .overflow 0 else
    .ok (v, n + m.toNat)
  else .err .type 0

def decodeUint32 (b : Bytes) : Res (Nat × Nat) :=
  if b.length = 0 then .ok (0, 0) else
  let (t, n) := decodeType b
  let v1 := dropLastN n b
  if t = tUint16 ∨ t = tUint32 then
    let (v, m) := revU32 v1
    if m ≤ 0 then .err .data 0 else
    .ok (v, n + m.toNat)
  else if t = tUint64 then
    let (v, m) := revU64 v1
    if m ≤ 0 then .err .data 0 else
    if v > 4294967295 then .err .overflow 0 else
    .ok (v, n + m.toNat)
  else .err .type 0

def decodeUint64 (b : Bytes) : Res (Nat × Nat) :=
  if b.length = 0 then .ok (0, 0) else
  let (t, n) := decodeType b
  let v1 := dropLastN n b
  if t = tUint16 ∨ t = tUint32 then
    let (v, m) := revU32 v1
    if m ≤ 0 then .err .data 0 else
    .ok (v, n + m.toNat)
  else if t = tUint64 then
    let (v, m) := revU64 v1
    if m ≤ 0 then .err .data 0 else
    .ok (v, n + m.toNat)
  else .err .type 0

-- Float

/-- decodeFloat64 (private): any float as float64 bits and the size, or `none` for n = -1. -/
def decodeFloat64' (F : FloatOps) (b : Bytes) : Option (Nat × Nat) :=
  let (t, _) := decodeType b
  if t = tFloat32 then
    if b.length < 5 then none else some (F.widen (be ((lastN 5 b).take 4)), 5)
  else if t = tFloat64 then
    if b.length < 9 then none else some (be ((lastN 9 b).take 8), 9)
  else none

def decodeFloat32 (F : FloatOps) (b : Bytes) : Res (Nat × Nat) :=
  if b.length = 0 then .ok (0, 0) else
  match decodeFloat64' F b with
  | none => .err .data 0
  | some (v, n) =>
    if F.isInf v then .ok (F.narrow v, n)
    else if F.ltNegMax v then .err .overflow 0
    else if F.gtMax v then .err .overflow 0
    else .ok (F.narrow v, n)

def decodeFloat64 (F : FloatOps) (b : Bytes) : Res (Nat × Nat) :=
  if b.length = 0 then .ok (0, 0) else
  match decodeFloat64' F b with
  | none => .err .data 0
  | some (v, n) => .ok (v, n)

-- Bin

/-- DecodeBin64/128/256 with `k` = 8/16/32 and the matching type code. -/
def decodeBin (k : Nat) (code : UInt8) (b : Bytes) : Res (Bytes × Nat) :=
  if b.length = 0 then .ok ([], 0) else
  let (t, n) := decodeType b
  if t ≠ code then .err .type 0 else
  if b.length < n + k then .err .data n else
  .ok ((lastN (n + k) b).take k, n + k)

def decodeBin64 := decodeBin 8 tBin64
def decodeBin128 := decodeBin 16 tBin128
def decodeBin256 := decodeBin 32 tBin256

-- Bytes / string

def decodeBytes (b : Bytes) : Res (Bytes × Nat) :=
  if b.length = 0 then .ok ([], 0) else
  let (t, n) := decodeType b
  if t ≠ tBytes then .err .type 0 else
  let e1 := b.length - n
  let (dataSize, m) := decodeSize (b.take e1)
  if m < 0 then .err .data n else
  let e2 := e1 - m.toNat
  if e2 < dataSize then .err .data 0 else
  .ok (((b.take e2).drop (e2 - dataSize)), n + m.toNat + dataSize)

def decodeString (b : Bytes) : Res (Bytes × Nat) :=
  if b.length = 0 then .ok ([], 0) else
  let (t, n) := decodeType b
  if t ≠ tString then .err .type 0 else
  let e1 := b.length - n
  let (dataSize, m) := decodeSize (b.take e1)
  if m < 0 then .err .data n else
  if e1 < m.toNat + 1 then .err .data 0 else
  let e2 := e1 - (m.toNat + 1)
  if e2 < dataSize then .err .data (n + m.toNat + 1) else
  .ok (((b.take e2).drop (e2 - dataSize)), n + m.toNat + 1 + dataSize)

-- Struct

/-- DecodeStruct: `(dataSize, size)`. -/
def decodeStruct (b : Bytes) : Res (Nat × Nat) :=
  if b.length = 0 then .ok (0, 0) else
  let (t, n) := decodeType b
  if t ≠ tStruct then .err .type 0 else
  let (dataSize, m) := decodeSize (b.take (b.length - n))
  if m < 0 then .err .data n else
  let size := n + m.toNat + dataSize
  if b.length < size then .err .data 0 else
  .ok (dataSize, size)

-- Tables

/-- format.ListTable / format.MessageTable: raw table bytes, data size, big flag. -/
structure Table where
  table : Bytes
  data : Nat
  big : Bool
  deriving Repr, DecidableEq

def Table.empty : Table := ⟨[], 0, false⟩

/-- Common body of DecodeListTable and DecodeMessageTable (`entry` = table entry size). -/
def decodeTable (small big : UInt8) (esSmall esBig : Nat) (b : Bytes) : Res (Table × Nat) :=
  if b.length = 0 then .ok (Table.empty, 0) else
  let (t, n) := decodeType b
  if t ≠ small ∧ t ≠ big then .err .type 0 else
  let isBig := t == big
  let e0 := b.length - n
  let (tableSize, m1) := decodeSize (b.take e0)
  if m1 < 0 then .err .data n else
  let e1 := e0 - m1.toNat
  let (dataSize, m2) := decodeSize (b.take e1)
  if m2 < 0 then .err .data (n + m1.toNat) else
  let e2 := e1 - m2.toNat
  let hdr := n + m1.toNat + m2.toNat
  let es := if isBig then esBig else esSmall
  -- decodeListTable / decodeMessageTable (private)
  if e2 < tableSize then .err .data hdr else
  if tableSize % es ≠ 0 then .err .data hdr else
  let table := (b.take e2).drop (e2 - tableSize)
  if e2 < tableSize + dataSize then .err .data (hdr + tableSize) else
  .ok (⟨table, dataSize, isBig⟩, hdr + tableSize + dataSize)

def decodeListTable := decodeTable tList tBigList listElemSmall listElemBig
def decodeMessageTable := decodeTable tMessage tBigMessage msgFieldSmall msgFieldBig

-- Type and size probe

def decodeTypeOnly (b : Bytes) : UInt8 × Nat := decodeType b

/-- DecodeTypeSize: all errors report `(0, 0)`. -/
def decodeTypeSize (b : Bytes) : Res (UInt8 × Nat) :=
  if b.length = 0 then .ok (tUndefined, 0) else
  let (t, n) := decodeType b
  let v := b.take (b.length - n)
  if t = tTrue ∨ t = tFalse then .ok (t, n)
  else if t = tByte then
    if v.length < 1 then .err .data 0 else .ok (t, n + 1)
  else if t = tInt16 ∨ t = tInt32 ∨ t = tInt64 ∨ t = tUint16 ∨ t = tUint32 ∨ t = tUint64 then
    let m := revSize v
    if m = 0 then .err .data 0 else .ok (t, n + m)
  else if t = tFloat32 then (if v.length < 4 then .err .data 0 else .ok (t, n + 4))
  else if t = tFloat64 then (if v.length < 8 then .err .data 0 else .ok (t, n + 8))
  else if t = tBin64 then (if v.length < 8 then .err .data 0 else .ok (t, n + 8))
  else if t = tBin128 then (if v.length < 16 then .err .data 0 else .ok (t, n + 16))
  else if t = tBin256 then (if v.length < 32 then .err .data 0 else .ok (t, n + 32))
  else if t = tBytes then
    let (dataSize, m) := decodeSize v
    if m < 0 then .err .data 0 else
    let size := n + m.toNat + dataSize
    if b.length < size then .err .data 0 else .ok (t, size)
  else if t = tString then
    let (dataSize, m) := decodeSize v
    if m < 0 then .err .data 0 else
    let size := n + m.toNat + dataSize + 1
    if b.length < size then .err .data 0 else .ok (t, size)
  else if t = tList ∨ t = tBigList ∨ t = tMessage ∨ t = tBigMessage then
    let (tableSize, m1) := decodeSize v
    if m1 < 0 then .err .data 0 else
    let (dataSize, m2) := decodeSize (v.take (v.length - m1.toNat))
    if m2 < 0 then .err .data 0 else
    let size := n + m1.toNat + tableSize + m2.toNat + dataSize
    if b.length < size then .err .data 0 else .ok (t, size)
  else if t = tStruct then
    let (dataSize, m) := decodeSize v
    if m < 0 then .err .data 0 else
    let size := n + m.toNat + dataSize
    if b.length < size then .err .data 0 else .ok (t, size)
  else .err .type 0

end SpecVerif
