/-
IEEE 754 binary32 <-> binary64 conversions and the comparisons DecodeFloat32 performs, on bit
patterns (Nat arithmetic only): `widen` = float64(float32), `narrow` = float32(float64) with
round-to-nearest-even, signalling NaNs quieted as the hardware conversions do. The drivers run the
decoders with these operations, so every float decode of the differential streams compares them with
Go's conversions on this platform.
-/
import SpecVerif.Wire.Decode
namespace SpecVerif.IEEE

/-- float64(float32frombits x) -/
def widen (x : Nat) : Nat :=
  let s := x / 2 ^ 31 % 2
  let e := x / 2 ^ 23 % 256
  let m := x % 2 ^ 23
  if e = 255 then
    s * 2 ^ 63 + 2047 * 2 ^ 52 + (if m = 0 then 0 else (if m < 2 ^ 22 then m + 2 ^ 22 else m) * 2 ^ 29)
  else if e = 0 then
    if m = 0 then s * 2 ^ 63
    else s * 2 ^ 63 + (Nat.log2 m + 874) * 2 ^ 52 + (m - 2 ^ Nat.log2 m) * 2 ^ (52 - Nat.log2 m)
  else s * 2 ^ 63 + (e + 896) * 2 ^ 52 + m * 2 ^ 29

/-- `sig / 2^shift` rounded to nearest, ties to even (`shift ≥ 1`) -/
def rne (sig shift : Nat) : Nat :=
  let q := sig / 2 ^ shift
  let r := sig % 2 ^ shift
  let half := 2 ^ (shift - 1)
  if r > half ∨ (r = half ∧ q % 2 = 1) then q + 1 else q

/-- float32(float64frombits y) -/
def narrow (y : Nat) : Nat :=
  let s := y / 2 ^ 63 % 2
  let e := y / 2 ^ 52 % 2048
  let m := y % 2 ^ 52
  if e = 2047 then
    s * 2 ^ 31 + 255 * 2 ^ 23 + (if m = 0 then 0 else (if m / 2 ^ 29 < 2 ^ 22 then m / 2 ^ 29 + 2 ^ 22 else m / 2 ^ 29))
  else if e = 0 then s * 2 ^ 31
  else
    let sig := 2 ^ 52 + m
    let mag := if e ≥ 897 then (e - 897) * 2 ^ 23 + rne sig 29 else rne sig (926 - e)
    s * 2 ^ 31 + (if mag ≥ 255 * 2 ^ 23 then 255 * 2 ^ 23 else mag)

def isNaN64 (y : Nat) : Bool := decide (y % 2 ^ 63 > 2047 * 2 ^ 52)
def isInf (y : Nat) : Bool := decide (y % 2 ^ 63 = 2047 * 2 ^ 52)
/-- bits of float64(math.MaxFloat32) -/
def maxF32 : Nat := 0x47EFFFFFE0000000
def gtMax (y : Nat) : Bool := decide (y / 2 ^ 63 % 2 = 0) && !isNaN64 y && decide (y % 2 ^ 63 > maxF32)
def ltNegMax (y : Nat) : Bool := decide (y / 2 ^ 63 % 2 = 1) && !isNaN64 y && decide (y % 2 ^ 63 > maxF32)

def ieee : FloatOps where
  widen := widen
  narrow := narrow
  isInf := isInf
  ltNegMax := ltNegMax
  gtMax := gtMax

end SpecVerif.IEEE
