/-
Model of baselibrary/encoding/compactint (reverse forms), including its quirks:
`(0, 0)` on empty/truncated input, `(0, -1)` on a 0xff marker for the 32-bit readers.
-/
import SpecVerif.Basic
namespace SpecVerif

/-- PutReverseUint32 (bytes appended; the varint is read from the end). -/
def putRevU32 (v : Nat) : Bytes :=
  if v ≤ 0xfc then [UInt8.ofNat v]
  else if v ≤ 0xffff then toBE 2 v ++ [0xfd]
  else toBE 4 v ++ [0xfe]

/-- PutReverseUint64 -/
def putRevU64 (v : Nat) : Bytes :=
  if v ≤ 0xfc then [UInt8.ofNat v]
  else if v ≤ 0xffff then toBE 2 v ++ [0xfd]
  else if v ≤ 0xffffffff then toBE 4 v ++ [0xfe]
  else toBE 8 v ++ [0xff]

/-- ReverseUint32 -/
def revU32 (b : Bytes) : Nat × Int :=
  match b.getLast? with
  | none => (0, 0)
  | some f =>
    if f = 0xfd then
      if b.length < 3 then (0, 0) else (be ((lastN 3 b).take 2), 3)
    else if f = 0xfe then
      if b.length < 5 then (0, 0) else (be ((lastN 5 b).take 4), 5)
    else if f = 0xff then (0, -1)
    else (f.toNat, 1)

/-- ReverseUint64 -/
def revU64 (b : Bytes) : Nat × Int :=
  match b.getLast? with
  | none => (0, 0)
  | some f =>
    if f = 0xfd then
      if b.length < 3 then (0, 0) else (be ((lastN 3 b).take 2), 3)
    else if f = 0xfe then
      if b.length < 5 then (0, 0) else (be ((lastN 5 b).take 4), 5)
    else if f = 0xff then
      if b.length < 9 then (0, 0) else (be ((lastN 9 b).take 8), 9)
    else (f.toNat, 1)

/-- ReverseSize -/
def revSize (b : Bytes) : Nat :=
  match b.getLast? with
  | none => 0
  | some f =>
    if f = 0xfd then (if b.length < 3 then 0 else 3)
    else if f = 0xfe then (if b.length < 5 then 0 else 5)
    else if f = 0xff then (if b.length < 9 then 0 else 9)
    else 1

/-- zig-zag: `ux := uint(x) << 1; if x < 0 { ux = ^ux }` on the range of the type. -/
def zigzag (v : Int) : Nat := if 0 ≤ v then (2 * v).toNat else (-2 * v - 1).toNat

/-- `x := int(ux >> 1); if ux&1 != 0 { x = ^x }` -/
def unzig (u : Nat) : Int := if u % 2 = 0 then (u / 2 : Nat) else -((u / 2 : Nat) : Int) - 1

def putRevI32 (v : Int) : Bytes := putRevU32 (zigzag v)
def putRevI64 (v : Int) : Bytes := putRevU64 (zigzag v)

/-- ReverseInt32: same reader as ReverseUint32 followed by the zig-zag inverse; the early returns
`(0, 0)` and `(0, -1)` are kept. -/
def revI32 (b : Bytes) : Int × Int :=
  let (u, n) := revU32 b
  if n ≤ 0 then (0, n) else (unzig u, n)

def revI64 (b : Bytes) : Int × Int :=
  let (u, n) := revU64 b
  if n ≤ 0 then (0, n) else (unzig u, n)

end SpecVerif
