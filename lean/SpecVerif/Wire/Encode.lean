/-
Model of /repo/internal/encode: the bytes each encoder appends (the pinned layout).
-/
import SpecVerif.Pinned
import SpecVerif.Wire.Varint
namespace SpecVerif
open Pinned

def encBool (v : Bool) : Bytes := [if v then tTrue else tFalse]
def encByte (v : UInt8) : Bytes := [v, tByte]
def encInt16 (v : Int) : Bytes := putRevI32 v ++ [tInt16]
def encInt32 (v : Int) : Bytes := putRevI32 v ++ [tInt32]
def encInt64 (v : Int) : Bytes := putRevI64 v ++ [tInt64]
def encUint16 (v : Nat) : Bytes := putRevU32 v ++ [tUint16]
def encUint32 (v : Nat) : Bytes := putRevU32 v ++ [tUint32]
def encUint64 (v : Nat) : Bytes := putRevU64 v ++ [tUint64]
def encFloat32 (bits : Nat) : Bytes := toBE 4 bits ++ [tFloat32]
def encFloat64 (bits : Nat) : Bytes := toBE 8 bits ++ [tFloat64]
def encBin64 (v : Bytes) : Bytes := v ++ [tBin64]
def encBin128 (v : Bytes) : Bytes := v ++ [tBin128]
def encBin256 (v : Bytes) : Bytes := v ++ [tBin256]
def encBytes (v : Bytes) : Bytes := v ++ putRevU32 v.length ++ [tBytes]
def encString (v : Bytes) : Bytes := v ++ [0] ++ putRevU32 v.length ++ [tString]
/-- EncodeStruct appends only the trailer; the field bytes were appended before. -/
def encStructTrailer (dataSize : Nat) : Bytes := putRevU32 dataSize ++ [tStruct]

/-! ### Containers, parametric in the already encoded children -/

/-- end offsets of consecutive chunks, starting at `acc` -/
def endOffsets : Nat → List Bytes → List Nat
  | _, [] => []
  | acc, e :: es => (acc + e.length) :: endOffsets (acc + e.length) es

/-- format.IsBigList on the end offsets -/
def isBigList (offs : List Nat) : Bool :=
  match offs.getLast? with
  | none => false
  | some last => offs.length > 255 || last > 65535

def encListTable (big : Bool) (offs : List Nat) : Bytes :=
  offs.flatMap fun o => toBE (if big then listElemBig else listElemSmall) o

/-- a list value from its encoded elements: data, table, data size, table size, type -/
def encList (es : List Bytes) : Bytes :=
  let data := es.flatten
  let offs := endOffsets 0 es
  let big := isBigList offs
  let table := encListTable big offs
  data ++ table ++ putRevU32 data.length ++ putRevU32 table.length ++ [if big then tBigList else tList]

/-- format.IsBigMessage on `(tag, offset)` entries -/
def isBigMessage (fs : List (Nat × Nat)) : Bool :=
  fs.any fun f => f.1 > 255 || f.2 > 65535

def encMsgTable (big : Bool) (fs : List (Nat × Nat)) : Bytes :=
  fs.flatMap fun f =>
    if big then toBE 2 f.1 ++ toBE 4 f.2 else toBE 1 f.1 ++ toBE 2 f.2

/-- messageStack.insert: append, then bubble left while the left tag is not smaller. -/
def insertField (f : Nat × Nat) : List (Nat × Nat) → List (Nat × Nat)
  | [] => [f]
  | g :: gs => if f.1 ≤ g.1 then f :: g :: gs else g :: insertField f gs

/-- table entries in the order the writer leaves them: inserted one by one in write order -/
def sortedEntries (fs : List (Nat × Nat)) : List (Nat × Nat) :=
  fs.foldl (fun acc f => insertField f acc) []

/-- a message value from `(tag, encoded field)` in write order -/
def encMsg (fs : List (Nat × Bytes)) : Bytes :=
  let data := (fs.map (·.2)).flatten
  let offs := endOffsets 0 (fs.map (·.2))
  let entries := sortedEntries ((fs.map (·.1)).zip offs)
  let big := isBigMessage entries
  let table := encMsgTable big entries
  data ++ table ++ putRevU32 data.length ++ putRevU32 table.length ++ [if big then tBigMessage else tMessage]

/-- a struct value from its encoded fields -/
def encStruct (fs : List Bytes) : Bytes :=
  fs.flatten ++ encStructTrailer fs.flatten.length

end SpecVerif
