/-
Model of /repo/internal/format (table access) and /repo/internal/types (Value, List, Message,
Open*/Parse*), as of the repaired tree.  Go `nil`/empty slices are the empty list.
-/
import SpecVerif.Wire.Decode
namespace SpecVerif
open Pinned

/-- `b[len(b)-n:]` — panics when `n > len(b)`. -/
def suffix (b : Bytes) (n : Nat) : Res Bytes :=
  if n > b.length then .panic else .ok (lastN n b)

/-- Big-endian read of `k` bytes at offset `off` of a table; `none` = out of bounds (a panic for the
safe readers, an out-of-bounds read for the unsafe binary search). -/
def readBE (t : Bytes) (off k : Nat) : Option Nat :=
  if off + k ≤ t.length then some (be ((t.drop off).take k)) else none

/-! ### format.ListTable -/

def Table.listLen (t : Table) : Nat :=
  t.table.length / (if t.big then listElemBig else listElemSmall)

/-- ListTable.Offset(i): `(start, end)`, or `none` for Go's `(-1, -1)` (index out of range). -/
def Table.listOffset (t : Table) (i : Nat) : Res (Option (Nat × Nat)) :=
  let es := if t.big then listElemBig else listElemSmall
  if i ≥ t.table.length / es then .ok none else
  let off := i * es
  let start : Res Nat :=
    if i > 0 then
      match readBE t.table (off - es) es with
      | some s => .ok s
      | none => .panic
    else .ok 0
  match start with
  | .panic => .panic
  | .err e n => .err e n
  | .ok s =>
    match readBE t.table off es with
    | some e => .ok (some (s, e))
    | none => .panic

/-! ### format.MessageTable -/

def Table.entrySize (t : Table) : Nat := if t.big then msgFieldBig else msgFieldSmall
def Table.tagSize (t : Table) : Nat := if t.big then 2 else 1

def Table.msgLen (t : Table) : Nat := t.table.length / t.entrySize

/-- The binary search of offset_small/offset_big.  `fuel` bounds the iterations; running out of
fuel is reported as `panic` so that the no-panic theorem also carries termination. -/
def bsearch (tb : Bytes) (es tw : Nat) (tag : Nat) : Nat → Int → Int → Res (Option Nat)
  | 0, _, _ => .panic
  | fuel+1, left, right =>
    if left > right then .ok none else
    let middle := ((left + right) / 2).toNat
    let off := middle * es
    match readBE tb off tw with
    | none => .panic
    | some cur =>
      if cur < tag then bsearch tb es tw tag fuel (middle + 1) right
      else if cur > tag then bsearch tb es tw tag fuel left (middle - 1)
      else
        match readBE tb (off + tw) (es - tw) with
        | none => .panic
        | some o => .ok (some o)

/-- MessageTable.Offset(tag): end offset or `none` for -1. -/
def Table.msgOffset (t : Table) (tag : Nat) : Res (Option Nat) :=
  if t.table.length < t.entrySize then .ok none else
  let n := t.table.length / t.entrySize
  bsearch t.table t.entrySize t.tagSize tag (n + 1) 0 ((n : Int) - 1)

/-- MessageTable.OffsetByIndex(i) -/
def Table.msgOffsetByIndex (t : Table) (i : Nat) : Res (Option Nat) :=
  if i ≥ t.msgLen then .ok none else
  match readBE t.table (i * t.entrySize + t.tagSize) (t.entrySize - t.tagSize) with
  | some o => .ok (some o)
  | none => .panic

/-- MessageTable.Field(i): `(tag, offset)` -/
def Table.msgFieldEntry (t : Table) (i : Nat) : Res (Option (Nat × Nat)) :=
  if i ≥ t.msgLen then .ok none else
  let off := i * t.entrySize
  match readBE t.table off t.tagSize, readBE t.table (off + t.tagSize) (t.entrySize - t.tagSize) with
  | some tg, some o => .ok (some (tg, o))
  | _, _ => .panic

/-! ### types.Value / List / Message -/

/-- OpenValue: the value at the end of `b`, or nil. -/
def openValue (b : Bytes) : Res Bytes :=
  match decodeTypeSize b with
  | .ok (_, n) => if b.length < n then .ok [] else suffix b n
  | .err _ _ => .ok []
  | .panic => .panic

structure ListV where
  table : Table
  bytes : Bytes
  deriving Repr

structure MsgV where
  table : Table
  bytes : Bytes
  deriving Repr

/-- decodeList (private) / OpenListErr -/
def openListErr (b : Bytes) : Res ListV :=
  match decodeListTable b with
  | .ok (t, n) => do let bs ← suffix b n; pure ⟨t, bs⟩
  | .err e _ => .err e 0
  | .panic => .panic

/-- OpenList: empty list on error. -/
def openList (b : Bytes) : Res ListV :=
  match openListErr b with
  | .err _ _ => .ok ⟨Table.empty, []⟩
  | r => r

def ListV.len (l : ListV) : Nat := l.table.listLen

/-- List.GetBytes(i) / List.Get(i); index out of range panics by contract. -/
def ListV.getBytes (l : ListV) (i : Nat) : Res Bytes :=
  match l.table.listOffset i with
  | .panic => .panic
  | .err e n => .err e n
  | .ok none => .panic
  | .ok (some (s, e)) =>
    if e > l.table.data ∨ s > e then .ok [] else
    match slice? l.bytes s e with
    | some v => .ok v
    | none => .panic

def openMessageErr (b : Bytes) : Res MsgV :=
  match decodeMessageTable b with
  | .ok (t, n) => do let bs ← suffix b n; pure ⟨t, bs⟩
  | .err e _ => .err e 0
  | .panic => .panic

def openMessage (b : Bytes) : Res MsgV :=
  match openMessageErr b with
  | .err _ _ => .ok ⟨Table.empty, []⟩
  | r => r

def MsgV.fields (m : MsgV) : Nat := m.table.msgLen

/-- Message.field(tag) (private) = FieldRaw: untruncated bytes ending at the field's end offset. -/
def MsgV.fieldRaw (m : MsgV) (tag : Nat) : Res Bytes :=
  match m.table.msgOffset tag with
  | .panic => .panic
  | .err e n => .err e n
  | .ok none => .ok []
  | .ok (some e) =>
    if e > m.table.data then .ok [] else
    match slice? m.bytes 0 e with
    | some v => .ok v
    | none => .panic

def MsgV.hasField (m : MsgV) (tag : Nat) : Res Bool :=
  match m.table.msgOffset tag with
  | .panic => .panic
  | .err e n => .err e n
  | .ok none => .ok false
  | .ok (some e) => .ok (e ≤ m.table.data)

/-- Message.fieldAt(i) (private) -/
def MsgV.fieldAtRaw (m : MsgV) (i : Nat) : Res Bytes :=
  match m.table.msgOffsetByIndex i with
  | .panic => .panic
  | .err e n => .err e n
  | .ok none => .ok []
  | .ok (some e) =>
    if e > m.table.data then .ok [] else
    match slice? m.bytes 0 e with
    | some v => .ok v
    | none => .panic

/-- Message.Field(tag) -/
def MsgV.field (m : MsgV) (tag : Nat) : Res Bytes := do
  let b ← m.fieldRaw tag
  if b.length = 0 then pure [] else openValue b

/-- Message.FieldAt(i) -/
def MsgV.fieldAt (m : MsgV) (i : Nat) : Res Bytes := do
  let b ← m.fieldAtRaw i
  if b.length = 0 then pure [] else openValue b

/-- Message.TagAt(i) -/
def MsgV.tagAt (m : MsgV) (i : Nat) : Res (Option Nat) := do
  let e ← m.table.msgFieldEntry i
  pure (e.map (·.1))

/-! ### ParseValue / ParseList / ParseMessage (mutually recursive; `fuel` ≥ input length) -/

/-- the final `b[len(b)-n:]` of ParseValue: a panic when the reported size exceeds the input -/
def guardSize (len : Nat) : Res Nat → Res Nat
  | .ok n => if n > len then .panic else .ok n
  | e => e

mutual
/-- ParseValue: the size; (the returned value is `b[len(b)-n:]`). -/
def parseValue (F : FloatOps) : Nat → Bytes → Res Nat
  | 0, _ => .panic
  | fuel+1, b =>
    let (t, n0) := decodeType b
    let r : Res Nat :=
      if t = tTrue ∨ t = tFalse then .ok n0
      else if t = tByte then (decodeByte b).bind fun x => .ok x.2
      else if t = tInt16 then (decodeInt16 b).bind fun x => .ok x.2
      else if t = tInt32 then (decodeInt32 b).bind fun x => .ok x.2
      else if t = tInt64 then (decodeInt64 b).bind fun x => .ok x.2
      else if t = tUint16 then (decodeUint16 b).bind fun x => .ok x.2
      else if t = tUint32 then (decodeUint32 b).bind fun x => .ok x.2
      else if t = tUint64 then (decodeUint64 b).bind fun x => .ok x.2
      else if t = tBin64 then (decodeBin64 b).bind fun x => .ok x.2
      else if t = tBin128 then (decodeBin128 b).bind fun x => .ok x.2
      else if t = tBin256 then (decodeBin256 b).bind fun x => .ok x.2
      else if t = tFloat32 then (decodeFloat32 F b).bind fun x => .ok x.2
      else if t = tFloat64 then (decodeFloat64 F b).bind fun x => .ok x.2
      else if t = tBytes then (decodeBytes b).bind fun x => .ok x.2
      else if t = tString then (decodeString b).bind fun x => .ok x.2
      else if t = tList ∨ t = tBigList then parseList F fuel b
      else if t = tMessage ∨ t = tBigMessage then parseMessage F fuel b
      else if t = tStruct then (decodeStruct b).bind fun x => .ok x.2
      else .err .type 0
    guardSize b.length r

/-- ParseList -/
def parseList (F : FloatOps) : Nat → Bytes → Res Nat
  | 0, _ => .panic
  | fuel+1, b =>
    match decodeListTable b with
    | .panic => .panic
    | .err e _ => .err e 0
    | .ok (t, size) =>
      match suffix b size with
      | .panic => .panic
      | .err e n => .err e n
      | .ok bytes =>
        let l : ListV := ⟨t, bytes⟩
        parseListElems F fuel l size l.len 0

/-- the element loop of ParseList, `i` counts up to `ln` (`k` = remaining iterations). -/
def parseListElems (F : FloatOps) (fuel : Nat) (l : ListV) (size : Nat) : Nat → Nat → Res Nat
  | 0, _ => .ok size
  | k+1, i =>
    match l.getBytes i with
    | .panic => .panic
    | .err e n => .err e n
    | .ok b1 =>
      if b1.length = 0 then parseListElems F fuel l size k (i + 1) else
      match parseValue F fuel b1 with
      | .ok _ => parseListElems F fuel l size k (i + 1)
      | .err e _ => .err e size
      | .panic => .panic

/-- ParseMessage -/
def parseMessage (F : FloatOps) : Nat → Bytes → Res Nat
  | 0, _ => .panic
  | fuel+1, b =>
    match decodeMessageTable b with
    | .panic => .panic
    | .err e _ => .err e 0
    | .ok (t, size) =>
      match suffix b size with
      | .panic => .panic
      | .err e n => .err e n
      | .ok bytes =>
        let m : MsgV := ⟨t, bytes⟩
        parseMsgFields F fuel m size m.fields 0

def parseMsgFields (F : FloatOps) (fuel : Nat) (m : MsgV) (size : Nat) : Nat → Nat → Res Nat
  | 0, _ => .ok size
  | k+1, i =>
    match m.fieldAtRaw i with
    | .panic => .panic
    | .err e n => .err e n
    | .ok b1 =>
      if b1.length = 0 then parseMsgFields F fuel m size k (i + 1) else
      match parseValue F fuel b1 with
      | .ok _ => parseMsgFields F fuel m size k (i + 1)
      | .err e _ => .err e size
      | .panic => .panic
end

end SpecVerif
