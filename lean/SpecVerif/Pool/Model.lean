/-
Model of an object pool as the library uses it (pools.Pool of writer states, writers, channel
states, channel handlers, rpc call states): `acquire` takes a recycled object or allocates one,
the owner mutates it, `release` resets it and puts it back. Objects are identified by numbers,
`dirty o` = the object holds data, errors, nesting state or counters of a use.
-/
namespace SpecVerif.Pool

structure State where
  free : List Nat              -- recycled objects
  owner : Nat → Option Nat     -- object → goroutine that holds it
  dirty : Nat → Bool
  next : Nat                   -- next fresh object id
  lastAcquired : Option Nat    -- ghost: the object returned by the last acquire

def init : State := { free := [], owner := fun _ => none, dirty := fun _ => false, next := 0, lastAcquired := none }

def upd {α} (f : Nat → α) (k : Nat) (v : α) : Nat → α := fun x => if x = k then v else f x

inductive Action
  | acquire (g : Nat)            -- goroutine g acquires an object
  | use (g o : Nat)              -- g writes into object o (allowed only for the owner)
  | release (g o : Nat)          -- g releases o: reset, then Put

def step (s : State) : Action → Option State
  | .acquire g =>
    match s.free with
    | o :: rest => some { s with free := rest, owner := upd s.owner o (some g), lastAcquired := some o }
    | [] => some { s with owner := upd s.owner s.next (some g), next := s.next + 1, lastAcquired := some s.next }
  | .use g o => if s.owner o = some g then some { s with dirty := upd s.dirty o true } else none
  | .release g o =>
    if s.owner o = some g then
      some { s with owner := upd s.owner o none, dirty := upd s.dirty o false, free := o :: s.free }
    else none

def run (s : State) : List Action → State
  | [] => s
  | a :: as => match step s a with
    | some s' => run s' as
    | none => run s as

end SpecVerif.Pool
