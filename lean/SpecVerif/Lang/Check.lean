/-
The rules of the schema language as the compiler (internal/lang/model) enforces them on the
repaired tree: `wfBundle` decides whether compiling the first package of a bundle succeeds.
It is written as the specification of the rules (uniqueness, ranges, resolution, kinds), not as a
transcription of the compiler's passes; the correspondence check compares its verdict with the
implementation on every generated, mutated and damaged schema.
-/
import SpecVerif.Lang.Parser
namespace SpecVerif.Lang

structure PFile where
  name : String
  file : File
  deriving Repr

structure Pkg where
  id : String
  files : List PFile        -- in file name order
  deriving Repr

abbrev Bundle := List Pkg

def builtinNames : List String :=
  ["bool", "byte", "int16", "int32", "int64", "uint16", "uint32", "uint64", "float32", "float64",
   "bin64", "bin128", "bin256", "bytes", "string"]

/-- what a type name resolves to -/
inductive RK
  | builtin
  | dynamic                  -- `any` and `message`: values of any type, not a value type of their own
  | enum
  | message
  | struct (pkg name : String)
  | service (sub : Bool)
  deriving DecidableEq, Repr

def Pkg.defs (p : Pkg) : List Def := (p.files.map fun f => f.file.defs).flatten

def Def.name : Def → String
  | .enum n _ => n
  | .message n _ => n
  | .struct n _ => n
  | .service _ n _ => n

def Def.rk (pkg : String) : Def → RK
  | .enum _ _ => .enum
  | .message _ _ => .message
  | .struct n _ => .struct pkg n
  | .service sub _ _ => .service sub

def Pkg.lookup (p : Pkg) (n : String) : Option RK :=
  (p.defs.find? fun d => d.name == n).map (Def.rk p.id)

def findPkg (b : Bundle) (id : String) : Option Pkg := b.find? fun p => p.id == id

/-- filepath.Base for the plain ids of the model's domain -/
def baseName (id : String) : String := (id.splitOn "/").getLast!

/-- the name under which a file refers to an import -/
def Import.name (i : Import) : String := if i.alias = "" then baseName i.id else i.alias

/-- resolution of a base type inside file `f` of package `p` -/
def resolveBase (b : Bundle) (p : Pkg) (f : File) : BaseT → Option RK
  | .any => some .dynamic
  | .anyMessage => some .dynamic
  | .name n => if n ∈ builtinNames then some .builtin else p.lookup n
  | .ref i n =>
    match f.imports.find? fun im => im.name == i with
    | none => none
    | some im => (findPkg b im.id).bind fun q => q.lookup n

def nodup [DecidableEq α] (xs : List α) : Bool := decide xs.Nodup

def tyBase : Ty → BaseT
  | .base x => x
  | .list x => x

/-- a field or element type: resolves, and not to a service -/
def typeOKb (b : Bundle) (p : Pkg) (f : File) (t : Ty) : Bool :=
  match resolveBase b p f (tyBase t) with
  | none => false
  | some (.service _) => false
  | some _ => true

/-- message fields and method field lists -/
def fieldsOK (b : Bundle) (p : Pkg) (f : File) (fs : List Field) : Bool :=
  nodup (fs.map (·.name)) && nodup (fs.map (·.tag)) &&
  fs.all fun fd => decide (1 ≤ fd.tag) && decide (fd.tag ≤ 65535) && typeOKb b p f fd.ty

def enumOK (vs : List EnumValue) : Bool :=
  nodup (vs.map (·.name)) && nodup (vs.map (·.value)) &&
  vs.any (fun v => v.value == 0) && vs.all fun v => decide (v.value ≤ 2147483647)

/-- the struct definition a resolved kind names -/
def findStruct (b : Bundle) (pkg name : String) : Option (Pkg × File × List SField) :=
  (findPkg b pkg).bind fun p =>
    (p.files.findSome? fun pf =>
      pf.file.defs.findSome? fun d =>
        match d with
        | .struct n fs => if n == name then some (p, pf.file, fs) else none
        | _ => none)

/-- does the struct (pkg, name) reach the struct `target` through its fields? -/
def structReaches (b : Bundle) (target : String × String) : Nat → String × String → Bool
  | 0, _ => true     -- out of fuel: treated as a cycle (never happens with fuel > number of structs)
  | fuel + 1, (pkg, name) =>
    match findStruct b pkg name with
    | none => false
    | some (p, f, fs) =>
      fs.any fun sf =>
        match sf.ty with
        | .list _ => false
        | .base t =>
          match resolveBase b p f t with
          | some (.struct q n) => (q, n) == target || structReaches b target fuel (q, n)
          | _ => false

def structCount (b : Bundle) : Nat :=
  (b.map fun p => (p.defs.filter fun d => match d with | .struct _ _ => true | _ => false).length).sum

/-- a struct field type: a builtin, an enum or a struct, never a list -/
def valueTypeOK (b : Bundle) (p : Pkg) (f : File) : Ty → Bool
  | .list _ => false
  | .base t =>
    match resolveBase b p f t with
    | some .builtin | some .enum | some (.struct _ _) => true
    | _ => false

def structOK (b : Bundle) (p : Pkg) (f : File) (name : String) (fs : List SField) : Bool :=
  nodup (fs.map (·.name)) &&
  (fs.all fun sf => valueTypeOK b p f sf.ty) &&
  !structReaches b (p.id, name) (structCount b + 1) (p.id, name)

def isMessage (b : Bundle) (p : Pkg) (f : File) : Ty → Bool
  | .base t => resolveBase b p f t == some .message
  | .list _ => false

/-- channel types are messages -/
def chanOK (b : Bundle) (p : Pkg) (f : File) : MChan → Bool
  | .in_ t => isMessage b p f t
  | .out t => isMessage b p f t
  | .both i o => isMessage b p f i && isMessage b p f o

def methodOK (b : Bundle) (p : Pkg) (f : File) (m : Method) : Bool :=
  (match m.input with
   | .type t => resolveBase b p f t == some .message
   | .fields fs => fieldsOK b p f fs) &&
  (match m.tail with
   | .none => true
   | .oneway => true
   | .out (.type t) => resolveBase b p f t == some .message || resolveBase b p f t == some (.service true)
   | .out (.fields fs) => fieldsOK b p f fs
   | .chan c o =>
     chanOK b p f c &&
     (match o with
      | none => true
      | some (.type t) => resolveBase b p f t == some .message     -- a channel method cannot return a subservice
      | some (.fields fs) => fieldsOK b p f fs))

/-- names of the request/response messages the compiler generates for a method with field lists -/
def upperCamel (s : String) : String :=
  let parts := s.splitOn "_"
  let cap (w : String) : String :=
    match w.toLower.toList with
    | [] => ""
    | c :: cs => String.ofList (c.toUpper :: cs)
  let s1 := String.join (parts.map cap)
  (if s.startsWith "_" then "_" else "") ++ s1 ++ (if s.endsWith "_" then "_" else "")

def generatedNames (svc : String) (m : Method) : List String :=
  (match m.input with
   | .fields (_ :: _) => [svc ++ upperCamel m.name ++ "Request"]
   | _ => []) ++
  (match m.tail with
   | .out (.fields (_ :: _)) => [svc ++ upperCamel m.name ++ "Response"]
   | .chan _ (some (.fields (_ :: _))) => [svc ++ upperCamel m.name ++ "Response"]
   | _ => [])

def defOK (b : Bundle) (p : Pkg) (f : File) : Def → Bool
  | .enum _ vs => enumOK vs
  | .message _ fs => fieldsOK b p f fs
  | .struct n fs => structOK b p f n fs
  | .service _ _ ms => nodup (ms.map (·.name)) && ms.all (methodOK b p f)

/-- is the import `im` of file `f` used by a type of the file? -/
def baseTs : Ty → List BaseT
  | .base t => [t]
  | .list t => [t]

def Def.baseTypes : Def → List BaseT
  | .enum _ _ => []
  | .message _ fs => (fs.map fun fd => baseTs fd.ty).flatten
  | .struct _ fs => (fs.map fun sf => baseTs sf.ty).flatten
  | .service _ _ ms =>
    (ms.map fun m =>
      (match m.input with
       | .type t => [t]
       | .fields fs => (fs.map fun fd => baseTs fd.ty).flatten) ++
      (match m.tail with
       | .none | .oneway => []
       | .out (.type t) => [t]
       | .out (.fields fs) => (fs.map fun fd => baseTs fd.ty).flatten
       | .chan c o =>
         (match c with
          | .in_ t => baseTs t
          | .out t => baseTs t
          | .both i o => baseTs i ++ baseTs o) ++
         (match o with
          | none => []
          | some (.type t) => [t]
          | some (.fields fs) => (fs.map fun fd => baseTs fd.ty).flatten))).flatten

def importUsed (f : File) (im : Import) : Bool :=
  f.defs.any fun d => d.baseTypes.any fun t =>
    match t with
    | .ref i _ => i == im.name
    | _ => false

def fileOK (b : Bundle) (p : Pkg) (f : File) : Bool :=
  nodup (f.imports.map Import.name) && f.imports.all (fun im => im.name != "") &&
  nodup (f.options.map (·.name)) &&
  f.defs.all (defOK b p f) && f.imports.all (importUsed f)

/-- all generated request/response names of a package, with their file -/
def Pkg.generated (p : Pkg) : List String :=
  (p.files.map fun pf =>
    (pf.file.defs.map fun d =>
      match d with
      | .service _ n ms => (ms.map (generatedNames n)).flatten
      | _ => []).flatten).flatten

/-- the package itself, given that every import is available -/
def pkgLocalOK (b : Bundle) (p : Pkg) : Bool :=
  !p.files.isEmpty &&
  nodup ((p.files.map fun pf => pf.file.options.map (·.name)).flatten) &&
  nodup (p.defs.map Def.name ++ p.generated) &&
  p.files.all fun pf => fileOK b p pf.file

/-- compile package `id`: found, not circular, imports compile, rules hold (`stack`: packages being
compiled) -/
def pkgOK (b : Bundle) : Nat → List String → String → Bool
  | 0, _, _ => false
  | fuel + 1, stack, id =>
    if id ∈ stack then false else
    match findPkg b id with
    | none => false
    | some p =>
      (p.files.all fun pf => pf.file.imports.all fun im => pkgOK b fuel (id :: stack) im.id) &&
      pkgLocalOK b p

/-- does compiling the first package of the bundle succeed? -/
def wfBundle (b : Bundle) : Bool :=
  match b with
  | [] => false
  | p :: _ => pkgOK b (b.length + 1) [] p.id

end SpecVerif.Lang
