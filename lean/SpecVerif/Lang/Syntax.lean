/-
Tokens and syntax trees of the schema language (internal/lang/parser/grammar.y, lexer.go,
internal/lang/syntax/*.go), the canonical token printer and the canonical dump that is compared
with the implementation (`verifhooks.DumpFile`).
-/
namespace SpecVerif.Lang

/-- keywords.go -/
inductive Kw
  | any | enum | import_ | message | oneway | options | struct | service | subservice
  deriving DecidableEq, Repr

def Kw.text : Kw → String
  | .any => "any" | .enum => "enum" | .import_ => "import" | .message => "message"
  | .oneway => "oneway" | .options => "options" | .struct => "struct" | .service => "service"
  | .subservice => "subservice"

/-- the entry of keywords.go for the keyword: text=TOKEN -/
def Kw.entry : Kw → String
  | .any => "any=ANY" | .enum => "enum=ENUM" | .import_ => "import=IMPORT" | .message => "message=MESSAGE"
  | .oneway => "oneway=ONEWAY" | .options => "options=OPTIONS" | .struct => "struct=STRUCT"
  | .service => "service=SERVICE" | .subservice => "subservice=SUBSERVICE"

/-- the production of grammar.y that makes the keyword usable as a name -/
def Kw.nameRule : Kw → String
  | .any => "keyword -> ANY" | .enum => "keyword -> ENUM" | .import_ => "keyword -> IMPORT"
  | .message => "keyword -> MESSAGE" | .oneway => "keyword -> ONEWAY" | .options => "keyword -> OPTIONS"
  | .struct => "keyword -> STRUCT" | .service => "keyword -> SERVICE" | .subservice => "keyword -> SUBSERVICE"

def Kw.all : List Kw := [.any, .enum, .import_, .message, .oneway, .options, .struct, .service, .subservice]

/-- the `keyword` nonterminal: keywords usable as field / method / enum value names -/
def Kw.isName : Kw → Bool
  | .enum | .oneway => false
  | _ => true

def kwOf (s : String) : Option Kw := Kw.all.find? (fun k => k.text == s)

inductive Tok
  | ident (s : String)
  | kw (k : Kw)
  | int (n : Nat)
  | str (s : String)        -- content between the quotes
  | p (c : Char)            -- any other single character
  deriving DecidableEq, Repr

/-! ### syntax tree -/

/-- base_type -/
inductive BaseT
  | name (n : String)               -- IDENT: builtin kind by name, else a local reference
  | ref (imp n : String)            -- IDENT '.' IDENT
  | any
  | anyMessage
  deriving DecidableEq, Repr

inductive Ty
  | base (b : BaseT)
  | list (b : BaseT)
  deriving DecidableEq, Repr

structure Field where
  name : String
  ty : Ty
  tag : Nat
  deriving DecidableEq, Repr

structure EnumValue where
  name : String
  value : Nat
  deriving DecidableEq, Repr

structure SField where
  name : String
  ty : Ty
  deriving DecidableEq, Repr

inductive MInput
  | type (b : BaseT)
  | fields (fs : List Field)
  deriving DecidableEq, Repr

inductive MOutput
  | type (b : BaseT)
  | fields (fs : List Field)
  deriving DecidableEq, Repr

/-- method_channel: (<-In), (Out->) or (<-In, Out->) -/
inductive MChan
  | in_ (t : Ty)
  | out (t : Ty)
  | both (i o : Ty)
  deriving DecidableEq, Repr

/-- what follows the input of a method -/
inductive MTail
  | none
  | oneway
  | out (o : MOutput)
  | chan (c : MChan) (o : Option MOutput)
  deriving DecidableEq, Repr

structure Method where
  name : String
  input : MInput
  tail : MTail
  deriving DecidableEq, Repr

inductive Def
  | enum (name : String) (values : List EnumValue)
  | message (name : String) (fields : List Field)
  | struct (name : String) (fields : List SField)
  | service (sub : Bool) (name : String) (methods : List Method)
  deriving DecidableEq, Repr

structure Import where
  alias : String          -- "" = none
  id : String
  deriving DecidableEq, Repr

structure Opt where
  name : String
  value : String
  deriving DecidableEq, Repr

structure File where
  imports : List Import
  options : List Opt
  defs : List Def
  deriving DecidableEq, Repr

/-! ### canonical token printer -/

/-- a field/method/value name: the keyword token when the name is one of the contextual keywords -/
def nameTok (s : String) : Tok :=
  match kwOf s with
  | some k => .kw k
  | none => .ident s

def BaseT.toks : BaseT → List Tok
  | .name n => [.ident n]
  | .ref i n => [.ident i, .p '.', .ident n]
  | .any => [.kw .any]
  | .anyMessage => [.kw .message]

def Ty.toks : Ty → List Tok
  | .base b => b.toks
  | .list b => [.p '[', .p ']'] ++ b.toks

def Field.toks (f : Field) : List Tok := [nameTok f.name] ++ f.ty.toks ++ [.int f.tag]

/-- elements separated by `sep` (no trailing separator) -/
def sepToks (sep : Tok) : List (List Tok) → List Tok
  | [] => []
  | [x] => x
  | x :: xs => x ++ [sep] ++ sepToks sep xs

def fieldsToks (sep : Char) (fs : List Field) : List Tok := sepToks (.p sep) (fs.map Field.toks)

def EnumValue.toks (v : EnumValue) : List Tok := [nameTok v.name, .p '=', .int v.value, .p ';']

def SField.toks (f : SField) : List Tok := [nameTok f.name] ++ f.ty.toks ++ [.p ';']

def MInput.toks : MInput → List Tok
  | .type b => [.p '('] ++ b.toks ++ [.p ')']
  | .fields fs => [.p '('] ++ fieldsToks ',' fs ++ [.p ')']

def MOutput.toks : MOutput → List Tok
  | .type b => b.toks
  | .fields fs => [.p '('] ++ fieldsToks ',' fs ++ [.p ')']

def chanIn (t : Ty) : List Tok := [.p '<', .p '-'] ++ t.toks
def chanOut (t : Ty) : List Tok := t.toks ++ [.p '-', .p '>']

def MChan.toks : MChan → List Tok
  | .in_ t => [.p '('] ++ chanIn t ++ [.p ')']
  | .out t => [.p '('] ++ chanOut t ++ [.p ')']
  | .both i o => [.p '('] ++ chanIn i ++ [.p ','] ++ chanOut o ++ [.p ')']

def MTail.toks : MTail → List Tok
  | .none => []
  | .oneway => [.kw .oneway]
  | .out o => o.toks
  | .chan c Option.none => c.toks
  | .chan c (Option.some o) => c.toks ++ o.toks

def Method.toks (m : Method) : List Tok := [nameTok m.name] ++ m.input.toks ++ m.tail.toks ++ [.p ';']

def Def.toks : Def → List Tok
  | .enum n vs => [.kw .enum, .ident n, .p '{'] ++ (vs.map EnumValue.toks).flatten ++ [.p '}']
  | .message n fs => [.kw .message, .ident n, .p '{'] ++ fieldsToks ';' fs ++ [.p '}']
  | .struct n fs => [.kw .struct, .ident n, .p '{'] ++ (fs.map SField.toks).flatten ++ [.p '}']
  | .service sub n ms =>
    [.kw (if sub then .subservice else .service), .ident n, .p '{'] ++ (ms.map Method.toks).flatten ++ [.p '}']

def Import.toks (i : Import) : List Tok :=
  if i.alias = "" then [.str i.id] else [.ident i.alias, .str i.id]

def Opt.toks (o : Opt) : List Tok := [.ident o.name, .p '=', .str o.value]

def File.toks (f : File) : List Tok :=
  (if f.imports.isEmpty then [] else [.kw .import_, .p '('] ++ (f.imports.map Import.toks).flatten ++ [.p ')']) ++
  (if f.options.isEmpty then [] else [.kw .options, .p '('] ++ (f.options.map Opt.toks).flatten ++ [.p ')']) ++
  (f.defs.map Def.toks).flatten

/-! ### canonical dump (same text as verifhooks.DumpFile) -/

/-- syntax.GetKind followed by Kind.String -/
def kindName (n : String) : String :=
  if n ∈ ["any", "bool", "byte", "int16", "int32", "int64", "uint16", "uint32", "uint64", "float32",
          "float64", "bin64", "bin128", "bin256", "bytes", "string", "message"] then n else "ref"

def quote (s : String) : String := "\"" ++ s ++ "\""

def BaseT.dump : BaseT → String
  | .name n => "(t " ++ kindName n ++ " " ++ n ++ " " ++ quote "" ++ ")"
  | .ref i n => "(t ref " ++ n ++ " " ++ quote i ++ ")"
  | .any => "(t any any " ++ quote "" ++ ")"
  | .anyMessage => "(t message message " ++ quote "" ++ ")"

def Ty.dump : Ty → String
  | .base b => b.dump
  | .list b => "(list " ++ b.dump ++ ")"

def Field.dump (f : Field) : String := " (field " ++ f.name ++ " " ++ f.ty.dump ++ " " ++ toString f.tag ++ ")"

def fieldsDump (fs : List Field) : String := String.join (fs.map Field.dump)

def MInput.dump : MInput → String
  | .type b => "(in-type " ++ b.dump ++ ")"
  | .fields fs => "(in-fields" ++ fieldsDump fs ++ ")"

def MOutput.dump : MOutput → String
  | .type b => "(out-type " ++ b.dump ++ ")"
  | .fields fs => "(out-fields" ++ fieldsDump fs ++ ")"

def MChan.dump : MChan → String
  | .in_ t => "(chan " ++ t.dump ++ " nil)"
  | .out t => "(chan nil " ++ t.dump ++ ")"
  | .both i o => "(chan " ++ i.dump ++ " " ++ o.dump ++ ")"

def Method.dump (m : Method) : String :=
  let (out, ch, ow) : String × String × String := match m.tail with
    | .none => ("(out-none)", "(chan-none)", "false")
    | .oneway => ("(out-none)", "(chan-none)", "true")
    | .out o => (o.dump, "(chan-none)", "false")
    | .chan c none => ("(out-none)", c.dump, "false")
    | .chan c (some o) => (o.dump, c.dump, "false")
  " (method " ++ m.name ++ " " ++ m.input.dump ++ " " ++ out ++ " " ++ ch ++ " " ++ ow ++ ")"

def Def.dump : Def → String
  | .enum n vs => "(enum " ++ n ++ String.join (vs.map fun v => " (val " ++ v.name ++ " " ++ toString v.value ++ ")") ++ ")"
  | .message n fs => "(message " ++ n ++ fieldsDump fs ++ ")"
  | .struct n fs => "(struct " ++ n ++ String.join (fs.map fun f => " (sfield " ++ f.name ++ " " ++ f.ty.dump ++ ")") ++ ")"
  | .service sub n ms => "(" ++ (if sub then "subservice" else "service") ++ " " ++ n ++ String.join (ms.map Method.dump) ++ ")"

def File.dump (f : File) : String :=
  "(file (imports" ++ String.join (f.imports.map fun i => " (import " ++ quote i.alias ++ " " ++ quote i.id ++ ")") ++
  ") (options" ++ String.join (f.options.map fun o => " (opt " ++ o.name ++ " " ++ quote o.value ++ ")") ++
  ") (defs" ++ String.join (f.defs.map fun d => " " ++ d.dump) ++ "))"

end SpecVerif.Lang
