/-
Reference parser of the schema language on token lists: one function per nonterminal of
internal/lang/parser/grammar.y (the productions whose action reports an error, e.g. `type '<' '-'`,
are simply absent: such inputs are rejected). The grammar is LALR(1) without conflicts (checked on
every run by regenerating grammar.go with goyacc), so the generated parser accepts exactly the
language of the grammar, which is what these functions decide.
Loops take a fuel argument; `parseFile` supplies more fuel than there are tokens.
-/
import SpecVerif.Lang.Syntax
namespace SpecVerif.Lang

abbrev P (α : Type) := List Tok → Option (α × List Tok)

/-- zero or more `p`, as long as `p` succeeds -/
def many {α : Type} (p : P α) : Nat → P (List α)
  | 0, _ => none
  | fuel + 1, ts =>
    match p ts with
    | some (x, r) => (many p fuel r).map fun (xs, r') => (x :: xs, r')
    | none => some ([], ts)

/-- field_name: IDENT | keyword -/
def fieldName : P String
  | .ident s :: r => some (s, r)
  | .kw k :: r => if k.isName then some (k.text, r) else none
  | _ => none

/-- base_type -/
def baseType : P BaseT
  | .ident a :: .p '.' :: .ident b :: r => some (.ref a b, r)
  | .ident a :: r => some (.name a, r)
  | .kw .any :: r => some (.any, r)
  | .kw .message :: r => some (.anyMessage, r)
  | _ => none

/-- type: base_type | '[' ']' base_type -/
def type_ : P Ty
  | .p '[' :: .p ']' :: r => (baseType r).map fun (b, r') => (.list b, r')
  | r => (baseType r).map fun (b, r') => (.base b, r')

def int_ : P Nat
  | .int n :: r => some (n, r)
  | _ => none

/-- field / method_field: field_name type INTEGER -/
def field : P Field := fun ts =>
  match fieldName ts with
  | none => none
  | some (n, r) =>
    match type_ r with
    | none => none
    | some (t, r) =>
      match int_ r with
      | none => none
      | some (g, r) => some (⟨n, t, g⟩, r)

/-- the part of `fields` / `method_fields` after the first element: (sep field)* (sep)? -/
def fieldsRest (sep : Char) : Nat → P (List Field)
  | 0, _ => none
  | fuel + 1, .p c :: r =>
    if c = sep then
      match field r with
      | some (x, r') => (fieldsRest sep fuel r').map fun (xs, r'') => (x :: xs, r'')
      | none => some ([], r)                 -- semi_opt / comma_opt
    else some ([], .p c :: r)
  | _ + 1, r => some ([], r)

/-- fields semi_opt / method_field_list: (field)? (sep field)* (sep)? -/
def fields (sep : Char) (fuel : Nat) : P (List Field) := fun ts =>
  match field ts with
  | some (x, r) => (fieldsRest sep fuel r).map fun (xs, r') => (x :: xs, r')
  | none => fieldsRest sep fuel ts

/-- enum_value: field_name '=' INTEGER ';' -/
def enumValue : P EnumValue := fun ts =>
  match fieldName ts with
  | some (n, .p '=' :: .int v :: .p ';' :: r) => some (⟨n, v⟩, r)
  | _ => none

/-- struct_field: field_name type ';' -/
def sfield : P SField := fun ts =>
  match fieldName ts with
  | none => none
  | some (n, r) =>
    match type_ r with
    | some (t, .p ';' :: r') => some (⟨n, t⟩, r')
    | _ => none

/-- method_input -/
def mInput (fuel : Nat) : P MInput
  | .p '(' :: r =>
    match baseType r with
    | some (b, .p ')' :: r') => some (.type b, r')
    | _ =>
      match fields ',' fuel r with
      | some (fs, .p ')' :: r') => some (.fields fs, r')
      | _ => none
  | _ => none

/-- method_output -/
def mOutput (fuel : Nat) : P MOutput
  | .p '(' :: r =>
    match fields ',' fuel r with
    | some (fs, .p ')' :: r') => some (.fields fs, r')
    | _ => none
  | r => (baseType r).map fun (b, r') => (.type b, r')

/-- method_channel_in: '<' '-' type -/
def chanInP : P Ty
  | .p '<' :: .p '-' :: r => type_ r
  | _ => none

/-- method_channel_out: type '-' '>' -/
def chanOutP : P Ty := fun ts =>
  match type_ ts with
  | some (t, .p '-' :: .p '>' :: r) => some (t, r)
  | _ => none

/-- method_channel -/
def mChan : P MChan
  | .p '(' :: r =>
    match chanInP r with
    | some (i, .p ')' :: r') => some (.in_ i, r')
    | some (i, .p ',' :: r') =>
      match chanOutP r' with
      | some (o, .p ')' :: r'') => some (.both i o, r'')
      | _ => none
    | some _ => none
    | none =>
      match chanOutP r with
      | some (o, .p ')' :: r') => some (.out o, r')
      | _ => none
  | _ => none

/-- what follows method_input, including the closing ';' -/
def mTail (fuel : Nat) : P MTail
  | .p ';' :: r => some (.none, r)
  | .kw .oneway :: .p ';' :: r => some (.oneway, r)
  | ts =>
    match mChan ts with
    | some (c, .p ';' :: r) => some (.chan c none, r)
    | some (c, r) =>
      match mOutput fuel r with
      | some (o, .p ';' :: r') => some (.chan c (some o), r')
      | _ => none
    | none =>
      match mOutput fuel ts with
      | some (o, .p ';' :: r) => some (.out o, r)
      | _ => none

/-- method -/
def method (fuel : Nat) : P Method := fun ts =>
  match fieldName ts with
  | none => none
  | some (n, r) =>
    match mInput fuel r with
    | none => none
    | some (i, r) =>
      match mTail fuel r with
      | none => none
      | some (t, r) => some (⟨n, i, t⟩, r)

/-- definition -/
def definition (fuel : Nat) : P Def
  | .kw .enum :: .ident n :: .p '{' :: r =>
    match many enumValue fuel r with
    | some (vs, .p '}' :: r') => some (.enum n vs, r')
    | _ => none
  | .kw .message :: .ident n :: .p '{' :: r =>
    match fields ';' fuel r with
    | some (fs, .p '}' :: r') => some (.message n fs, r')
    | _ => none
  | .kw .struct :: .ident n :: .p '{' :: r =>
    match many sfield fuel r with
    | some (fs, .p '}' :: r') => some (.struct n fs, r')
    | _ => none
  | .kw .service :: .ident n :: .p '{' :: r =>
    match many (method fuel) fuel r with
    | some (ms, .p '}' :: r') => some (.service false n ms, r')
    | _ => none
  | .kw .subservice :: .ident n :: .p '{' :: r =>
    match many (method fuel) fuel r with
    | some (ms, .p '}' :: r') => some (.service true n ms, r')
    | _ => none
  | _ => none

/-- import: STRING | IDENT STRING -/
def importP : P Import
  | .str s :: r => some (⟨"", s⟩, r)
  | .ident a :: .str s :: r => some (⟨a, s⟩, r)
  | _ => none

/-- option: IDENT '=' STRING -/
def optP : P Opt
  | .ident n :: .p '=' :: .str v :: r => some (⟨n, v⟩, r)
  | _ => none

def importsP (fuel : Nat) : P (List Import)
  | .kw .import_ :: .p '(' :: r =>
    match many importP fuel r with
    | some (is, .p ')' :: r') => some (is, r')
    | _ => none
  | .kw .import_ :: _ => none
  | ts => some ([], ts)

def optionsP (fuel : Nat) : P (List Opt)
  | .kw .options :: .p '(' :: r =>
    match many optP fuel r with
    | some (os, .p ')' :: r') => some (os, r')
    | _ => none
  | .kw .options :: _ => none
  | ts => some ([], ts)

/-- definitions up to the end of the input -/
def definitions (fuel : Nat) : Nat → List Tok → Option (List Def)
  | 0, _ => none
  | _ + 1, [] => some []
  | k + 1, ts =>
    match definition fuel ts with
    | some (d, r) => (definitions fuel k r).map (d :: ·)
    | none => none

/-- file: imports options definitions -/
def parseFile (ts : List Tok) : Option File :=
  let fuel := ts.length + 1
  match importsP fuel ts with
  | none => none
  | some (is, r) =>
    match optionsP fuel r with
    | none => none
    | some (os, r) =>
      match definitions fuel fuel r with
      | none => none
      | some ds => some ⟨is, os, ds⟩

end SpecVerif.Lang
