/-
Reference parser of the schema language on token lists: one function per nonterminal of
internal/lang/parser/grammar.y (the productions whose action reports an error, e.g. `type '<' '-'`,
are simply absent: such inputs are rejected). The grammar is LALR(1) without conflicts (checked on
every run by regenerating grammar.go with goyacc), so the generated parser accepts exactly the
language of the grammar, which is what these functions decide.
Loops take a fuel argument; `parseFile` supplies more fuel than there are tokens.
-/
import SpecVerif.Lang.Syntax
namespace SpecVerif.Lang

abbrev P (α : Type) := List Tok → Option (α × List Tok)

/-- the punctuation character `c` -/
def expect (c : Char) : List Tok → Option (List Tok)
  | .p d :: r => if d = c then some r else none
  | _ => none

def identP : P String
  | .ident s :: r => some (s, r)
  | _ => none

def strP : P String
  | .str s :: r => some (s, r)
  | _ => none

def int_ : P Nat
  | .int n :: r => some (n, r)
  | _ => none

/-- zero or more `p`, as long as `p` succeeds -/
def many {α : Type} (p : P α) : Nat → P (List α)
  | 0, _ => none
  | fuel + 1, ts =>
    match p ts with
    | some (x, r) => (many p fuel r).map fun (xs, r') => (x :: xs, r')
    | none => some ([], ts)

/-- field_name: IDENT | keyword -/
def fieldName : P String
  | .ident s :: r => some (s, r)
  | .kw k :: r => if k.isName then some (k.text, r) else none
  | _ => none

/-- base_type: IDENT | IDENT '.' IDENT | ANY | MESSAGE -/
def baseType : P BaseT
  | .ident a :: r =>
    match (expect '.' r).bind identP with
    | some (b, r') => some (.ref a b, r')
    | none => some (.name a, r)
  | .kw k :: r =>
    if k = .any then some (.any, r) else if k = .message then some (.anyMessage, r) else none
  | _ => none

/-- type: base_type | '[' ']' base_type -/
def type_ : P Ty := fun ts =>
  match (expect '[' ts).bind (expect ']') with
  | some r => (baseType r).map fun (b, r') => (.list b, r')
  | none => (baseType ts).map fun (b, r') => (.base b, r')

/-- field / method_field: field_name type INTEGER -/
def field : P Field := fun ts =>
  (fieldName ts).bind fun (n, r) =>
  (type_ r).bind fun (t, r) =>
  (int_ r).bind fun (g, r) => some (⟨n, t, g⟩, r)

/-- the part of `fields` / `method_fields` after the first element: (sep field)* (sep)? -/
def fieldsRest (sep : Char) : Nat → P (List Field)
  | 0, _ => none
  | fuel + 1, ts =>
    match expect sep ts with
    | none => some ([], ts)
    | some r =>
      match field r with
      | some (x, r') => (fieldsRest sep fuel r').map fun (xs, r'') => (x :: xs, r'')
      | none => some ([], r)                 -- semi_opt / comma_opt

/-- fields semi_opt / method_field_list: (field)? (sep field)* (sep)? -/
def fields (sep : Char) (fuel : Nat) : P (List Field) := fun ts =>
  match field ts with
  | some (x, r) => (fieldsRest sep fuel r).map fun (xs, r') => (x :: xs, r')
  | none => fieldsRest sep fuel ts

/-- enum_value: field_name '=' INTEGER ';' -/
def enumValue : P EnumValue := fun ts =>
  (fieldName ts).bind fun (n, r) =>
  (expect '=' r).bind fun r =>
  (int_ r).bind fun (v, r) =>
  (expect ';' r).bind fun r => some (⟨n, v⟩, r)

/-- struct_field: field_name type ';' -/
def sfield : P SField := fun ts =>
  (fieldName ts).bind fun (n, r) =>
  (type_ r).bind fun (t, r) =>
  (expect ';' r).bind fun r => some (⟨n, t⟩, r)

/-- '(' method_field_list ')' -/
def parenFields (fuel : Nat) : P (List Field) := fun ts =>
  (expect '(' ts).bind fun r =>
  (fields ',' fuel r).bind fun (fs, r) =>
  (expect ')' r).bind fun r => some (fs, r)

/-- '(' base_type ')' -/
def parenBase : P BaseT := fun ts =>
  (expect '(' ts).bind fun r =>
  (baseType r).bind fun (b, r) =>
  (expect ')' r).bind fun r => some (b, r)

/-- method_input -/
def mInput (fuel : Nat) : P MInput := fun ts =>
  match parenBase ts with
  | some (b, r) => some (.type b, r)
  | none => (parenFields fuel ts).map fun (fs, r) => (.fields fs, r)

/-- method_output -/
def mOutput (fuel : Nat) : P MOutput := fun ts =>
  match expect '(' ts with
  | some _ => (parenFields fuel ts).map fun (fs, r) => (.fields fs, r)
  | none => (baseType ts).map fun (b, r) => (.type b, r)

/-- method_channel_in: '<' '-' type -/
def chanInP : P Ty := fun ts =>
  (expect '<' ts).bind fun r => (expect '-' r).bind fun r => type_ r

/-- method_channel_out: type '-' '>' -/
def chanOutP : P Ty := fun ts =>
  (type_ ts).bind fun (t, r) => (expect '-' r).bind fun r => (expect '>' r).bind fun r => some (t, r)

/-- method_channel -/
def mChan : P MChan := fun ts =>
  (expect '(' ts).bind fun r =>
  match chanInP r with
  | some (i, r) =>
    (match expect ',' r with
     | some r => (chanOutP r).bind fun (o, r) => (expect ')' r).bind fun r => some (.both i o, r)
     | none => (expect ')' r).bind fun r => some (.in_ i, r))
  | none => (chanOutP r).bind fun (o, r) => (expect ')' r).bind fun r => some (.out o, r)

/-- what follows method_input, including the closing ';' -/
def mTail (fuel : Nat) : P MTail := fun ts =>
  match expect ';' ts with
  | some r => some (.none, r)
  | none =>
    match ts with
    | .kw .oneway :: r => (expect ';' r).bind fun r => some (.oneway, r)
    | _ =>
      match mChan ts with
      | some (c, r) =>
        (match expect ';' r with
         | some r => some (.chan c none, r)
         | none => (mOutput fuel r).bind fun (o, r) => (expect ';' r).bind fun r => some (.chan c (some o), r))
      | none => (mOutput fuel ts).bind fun (o, r) => (expect ';' r).bind fun r => some (.out o, r)

/-- method -/
def method (fuel : Nat) : P Method := fun ts =>
  (fieldName ts).bind fun (n, r) =>
  (mInput fuel r).bind fun (i, r) =>
  (mTail fuel r).bind fun (t, r) => some (⟨n, i, t⟩, r)

/-- '{' body '}' -/
def braces {α : Type} (body : P α) : P α := fun ts =>
  (expect '{' ts).bind fun r =>
  (body r).bind fun (x, r) =>
  (expect '}' r).bind fun r => some (x, r)

/-- definition -/
def definition (fuel : Nat) : P Def
  | .kw k :: ts =>
    (identP ts).bind fun (n, r) =>
    match k with
    | .enum => (braces (many enumValue fuel) r).map fun (vs, r) => (.enum n vs, r)
    | .message => (braces (fields ';' fuel) r).map fun (fs, r) => (.message n fs, r)
    | .struct => (braces (many sfield fuel) r).map fun (fs, r) => (.struct n fs, r)
    | .service => (braces (many (method fuel) fuel) r).map fun (ms, r) => (.service false n ms, r)
    | .subservice => (braces (many (method fuel) fuel) r).map fun (ms, r) => (.service true n ms, r)
    | _ => none
  | _ => none

/-- import: STRING | IDENT STRING -/
def importP : P Import := fun ts =>
  match strP ts with
  | some (s, r) => some (⟨"", s⟩, r)
  | none => (identP ts).bind fun (a, r) => (strP r).bind fun (s, r) => some (⟨a, s⟩, r)

/-- option: IDENT '=' STRING -/
def optP : P Opt := fun ts =>
  (identP ts).bind fun (n, r) => (expect '=' r).bind fun r => (strP r).bind fun (v, r) => some (⟨n, v⟩, r)

/-- '(' p* ')' -/
def parenMany {α : Type} (p : P α) (fuel : Nat) : P (List α) := fun ts =>
  (expect '(' ts).bind fun r =>
  (many p fuel r).bind fun (xs, r) =>
  (expect ')' r).bind fun r => some (xs, r)

def importsP (fuel : Nat) : P (List Import)
  | .kw .import_ :: r => parenMany importP fuel r
  | ts => some ([], ts)

def optionsP (fuel : Nat) : P (List Opt)
  | .kw .options :: r => parenMany optP fuel r
  | ts => some ([], ts)

/-- definitions up to the end of the input -/
def definitions (fuel : Nat) : Nat → List Tok → Option (List Def)
  | 0, _ => none
  | _ + 1, [] => some []
  | k + 1, t :: ts => (definition fuel (t :: ts)).bind fun (d, r) => (definitions fuel k r).map (d :: ·)

/-- file: imports options definitions -/
def parseFile (ts : List Tok) : Option File :=
  let fuel := ts.length + 1
  (importsP fuel ts).bind fun (is, r) =>
  (optionsP fuel r).bind fun (os, r) =>
  (definitions fuel fuel r).map fun ds => ⟨is, os, ds⟩

end SpecVerif.Lang
