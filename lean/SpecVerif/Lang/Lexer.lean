/-
Model of the lexer (internal/lang/parser/lexer.go on top of text/scanner with its default Go
token mode) for ASCII sources, as a character-by-character state machine. `none` means "outside
the modelled subset or a lexical error" (NUL and non-ASCII bytes anywhere, escapes in strings, floats, non-decimal
or out-of-range integers, character and raw string literals, unterminated strings or comments);
such inputs are left to the implementation-side oracle.
-/
import SpecVerif.Lang.Syntax
namespace SpecVerif.Lang

def isLetter (c : Char) : Bool :=
  ('a'.toNat ≤ c.toNat && c.toNat ≤ 'z'.toNat) || ('A'.toNat ≤ c.toNat && c.toNat ≤ 'Z'.toNat) || c == '_'

def isDigit (c : Char) : Bool := '0'.toNat ≤ c.toNat && c.toNat ≤ '9'.toNat

def isIdChar (c : Char) : Bool := isLetter c || isDigit c

/-- scanner.GoWhitespace -/
def isWs (c : Char) : Bool := c == ' ' || c == '\t' || c == '\n' || c == '\r'

/-- characters returned as single-character tokens -/
def isPunct (c : Char) : Bool :=
  33 ≤ c.toNat && c.toNat ≤ 126 && !isLetter c && !isDigit c &&
  c != '"' && c != '\'' && c != '`' && c != '/' && c != '.' && c != '\\'

/-- characters allowed inside a modelled string literal -/
def isStrChar (c : Char) : Bool := 32 ≤ c.toNat && c.toNat ≤ 126 && c != '"' && c != '\\'

def wordTok (acc : List Char) : Tok :=
  let s := String.ofList acc.reverse
  match kwOf s with
  | some k => .kw k
  | none => .ident s

def digitsVal (ds : List Char) : Nat := ds.foldl (fun n c => 10 * n + (c.toNat - '0'.toNat)) 0

/-- a decimal literal without a leading zero (or "0" itself) below 2^63 -/
def intTok (acc : List Char) : Option Tok :=
  let ds := acc.reverse
  match ds with
  | '0' :: _ :: _ => none
  | _ => if digitsVal ds < 2 ^ 63 then some (.int (digitsVal ds)) else none

inductive Mode
  | start
  | word (acc : List Char)       -- identifier or keyword, characters in reverse
  | num (acc : List Char)        -- decimal digits in reverse
  | str (acc : List Char)        -- inside a string literal
  | slash                        -- seen '/'
  | dot                          -- seen '.'
  | line                         -- inside // comment
  | block                        -- inside /* comment
  | blockStar                    -- inside /* comment, last character was '*'
  | bad
  deriving DecidableEq, Repr

structure LS where
  mode : Mode
  out : List Tok                 -- tokens so far, in reverse
  deriving DecidableEq, Repr

/-- a character read in the start state -/
def startChar (out : List Tok) (c : Char) : LS :=
  if isWs c then ⟨.start, out⟩
  else if isLetter c then ⟨.word [c], out⟩
  else if isDigit c then ⟨.num [c], out⟩
  else if c == '"' then ⟨.str [], out⟩
  else if c == '/' then ⟨.slash, out⟩
  else if c == '.' then ⟨.dot, out⟩
  else if isPunct c then ⟨.start, .p c :: out⟩
  else ⟨.bad, out⟩

def step (s : LS) (c : Char) : LS :=
  if c.toNat = 0 || 128 ≤ c.toNat then ⟨.bad, s.out⟩ else
  match s.mode with
  | .bad => s
  | .start => startChar s.out c
  | .word acc => if isIdChar c then ⟨.word (c :: acc), s.out⟩ else startChar (wordTok acc :: s.out) c
  | .num acc =>
    if isDigit c then ⟨.num (c :: acc), s.out⟩
    else if isLetter c || c == '.' then ⟨.bad, s.out⟩
    else match intTok acc with
      | some t => startChar (t :: s.out) c
      | none => ⟨.bad, s.out⟩
  | .str acc =>
    if c == '"' then ⟨.start, .str (String.ofList acc.reverse) :: s.out⟩
    else if isStrChar c then ⟨.str (c :: acc), s.out⟩
    else ⟨.bad, s.out⟩
  | .slash =>
    if c == '/' then ⟨.line, s.out⟩
    else if c == '*' then ⟨.block, s.out⟩
    else startChar (.p '/' :: s.out) c
  | .dot => if isDigit c then ⟨.bad, s.out⟩ else startChar (.p '.' :: s.out) c
  | .line => if c == '\n' then ⟨.start, s.out⟩ else s
  | .block => if c == '*' then ⟨.blockStar, s.out⟩ else s
  | .blockStar =>
    if c == '/' then ⟨.start, s.out⟩ else if c == '*' then s else ⟨.block, s.out⟩

def finish (s : LS) : Option (List Tok) :=
  match s.mode with
  | .start | .line => some s.out.reverse
  | .word acc => some (wordTok acc :: s.out).reverse
  | .num acc => (intTok acc).map fun t => (t :: s.out).reverse
  | .slash => some (.p '/' :: s.out).reverse
  | .dot => some (.p '.' :: s.out).reverse
  | .str _ | .block | .blockStar | .bad => none

def lexChars (cs : List Char) : Option (List Tok) := finish (cs.foldl step ⟨.start, []⟩)

def lex (s : String) : Option (List Tok) := lexChars s.toList

/-- the form in which the implementation's hook prints a token -/
def Tok.show : Tok → String
  | .ident s => "IDENT:" ++ s
  | .kw k => "KW:" ++ k.text
  | .int n => "INT:" ++ toString n
  | .str s => "STR:\"" ++ s ++ "\""
  | .p c => "P:" ++ String.singleton c

end SpecVerif.Lang
