/-
Pinned event sequences of the mpx functions the models mirror (atomic operations, conditions,
select cases, returns), frozen when the models were written against the repaired tree.
`TiesMpx.lean` proves that the sequences regenerated from /repo on every run are equal to these.
-/
namespace SpecVerif.PinnedMpx

def ev_channel_acquire : List String :=
  ["call ch.refs.Add(1)", "if refs == 1", "call panic(\"acquire of freed channel\")", "call ch.state.Load()", "if s == nil", "call panic(\"acquire of freed channel\")", "return s"]
def ev_channel_tryAcquire : List String :=
  ["for", "call ch.refs.Load()", "if refs <= 0", "return nil, false", "if !ch.refs.CompareAndSwap(refs, refs+1)", "call ch.refs.CompareAndSwap(refs, refs+1)", "call ch.state.Load()", "if s == nil", "call panic(\"acquire of freed channel\")", "return s, true"]
def ev_channel_release : List String :=
  ["call ch.refs.Add(-1)", "if refs > 0", "return ", "call ch.state.Swap(nil)", "if s == nil", "call panic(\"release of released channel\")", "call releaseChannelState2(s)"]
def ev_channel_free : List String :=
  ["if !ok", "call ch.freec.CompareAndSwap(false, true)", "return ", "call ch.state.Load()", "if s == nil", "call panic(\"free of freed channel\")", "call ch.release()", "call s.close()"]
def ev_channel_Free : List String :=
  ["call ch.freed.CompareAndSwap(false, true)", "if !ok", "call panic(\"free called multiple times\")", "call ch.closeUser()", "call ch.release()"]
def ev_channel_receive : List String :=
  ["call ch.tryAcquire()", "if !ok", "return status.OK", "call ch.release()", "if s.closed.Load()", "call s.closed.Load()", "return status.OK", "return s.receiveMessage(msg)"]
def ev_channel_closeUser : List String :=
  ["call ch.acquire()", "call ch.release()", "call s.closed.Load()", "if closed", "return ", "call s.close()", "call s.sender.sendClose(s.ctx, nil)", "switch st.Code", "case status.CodeOK, status.CodeCancelled, status.CodeClosed, status.CodeEnd", "default", "call panic(fmt.Sprintf(\"unexpected status: %v\", st))"]
def ev_channel_ReceiveAsync : List String :=
  ["call s.recvQueue.Read()", "if !ok || !st.OK()", "return nil, ok, st", "call s.recvBytes.Add(size)", "if recv < s.initWindow/2", "return data, true, status.OK", "call s.recvBytes.Add(-recv)", "if !s.closed.Load()", "call s.closed.Load()", "call s.sender.sendWindow(ctx, recv)", "switch st.Code", "case status.CodeOK, status.CodeCancelled, status.CodeClosed, status.CodeEnd", "default", "return nil, false, st", "return data, true, status.OK"]
def ev_channel_Receive : List String :=
  ["for", "call ch.ReceiveWait()", "call ch.ReceiveAsync(ctx)", "switch", "case !st.OK()", "return nil, st", "case ok", "return data, status.OK", "select-case <-ctx.Wait()", "return nil, ctx.Status()", "select-case <-wait"]
def ev_channel_ReceiveWait : List String :=
  ["call ch.acquire()", "call ch.release()", "return s.recvQueue.ReadWait()", "call s.recvQueue.ReadWait()"]
def ev_conn_sendLoop : List String :=
  ["for", "call c.writeq.ReadWait()", "for", "call c.writeq.Read()", "if !st.OK()", "return st", "if !ok", "if !st.OK()", "call c.sendMessage(b)", "return st", "if !st.OK()", "call c.writer.flush()", "return st", "select-case <-ctx.Wait()", "return ctx.Status()", "select-case <-wait"]
def ev_rpc_client_Receive : List String :=
  ["for", "call ch.ReceiveWait()", "call ch.ReceiveAsync(ctx)", "switch", "case !st.OK()", "return nil, st", "case ok", "return msg, status.OK", "select-case <-ctx.Wait()", "return nil, ctx.Status()", "select-case <-wait"]
def ev_rpc_server_Receive : List String :=
  ["for", "call ch.ReceiveWait()", "call ch.ReceiveAsync(ctx)", "switch", "case !st.OK()", "return nil, st", "case ok", "return msg, status.OK", "select-case <-ctx.Wait()", "return nil, ctx.Status()", "select-case <-wait"]
def ev_client_new : List String :=
  ["if mode == ClientMode_AutoConnect", "call c.mu.Lock()", "call c.connect()", "call c.mu.Unlock()", "return c"]
def ev_channel_Send : List String :=
  ["call s.sendMu.Lock()", "call s.sendMu.Unlock()", "if s.closed.Load()", "call s.closed.Load()", "return statusChannelClosed", "if s.opened.Load()", "call s.opened.Load()", "if !st.OK()", "call s.decrementSendWindow(ctx, data)", "return st", "return s.sender.sendData(ctx, data)", "call s.sender.sendData(ctx, data)", "call s.open()", "call s.sendWindow.Add(-size)", "return s.sender.sendOpen(ctx, data)", "call s.sender.sendOpen(ctx, data)"]
def ev_channel_SendAndClose : List String :=
  ["call s.sendMu.Lock()", "call s.sendMu.Unlock()", "if s.closed.Load()", "call s.closed.Load()", "return statusChannelClosed", "if s.opened.Load()", "call s.opened.Load()", "call s.close()", "call s.sendWindow.Add(-size)", "return s.sender.sendClose(ctx, data)", "call s.sender.sendClose(ctx, data)", "call s.open()", "call s.close()", "call s.sendWindow.Add(-size)", "return s.sender.sendOpenClose(ctx, data)", "call s.sender.sendOpenClose(ctx, data)"]
def ev_state_decrementSendWindow : List String :=
  ["if n > math.MaxInt32", "return mpxErrorf(\"message too large, size=%d\", n)", "for", "call s.sendWindow.Load()", "if window >= int32(size)", "call s.sendWindow.Add(-size)", "return status.OK", "if window >= s.initWindow/2", "call s.sendWindow.Add(-size)", "return status.OK", "select-case <-ctx.Wait()", "return ctx.Status()", "select-case <-s.ctx.Wait()", "return statusChannelClosed", "select-case <-s.sendWindowWait"]
def ev_state_receiveWindow : List String :=
  ["call s.sendWindow.Add(delta)", "select-case s.sendWindowWait <- struct{}{}", "select-default", "return status.OK"]
def ev_state_close : List String :=
  ["call s.closed.CompareAndSwap(false, true)", "if !ok", "return ", "call s.ctx.Cancel()", "call s.recvQueue.Close()"]
def ev_conn_addClosed : List String :=
  ["if c.closed.IsSet()", "call c.closed.IsSet()", "return 0", "call c.closedListenerSeq.Add(1)", "call c.closedListeners.Set(id, fn)", "if c.closed.IsSet()", "call c.closed.IsSet()", "if ok", "call c.closedListeners.Delete(id)", "return 0", "return id"]
def ev_conn_notifyClosed : List String :=
  ["for", "call c.closedListeners.Range(func(id int64, fn func()) bool { if _, ok := c.closedListeners.Delete(id); ok { n++ fn() } return true })", "func-literal", "if ok", "call c.closedListeners.Delete(id)", "call fn()", "return true", "if n == 0", "return "]
def ev_conn_close : List String :=
  ["if c.closed.IsSet()", "call c.closed.IsSet()", "return ", "call c.notifyClosed()", "call c.delegate.onConnClosed(c)", "call c.closeChannels()", "call c.ctx.Cancel()", "call c.conn.Close()", "call c.closed.Set()", "call c.writeq.Close()"]
def ev_conn_closeChannels : List String :=
  ["if c.channelsClosed.Load()", "call c.channelsClosed.Load()", "return ", "call c.channelsClosed.Store(true)", "call c.channels.Range(func(_ bin.Bin128, ch internalChannel) bool { ch.free() return true })", "func-literal", "call ch.free()", "return true"]
def ev_conn_createChannel : List String :=
  ["switch", "case c.channelsClosed.Load()", "call c.channelsClosed.Load()", "return nil, false, statusConnClosed", "case !c.handshaked.IsSet()", "call c.handshaked.IsSet()", "return nil, false, status.OK", "call func() { if !done { ch.Free() ch.free() } }()", "func-literal", "if !done", "call ch.Free()", "call ch.free()", "call c.channels.Set(id, ch)", "if c.channelsClosed.Load()", "call c.channelsClosed.Load()", "call c.channels.Delete(id)", "return nil, false, statusConnClosed", "return ch, true, status.OK"]
def ev_conn_send : List String :=
  ["for", "call c.writeq.Write(b)", "switch", "case !st.OK()", "return statusConnClosed", "case ok", "return status.OK", "select-case <-ctx.Wait()", "return ctx.Status()", "select-case <-c.writeq.WriteWait(len(b))", "call c.writeq.WriteWait(len(b))"]
def ev_conn_Channel : List String :=
  ["for", "call c.createChannel()", "switch", "case !st.OK()", "return nil, st", "case ok", "return ch, status.OK", "select-case <-ctx.Wait()", "return nil, ctx.Status()", "select-case <-c.closed.Wait()", "return nil, statusConnClosed", "select-case <-c.handshaked.Wait()"]
def ev_conn_run : List String :=
  ["call c.free()", "call c.close()", "call c.handshake()", "if !st.OK()", "return st", "call async.StopWaitAll(recv, send)", "call c.close()", "select-case <-recv.Wait()", "return recv.Status()", "select-case <-send.Wait()", "return send.Status()"]
def ev_conn_receiveMessage : List String :=
  ["switch code", "case pmpx.Code_Batch", "if insideBatch", "return mpxErrorf(\"received nested batch messages\")", "return c.receiveBatch(msg)", "call c.receiveBatch(msg)", "case pmpx.Code_ChannelOpen", "return c.receiveOpen(msg)", "call c.receiveOpen(msg)", "case pmpx.Code_ChannelClose", "return c.receiveClose(msg)", "call c.receiveClose(msg)", "case pmpx.Code_ChannelData", "return c.receiveData(msg)", "call c.receiveData(msg)", "case pmpx.Code_ChannelWindow", "return c.receiveWindow(msg)", "call c.receiveWindow(msg)", "return mpxErrorf(\"unexpected message, code=%v\", code)"]
def ev_conn_receiveOpen : List String :=
  ["call openChannel(c, c.client, m)", "call c.channels.GetOrSet(id, ch)", "if exists", "call ch.Free()", "call ch.free()", "return mpxErrorf(\"received open message for existing channel, channel=%v\", id)", "call newChannelHandler(c, ch)", "call workerPool.Run(h)", "if c.channelsClosed.Load()", "if ok", "call c.channels.Delete(id)", "call ch1.free()", "return status.OK"]
def ev_conn_receiveClose : List String :=
  ["call c.channels.Delete(id)", "if !ok", "return status.OK", "call ch.free()", "return ch.receive(msg)", "call ch.receive(msg)"]
def ev_conn_receiveData : List String :=
  ["call c.channels.Get(id)", "if !ok", "return status.OK", "return ch.receive(msg)", "call ch.receive(msg)"]
def ev_conn_receiveWindow : List String :=
  ["call c.channels.Get(id)", "if !ok", "return status.OK", "return ch.receive(msg)", "call ch.receive(msg)"]
def ev_conn_sendHandle : List String :=
  ["switch code", "case pmpx.Code_Batch", "for i < num", "if err != nil", "return status.WrapError(err)", "if !st.OK()", "call c.sendHandle(m1)", "return st", "case pmpx.Code_ChannelClose", "call c.channels.Delete(id)", "if ok", "call ch.free()", "return status.OK"]
def ev_conn_handshakeAsServer : List String :=
  ["if !st.OK()", "call c.writer.writeLine(ProtocolLine)", "return st", "call c.reader.readLine(len(ProtocolLine))", "if !st.OK()", "return st", "if line != ProtocolLine", "return mpxErrorf(\"invalid protocol, expected %q, got %q\", ProtocolLine, line)", "call c.reader.readRequest()", "if !st.OK()", "return st", "for i < versions.Len()", "if v == pmpx.Version_Version10", "if !ok", "call pmpx.BuildConnectError(\"unsupported protocol versions\")", "if err != nil", "return mpxError(err)", "if !st.OK()", "call c.writer.writeAndFlush(resp)", "return st", "return mpxErrorf(\"client requested unsupported protocol versions\")", "for i < comps.Len()", "if c == pmpx.ConnectCompression_Lz4", "call pmpx.BuildConnectResponse(pmpx.Version_Version10, comp)", "if err != nil", "return mpxError(err)", "if !st.OK()", "call c.writer.writeAndFlush(resp)", "return st", "switch comp", "case pmpx.ConnectCompression_None", "case pmpx.ConnectCompression_Lz4", "if !st.OK()", "call c.reader.initLZ4()", "return st", "if !st.OK()", "call c.writer.initLZ4()", "return st", "call c.handshaked.Set()", "return status.OK"]
def ev_client_Close : List String :=
  ["call c.mu.Lock()", "call c.mu.Unlock()", "if c.closed_.IsSet()", "call c.closed_.IsSet()", "return status.OK", "call c.closed_.Set()", "if ok", "call c.connecting.Clear()", "call c.conns.Load()", "range conns.conns", "call conn.Close()", "call c.conns.Store(newClientConns())", "call c.connected_.Unset()", "call c.disconnected_.Set()", "return status.OK"]
def ev_client_conn : List String :=
  ["if c.closed_.IsSet()", "call c.closed_.IsSet()", "return nil, nil, status.Closedf(\"mpx client closed\")", "call c.conns.Load().roundRobin()", "call c.conns.Load()", "if ok", "return conn, nil, status.OK", "call c.mu.Lock()", "call c.mu.Unlock()", "if c.closed_.IsSet()", "call c.closed_.IsSet()", "return nil, nil, status.Closedf(\"mpx client closed\")", "call c.conns.Load().roundRobin()", "call c.conns.Load()", "if ok", "return conn, nil, status.OK", "if c.connected_.IsSet()", "call c.connected_.IsSet()", "call c.connected_.Unset()", "call c.disconnected_.Set()", "call c.connect()", "if !st.OK()", "return nil, nil, st", "return nil, future, status.OK"]
def ev_client_onConnClosed : List String :=
  ["call c.mu.Lock()", "call c.mu.Unlock()", "call c.conns.Load().remove(conn)", "call c.conns.Load()", "call c.conns.Store(conns)", "if conns.len() > 0", "call conns.len()", "return ", "if c.closed_.IsSet()", "return ", "if c.connected_.IsSet()", "call c.connected_.IsSet()", "call c.connected_.Unset()", "call c.disconnected_.Set()", "if c.mode == ClientMode_AutoConnect", "call c.connect()"]
def ev_client_onConnChannelsReached : List String :=
  ["call c.mu.Lock()", "call c.mu.Unlock()", "if max <= 0", "return ", "if c.closed_.IsSet()", "return ", "call c.conns.Load().len()", "call c.conns.Load()", "if num < max", "call c.connect()"]
def ev_client_connect : List String :=
  ["call c.connecting.Unwrap()", "if ok", "return routine, status.OK", "call async.Run(c.connect1)", "call c.connecting.Set(routine)", "return routine, status.OK"]
def ev_client_connect1 : List String :=
  ["call c.connectRecover(ctx)", "call c.mu.Lock()", "call c.mu.Unlock()", "call c.connecting.Clear()", "if st.OK()", "return conn, st", "if c.closed_.IsSet()", "call c.closed_.IsSet()", "return nil, status.Closedf(\"mpx client closed\")", "select-case <-ctx.Wait()", "return nil, ctx.Status()", "select-default", "if c.mode != ClientMode_AutoConnect", "return nil, st", "call async.Run(c.connect1)", "call c.connecting.Set(routine)", "return nil, st"]
def ev_client_connectRecover : List String :=
  ["func-literal", "if e != nil", "call func() int { c.mu.Lock() defer c.mu.Unlock() c.connectAttempt++ return c.connectAttempt }()", "func-literal", "call c.mu.Lock()", "call c.mu.Unlock()", "return c.connectAttempt", "if attempt > 1", "call reconnectTimeout(attempt)", "select-case <-ctx.Wait()", "return nil, ctx.Status()", "select-case <-time.After(timeout)", "call c.connector.connect(ctx, c.addr)", "if !st.OK()", "return nil, st", "call c.handle(conn)", "call c.mu.Lock()", "call c.mu.Unlock()", "if c.closed_.IsSet()", "call c.closed_.IsSet()", "call conn.Close()", "return nil, status.Closedf(\"mpx client closed\")", "call status.Closedf(\"mpx client closed\")", "call c.conns.Load().add(conn)", "call c.conns.Load()", "call c.conns.Store(conns)", "call c.connected_.Set()", "call c.disconnected_.Unset()", "return conn, status.OK"]
def ev_reconnectTimeout : List String :=
  ["assign multi := uint16(1<<attempt - 2)", "assign timeout := minConnectRetryTimeout * time.Duration(multi)", "return min(timeout, maxConnectRetryTimeout)", "call min(timeout, maxConnectRetryTimeout)"]
def ev_pool_writerState_reset : List String :=
  ["assign s.buf = nil", "call s.stack.reset()", "call s.elements.reset()", "call s.fields.reset()"]
def ev_pool_writerState_init : List String :=
  ["call s.reset()", "assign s.buf = b"]
def ev_pool_releaseWriterState : List String :=
  ["call s.reset()", "call writerStatePool.Put(s)"]
def ev_pool_writer_reset : List String :=
  ["if w.writerState != nil", "assign w.err = nil"]
def ev_pool_stack_reset : List String :=
  ["assign s.stack = s.stack[:0]"]
def ev_pool_listStack_reset : List String :=
  ["assign s.stack = s.stack[:0]"]
def ev_pool_messageStack_reset : List String :=
  ["assign s.stack = s.stack[:0]"]
def ev_pool_mpx_channelState_reset : List String :=
  ["if s.ctx != nil", "call s.ctx.Free()", "assign s.ctx = nil", "assign sendWindowWait := s.sendWindowWait", "select-case <-sendWindowWait", "select-default", "assign recvQueue := s.recvQueue", "call recvQueue.Reset()", "assign *s = channelState{}", "assign s.sendWindowWait = sendWindowWait", "assign s.recvQueue = recvQueue"]
def ev_pool_mpx_releaseChannelState2 : List String :=
  ["call s.reset()", "call channelStatePool.Put(s)"]
def ev_pool_mpx_releaseChannelHandler : List String :=
  ["assign *h = channelHandler{}", "call channelHandlerPool.Put(h)"]
def ev_pool_rpc_channelState_reset : List String :=
  ["assign s.ch = nil", "assign s.logger = nil", "assign s.method = s.method[:0]", "assign s.sendReq = false", "assign s.sendEnd = false", "assign s.recvEnd = false", "assign s.recvResp = false", "assign s.recvFailed = false", "assign s.recvError = status.None", "assign s.result = nil", "assign s.resultOK = false", "assign s.resultSt = status.None"]
def ev_pool_rpc_releaseState : List String :=
  ["call s.reset()", "call statePool.Put(s)"]
def ev_pool_rpc_requestState_reset : List String :=
  ["call s.buf.Reset()", "call s.writer.Reset(s.buf)", "assign s.req = prpc.NewRequestWriterTo(s.writer.Message())", "assign s.calls = s.req.Calls()", "assign s.done = false"]
def ev_pool_rpc_releaseRequestState : List String :=
  ["call s.reset()", "call requestStatePool.Put(s)"]
def ev_pool_rpc_serverChannelState_reset : List String :=
  ["assign s.ch = nil", "assign s.method = s.method[:0]", "assign s.sendReq = false", "assign s.sendEnd = false", "assign s.recvReq = prpc.Request{}", "assign s.recvEnd = false", "assign s.recvFailed = false", "assign s.recvError = status.None"]
def ev_pool_rpc_releaseServerState : List String :=
  ["call s.reset()", "call serverStatePool.Put(s)"]
def ev_gen_typeWriteFunc : List String :=
  ["switch kind", "case model.KindAny", "return \"spec.WriteValue\"", "case model.KindBool", "return \"spec.EncodeBool\"", "case model.KindByte", "return \"spec.EncodeByte\"", "case model.KindInt16", "return \"spec.EncodeInt16\"", "case model.KindInt32", "return \"spec.EncodeInt32\"", "case model.KindInt64", "return \"spec.EncodeInt64\"", "case model.KindUint16", "return \"spec.EncodeUint16\"", "case model.KindUint32", "return \"spec.EncodeUint32\"", "case model.KindUint64", "return \"spec.EncodeUint64\"", "case model.KindBin64", "return \"spec.EncodeBin64\"", "case model.KindBin128", "return \"spec.EncodeBin128\"", "case model.KindBin256", "return \"spec.EncodeBin256\"", "case model.KindFloat32", "return \"spec.EncodeFloat32\"", "case model.KindFloat64", "return \"spec.EncodeFloat64\"", "case model.KindBytes", "return \"spec.EncodeBytes\"", "case model.KindString", "return \"spec.EncodeString\"", "case model.KindAnyMessage", "return \"spec.WriteMessage\"", "case model.KindEnum", "if typ.Import != nil", "return fmt.Sprintf(\"%v.Encode%vTo\", typ.ImportName, typ.Name)", "call fmt.Sprintf(\"%v.Encode%vTo\", typ.ImportName, typ.Name)", "return fmt.Sprintf(\"Encode%vTo\", typ.Name)", "call fmt.Sprintf(\"Encode%vTo\", typ.Name)", "case model.KindList", "if elem.Kind == model.KindMessage", "return fmt.Sprintf(\"spec.NewMessageListWriter\")", "call fmt.Sprintf(\"spec.NewMessageListWriter\")", "return fmt.Sprintf(\"spec.NewValueListWriter\")", "call fmt.Sprintf(\"spec.NewValueListWriter\")", "case model.KindMessage", "if typ.Import != nil", "return fmt.Sprintf(\"%v.New%vWriterTo\", typ.ImportName, typ.Name)", "call fmt.Sprintf(\"%v.New%vWriterTo\", typ.ImportName, typ.Name)", "return fmt.Sprintf(\"New%vWriterTo\", typ.Name)", "call fmt.Sprintf(\"New%vWriterTo\", typ.Name)", "case model.KindStruct", "if typ.Import != nil", "return fmt.Sprintf(\"%v.Encode%vTo\", typ.ImportName, typ.Name)", "call fmt.Sprintf(\"%v.Encode%vTo\", typ.ImportName, typ.Name)", "return fmt.Sprintf(\"Encode%vTo\", typ.Name)", "call fmt.Sprintf(\"Encode%vTo\", typ.Name)", "return \"\""]
def ev_gen_typeDecodeFunc : List String :=
  ["switch kind", "case model.KindAny", "return \"spec.ParseValue\"", "case model.KindBool", "return \"spec.DecodeBool\"", "case model.KindByte", "return \"spec.DecodeByte\"", "case model.KindInt16", "return \"spec.DecodeInt16\"", "case model.KindInt32", "return \"spec.DecodeInt32\"", "case model.KindInt64", "return \"spec.DecodeInt64\"", "case model.KindUint16", "return \"spec.DecodeUint16\"", "case model.KindUint32", "return \"spec.DecodeUint32\"", "case model.KindUint64", "return \"spec.DecodeUint64\"", "case model.KindBin64", "return \"spec.DecodeBin64\"", "case model.KindBin128", "return \"spec.DecodeBin128\"", "case model.KindBin256", "return \"spec.DecodeBin256\"", "case model.KindFloat32", "return \"spec.DecodeFloat32\"", "case model.KindFloat64", "return \"spec.DecodeFloat64\"", "case model.KindBytes", "return \"spec.DecodeBytes\"", "case model.KindString", "return \"spec.DecodeString\"", "case model.KindAnyMessage", "return \"spec.ParseMessage\"", "case model.KindList", "if elem.Kind == model.KindMessage", "return fmt.Sprintf(\"spec.OpenMessageListErr[%v]\", name)", "call fmt.Sprintf(\"spec.OpenMessageListErr[%v]\", name)", "return fmt.Sprintf(\"spec.OpenValueListErr[%v]\", name)", "call fmt.Sprintf(\"spec.OpenValueListErr[%v]\", name)", "case model.KindEnum, model.KindStruct", "if typ.Import != nil", "return fmt.Sprintf(\"%v.Decode%v\", typ.ImportName, typ.Name)", "call fmt.Sprintf(\"%v.Decode%v\", typ.ImportName, typ.Name)", "return fmt.Sprintf(\"Decode%v\", typ.Name)", "call fmt.Sprintf(\"Decode%v\", typ.Name)", "case model.KindMessage", "if typ.Import != nil", "return fmt.Sprintf(\"%v.Open%vErr\", typ.ImportName, typ.Name)", "call fmt.Sprintf(\"%v.Open%vErr\", typ.ImportName, typ.Name)", "return fmt.Sprintf(\"Open%vErr\", typ.Name)", "call fmt.Sprintf(\"Open%vErr\", typ.Name)", "return \"\""]
def ev_gen_typeName : List String :=
  ["switch kind", "case model.KindAny", "return \"spec.Value\"", "case model.KindBool", "return \"bool\"", "case model.KindByte", "return \"byte\"", "case model.KindInt16", "return \"int16\"", "case model.KindInt32", "return \"int32\"", "case model.KindInt64", "return \"int64\"", "case model.KindUint16", "return \"uint16\"", "case model.KindUint32", "return \"uint32\"", "case model.KindUint64", "return \"uint64\"", "case model.KindFloat32", "return \"float32\"", "case model.KindFloat64", "return \"float64\"", "case model.KindBin64", "return \"bin.Bin64\"", "case model.KindBin128", "return \"bin.Bin128\"", "case model.KindBin256", "return \"bin.Bin256\"", "case model.KindBytes", "return \"[]byte\"", "case model.KindString", "return \"string\"", "case model.KindAnyMessage", "return \"spec.Message\"", "case model.KindList", "if typ.Element.Kind == model.KindMessage", "return fmt.Sprintf(\"spec.MessageList[%v]\", elem)", "call fmt.Sprintf(\"spec.MessageList[%v]\", elem)", "return fmt.Sprintf(\"spec.ValueList[%v]\", elem)", "call fmt.Sprintf(\"spec.ValueList[%v]\", elem)", "case model.KindEnum, model.KindMessage, model.KindStruct", "if typ.Import != nil", "return fmt.Sprintf(\"%v.%v\", typ.ImportName, typ.Name)", "call fmt.Sprintf(\"%v.%v\", typ.ImportName, typ.Name)", "return typ.Name", "case model.KindService", "if typ.Import != nil", "return fmt.Sprintf(\"%v.%v\", typ.ImportName, typ.Name)", "call fmt.Sprintf(\"%v.%v\", typ.ImportName, typ.Name)", "return typ.Name", "call panic(fmt.Sprintf(\"unsupported type kind %v\", typ.Kind))", "call fmt.Sprintf(\"unsupported type kind %v\", typ.Kind)"]
def ev_gen_message_field : List String :=
  ["switch kind", "default", "switch kind", "case model.KindBool", "case model.KindByte", "case model.KindInt16", "case model.KindInt32", "case model.KindInt64", "case model.KindUint16", "case model.KindUint32", "case model.KindUint64", "case model.KindBin64", "case model.KindBin128", "case model.KindBin256", "case model.KindFloat32", "case model.KindFloat64", "case model.KindBytes", "case model.KindString", "case model.KindAny", "case model.KindAnyMessage", "case model.KindList", "if elem.Kind == model.KindMessage", "case model.KindMessage", "case model.KindEnum, model.KindStruct", "call typeNewFunc(field.Type)", "return nil"]
def ev_gen_message_writer_field : List String :=
  ["switch kind", "default", "switch kind", "case model.KindBool", "case model.KindByte", "case model.KindInt16", "case model.KindInt32", "case model.KindInt64", "case model.KindUint16", "case model.KindUint32", "case model.KindUint64", "case model.KindBin64", "case model.KindBin128", "case model.KindBin256", "case model.KindFloat32", "case model.KindFloat64", "case model.KindBytes", "case model.KindString", "call w.linef(`}`)", "case model.KindAny", "call w.linef(`}`)", "call w.linef(`}`)", "case model.KindAnyMessage", "call w.linef(`}`)", "call w.linef(`}`)", "case model.KindEnum", "call typeWriteFunc(field.Type)", "call w.linef(`}`)", "case model.KindStruct", "call typeWriteFunc(field.Type)", "call w.linef(`}`)", "case model.KindList", "call typeWriter(field.Type)", "call typeWriteFunc(field.Type)", "call typeWriteFunc(field.Type.Element)", "call w.linef(`func (w %v) %v() %v {`, wname, fname, writer)", "call w.linef(`w1 := w.w.Field(%d).List()`, tag)", "call w.linef(`return %v(w1, %v)`, buildList, encodeElement)", "call w.linef(`}`)", "case model.KindMessage", "call typeWriter(field.Type)", "call typeWriteFunc(field.Type)", "call w.linef(`func (w %v) %v() %v {`, wname, fname, writer)", "call w.linef(`w1 := w.w.Field(%d).Message()`, tag)", "call w.linef(`return %v(w1)`, writer_new_method)", "call w.linef(`}`)", "call w.linef(`func (w %v) Copy%v(v %v) error {`, wname, fname, tname)", "call w.linef(`return w.w.Field(%d).Any(v.Unwrap().Raw())`, tag)", "call w.linef(`}`)", "return nil"]
def ev_gen_struct_decode : List String :=
  ["call w.linef(`func (s *%v) Decode(b []byte) (size int, err error) {`, def.Name)", "for i >= 0", "call typeDecodeFunc(field.Type)", "if field.Type.Kind == model.KindString", "call w.linef(`s.%v, n, err = %v(b[:off])`, fieldName, decodeName)", "return nil"]
def ev_gen_struct_encode : List String :=
  ["call w.linef(`func (s %v) EncodeTo(b buffer.Buffer) (int, error) {`, def.Name)", "range fields", "call typeWriteFunc(field.Type)", "call w.linef(`n, err = %v(b, s.%v)`, writeFunc, fieldName)", "return nil"]
def ev_gen_enum_encode : List String :=
  ["call w.linef(`func Encode%vTo(b buffer.Buffer, v %v) (int, error) {`, def.Name, def.Name)", "call w.linef(`return spec.EncodeInt32(b, int32(v))`)", "call w.linef(`}`)", "return nil"]
def ev_gen_enum_decode : List String :=
  ["call w.linef(`func Decode%v(b []byte) (result %v, size int, err error) {`, name, name)", "call w.linef(`v, size, err := spec.DecodeInt32(b)`)", "call w.linef(`if err != nil || size == 0 { return }`)", "call w.linef(`result = %v(v)`, name)", "call w.linef(`}`)", "return nil"]
def ev_lexer_Lex : List String :=
  ["for", "call l.s.Scan()", "if token == scanner.EOF", "return EOF", "switch token", "case scanner.Ident", "if ok", "if debugLexer", "if debugLexer", "return lval.yys", "case scanner.Int", "call strconv.ParseInt(text, 10, 64)", "if err != nil", "return yyLexErrorf(l, \"invalid integer %v\", text)", "call yyLexErrorf(l, \"invalid integer %v\", text)", "if debugLexer", "return lval.yys", "case scanner.Float, scanner.Char, scanner.RawString", "if debugLexer", "return yyLexErrorf(l, \"unexpected %v\", text)", "call yyLexErrorf(l, \"unexpected %v\", text)", "case scanner.String", "if debugLexer", "return lval.yys", "case scanner.Comment", "if debugLexer", "default", "if debugLexer", "return lval.yys"]
def ev_lexer_new : List String :=
  ["assign s := &scanner.Scanner{}", "call s.Init(src)", "assign s.Filename = filename", "assign l := &lexer{s: s}", "assign s.Error = l.scanError", "return l"]
def ev_lexer_Error : List String :=
  ["if l.err != nil", "return ", "assign l.err = fmt.Errorf(\"%v %v\", l.s.Position, s)"]
def ev_lexer_scanError : List String :=
  ["if l.err != nil", "return ", "assign pos := s.Position", "if !pos.IsValid()", "assign pos = s.Pos()", "assign l.err = fmt.Errorf(\"%v %v\", pos, msg)"]
def ev_parser_parse : List String :=
  ["assign lexer := newLexer(filename, src)", "call newLexer(filename, src)", "assign parser := yyNewParser()", "call yyNewParser()", "call parser.Parse(lexer)", "if err != nil", "assign err := lexer.err", "return nil, err", "assign file := lexer.file", "assign file.Path = filename", "return file, nil"]
def ev_reader_readLine : List String :=
  ["assign b := make([]byte, 0, max)", "for len(b) < max", "assign c, err := r.src.ReadByte()", "call r.src.ReadByte()", "if err != nil", "return \"\", mpxError(err)", "assign b = append(b, c)", "if c == '\\n'", "assign s := string(b)", "if debug", "return s, status.OK"]
def ev_reader_read : List String :=
  ["if err != nil", "call io.ReadFull(r.reader, head)", "return nil, mpxError(err)", "call binary.BigEndian.Uint32(head)", "call r.buf.Reset()", "if rem <= maxReadChunk", "call r.buf.Grow(rem)", "if err != nil", "call io.ReadFull(r.reader, buf)", "return nil, mpxError(err)", "return buf, status.OK", "for rem > 0", "call r.buf.Grow(n)", "if err != nil", "call io.ReadFull(r.reader, buf)", "return nil, mpxError(err)", "return r.buf.Bytes(), status.OK"]

end SpecVerif.PinnedMpx
