/-
Hand-written constants of the pinned wire format and protocol.  The models use these; `Ties.lean`
proves that the values regenerated from /repo's source on every run are equal to them.
-/
import SpecVerif.Basic
namespace SpecVerif.Pinned

def tUndefined : UInt8 := 0
def tTrue : UInt8 := 1
def tFalse : UInt8 := 2
def tByte : UInt8 := 3
def tInt16 : UInt8 := 10
def tInt32 : UInt8 := 11
def tInt64 : UInt8 := 12
def tUint16 : UInt8 := 20
def tUint32 : UInt8 := 21
def tUint64 : UInt8 := 22
def tBin64 : UInt8 := 30
def tBin128 : UInt8 := 31
def tBin256 : UInt8 := 32
def tFloat32 : UInt8 := 40
def tFloat64 : UInt8 := 41
def tBytes : UInt8 := 50
def tString : UInt8 := 60
def tList : UInt8 := 70
def tBigList : UInt8 := 71
def tMessage : UInt8 := 80
def tBigMessage : UInt8 := 81
def tStruct : UInt8 := 90

/-- (name, code) table compared with the extracted constants. -/
def typeCodes : List (String × Nat) :=
  [("TypeUndefined", 0), ("TypeTrue", 1), ("TypeFalse", 2), ("TypeByte", 3),
   ("TypeInt16", 10), ("TypeInt32", 11), ("TypeInt64", 12),
   ("TypeUint16", 20), ("TypeUint32", 21), ("TypeUint64", 22),
   ("TypeFloat32", 40), ("TypeFloat64", 41),
   ("TypeBin64", 30), ("TypeBin128", 31), ("TypeBin256", 32),
   ("TypeBytes", 50), ("TypeString", 60),
   ("TypeList", 70), ("TypeBigList", 71),
   ("TypeMessage", 80), ("TypeBigMessage", 81), ("TypeStruct", 90)]

def listElemSmall : Nat := 2
def listElemBig : Nat := 4
def msgFieldSmall : Nat := 3
def msgFieldBig : Nat := 6
def maxSize : Nat := 2147483647

def protocolLine : String := "SpecMPX/1\n"
/-- conn_reader.go: bytes allocated ahead of the received data when reading a frame -/
def maxReadChunk : Nat := 1048576

end SpecVerif.Pinned
