/-
Basic vocabulary of the wire model: byte strings, three-valued outcomes, big-endian helpers.
Core Lean only (no Mathlib) so that drivers can be linked as native executables.
-/
namespace SpecVerif

abbrev Bytes := List UInt8

/-- Error classes; the Go harness maps error texts to these by substring. -/
inductive Err where
  | data      -- "invalid data", "invalid table", "invalid data size", ...
  | type      -- "invalid type", "unsupported type"
  | overflow  -- "overflow"
  deriving DecidableEq, Repr, Inhabited

/-- Outcome of a Go call: normal return with a value, error return (with the size the Go function
reports next to the error), or a run-time panic (slice bounds, index, nil dereference). -/
inductive Res (α : Type) where
  | ok (a : α)
  | err (e : Err) (n : Nat)
  | panic
  deriving Repr, DecidableEq

namespace Res
def isPanic {α} : Res α → Bool
  | panic => true
  | _ => false

@[inline] def bind {α β} (r : Res α) (f : α → Res β) : Res β :=
  match r with
  | ok a => f a
  | err e n => err e n
  | panic => panic

instance : Monad Res where
  pure := Res.ok
  bind := Res.bind
end Res

/-- Big-endian value of a byte string. -/
def be (bs : Bytes) : Nat := bs.foldl (fun acc b => acc * 256 + b.toNat) 0

/-- `k` bytes, big-endian, of `v` (truncating like a Go integer conversion). -/
def toBE : Nat → Nat → Bytes
  | 0, _ => []
  | k+1, v => toBE k (v / 256) ++ [UInt8.ofNat (v % 256)]

/-- The last `n` bytes (all of them when there are fewer). -/
def lastN (n : Nat) (b : Bytes) : Bytes := b.drop (b.length - n)

/-- Everything but the last `n` bytes: Go's `b[:len(b)-n]` for `n ≤ len(b)`. -/
def dropLastN (n : Nat) (b : Bytes) : Bytes := b.take (b.length - n)

/-- Go slice expression `b[lo:hi]`; `none` = "slice bounds out of range" panic. -/
def slice? (b : Bytes) (lo hi : Nat) : Option Bytes :=
  if lo ≤ hi ∧ hi ≤ b.length then some ((b.take hi).drop lo) else none

@[simp] theorem toBE_length (k v : Nat) : (toBE k v).length = k := by
  induction k generalizing v with
  | zero => rfl
  | succ k ih => simp [toBE, ih]

theorem be_append_singleton (bs : Bytes) (x : UInt8) : be (bs ++ [x]) = be bs * 256 + x.toNat := by
  simp [be, List.foldl_append]

theorem be_toBE (k v : Nat) (h : v < 256 ^ k) : be (toBE k v) = v := by
  induction k generalizing v with
  | zero => simp [toBE, be] at *; omega
  | succ k ih =>
    rw [toBE, be_append_singleton, ih]
    · have : (UInt8.ofNat (v % 256)).toNat = v % 256 := by
        simp [UInt8.toNat_ofNat']
      rw [this]; omega
    · rw [Nat.pow_succ] at h
      exact Nat.div_lt_of_lt_mul (by omega)

theorem be_foldl (acc : Nat) (bs : Bytes) :
    bs.foldl (fun acc b => acc * 256 + b.toNat) acc = acc * 256 ^ bs.length + be bs := by
  induction bs generalizing acc with
  | nil => simp [be]
  | cons x bs ih =>
    simp only [List.foldl_cons, List.length_cons, be]
    rw [ih, ih (0 * 256 + x.toNat), Nat.pow_succ]
    generalize 256 ^ bs.length = k
    grind

theorem be_cons (x : UInt8) (bs : Bytes) : be (x :: bs) = x.toNat * 256 ^ bs.length + be bs := by
  simp only [be, List.foldl_cons]
  rw [be_foldl]; simp [be]

theorem be_lt (bs : Bytes) : be bs < 256 ^ bs.length := by
  induction bs with
  | nil => simp [be]
  | cons x bs ih =>
    rw [be_cons, List.length_cons, Nat.pow_succ]
    have := x.toNat_lt
    have h2 : x.toNat * 256 ^ bs.length ≤ 255 * 256 ^ bs.length := Nat.mul_le_mul_right _ (by omega)
    omega

@[simp] theorem lastN_length_le (n : Nat) (b : Bytes) : (lastN n b).length = min n b.length := by
  simp [lastN]; omega

theorem lastN_append (p s : Bytes) : lastN s.length (p ++ s) = s := by
  simp [lastN]

theorem lastN_append' (p s : Bytes) (n : Nat) (h : s.length = n) : lastN n (p ++ s) = s := by
  subst h; exact lastN_append p s

theorem dropLastN_append (p s : Bytes) : dropLastN s.length (p ++ s) = p := by
  simp [dropLastN]

theorem dropLastN_append' (p s : Bytes) (n : Nat) (h : s.length = n) : dropLastN n (p ++ s) = p := by
  subst h; exact dropLastN_append p s

theorem dropLastN_lastN (n : Nat) (b : Bytes) : dropLastN n b ++ lastN n b = b := by
  simp [dropLastN, lastN]

theorem mid_slice (p v r : Bytes) (a b : Nat) (ha : a = p.length) (hb : b = p.length + v.length) :
    ((p ++ v ++ r).take b).drop a = v := by
  subst ha hb
  rw [List.take_left' (by simp), List.drop_left' rfl]

end SpecVerif
