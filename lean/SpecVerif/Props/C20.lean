/-
C20 — Handlers and close listeners fire exactly once (listener part; the handler part is the
GetOrSet dispatch of C11/C06 plus the scenario check).

Model `Mpx/Listeners.lean` (repaired protocol), all interleavings of registration, unsubscription
and connection close, schedules of any length:
 * a listener is called at most once, and only after the closed flag is set (`inv_reachable`);
 * registration reported "already closed" ⇒ the listener is never called (`failed_never_called`);
 * registration reported success and no unsubscribe ⇒ once the closer has finished the listener has
   been called exactly once (`ok_called_once`);
 * unsubscribed before the close began ⇒ never called (`unsub_never_called`).
`unrepaired_counterexample`: on the pinned code the notifier called the listener without deleting
it and the registrar then reported failure — called although registration failed.
-/
import SpecVerif.Mpx.Listeners
namespace SpecVerif.C20
open SpecVerif.Mpx.Listeners

structure Inv (s : State) : Prop where
  called_le : s.called ≤ 1
  called_taken : s.called = 1 → s.taken = true
  taken_closed : s.taken = true → s.closed = true
  flag_in_cb : s.closedSeenInCallback = true
  -- the entry is in exactly one place: map, taken by the notifier, removed by registrar/unsub, or not yet inserted
  taken_not_present : s.taken = true → s.present = false
  failed_untaken : s.reg = .done false → s.taken = false ∧ s.present = false
  closer_flag : s.closer ≠ .open → s.closed = true
  open_flag : s.closer = .open → s.closed = false
  not_inserted : (s.reg = .start ∨ s.reg = .checked1) → s.present = false ∧ s.taken = false ∧ ¬ s.unsubbed
  after_flag : s.insertedAfterFlag = true → s.closed = true
  -- an entry inserted after the flag is always removed by its own registrar unless taken
  late_entry : s.present = true → s.insertedAfterFlag = true → (s.reg = .inserted ∨ s.reg = .sawClosed)
  ins_live : (s.reg = .inserted ∨ s.reg = .sawClosed) → (s.present = true ∨ s.taken = true) ∧ s.unsubbed = false
  saw_closed : s.reg = .sawClosed → s.closed = true
  ok_live : s.reg = .done true → s.unsubbed = false → (s.present = true ∨ s.taken = true)
  ok_early : s.reg = .done true → s.present = true → s.insertedAfterFlag = false
  unsub_early : s.unsubBeforeClose = true → s.unsubbed = true ∧ s.taken = false
  unsub_clears : s.unsubbed = true → s.present = false
  finished : s.closer = .finished → (s.taken = true → s.called = 1) ∧ (s.present = true → s.insertedAfterFlag = true)

theorem inv_init : Inv init := by
  constructor <;> simp [init]

theorem inv_step (s s' : State) (a : Action) (hi : Inv s) (h : step s a = some s') : Inv s' := by
  obtain ⟨closed, present, iaf, taken, called, cb, reg, closer, unsubbed, ubc⟩ := s
  obtain ⟨h1, h2, h3, h4, h5, h6, h7, h8, h9, h10, h11, h12a, h12b, h12, h13, h14, h15, h16⟩ := hi
  simp only at h1 h2 h3 h4 h5 h6 h7 h8 h9 h10 h11 h12a h12b h12 h13 h14 h15 h16
  cases a <;> simp only [step] at h
  case regStep =>
    cases reg <;> simp only at h
    case start =>
      cases closed <;> simp only [Bool.false_eq_true, ↓reduceIte] at h <;> cases h <;>
        constructor <;> simp_all <;> (try (cases taken <;> cases present <;> cases closed <;> simp_all))
    case checked1 =>
      cases h
      constructor <;> simp_all <;> (try (cases taken <;> cases present <;> cases closed <;> simp_all))
    case inserted =>
      cases closed <;> simp only [Bool.false_eq_true, ↓reduceIte] at h <;> cases h <;>
        constructor <;> simp_all <;> (try (cases taken <;> cases present <;> cases closed <;> simp_all))
    case sawClosed =>
      cases present <;> simp only [Bool.false_eq_true, ↓reduceIte] at h <;> cases h <;>
        constructor <;> simp_all <;> (try (cases taken <;> cases present <;> cases closed <;> simp_all))
    case done ok => cases h
  case unsub =>
    split at h
    · cases h; constructor <;> simp_all
      intro hc
      have hcl := h8 hc
      cases taken
      · rfl
      · have := h3 rfl; rw [hcl] at this; cases this
    · cases h
  case setFlag =>
    split at h
    · cases h; constructor <;> simp_all <;> (try (cases taken <;> cases present <;> cases closed <;> simp_all))
    · cases h
  case take =>
    split at h
    · cases h; constructor <;> simp_all <;> (try (cases taken <;> cases present <;> cases closed <;> simp_all))
    · cases h
  case call =>
    split at h
    · cases h; constructor <;> simp_all <;> (try (cases taken <;> cases present <;> cases closed <;> simp_all))
    · cases h
  case finish =>
    split at h
    · rename_i hcond
      cases h; constructor <;> simp_all
      intro hp
      rcases hcond.2.1 with h0 | h0
      · rw [hp] at h0; cases h0
      · exact h0
    · cases h

theorem inv_run (s : State) (hi : Inv s) (as : List Action) : Inv (run s as) := by
  induction as generalizing s with
  | nil => exact hi
  | cons a as ih =>
    simp only [run]
    cases h : step s a with
    | none => exact ih s hi
    | some s' => exact ih s' (inv_step s s' a hi h)

theorem inv_reachable (as : List Action) : Inv (run init as) := inv_run _ inv_init as

/-- called at most once, and the closed flag is observable inside the callback -/
theorem at_most_once (as : List Action) :
    (run init as).called ≤ 1 ∧ (run init as).closedSeenInCallback = true :=
  ⟨(inv_reachable as).called_le, (inv_reachable as).flag_in_cb⟩

/-- registration reported "already closed" ⇒ the listener is never called, in no continuation -/
theorem failed_never_called (as : List Action) (h : (run init as).reg = .done false) :
    (run init as).called = 0 := by
  have hi := inv_reachable as
  have ht := (hi.failed_untaken h).1
  have := hi.called_taken
  have := hi.called_le
  by_cases c : (run init as).called = 1
  · have := hi.called_taken c; rw [ht] at this; cases this
  · omega

/-- registration reported success, never unsubscribed, and the closer has finished ⇒ the listener
has been called exactly once -/
theorem ok_called_once (as : List Action) (hr : (run init as).reg = .done true)
    (hu : (run init as).unsubbed = false) (hf : (run init as).closer = .finished) :
    (run init as).called = 1 := by
  have hi := inv_reachable as
  rcases hi.ok_live hr hu with hp | ht
  · -- still in the map after the closer finished: only possible for late entries, which a
    -- successfully registered listener never is
    have h1 := (hi.finished hf).2 hp
    have h2 := hi.ok_early hr hp
    rw [h2] at h1; cases h1
  · exact (hi.finished hf).1 ht

/-- unsubscribed before the close began ⇒ never called -/
theorem unsub_never_called (as : List Action) (hu : (run init as).unsubBeforeClose = true) :
    (run init as).called = 0 := by
  have hi := inv_reachable as
  have ht := (hi.unsub_early hu).2
  have := hi.called_le
  by_cases c : (run init as).called = 1
  · have := hi.called_taken c; rw [ht] at this; cases this
  · omega

/-! ### the unrepaired protocol (pinned commit): notifyClosed called the listeners it saw and then
cleared the map without taking them; a registrar that re-checked after that reported failure -/

/-- old notifier step: call without deleting -/
def oldCall (s : State) : State := { s with called := s.called + 1 }
/-- old registrar tail: closed seen ⇒ Delete (result ignored) and report failure -/
def oldRegTail (s : State) : State := { s with present := false, reg := .done false }

/-- schedule: first check, insert, close sets the flag, notifier calls the listener, registrar
re-checks, reports failure — the listener ran although registration reported "already closed" -/
theorem unrepaired_counterexample :
    let s := run init [.regStep, .regStep, .setFlag]
    let s' := oldRegTail (oldCall s)
    s'.reg = .done false ∧ s'.called = 1 := by decide

/-- on the repaired protocol the same interleaving reports success and calls exactly once -/
example : (run init [.regStep, .regStep, .setFlag, .take, .call, .regStep, .regStep, .finish]).reg = .done true ∧
    (run init [.regStep, .regStep, .setFlag, .take, .call, .regStep, .regStep, .finish]).called = 1 := by decide

end SpecVerif.C20
