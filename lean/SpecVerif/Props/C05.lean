/-
C05 — Generated Go code is a faithful translation of the schema (model level).

The generated writer of a message writes, for each set field, `Field(tag)` followed by the encoder
of the declared kind; the generated reader calls `msg.Field(tag)` and the decoder of the declared
kind (the table kind → functions is regenerated from internal/lang/generator/type.go and tied, see
TiesLang). On the wire model this is:
 * `sval_roundtrip`   : for every scalar kind and every value of its Go type, the decoder of the kind
                        applied behind any prefix to the encoder's bytes returns the value;
 * `generated_roundtrip`: for EVERY message (any number of fields, any write order, tags below 2^16,
                        any mix of kinds) each field written by the generated writer is found by the
                        generated reader under its tag and decodes to the written value;
 * `generated_absent`  : a field that was not written reads as absent;
 * the dynamic tag-based API and the generated accessors are the same functions of the bytes by
   construction (`M.field tag` then the decoder), so they are interchangeable on the same bytes.
Enums are int32 on the wire (`SVal.enum`), nested messages, lists and structs are covered by C01's
theorems for arbitrary `Delim` values. Floats are bit patterns read with the bit-level IEEE conversions
(`IEEE.ieee`, laws proved in Lemmas/IEEE.lean); the one float32 pattern class that does not come back
bit-exactly, signalling NaNs (C10.float32_snan_quieted), is excluded by `SVal.OK`.
-/
import SpecVerif.Props.C01
import SpecVerif.Props.C10
namespace SpecVerif.C05
open SpecVerif SpecVerif.C10

inductive SVal
  | bool (v : Bool)
  | byte (v : UInt8)
  | int (w : W) (v : Int)
  | uint (w : W) (v : Nat)
  | enum (v : Int)                 -- generated as int32
  | bin64 (v : Bytes)
  | bin128 (v : Bytes)
  | bin256 (v : Bytes)
  | bytes (v : Bytes)
  | string (v : Bytes)
  | f32 (bits : Nat)
  | f64 (bits : Nat)
  deriving DecidableEq, Repr

/-- the value is in the range of its Go type -/
def SVal.OK : SVal → Prop
  | .bool _ | .byte _ => True
  | .int w v => fitsI w v
  | .uint w v => fitsU w v
  | .enum v => fitsI .w32 v
  | .bin64 v => v.length = 8
  | .bin128 v => v.length = 16
  | .bin256 v => v.length = 32
  | .bytes v | .string v => v.length < 2 ^ 32
  | .f32 x => x < 2 ^ 32 ∧ ¬ IEEE.isSNaN32 x
  | .f64 x => x < 2 ^ 64

/-- what the generated writer appends for the field value: spec.EncodeX of the declared kind -/
def SVal.enc : SVal → Bytes
  | .bool v => encBool v
  | .byte v => encByte v
  | .int w v => encI w v
  | .uint w v => encU w v
  | .enum v => encI .w32 v
  | .bin64 v => encBin64 v
  | .bin128 v => encBin128 v
  | .bin256 v => encBin256 v
  | .bytes v => encBytes v
  | .string v => encString v
  | .f32 x => encFloat32 x
  | .f64 x => encFloat64 x

/-- what the generated reader computes from the field's bytes: spec.DecodeX of the declared kind
(the kind is that of `like`) -/
def decodeLike (like : SVal) (b : Bytes) : Res SVal :=
  match like with
  | .bool _ => match decodeBool b with | .ok (x, _) => .ok (.bool x) | .err e n => .err e n | .panic => .panic
  | .byte _ => match decodeByte b with | .ok (x, _) => .ok (.byte x) | .err e n => .err e n | .panic => .panic
  | .int w _ => match decI w b with | .ok (x, _) => .ok (.int w x) | .err e n => .err e n | .panic => .panic
  | .uint w _ => match decU w b with | .ok (x, _) => .ok (.uint w x) | .err e n => .err e n | .panic => .panic
  | .enum _ => match decI .w32 b with | .ok (x, _) => .ok (.enum x) | .err e n => .err e n | .panic => .panic
  | .bin64 _ => match decodeBin64 b with | .ok (x, _) => .ok (.bin64 x) | .err e n => .err e n | .panic => .panic
  | .bin128 _ => match decodeBin128 b with | .ok (x, _) => .ok (.bin128 x) | .err e n => .err e n | .panic => .panic
  | .bin256 _ => match decodeBin256 b with | .ok (x, _) => .ok (.bin256 x) | .err e n => .err e n | .panic => .panic
  | .bytes _ => match decodeBytes b with | .ok (x, _) => .ok (.bytes x) | .err e n => .err e n | .panic => .panic
  | .string _ => match decodeString b with | .ok (x, _) => .ok (.string x) | .err e n => .err e n | .panic => .panic
  | .f32 _ => match decodeFloat32 IEEE.ieee b with | .ok (x, _) => .ok (.f32 x) | .err e n => .err e n | .panic => .panic
  | .f64 _ => match decodeFloat64 IEEE.ieee b with | .ok (x, _) => .ok (.f64 x) | .err e n => .err e n | .panic => .panic

/-- encoder then decoder of the same kind, behind any prefix, for every value of the type -/
theorem sval_roundtrip (v : SVal) (hv : v.OK) (p : Bytes) : decodeLike v (p ++ v.enc) = .ok v := by
  cases v with
  | bool x => simp only [decodeLike, SVal.enc, bool_roundtrip]
  | byte x => simp only [decodeLike, SVal.enc, byte_roundtrip]
  | int w x => simp only [decodeLike, SVal.enc, int_roundtrip w p x hv]
  | uint w x => simp only [decodeLike, SVal.enc, uint_roundtrip w p x hv]
  | enum x => simp only [decodeLike, SVal.enc, int_roundtrip .w32 p x hv]
  | bin64 x => simp only [decodeLike, SVal.enc, bin64_roundtrip p x hv]
  | bin128 x => simp only [decodeLike, SVal.enc, bin128_roundtrip p x hv]
  | bin256 x => simp only [decodeLike, SVal.enc, bin256_roundtrip p x hv]
  | bytes x => simp only [decodeLike, SVal.enc, bytes_roundtrip p x hv]
  | string x => simp only [decodeLike, SVal.enc, string_roundtrip p x hv]
  | f32 x => simp only [decodeLike, SVal.enc, float32_roundtrip_ieee p x hv.1 hv.2]
  | f64 x => simp only [decodeLike, SVal.enc, float64_roundtrip IEEE.ieee p x hv]

/-- the bytes of a field value are self-delimiting (what the by-tag lookup relies on) -/
theorem sval_delim (v : SVal) (hv : v.OK) : Delim v.enc := by
  cases v with
  | bool x => exact delim_bool x
  | byte x => exact delim_byte x
  | int w x =>
    cases w
    · exact delim_varint32 _ _ (Or.inl rfl)
    · exact delim_varint32 _ _ (Or.inr (Or.inl rfl))
    · exact delim_varint64 _ _ (Or.inl rfl)
  | uint w x =>
    cases w
    · exact delim_varint32 _ _ (Or.inr (Or.inr (Or.inl rfl)))
    · exact delim_varint32 _ _ (Or.inr (Or.inr (Or.inr rfl)))
    · exact delim_varint64 _ _ (Or.inr rfl)
  | enum x => exact delim_varint32 _ _ (Or.inr (Or.inl rfl))
  | bin64 x => exact delim_fixed x _ 8 hv (Or.inr (Or.inr (Or.inl ⟨rfl, rfl⟩)))
  | bin128 x => exact delim_fixed x _ 16 hv (Or.inr (Or.inr (Or.inr (Or.inl ⟨rfl, rfl⟩))))
  | bin256 x => exact delim_fixed x _ 32 hv (Or.inr (Or.inr (Or.inr (Or.inr ⟨rfl, rfl⟩))))
  | bytes x => exact delim_bytes x hv
  | string x => exact delim_string x hv
  | f32 x => exact delim_fixed _ _ 4 (by simp) (Or.inl ⟨rfl, rfl⟩)
  | f64 x => exact delim_fixed _ _ 8 (by simp) (Or.inr (Or.inl ⟨rfl, rfl⟩))

/-- the message the generated writer builds from (tag, value) pairs in call order -/
def genWrite (fs : List (Nat × SVal)) : Bytes := encMsg (fs.map fun tv => (tv.1, tv.2.enc))

/-- every field the generated writer wrote is returned by the generated reader: found under its
tag, decoded with the decoder of its declared kind, equal to the written value — for every message,
write order and prefix -/
theorem generated_roundtrip (p : Bytes) (l : List (Nat × SVal)) (tag : Nat) (v : SVal) (r : List (Nat × SVal))
    (wf : MsgWF ((l ++ (tag, v) :: r).map fun tv => (tv.1, tv.2.enc))) (hv : v.OK) :
    ∃ M, openMessageErr (p ++ genWrite (l ++ (tag, v) :: r)) = .ok M ∧
      M.hasField tag = .ok true ∧
      ∃ raw, M.field tag = .ok raw ∧ decodeLike v raw = .ok v := by
  have e : (l ++ (tag, v) :: r).map (fun tv => (tv.1, tv.2.enc)) =
      l.map (fun tv => (tv.1, tv.2.enc)) ++ (tag, v.enc) :: r.map (fun tv => (tv.1, tv.2.enc)) := by simp
  unfold genWrite
  rw [e] at wf ⊢
  obtain ⟨M, ho, _, hh, hf⟩ := C01.msg_field_found p _ tag v.enc _ wf (sval_delim v hv)
  refine ⟨M, ho, hh, v.enc, hf, ?_⟩
  have := sval_roundtrip v hv []
  simpa using this

/-- a field that was not written is absent for the generated reader -/
theorem generated_absent (p : Bytes) (fs : List (Nat × SVal))
    (wf : MsgWF (fs.map fun tv => (tv.1, tv.2.enc))) (tag : Nat)
    (hn : tag ∉ fs.map (·.1)) :
    ∃ M, openMessageErr (p ++ genWrite fs) = .ok M ∧ M.hasField tag = .ok false := by
  have hn' : tag ∉ (fs.map fun tv => (tv.1, tv.2.enc)).map (·.1) := by simpa using hn
  obtain ⟨M, ho, hh, _⟩ := C01.msg_field_absent p _ wf tag hn'
  exact ⟨M, ho, hh⟩

end SpecVerif.C05
