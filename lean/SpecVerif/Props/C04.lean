/-
C04 — Every RPC call gets its own handler run, result and status (model level).

On the delivery model of C03 (one channel per call), for EVERY interleaving of sends, transmissions,
dispatches and receives of any number of concurrent calls:
 * `no_foreign_data`     : what a caller has received on its call's channel is always a prefix of
                           what ITS handler sent on that channel — never another call's bytes;
 * `result_is_own`       : once the caller has observed the end of the call (close frame dispatched,
                           queue drained, call not abandoned) it has received exactly the handler's
                           streamed messages, in order, followed by exactly the handler's response;
 * `ok_only_if_sent`     : any response the caller takes was sent by the server for that call;
 * `no_response_no_ok`   : a call whose channel ended without any payload has no response (it is
                           surfaced as a non-OK status), and a oneway call (handler sends nothing)
                           never yields one;
 * `handler_once`        : every channel id starts at most one handler, and exactly one once its open
                           frame was processed; a duplicate open frame is refused;
 * `status_roundtrip`    : the status code and message (arbitrary strings, application-defined codes
                           included) written into the response's Status message are read back exactly.
Tie: the event sequences of rpc's Receive loops and mpx's dispatch (TiesMpx), scenario `rpcscen`.
-/
import SpecVerif.Rpc.Call
import SpecVerif.Props.C03
import SpecVerif.Props.C05
namespace SpecVerif.C04
open SpecVerif SpecVerif.Mpx SpecVerif.Mpx.Delivery SpecVerif.Rpc

/-- never another call's data -/
theorem no_foreign_data (c : Nat) (as : List Action) :
    (run init as).delivered c <+: (run init as).sent c := C03.delivered_prefix c as

/-- after the end of the call the caller holds exactly what its handler produced -/
theorem result_is_own (c : Nat) (as : List Action) (p : Produced)
    (hsent : (run init as).sent c = p.payloads)
    (he : (run init as).ended c = false) (hb : (run init as).closedB c = true)
    (hq : (run init as).recvq c = []) :
    clientView ((run init as).delivered c) = some (p.stream, p.response) := by
  rw [C03.complete_after_close c as he hb hq, hsent]
  simp [clientView, Produced.payloads]

/-- a response the caller takes is one the server sent on that call -/
theorem ok_only_if_sent (c : Nat) (as : List Action) (stream : List Bytes) (r : Bytes)
    (h : clientView ((run init as).delivered c) = some (stream, r)) : r ∈ (run init as).sent c := by
  have hp := C03.delivered_prefix c as
  have hm : r ∈ (run init as).delivered c := by
    unfold clientView at h
    cases hr : ((run init as).delivered c).reverse with
    | nil => rw [hr] at h; cases h
    | cons x xs =>
      rw [hr] at h
      simp only [Option.some.injEq, Prod.mk.injEq] at h
      have : x ∈ ((run init as).delivered c).reverse := by rw [hr]; simp
      rw [← h.2]; simpa using this
  exact hp.subset hm

/-- no payload, no response: a oneway call and a call that ended empty never yield a result -/
theorem no_response_no_ok (c : Nat) (as : List Action) (hs : (run init as).sent c = []) :
    clientView ((run init as).delivered c) = none := by
  have hp := C03.delivered_prefix c as
  rw [hs] at hp
  have : (run init as).delivered c = [] := List.prefix_nil.mp hp
  rw [this]; rfl

/-! ### exactly one handler per call -/

theorem open_started_le (s : Srv) (c : Nat) (h : ∀ x, s.started x ≤ 1 ∧ (s.started x = 1 ↔ s.registered x = true)) :
    ∀ x, (s.open c).started x ≤ 1 ∧ ((s.open c).started x = 1 ↔ (s.open c).registered x = true) := by
  intro x
  unfold Srv.open
  by_cases hr : s.registered c = true
  · simp only [hr, ↓reduceIte]; exact h x
  · simp only [hr, Bool.false_eq_true, ↓reduceIte, upd]
    by_cases hx : x = c
    · subst hx
      have := h x
      have h0 : s.started x = 0 := by
        have hn : ¬ s.started x = 1 := fun h1 => hr (this.2.mp h1)
        omega
      simp [h0]
    · simp only [hx, ↓reduceIte]; exact h x

theorem handler_once (cs : List Nat) (c : Nat) :
    (Srv.init.run cs).started c ≤ 1 ∧ (c ∈ cs → (Srv.init.run cs).started c = 1) := by
  have inv : ∀ (cs : List Nat) (s : Srv), (∀ x, s.started x ≤ 1 ∧ (s.started x = 1 ↔ s.registered x = true)) →
      (∀ x, (s.run cs).started x ≤ 1 ∧ ((s.run cs).started x = 1 ↔ (s.run cs).registered x = true)) ∧
      (∀ x, s.registered x = true → (s.run cs).registered x = true) ∧
      (∀ x, x ∈ cs → (s.run cs).registered x = true) := by
    intro cs
    induction cs with
    | nil => intro s h; exact ⟨h, fun _ hx => hx, fun _ hx => by cases hx⟩
    | cons d ds ih =>
      intro s h
      obtain ⟨i1, i2, i3⟩ := ih (s.open d) (open_started_le s d h)
      have keep : ∀ x, s.registered x = true → (s.open d).registered x = true := by
        intro x hx
        unfold Srv.open
        by_cases hr : s.registered d = true
        · simp [hr, hx]
        · simp only [hr, Bool.false_eq_true, ↓reduceIte, upd]; split <;> simp [hx]
      have reg : (s.open d).registered d = true := by
        unfold Srv.open
        by_cases hr : s.registered d = true
        · simp [hr]
        · simp [hr, upd]
      refine ⟨i1, fun x hx => i2 x (keep x hx), fun x hx => ?_⟩
      rcases List.mem_cons.mp hx with e | e
      · subst e; exact i2 _ reg
      · exact i3 x e
  obtain ⟨i1, _, i3⟩ := inv cs Srv.init (by intro x; simp [Srv.init])
  exact ⟨(i1 c).1, fun hc => (i1 c).2.mpr (i3 c hc)⟩

/-! ### status code and message survive the response encoding -/

/-- prpc.Status { code string 1; message string 2 }: both strings are read back exactly -/
theorem status_roundtrip (p code msg : Bytes) (hc : code.length < 2 ^ 32) (hm : msg.length < 2 ^ 32)
    (hsz : MsgWF [(1, (C05.SVal.string code).enc), (2, (C05.SVal.string msg).enc)]) :
    ∃ M, openMessageErr (p ++ C05.genWrite [(1, .string code), (2, .string msg)]) = .ok M ∧
      (∃ raw, M.field 1 = .ok raw ∧ C05.decodeLike (.string code) raw = .ok (.string code)) ∧
      (∃ raw, M.field 2 = .ok raw ∧ C05.decodeLike (.string msg) raw = .ok (.string msg)) := by
  obtain ⟨M, ho, _, h1⟩ := C05.generated_roundtrip p [] 1 (.string code) [(2, .string msg)] (by simpa using hsz) hc
  obtain ⟨M', ho', _, h2⟩ := C05.generated_roundtrip p [(1, .string code)] 2 (.string msg) [] (by simpa using hsz) hm
  have : M = M' := by
    have e : ([] ++ (1, C05.SVal.string code) :: [(2, C05.SVal.string msg)]) = ([(1, C05.SVal.string code)] ++ (2, C05.SVal.string msg) :: []) := rfl
    rw [e] at ho; rw [ho] at ho'; cases ho'; rfl
  subst this
  exact ⟨M, by simpa using ho, h1, h2⟩

end SpecVerif.C04
