/-
C02 — Decoding arbitrary bytes never panics or reads out of bounds.
For EVERY byte string `b` (no hypothesis on `b` anywhere below) each read entry point of the model
returns normally (`ok` or `err`, never `panic`), reports a size `n ≤ |b|` (also next to an error),
and every container accessor of a value opened from `b` is panic-free.  Views are sub-lists of the
input by construction of the model (`take`/`drop` only); the harness checks pointer containment on
the implementation.
-/
import SpecVerif.Lemmas.Parse
namespace SpecVerif.C02
open SpecVerif Pinned

/-- every typed decoder: no panic, reported size within the input -/
theorem decoders_safe (F : FloatOps) (b : Bytes) :
    SafeN b.length (decodeBool b) ∧ SafeN b.length (decodeByte b) ∧
    SafeN b.length (decodeInt16 b) ∧ SafeN b.length (decodeInt32 b) ∧ SafeN b.length (decodeInt64 b) ∧
    SafeN b.length (decodeUint16 b) ∧ SafeN b.length (decodeUint32 b) ∧ SafeN b.length (decodeUint64 b) ∧
    SafeN b.length (decodeFloat32 F b) ∧ SafeN b.length (decodeFloat64 F b) ∧
    SafeN b.length (decodeBin64 b) ∧ SafeN b.length (decodeBin128 b) ∧ SafeN b.length (decodeBin256 b) ∧
    SafeN b.length (decodeBytes b) ∧ SafeN b.length (decodeString b) ∧ SafeN b.length (decodeStruct b) ∧
    SafeN b.length (decodeListTable b) ∧ SafeN b.length (decodeMessageTable b) ∧
    SafeN b.length (decodeTypeSize b) :=
  ⟨decodeBool_safe b, decodeByte_safe b, decodeInt16_safe b, decodeInt32_safe b, decodeInt64_safe b,
   decodeUint16_safe b, decodeUint32_safe b, decodeUint64_safe b, decodeFloat32_safe F b,
   decodeFloat64_safe F b, decodeBin_safe _ _ b, decodeBin_safe _ _ b, decodeBin_safe _ _ b,
   decodeBytes_safe b, decodeString_safe b, decodeStruct_safe b, decodeTable_safe _ _ _ _ b,
   decodeTable_safe _ _ _ _ b, decodeTypeSize_safe b⟩

/-- OpenValue: never panics; the value returned is a suffix of the input -/
theorem openValue_safe (b : Bytes) : ∃ v, openValue b = .ok v ∧ v.length ≤ b.length ∧ v <:+ b := by
  have hs := decodeTypeSize_safe b
  unfold openValue
  cases hd : decodeTypeSize b with
  | ok a =>
    obtain ⟨t, n⟩ := a
    rw [hd] at hs; simp at hs
    simp only
    have : ¬ b.length < n := by omega
    simp only [this, ↓reduceIte, suffix_ok b n hs]
    exact ⟨_, rfl, by simp [Nat.min_le_right], by unfold lastN; exact List.drop_suffix _ _⟩
  | err e n => exact ⟨[], rfl, by simp, List.nil_suffix⟩
  | panic => rw [hd] at hs; simp at hs

/-- ParseValue / ParseList / ParseMessage: never panic, terminate (fuel `2|b|+2` suffices for every
input, whatever its nesting), report `n ≤ |b|` with a value or an error -/
theorem parseValue_safe (F : FloatOps) (b : Bytes) : SafeP b.length (parseValue F (2 * b.length + 2) b) :=
  SpecVerif.parseValue_safe F _ b (by omega)

theorem parseList_safe (F : FloatOps) (b : Bytes) : SafeP b.length (parseList F (2 * b.length + 2) b) :=
  parseList_step F _ (fun b1 h1 => SpecVerif.parseValue_safe F _ b1 h1) b (by omega)

theorem parseMessage_safe (F : FloatOps) (b : Bytes) : SafeP b.length (parseMessage F (2 * b.length + 2) b) :=
  parseMessage_step F _ (fun b1 h1 => SpecVerif.parseValue_safe F _ b1 h1) b (by omega)

/-- List accessors on a list opened from arbitrary bytes -/
theorem list_accessors_safe (b : Bytes) :
    (∃ e, openListErr b = .err e 0) ∨
    (∃ l, openListErr b = .ok l ∧ l.bytes.length ≤ b.length ∧
      ∀ i, i < l.len → ∃ v, l.getBytes i = .ok v ∧ v.length < l.bytes.length) := by
  rcases openListErr_spec b with ⟨l, h, wf, hl⟩ | h
  · right
    refine ⟨l, h, hl, fun i hi => ?_⟩
    obtain ⟨v, hv, hlen⟩ := getBytes_ok l wf i hi
    exact ⟨v, hv, by omega⟩
  · left; exact h

/-- Message accessors (by tag — the unsafe binary search — and by index) on a message opened from
arbitrary bytes -/
theorem message_accessors_safe (b : Bytes) :
    (∃ e, openMessageErr b = .err e 0) ∨
    (∃ m, openMessageErr b = .ok m ∧ m.bytes.length ≤ b.length ∧
      (∀ tag, (∃ v, m.fieldRaw tag = .ok v ∧ v.length ≤ m.bytes.length) ∧ (∃ r, m.hasField tag = .ok r) ∧
              (∃ v, m.field tag = .ok v ∧ v.length ≤ m.bytes.length)) ∧
      (∀ i, (∃ v, m.fieldAtRaw i = .ok v ∧ v.length ≤ m.bytes.length) ∧ (∃ r, m.tagAt i = .ok r) ∧
            (∃ v, m.fieldAt i = .ok v ∧ v.length ≤ m.bytes.length))) := by
  rcases openMessageErr_spec b with ⟨m, h, wf, hl⟩ | h
  · right
    refine ⟨m, h, hl, fun tag => ?_, fun i => ?_⟩
    · obtain ⟨v, hv, hlen⟩ := fieldRaw_ok m wf tag
      refine ⟨⟨v, hv, by omega⟩, hasField_ok m tag, ?_⟩
      unfold MsgV.field
      simp only [hv, bind, Res.bind]
      by_cases c : v.length = 0
      · simp [c, pure]
      · simp only [c, ↓reduceIte]
        obtain ⟨o, ho, hol, _⟩ := openValue_safe v
        exact ⟨o, ho, by omega⟩
    · obtain ⟨v, hv, hlen⟩ := fieldAtRaw_ok m wf i
      refine ⟨⟨v, hv, by omega⟩, tagAt_ok m wf i, ?_⟩
      unfold MsgV.fieldAt
      simp only [hv, bind, Res.bind]
      by_cases c : v.length = 0
      · simp [c, pure]
      · simp only [c, ↓reduceIte]
        obtain ⟨o, ho, hol, _⟩ := openValue_safe v
        exact ⟨o, ho, by omega⟩
  · left; exact h

/-! ### the struct decoder the generator emits

`dataSize, size, err := DecodeStruct(b); b = b[len(b)-size:]; off := len(b) - (size - dataSize);`
then for each field, last to first: `v, n, err = decodeK(b[:off]); off -= n`.  `decs` are the field
decoders (any decoders that are `SafeN` on every input). -/

def genStructFields (decs : List (Bytes → Res Nat)) (b : Bytes) (off : Nat) : Res Unit :=
  match decs with
  | [] => .ok ()
  | d :: ds =>
    if off > b.length then .panic else
    match d (b.take off) with
    | .ok n => if n > off then .panic else genStructFields ds b (off - n)
    | .err e n => .err e n
    | .panic => .panic

def genStructDecode (decs : List (Bytes → Res Nat)) (b : Bytes) : Res Nat :=
  match decodeStruct b with
  | .err e n => .err e n
  | .panic => .panic
  | .ok (dataSize, size) =>
    if size = 0 then .ok 0 else
    if size > b.length then .panic else
    let b' := lastN size b
    let n := size - dataSize
    if n > b'.length then .panic else
    match genStructFields decs b' (b'.length - n) with
    | .ok () => .ok size
    | .err e k => .err e k
    | .panic => .panic

theorem genStructFields_safe (decs : List (Bytes → Res Nat))
    (hd : ∀ d ∈ decs, ∀ x : Bytes, SafeP x.length (d x)) (b : Bytes) :
    ∀ off, off ≤ b.length → genStructFields decs b off ≠ .panic := by
  induction decs with
  | nil => intro off _; simp [genStructFields]
  | cons d ds ih =>
    intro off hoff
    unfold genStructFields
    have h1 : ¬ off > b.length := by omega
    simp only [h1, ↓reduceIte]
    have hs := hd d (by simp) (b.take off)
    cases hx : d (b.take off) with
    | ok n =>
      rw [hx] at hs; simp at hs
      have : ¬ n > off := by omega
      simp only [this, ↓reduceIte]
      exact ih (fun d' hd' => hd d' (by simp [hd'])) (off - n) (by omega)
    | err e n => simp
    | panic => rw [hx] at hs; simp at hs

/-- the generated struct decoder never panics, for any field list -/
theorem genStructDecode_safe (decs : List (Bytes → Res Nat))
    (hd : ∀ d ∈ decs, ∀ x : Bytes, SafeP x.length (d x)) (b : Bytes) :
    genStructDecode decs b ≠ .panic := by
  have hs := decodeStruct_safe b
  unfold genStructDecode
  cases hx : decodeStruct b with
  | ok a =>
    obtain ⟨ds, size⟩ := a
    rw [hx] at hs; simp at hs
    simp only
    by_cases c0 : size = 0
    · simp [c0]
    · have c1 : ¬ size > b.length := by omega
      simp only [c0, c1, ↓reduceIte]
      have hl : (lastN size b).length = size := by simp; omega
      have c2 : ¬ (size - ds > (lastN size b).length) := by omega
      simp only [c2, ↓reduceIte]
      have := genStructFields_safe decs hd (lastN size b) ((lastN size b).length - (size - ds)) (by omega)
      cases hg : genStructFields decs (lastN size b) ((lastN size b).length - (size - ds)) with
      | ok u => simp
      | err e k => simp
      | panic => exact absurd hg this
  | err e n => simp
  | panic => rw [hx] at hs; simp at hs

/-! ### non-vacuity: the inputs that crashed the unrepaired code are handled -/
example : decodeString [0x00, 60] = .err .data 0 := by decide
example : decodeStruct [200, 90] = .err .data 0 := by decide

end SpecVerif.C02
