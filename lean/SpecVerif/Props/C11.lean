/-
C11 — Server serves only negotiated connections and survives hostile peers.

 * `handlers_only_if_negotiated`: for every protocol line, every first frame and every frame
   sequence, a handler runs only if the line was the protocol line, the first frame was a connect
   request and it offered version 10 (`Mpx/Handshake.lean`, the repaired handshake: a refusal ends
   the connection — tied to the source by the regenerated event sequence of handshakeAsServer,
   whose refusal branch must return an error, `refusal_returns_error`).
 * `dispatch_total`: every parsed message is answered with OK or a connection error (no third
   outcome exists; nested batches, duplicate ids and unknown codes are connection errors, frames for
   unknown channels are dropped with OK); parsing itself never panics on any bytes (C02).
 * confinement: the dispatch state is per connection (`Conn`), no step of one connection reads or
   writes another one's state; shared pools are C18.
`unrepaired_refusal_served`: on the pinned code the refusal path returned the OK status of the
write, `run()` started the loops and an open frame got a handler.
-/
import SpecVerif.Mpx.Handshake
import SpecVerif.PinnedMpx
import SpecVerif.Mpx.Frame
namespace SpecVerif.C11
open SpecVerif.Mpx.Handshake

theorem serve_iff (line : String) (first : First) (lz4 : Bool) :
    serverHandshake line first = .serve lz4 →
      line = SpecVerif.Pinned.protocolLine ∧ ∃ vs cs, first = .request vs cs ∧ version10 ∈ vs := by
  unfold serverHandshake
  split
  · intro h; cases h
  · rename_i hl
    cases first with
    | request vs cs =>
      simp only
      split
      · rename_i hv
        intro _
        exact ⟨by simpa using hl, vs, cs, rfl, hv⟩
      · intro h; cases h
    | otherMessage => intro h; cases h
    | garbage => intro h; cases h

/-- a handler runs only on a connection whose handshake completed with the protocol line and a
mutually supported version -/
theorem handlers_only_if_negotiated (line : String) (first : First) (frames : List Msg)
    (h : (connection line first frames).handlers > 0) :
    line = SpecVerif.Pinned.protocolLine ∧ ∃ vs cs, first = .request vs cs ∧ version10 ∈ vs := by
  unfold connection at h
  cases hs : serverHandshake line first with
  | serve lz4 => exact serve_iff line first lz4 hs
  | refuse => rw [hs] at h; simp at h
  | fail => rw [hs] at h; simp at h

/-- a refused connection (no supported version) is closed without any handler, whatever the peer
sends afterwards -/
theorem refused_never_served (vs cs : List Nat) (hv : version10 ∉ vs) (frames : List Msg) :
    (connection SpecVerif.Pinned.protocolLine (.request vs cs) frames).handlers = 0 := by
  unfold connection serverHandshake
  simp [hv]

/-- anything else first (garbage, another message, wrong line) → no handler -/
theorem unnegotiated_never_served (line : String) (first : First) (frames : List Msg)
    (h : line ≠ SpecVerif.Pinned.protocolLine ∨ first = .otherMessage ∨ first = .garbage) :
    (connection line first frames).handlers = 0 := by
  unfold connection serverHandshake
  rcases h with h | h | h
  · simp [h]
  · subst h; by_cases hl : line = SpecVerif.Pinned.protocolLine <;> simp [hl]
  · subst h; by_cases hl : line = SpecVerif.Pinned.protocolLine <;> simp [hl]

set_option maxRecDepth 100000 in
/-- the source's refusal branch ends with an error return (regenerated event sequence): the write
status is returned only when the write failed, then `mpxErrorf(...)` -/
theorem refusal_returns_error :
    ["if !ok", "call pmpx.BuildConnectError(\"unsupported protocol versions\")", "if err != nil",
     "return mpxError(err)", "if !st.OK()",
     "call c.writer.writeAndFlush(resp)", "return st",
     "return mpxErrorf(\"client requested unsupported protocol versions\")"] <:+:
      SpecVerif.PinnedMpx.ev_conn_handshakeAsServer ∧
    SpecVerif.PinnedMpx.ev_conn_handshakeAsServer.getLast? = some "return status.OK" ∧
    "call c.handshaked.Set()" ∈ SpecVerif.PinnedMpx.ev_conn_handshakeAsServer := by
  refine ⟨?_, by decide, by decide⟩
  decide

/-- dispatch is total: OK or connection error, for every message (nested batches included) -/
theorem dispatch_total (c : Conn) (b : Bool) (m : Msg) :
    (dispatch c b m).2 = .ok ∨ (dispatch c b m).2 = .connError := by
  cases h : (dispatch c b m).2 <;> simp

/-- frames for unknown channels are dropped silently -/
theorem unknown_channel_dropped (c : Conn) (id : Nat) (h : id ∉ c.channels) :
    (dispatch c false (.data id)).2 = .ok ∧ (dispatch c false (.window id)).2 = .ok ∧
    (dispatch c false (.close id)).2 = .ok ∧ (dispatch c false (.data id)).1.handlers = c.handlers := by
  simp [dispatch, h]

/-- a duplicate channel id, a nested batch and an unexpected code are connection errors and start no
handler -/
theorem hostile_frames_confined (c : Conn) (id : Nat) (h : id ∈ c.channels) (ms : List Msg) :
    (dispatch c false (.open_ id)) = (c, .connError) ∧ (dispatch c true (.batch ms)) = (c, .connError) ∧
    (dispatch c false .unknown) = (c, .connError) := by
  simp [dispatch, h]

/-- the pinned handshake: the refusal path returned the OK status of the write and was served -/
def unrepairedHandshake (line : String) (first : First) : Outcome :=
  if line ≠ SpecVerif.Pinned.protocolLine then .fail else
  match first with
  | .request vs cs => .serve (decide (compLz4 ∈ cs))   -- also when no version matched
  | _ => .fail

theorem unrepaired_refusal_served :
    unrepairedHandshake SpecVerif.Pinned.protocolLine (.request [] []) = .serve false ∧
    (serveFrames ⟨[], 0, 0⟩ [.open_ 7]).handlers = 1 := by decide

/-! ### the protocol line is read with a bound (F25) -/

/-- readLine never consumes more than `max` bytes, whatever the peer sends -/
theorem line_bounded (max : Nat) (s l : List UInt8) (h : takeLine max s = some l) :
    l.length ≤ max ∧ l = s.take l.length := by
  induction max generalizing s l with
  | zero => simp [takeLine] at h; subst h; simp
  | succ n ih =>
    cases s with
    | nil => simp [takeLine] at h
    | cons c s =>
      simp only [takeLine] at h
      split at h
      · cases h; simp
      · cases hr : takeLine n s with
        | none => simp [hr] at h
        | some l' =>
          simp [hr] at h; subst h
          have := ih s l' hr
          simp only [List.length_cons, List.take_succ_cons]
          exact ⟨by omega, by rw [← this.2]⟩

/-- a peer whose first bytes are a line without an inner line feed (the protocol line is one) gets
exactly that line back, whatever follows it -/
theorem line_accepts (pl rest : List UInt8) (h : ∀ c ∈ pl, c ≠ 10) :
    takeLine (pl.length + 1) (pl ++ 10 :: rest) = some (pl ++ [10]) := by
  induction pl with
  | nil => simp [takeLine]
  | cons c pl ih =>
    have hc : c ≠ 10 := h c (by simp)
    simp only [List.length_cons, List.cons_append, takeLine, if_neg hc]
    rw [ih (fun x hx => h x (by simp [hx]))]
    rfl

/-- once `max` bytes have arrived the line check is decided: the peer cannot keep the server
waiting for a terminator (with `line_bounded`: after at most len(ProtocolLine) bytes) -/
theorem line_decided (max : Nat) (s : List UInt8) (hs : max ≤ s.length) : ∃ l, takeLine max s = some l := by
  induction max generalizing s with
  | zero => exact ⟨[], rfl⟩
  | succ n ih =>
    cases s with
    | nil => simp at hs
    | cons c s =>
      simp only [takeLine]
      split
      · exact ⟨_, rfl⟩
      · obtain ⟨l, hl⟩ := ih s (by simpa using hs)
        exact ⟨c :: l, by simp [hl]⟩

/-! ### oversized frames: the announced size alone allocates nothing beyond one chunk (F24) -/
open SpecVerif.Mpx.Frame in
/-- chunked reading returns exactly the announced bytes: same result as one ReadFull of `rem` bytes -/
theorem chunked_read_same (c : Nat) (hc : 0 < c) (fuel rem : Nat) (s : Bytes) (hf : rem ≤ fuel)
    (hs : rem ≤ s.length) : readChunks c fuel rem s = some (s.take rem, s.drop rem) := by
  induction fuel generalizing rem s with
  | zero =>
    have : rem = 0 := by omega
    subst this; simp [readChunks]
  | succ fuel ih =>
    cases rem with
    | zero => simp [readChunks]
    | succ rem =>
      simp only [readChunks]
      have hn : min (rem + 1) c ≤ rem + 1 := Nat.min_le_left _ _
      have hn0 : 0 < min (rem + 1) c := by omega
      have h1 : ¬ s.length < min (rem + 1) c := by omega
      rw [if_neg h1]
      rw [ih (rem + 1 - min (rem + 1) c) (s.drop (min (rem + 1) c)) (by omega) (by simp; omega)]
      generalize min (rem + 1) c = n at *
      have e : rem + 1 = n + (rem + 1 - n) := by omega
      have t : s.take (rem + 1) = s.take n ++ (s.drop n).take (rem + 1 - n) := by
        conv => lhs; rw [e]
        exact List.take_add
      have d : s.drop (rem + 1) = (s.drop n).drop (rem + 1 - n) := by
        rw [List.drop_drop]
        congr 1
      rw [t, d]

open SpecVerif.Mpx.Frame in
/-- a truncated frame is never a message, however it is chunked -/
theorem chunked_read_short (c : Nat) (_hc : 0 < c) (fuel rem : Nat) (s : Bytes) (hs : s.length < rem) :
    readChunks c fuel rem s = none := by
  induction fuel generalizing rem s with
  | zero => cases rem with
    | zero => omega
    | succ rem => simp [readChunks]
  | succ fuel ih =>
    cases rem with
    | zero => omega
    | succ rem =>
      simp only [readChunks]
      split
      · rfl
      · rename_i h1
        have hn : min (rem + 1) c ≤ rem + 1 := Nat.min_le_left _ _
        rw [ih (rem + 1 - min (rem + 1) c) (s.drop (min (rem + 1) c)) (by simp; omega)]

open SpecVerif.Mpx.Frame in
/-- whatever size a peer announces, the reader never holds more than one chunk beyond the bytes
the peer actually delivered -/
theorem alloc_bounded (c fuel rem avail : Nat) : allocated c fuel rem avail ≤ avail + c := by
  induction fuel generalizing rem avail with
  | zero => cases rem <;> simp [allocated]
  | succ fuel ih =>
    cases rem with
    | zero => simp [allocated]
    | succ rem =>
      simp only [allocated]
      have hn : min (rem + 1) c ≤ c := Nat.min_le_right _ _
      split
      · omega
      · have := ih (rem + 1 - min (rem + 1) c) (avail - min (rem + 1) c)
        omega

open SpecVerif.Mpx.Frame in
/-- the unrepaired reader allocated the announced size: 4 bytes from the peer, 4 GiB on the server -/
example : allocated (2 ^ 32) 1 (2 ^ 32 - 1) 0 = 2 ^ 32 - 1 ∧ allocated (2 ^ 20) (2 ^ 32) (2 ^ 32 - 1) 0 = 2 ^ 20 := by
  constructor <;> simp [allocated]

end SpecVerif.C11
